import OcppModel.DriverContainers
import OcppModel.DriverDateTime
import OcppModel.DriverDisp
import OcppModel.DriverOcppJ
import OcppModel.DriverWs
import OcppModel.DriverCodec
import OcppModel.DriverFine
import OcppModel.DriverSFine

/-! Line-protocol oracle: `driver <suite>` reads one operation per line on stdin and prints the model's
    observable output for each. -/

def splitWsAux : List Char → List Char → List String → List String
  | [], cur, acc => (if cur.isEmpty then acc else (String.ofList cur.reverse) :: acc).reverse
  | c :: cs, cur, acc =>
    if c == ' ' || c == '\t' || c == '\n' || c == '\r' then
      splitWsAux cs [] (if cur.isEmpty then acc else (String.ofList cur.reverse) :: acc)
    else splitWsAux cs (c :: cur) acc

def splitWs (line : String) : List String := splitWsAux line.toList [] []

partial def loopContainers (h : IO.FS.Stream) (out : IO.FS.Stream) (st : Ocpp.Drv.CSt) : IO Unit := do
  let line ← h.getLine
  if line.isEmpty then return ()
  let (st', o) := Ocpp.Drv.stepContainers st (splitWs line)
  out.putStrLn o
  loopContainers h out st'

partial def loopCDisp (h : IO.FS.Stream) (out : IO.FS.Stream) (st : Ocpp.CD.St) : IO Unit := do
  let line ← h.getLine
  if line.isEmpty then return ()
  let (st', o) := Ocpp.Drv.stepCDisp st (splitWs line)
  out.putStrLn o
  loopCDisp h out st'

partial def loopSDisp (h : IO.FS.Stream) (out : IO.FS.Stream) (st : Ocpp.SD.St) : IO Unit := do
  let line ← h.getLine
  if line.isEmpty then return ()
  let (st', o) := Ocpp.Drv.stepSDisp st (splitWs line)
  out.putStrLn o
  loopSDisp h out st'

partial def loopGen {σ : Type} (h : IO.FS.Stream) (out : IO.FS.Stream) (f : σ → List String → σ × String) (st : σ) : IO Unit := do
  let line ← h.getLine
  if line.isEmpty then return ()
  let (st', o) := f st (splitWs line)
  out.putStrLn o
  loopGen h out f st'

partial def loopPure (h : IO.FS.Stream) (out : IO.FS.Stream) (f : List String → String) : IO Unit := do
  let line ← h.getLine
  if line.isEmpty then return ()
  out.putStrLn (f (splitWs line))
  loopPure h out f

def main (args : List String) : IO UInt32 := do
  let stdin ← IO.getStdin
  let stdout ← IO.getStdout
  match args with
  | ["containers"] => loopContainers stdin stdout {}; pure 0
  | ["cdisp"] => loopCDisp stdin stdout (Ocpp.CD.init 0); pure 0
  | ["sdisp"] => loopSDisp stdin stdout (Ocpp.SD.init 0); pure 0
  | ["l3s"] => loopGen stdin stdout Ocpp.Drv.stepL3S {}; pure 0
  | ["l3c"] => loopGen stdin stdout Ocpp.Drv.stepL3C {}; pure 0
  | ["cfine"] => loopGen stdin stdout Ocpp.Drv.stepFine none; pure 0
  | ["sfine"] => loopGen stdin stdout Ocpp.DrvS.stepSFine none; pure 0
  | ["cdmon"] => loopGen stdin stdout Ocpp.Drv.stepCMon (some {}); pure 0
  | ["sdmon"] => loopGen stdin stdout Ocpp.Drv.stepSMon (some {}); pure 0
  | ["c03"] => loopPure stdin stdout Ocpp.Drv.stepC03; pure 0
  | ["c06"] => loopPure stdin stdout Ocpp.Drv.stepC06; pure 0
  | ["wsadmit"] => loopPure stdin stdout Ocpp.Drv.stepWsAdmit; pure 0
  | ["wssrv"] => loopGen stdin stdout Ocpp.Drv.stepWsSrv {}; pure 0
  | ["wsio"] => loopGen stdin stdout Ocpp.Drv.stepWsIO {}; pure 0
  | ["wscli"] => loopGen stdin stdout Ocpp.Drv.stepWsCli {}; pure 0
  | ["wska"] => loopPure stdin stdout Ocpp.Drv.stepWsKa; pure 0
  | ["codec"] => loopPure stdin stdout Ocpp.Drv.stepCodecAny; pure 0
  | ["datetime"] => loopPure stdin stdout Ocpp.Drv.stepDateTime; pure 0
  | _ => IO.eprintln "usage: driver <suite>"; pure 2
