/-!
# Finite-table checkers with their logical meaning

The registries of C18/C03 are finite tables regenerated from the source (names interned to `Nat`). Each
property is decided by a Boolean checker evaluated by the kernel on the whole table and lifted to the
quantified statement by the `*_spec` lemmas below.
-/
namespace Ocpp.Tbl

def subset (a b : List Nat) : Bool := a.all (fun x => b.contains x)
def sameSet (a b : List Nat) : Bool := subset a b && subset b a
def functional (l : List (Nat × Nat)) : Bool := l.all (fun p => l.all (fun q => p.1 != q.1 || p.2 == q.2))
def lookup (l : List (Nat × Nat)) (k : Nat) : Option Nat := (l.find? (fun p => p.1 == k)).map (·.2)
def lookupL (l : List (Nat × List Nat)) (k : Nat) : Option (List Nat) := (l.find? (fun p => p.1 == k)).map (·.2)

theorem subset_spec (a b : List Nat) : subset a b = true ↔ ∀ x, x ∈ a → x ∈ b := by
  simp [subset, List.all_eq_true]

theorem sameSet_spec (a b : List Nat) : sameSet a b = true ↔ ∀ x, x ∈ a ↔ x ∈ b := by
  simp only [sameSet, Bool.and_eq_true, subset_spec]
  constructor
  · intro ⟨h1, h2⟩ x; exact ⟨h1 x, h2 x⟩
  · intro h; exact ⟨fun x => (h x).mp, fun x => (h x).mpr⟩

theorem functional_spec (l : List (Nat × Nat)) :
    functional l = true ↔ ∀ k v w, (k, v) ∈ l → (k, w) ∈ l → v = w := by
  simp only [functional, List.all_eq_true]
  constructor
  · intro h k v w h1 h2
    have := h (k, v) h1 (k, w) h2
    simpa using this
  · intro h p hp q hq
    by_cases e : p.1 = q.1
    · have := h p.1 p.2 q.2 (by simpa using hp) (by rw [e]; simpa using hq)
      simp [this]
    · simp [e]

end Ocpp.Tbl
