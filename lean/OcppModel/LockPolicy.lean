import OcppGen.Locks

/-!
# The lock policy of the library's shared structures and its check over the regenerated access table (T4)

`policy ty field` says how a field is protected; `chk` decides for the whole table that every access obeys it.
Functions that run before the object is shared (constructors, documented before-Start configuration) are exempt;
helpers documented as "caller holds the lock" are checked at their call sites instead (`callerHolds`).
-/
namespace Ocpp.LockPolicy
open Gen.Locks

inductive Policy where
  | lock (name : String)       -- reads (and channel sends / receives through it) need the lock in R or W mode, writes and close need W
  | chanLock (name : String)   -- a channel that is never reassigned while shared: send needs ≥ R (excludes close), close and reassignment need W, receive is free
  | chanFree                   -- a channel that is never reassigned after construction: channel operations synchronise themselves
  | frozen                     -- never written outside exempt functions
  | free (why : String)        -- deliberately not checked (reason)
deriving Repr, DecidableEq

/-- before the object is shared: constructors and configuration that the documentation requires before Start -/
def exemptFn (fn : String) : Bool :=
  fn.startsWith "Set" || fn.startsWith "New" || fn.startsWith "new" ||
  ["AddOption", "AddSupportedSubprotocol", "AddHttpHandler", "AddProfile", "updateConfig", "initPingPong", "Errors"].contains fn

/-- helpers whose callers hold the lock: (type, function, lock, write mode needed) -/
def callerHolds : List (String × String × String × Bool) :=
  [("ocppj.serverState", "getOrCreateState", "mutex", true)]

def policy (ty field : String) : Policy :=
  match ty, field with
  | "ocppj.FIFOClientQueue", "elements" => .lock "mutex"
  | "ocppj.FIFOQueueMap", "data" => .lock "mutex"
  | "ocppj.clientState", "requestID" => .lock "mutex"
  | "ocppj.clientState", "pendingRequest" => .lock "mutex"
  | "ocppj.serverState", "pendingRequestState" => .lock "mutex"
  | "callbackqueue.CallbackQueue", "callbacks" => .lock "callbacksMutex"
  | "ws.webSocket", "connection" => .lock "mutex"
  | "ws.webSocket", "outQueue" => .chanLock "mutex"
  | "ws.webSocket", "pingC" => .chanLock "mutex"
  | "ws.webSocket", "closeC" => .chanLock "mutex"
  | "ws.webSocket", "forceCloseC" => .chanLock "mutex"
  | "ws.webSocket", "closing" => .chanFree
  | "ws.server", "connections" => .lock "connMutex"
  | "ws.server", "closing" => .lock "connMutex"
  | "ocppj.DefaultClientDispatcher", "paused" => .lock "mutex"
  | "ocppj.DefaultClientDispatcher", "timerDeadline" => .lock "timerMutex"
  | "ocppj.DefaultClientDispatcher", "requestChannel" => .chanLock "mutex"
  | "ocppj.DefaultClientDispatcher", "stoppedC" => .chanLock "mutex"
  | "ocppj.DefaultClientDispatcher", "pumpDone" => .lock "mutex"
  | "ocppj.DefaultServerDispatcher", "requestChannel" => .chanLock "mutex"
  | "ocppj.DefaultServerDispatcher", "running" => .lock "mutex"
  | "ocppj.DefaultServerDispatcher", "stoppedC" => .chanLock "mutex"
  | "ocppj.DefaultServerDispatcher", "timerC" => .chanLock "mutex"
  | "ocppj.DefaultClientDispatcher", "timer" => .free "replaced by Start only, before the pump goroutine is started (go statement orders it); time.Timer methods are safe for concurrent use"
  | "ws.client", "webSocket" => .lock "mutex"
  | "ws.client", "reconnectC" => .chanFree
  | "ws.client", "errC" => .lock "errMutex"
  | "ws.client", "url" => .free "written by connect, read by the reconnection routine that runs after it on the same socket's goroutines"
  | "ws.server", "errC" => .free "unsynchronised by design of Errors()/Stop(): known finding C19 race:ws.server.errC"
  | "ws.server", "addr" => .free "Addr() is not synchronised with Start (documented use: after Start returned its listener)"
  | "ws.server", "httpServer" => .free "Start / Stop of the http server: net/http synchronises internally"
  | _, "<self>" => .free "call of another method of the receiver: judged by callerHolds"
  | _, _ => .frozen

/-- accesses that break the policy but are accepted with a reason (each is either ordered by goroutine creation or a
    listed known finding) -/
def accepted : List (String × String × String × String) :=
  [("ws.webSocket", "connection", "writePump", "r"),        -- read once when the pump starts; cleanup runs on this goroutine
   ("ws.webSocket", "connection", "onPong", "r"),           -- unsynchronised read racing cleanup: known finding C19 race:onPong
   ("ws.webSocket", "connection", "RemoteAddr", "call:RemoteAddr"),  -- same, application-side: known finding C19 race:RemoteAddr
   ("ws.client", "reconnectC", "connect", "w"),             -- `if c.reconnectC == nil`: never true for a client built by NewClient
   ("ocppj.DefaultServerDispatcher", "stoppedC", "messagePump", "recv"),
   ("ocppj.DefaultServerDispatcher", "timerC", "messagePump", "recv")]

def hasLock (r : Row) (name : String) (needWrite : Bool) : Bool :=
  r.locks.contains (name ++ ":W") || (!needWrite && r.locks.contains (name ++ ":R"))

def isWrite (k : String) : Bool := k == "w" || k == "close"

def rowOk (r : Row) : Bool :=
  if exemptFn r.fn then true
  else if callerHolds.any (fun c => c.1 == r.ty && c.2.1 == r.fn) then true
  else if accepted.contains (r.ty, r.field, r.fn, r.kind) then true
  else match policy r.ty r.field with
    | .free _ => true
    | .frozen => !isWrite r.kind
    | .chanFree => r.kind != "w"
    | .lock name => hasLock r name (isWrite r.kind)
    | .chanLock name =>
      if r.kind == "recv" then true
      else hasLock r name (isWrite r.kind)

/-- every call site of a caller-holds helper holds the lock in the required mode -/
def callSitesOk : Bool :=
  callerHolds.all (fun c =>
    (rows.filter (fun r => r.ty == c.1 && r.kind == "self:" ++ c.2.1)).all (fun r => hasLock r c.2.2.1 c.2.2.2))

def chk : Bool := rows.all rowOk && callSitesOk

def failing : List Row := rows.filter (fun r => !rowOk r)

end Ocpp.LockPolicy
