import OcppModel.ClientDisp

/-!
# The specification of a request dispatcher on one connection, as a monitor over observable behaviour

`Mon` is the abstract state a user has in mind: the requests the send API accepted that are not yet on the
wire (`waiting`, oldest first), the single request that is on the wire and not yet concluded (`out`), and
whether the connection is down (`paused`). `Mon.obs` says which observable effects are *allowed* in which
abstract state; `none` means "the property is violated". The clauses are the properties:

* C02: a CALL is written only when nothing is outstanding, it is the oldest waiting one (acceptance order,
  hence written at most once);
* C10: nothing is written while the connection is down;
* C01/C09: a response / error handler fires only for the outstanding request (never for a foreign id), at
  most once; a rejected request is never written or concluded;
* C08: a time-out is reported only while time elapses (`inWait`), only for the outstanding request, and not
  while paused; a write-failure cancellation only hits the oldest waiting request;
* C06/C07 (at quiescence): no panic, no goroutine wedged.
-/

namespace Ocpp.CD

structure Mon where
  paused  : Bool := false
  waiting : List String := []
  out     : Option String := none
deriving Repr, DecidableEq

def Mon.obs (inWait : Bool) (m : Mon) : Obs → Option Mon
  | .accepted id => some { m with waiting := m.waiting ++ [id] }
  | .rejected _ => some m
  | .wrote id =>
    if m.out = none ∧ m.paused = false ∧ m.waiting.head? = some id
    then some { m with out := some id, waiting := m.waiting.tail } else none
  | .resp id => if m.out = some id then some { m with out := none } else none
  | .errResp id => if m.out = some id then some { m with out := none } else none
  | .cancel id true =>
    if m.out = some id ∧ inWait = true ∧ m.paused = false then some { m with out := none } else none
  | .cancel id false =>
    -- a write failure: only the oldest waiting request, only when nothing is outstanding, and never while the
    -- connection is down (C10: what is enqueued while disconnected is retained, not attempted)
    if m.out = none ∧ m.paused = false ∧ m.waiting.head? = some id then some { m with waiting := m.waiting.tail } else none
  | .stopped => some { m with out := none, waiting := [] }
  | .panic => none
  | .blocked => none
  | .dead => none

def Mon.obsList (inWait : Bool) : Mon → List Obs → Option Mon
  | m, [] => some m
  | m, o :: os => match Mon.obs inWait m o with
    | none => none
    | some m' => Mon.obsList inWait m' os

/-- one environment event together with everything the endpoint did in response (safety clauses) -/
def Mon.eventCore (m : Mon) (e : Ev) (obs : List Obs) : Option Mon :=
  let m0 : Mon := match e with
    | .disconnect => { m with paused := true }
    | .reconnect => { m with paused := false }
    | .start => { m with paused := false }
    | _ => m
  Mon.obsList (decide (e = .wait)) m0 obs

/-- progress at quiescence (C07, C01 "eventually"): once the endpoint has gone idle after an event, an accepted
    request is not left waiting with nothing outstanding unless the connection is down -/
def Mon.quiet (m : Mon) : Bool := m.paused || m.out.isSome || m.waiting.isEmpty

/-- safety clauses during the event, progress clause at its end -/
def Mon.event (m : Mon) (e : Ev) (obs : List Obs) : Option Mon :=
  match Mon.eventCore m e obs with
  | some m' => if m'.quiet then some m' else none
  | none => none

/-- the whole history of an endpoint satisfies the specification -/
def Mon.accepts : Mon → List (Ev × List Obs) → Bool
  | _, [] => true
  | m, (e, obs) :: rest => match Mon.event m e obs with
    | none => false
    | some m' => Mon.accepts m' rest

/-- the event-by-event history of a run of the model -/
def history (s : St) : List Ev → List (Ev × List Obs)
  | [] => []
  | e :: es => (e, (step s e).2) :: history (step s e).1 es

/-- environment assumptions: fresh non-empty request ids (A-ID), non-empty reply ids (`ParseMessage` rejects
    the empty id before the pending lookup), connection events only while started, no `Start` while running -/
def evOK (used : List String) (s : St) : Ev → Bool
  | .send id => id != "" && !used.contains id
  | .reply id _ => id != ""
  | .reconnect => s.running
  | .disconnect => s.running
  | .start => !s.running
  | _ => true

def usedAfter (used : List String) : Ev → List String
  | .send id => id :: used
  | _ => used

def wf (used : List String) (s : St) : List Ev → Bool
  | [] => true
  | e :: es => evOK used s e && wf (usedAfter used e) (step s e).1 es

end Ocpp.CD
