/-!
# `ws.webSocket`: writers, the write pump and `cleanup` — small-step interleaving model

Threads: any number of writer goroutines (each with a list of messages to `Write`), the write pump, and the
environment (a network write succeeds or fails; a close request arrives). One label = one synchronisation
operation of the Go code (`RLock`, the `connection == nil` check, the `select` on `outQueue` / `closing`, the
pump's `select`, `close(closing)`, `Lock` + the body of `cleanup`). The RWMutex is modelled as in `sync`: a
pending `Lock` blocks new readers and waits for the current ones; the readers are exactly the writer threads
between their `RLock` and the deferred `RUnlock` (states `locked`, `sending`).

`fixed := false` is the code before commit 3faee00 (no `closing` channel): kept to state the defect as a theorem.
-/
namespace Ocpp.WsSocket

inductive W where
  | todo (ms : List Nat)                 -- between calls; `[]`: every Write has returned
  | locked (m : Nat) (rest : List Nat)   -- holds RLock, before the nil check
  | sending (m : Nat) (rest : List Nat)  -- holds RLock, connection was non-nil, at the select
deriving Repr, DecidableEq

inductive Pump where
  | sel                                  -- at the select
  | writing (m : Nat)                    -- inside conn.WriteMessage
  | waitLock                             -- cleanup: closing closed, waiting for mutex.Lock
  | done                                 -- cleanup finished (channels closed, connection nil)
deriving Repr, DecidableEq

structure Sock where
  fixed    : Bool := true
  conn     : Bool := true                -- connection ≠ nil
  closing  : Bool := false               -- `closing` channel closed
  outQ     : List Nat := []              -- capacity 2
  qClosed  : Bool := false
  net      : List Nat := []              -- frames handed to the network, in order
  pump     : Pump := .sel
  ws       : List W := []
  accepted : List Nat := []              -- ghost: messages for which Write returned nil, in order
  errors   : Nat := 0                    -- ghost: Writes that returned an error
  panic    : Bool := false               -- a send on a closed channel happened
deriving Repr, DecidableEq

inductive Label where
  | rlock (i : Nat) | check (i : Nat) | send (i : Nat) | abort (i : Nat)
  | take | writeOk | writeFail | closeReq | lock
deriving Repr, DecidableEq

def isTodo : W → Bool
  | .todo _ => true
  | _ => false

/-- nobody holds the read lock -/
def noReaders (ws : List W) : Bool := ws.all isTodo

def setW (s : Sock) (i : Nat) (w : W) : Sock := { s with ws := s.ws.set i w }

def outCap : Nat := 2

/-- one step; `none` = the label is not enabled -/
def step (s : Sock) : Label → Option Sock
  | .rlock i =>
    match s.ws[i]? with
    | some (.todo (m :: rest)) =>
      if s.pump == .waitLock then none                            -- a pending Lock blocks new readers
      else some (setW s i (.locked m rest))
    | _ => none
  | .check i =>
    match s.ws[i]? with
    | some (.locked m rest) =>
      if s.conn then some (setW s i (.sending m rest))
      else some { setW s i (.todo rest) with errors := s.errors + 1 }
    | _ => none
  | .send i =>
    match s.ws[i]? with
    | some (.sending m rest) =>
      if s.qClosed then some { s with panic := true }             -- send on a closed channel
      else if s.outQ.length < outCap then
        some { setW s i (.todo rest) with outQ := s.outQ ++ [m], accepted := s.accepted ++ [m] }
      else none                                                   -- channel full: blocked
    | _ => none
  | .abort i =>
    match s.ws[i]? with
    | some (.sending _ rest) =>
      if s.fixed && s.closing then some { setW s i (.todo rest) with errors := s.errors + 1 }
      else none
    | _ => none
  | .take =>
    match s.pump, s.outQ with
    | .sel, m :: q => if s.qClosed then none else some { s with pump := .writing m, outQ := q }
    | _, _ => none
  | .writeOk =>
    match s.pump with
    | .writing m => some { s with pump := .sel, net := s.net ++ [m] }
    | _ => none
  | .writeFail =>
    match s.pump with
    | .writing _ => some { s with pump := .waitLock, closing := true }
    | _ => none
  | .closeReq =>
    match s.pump with
    | .sel => some { s with pump := .waitLock, closing := true }
    | _ => none
  | .lock =>
    match s.pump with
    | .waitLock => if noReaders s.ws then some { s with pump := .done, conn := false, qClosed := true } else none
    | _ => none

def runL (s : Sock) : List Label → Option Sock
  | [] => some s
  | l :: ls => match step s l with
    | none => none
    | some s' => runL s' ls

def init (fixed : Bool) (work : List (List Nat)) : Sock := { fixed := fixed, ws := work.map .todo }

/-- messages in flight inside the pump -/
def inflight (s : Sock) : List Nat :=
  match s.pump with
  | .writing m => [m]
  | _ => []

def isOpen (s : Sock) : Bool := s.pump == .sel || (match s.pump with | .writing _ => true | _ => false)

/-- all labels that could be enabled in a state with `n` writers -/
def labels (n : Nat) : List Label :=
  [.take, .writeOk, .writeFail, .closeReq, .lock] ++
  (List.range n).flatMap (fun i => [.rlock i, .check i, .send i, .abort i])

def stuck (s : Sock) : Bool := (labels s.ws.length).all (fun l => (step s l).isNone)

def allReturned (s : Sock) : Bool := s.ws.all (fun w => w == .todo [])

end Ocpp.WsSocket
