import OcppModel.ServerDisp
import OcppModel.DispSpec

/-!
# Specification monitor for a server endpoint: one dispatcher specification per client session

Per client id the abstract state is the same as for a client endpoint (`waiting`, `out`) plus whether a
session is live. Effects that name client `c` are judged against — and change — only `c`'s abstract state:
that is C11's isolation, built into the shape of the specification. Clauses:

* C11: a send to a client without a live session is rejected; a disconnect ends the session and nothing of it
  (waiting, outstanding) survives into a later session with the same id;
* C02/C01/C08/C09 per client, as in `Ocpp.CD.Mon`;
* no write to a client that is not connected;
* time-out liveness: after `wait` no request that was outstanding before it is still outstanding.
-/
namespace Ocpp.SD

structure CMon where
  live    : Bool := false
  waiting : List String := []
  out     : Option String := none
deriving Repr, DecidableEq

abbrev SMon := List (String × CMon)

def SMon.get (m : SMon) (c : String) : CMon :=
  match m.find? (fun p => p.1 == c) with
  | some p => p.2
  | none => {}

def SMon.set : SMon → String → CMon → SMon
  | [], c, v => [(c, v)]
  | (k, w) :: rest, c, v => if k == c then (k, v) :: rest else (k, w) :: SMon.set rest c v

def SMon.obs (inWait : Bool) (running : Bool) (m : SMon) : Obs → Option SMon
  | .accepted c id =>
    let cm := m.get c
    if cm.live ∧ running then some (m.set c { cm with waiting := cm.waiting ++ [id] }) else none
  | .rejected _ _ => some m
  | .wrote c id =>
    let cm := m.get c
    if cm.live ∧ cm.out = none ∧ cm.waiting.head? = some id
    then some (m.set c { cm with out := some id, waiting := cm.waiting.tail }) else none
  | .resp c id =>
    let cm := m.get c
    if cm.out = some id then some (m.set c { cm with out := none }) else none
  | .errResp c id =>
    let cm := m.get c
    if cm.out = some id then some (m.set c { cm with out := none }) else none
  | .cancel c id true =>
    let cm := m.get c
    if cm.out = some id ∧ inWait = true then some (m.set c { cm with out := none }) else none
  | .cancel c id false =>
    let cm := m.get c
    if cm.out = none ∧ cm.waiting.head? = some id then some (m.set c { cm with waiting := cm.waiting.tail }) else none
  | .stopped => some (m.map (fun p => (p.1, ({} : CMon))))
  | .panic => none
  | .blocked => none
  | .dead => none

def SMon.obsList (inWait running : Bool) : SMon → List Obs → Option SMon
  | m, [] => some m
  | m, o :: os => match SMon.obs inWait running m o with
    | none => none
    | some m' => SMon.obsList inWait running m' os

structure SMonSt where
  running : Bool := false
  m : SMon := []
deriving Repr

/-- one environment event with everything the server did in response; a send to a client without a live
    session must be rejected outright (first observation) -/
def SMonSt.event (ms : SMonSt) (e : Ev) (obs : List Obs) : Option SMonSt :=
  let ms0 : SMonSt := match e with
    | .connect c => { ms with m := ms.m.set c { (ms.m.get c) with live := ms.running } }
    | .disconnect c => { ms with m := ms.m.set c {} }
    | .start => { ms with running := true }
    | .stop => { ms with running := false }
    | _ => ms
  let sendOk := match e with
    | .send c id => if (ms.m.get c).live ∧ ms.running then true else obs == [Obs.rejected c id]
    | _ => true
  if !sendOk then none else
  match SMon.obsList (decide (e = .wait)) (ms.running || decide (e = .stop)) ms0.m obs with
  | none => none
  | some m' =>
    -- time-out liveness (C08, and C11: whatever happened to other clients): a request that was outstanding when more
    -- than the time-out elapsed is not outstanding any more
    let timedOut := match e with
      | .wait => !ms.running || ms0.m.all (fun p => p.2.out.isNone || (m'.get p.1).out != p.2.out)
      | _ => true
    if !timedOut then none else
    -- progress at quiescence: no live client is left with waiting requests and nothing outstanding
    if m'.all (fun p => !p.2.live || p.2.out.isSome || p.2.waiting.isEmpty) then some { ms0 with m := m' } else none

end Ocpp.SD
