/-!
# `ws.server`: the connection table and the lifecycle callbacks — quiescent semantics

One environment event at a time; the handler goroutine, the two pumps of the affected socket and the callbacks
run to quiescence (suite `wssrv`: real server on loopback, raw gorilla clients). The state is what the Go code
keeps in `server.connections` (id → socket) plus, for the harness, which raw client owns which socket.
Concurrency inside one event (bursts of connects on one id, a close racing the new-client callback) is not
expressible at this granularity: it is searched by monitor `ws_burst`.
-/
namespace Ocpp.WsServer

structure Conn where
  k    : String        -- harness handle of the raw client
  id   : String        -- client id (last path element)
  live : Bool          -- admitted and not yet ended
deriving Repr, DecidableEq

structure St where
  running : Bool := true
  conns   : List Conn := []
deriving Repr, DecidableEq

inductive Ev where
  | connect (k id : String)
  | close (k : String)            -- client-side close frame
  | drop (k : String)             -- abrupt TCP reset
  | stopConn (id : String)        -- server.StopConnection
  | swrite (id : String) (n : String)
  | cwrite (k : String) (n : String)
  | list
  | stop
deriving Repr, DecidableEq

inductive Obs where
  | admitted | refused (code : Nat) | ok | error
  | newCb (id : String) | discCb (id : String) | msgCb (id data : String)
  | delivered (k data : String)   -- a raw client received a server write
  | closeSeen (k : String) (code : Nat)
  | live (ids : List String)
  | stopped
deriving Repr, DecidableEq

def isLive (s : St) (id : String) : Bool := s.conns.any (fun c => c.live && c.id == id)

def findK (s : St) (k : String) : Option Conn := s.conns.find? (fun c => c.k == k)

def liveConn (s : St) (id : String) : Option Conn := s.conns.find? (fun c => c.live && c.id == id)

def endK (cs : List Conn) (k : String) : List Conn :=
  cs.map (fun c => if c.k == k then { c with live := false } else c)

def liveIds (s : St) : List String := (s.conns.filter (·.live)).map (·.id)

def step (s : St) (e : Ev) : St × List Obs :=
  match e with
  | .connect k id =>
    if !s.running then (s, [.error])
    else if isLive s id then
      -- duplicate: policy-violation close, the table is untouched
      ({ s with conns := s.conns ++ [{ k := k, id := id, live := false }] }, [.refused 1008])
    else ({ s with conns := s.conns ++ [{ k := k, id := id, live := true }] }, [.admitted, .newCb id])
  | .close k | .drop k =>
    match findK s k with
    | none => (s, [.ok])
    | some c =>
      if c.live then ({ s with conns := endK s.conns k }, [.ok, .discCb c.id])
      else (s, [.ok])
  | .stopConn id =>
    match liveConn s id with
    | none => (s, [.error])
    | some c => ({ s with conns := endK s.conns c.k }, [.ok, .closeSeen c.k 1011, .discCb id])
  | .swrite id n =>
    match liveConn s id with
    | none => (s, [.error])
    | some c => (s, [.ok, .delivered c.k ("s" ++ n)])
  | .cwrite k n =>
    match findK s k with
    | none => (s, [.ok])
    | some c => if c.live then (s, [.ok, .msgCb c.id ("c" ++ n)]) else (s, [.ok])
  | .list => (s, [.live (liveIds s)])
  | .stop =>
    -- every live connection is closed by the shutdown hook: one disconnected callback each
    ({ running := false, conns := s.conns.map (fun c => { c with live := false }) },
     .stopped :: (liveIds s).map .discCb)

def run (s : St) : List Ev → St × List Obs
  | [] => (s, [])
  | e :: es =>
    let (s1, o1) := step s e
    let (s2, o2) := run s1 es
    (s2, o1 ++ o2)

end Ocpp.WsServer
