import OcppModel.Containers

/-! Line-protocol driver for the container models (suite `containers`); mirrors go/cmd/harness/containers.go. -/

namespace Ocpp.Drv

structure CSt where
  q  : FQ String := FQ.new 0
  qm : QMap String := QMap.new 0
  cs : CState := {}
  ss : SState := []
  cq : CbQ := []

def unq (s : String) : String := if s == "\"\"" then "" else s

def showQ (q : FQ String) : String :=
  s!"size={q.size},head={(q.peek).getD "nil"},full={q.isFull}"

def showReq : Option String → String
  | none => "miss"
  | some "" => "nilreq"     -- Go: the zero `pendingRequest` holds a nil request
  | some r => r

def parseInt (s : String) : Int := s.toInt?.getD 0

def stepContainers (st : CSt) (f : List String) : CSt × String :=
  match f with
  | ["reset"] => ({}, "ok")
  | ["q", "new", c] => if parseInt c < 0 then ({ st with q := FQ.new 0 }, "PANIC") else ({ st with q := FQ.new (parseInt c) }, "ok")
  | ["q", "init"] => ({ st with q := st.q.init }, "ok")
  | ["q", "push", x] => let (q, ok) := st.q.push x; ({ st with q := q }, if ok then "ok" else "full")
  | ["q", "peek"] => (st, st.q.peek.getD "nil")
  | ["q", "pop"] => let (q, r) := st.q.pop; ({ st with q := q }, r.getD "nil")
  | ["q", "size"] => (st, toString st.q.size)
  | ["q", "isfull"] => (st, toString st.q.isFull)
  | ["q", "isempty"] => (st, toString st.q.isEmpty)
  | ["qm", "new", c] => ({ st with qm := QMap.new (parseInt c) }, "ok")
  | ["qm", "init"] => ({ st with qm := st.qm.init }, "ok")
  | ["qm", "get", c] => (st, match st.qm.get c with | some q => showQ q | none => "absent")
  | ["qm", "goc", c] =>
    if st.qm.cap < 0 && (st.qm.get c).isNone then (st, "PANIC")
    else let (m, q) := st.qm.getOrCreate c; ({ st with qm := m }, showQ q)
  | ["qm", "remove", c] => ({ st with qm := st.qm.remove c }, "ok")
  | ["qm", "add", c, cap] =>
    let k := parseInt cap
    ({ st with qm := st.qm.add c (FQ.new (if k < 0 then 0 else k)) }, "ok")
  | ["qm", "push", c, x] =>
    match st.qm.get c with
    | none => (st, "absent")
    | some q => let (q', ok) := q.push x; ({ st with qm := st.qm.set c q' }, if ok then "ok" else "full")
  | ["qm", "pop", c] =>
    match st.qm.get c with
    | none => (st, "absent")
    | some q => let (q', r) := q.pop; ({ st with qm := st.qm.set c q' }, r.getD "nil")
  | ["cs", "new"] => ({ st with cs := {} }, "ok")
  | ["cs", "add", id, r] => ({ st with cs := st.cs.add (unq id) r }, "ok")
  | ["cs", "get", id] => (st, showReq (st.cs.get (unq id)))
  | ["cs", "del", id] => ({ st with cs := st.cs.delete (unq id) }, "ok")
  | ["cs", "clear"] => ({ st with cs := st.cs.clear }, "ok")
  | ["cs", "has"] => (st, toString st.cs.has)
  | ["ss", "new"] => ({ st with ss := [] }, "ok")
  | ["ss", "add", c, id, r] => ({ st with ss := SState.add st.ss c (unq id) r }, "ok")
  | ["ss", "del", c, id] => ({ st with ss := SState.delete st.ss c (unq id) }, "ok")
  | ["ss", "get", c, id] => let (m, r) := SState.getPending st.ss c (unq id); ({ st with ss := m }, showReq r)
  | ["ss", "has", c] => (st, toString (SState.has st.ss c))
  | ["ss", "hasany"] => (st, toString (SState.hasAny st.ss))
  | ["ss", "clearc", c] => ({ st with ss := SState.clearClient st.ss c }, "ok")
  | ["ss", "clearall"] => ({ st with ss := SState.clearAll st.ss }, "ok")
  | ["cq", "new"] => ({ st with cq := [] }, "ok")
  | ["cq", "try", id, okS, cb] =>
    let (m, ok) := CbQ.tryQueue st.cq id (okS == "ok") cb
    ({ st with cq := m }, if ok then "ok" else "err")
  | ["cq", "deq", id] =>
    let (m, r) := CbQ.dequeue st.cq id
    ({ st with cq := m }, match r with | .none => "none" | .cb c => c | .panic => "PANIC")
  | _ => (st, "bad-op")

end Ocpp.Drv
