import OcppModel.WsAdmit

/-! Line-protocol drivers for the websocket suites; mirror go/cmd/harness/ws*.go -/
namespace Ocpp.Drv
open Ocpp.WsAdmit

def csvList (s : String) : List String :=
  if s == "-" then [] else (s.splitOn ",").map (fun t => if t == "_" then "" else t)

def showOutcome : Outcome → String
  | .http n => toString n
  | .closeFrame c => s!"close:{c}"
  | .admitted _ => "admitted"

def stepWsAdmit (f : List String) : String :=
  match f with
  | ["h", sup, auth, check, origin, "|", req, creds, ohdr, id, dup, mode] =>
    let cfg : Cfg := {
      supported := csvList sup,
      auth := if auth == "handler" then some (fun u p => u == "u" && p == "p") else none,
      check := match check with
        | "true" => some (fun _ => true)
        | "false" => some (fun _ => false)
        | "id" => some (fun i => i.startsWith "ok")
        | _ => none,
      origin := match origin with
        | "allow" => some true
        | "deny" => some false
        | _ => none }
    let hs : Hs := {
      requested := csvList req,
      creds := match creds with
        | "good" => some ("u", "p")
        | "bad" => some ("u", "wrong")
        | _ => none,
      id := id,
      originSame := match ohdr with
        | "same" => some true
        | "cross" => some false
        | _ => none,
      wsUpgrade := mode == "ws",
      duplicate := false }
    if dup == "1" then
      -- the harness first opens a connection with the same id that offers every credential
      let hs1 : Hs := { requested := [(csvList sup).headD "ocpp1.6"], creds := some ("u", "p"), id := id, originSame := none,
                        wsUpgrade := true, duplicate := false }
      match admission cfg hs1 with
      | .admitted _ =>
        let o := admission cfg { hs with duplicate := true }
        s!"{showOutcome o} new={newClientCalls o} msg={newClientCalls o} disc=0 first=ok"
      | _ =>
        let o := admission cfg hs
        s!"{showOutcome o} new={newClientCalls o} msg={newClientCalls o} first=none"
    else
      let o := admission cfg hs
      s!"{showOutcome o} new={newClientCalls o} msg={newClientCalls o}"
  | _ => "bad-op"

end Ocpp.Drv
