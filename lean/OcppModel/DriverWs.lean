import OcppModel.WsAdmit
import OcppModel.WsServer
import OcppModel.WsSocket
import OcppModel.WsClient

/-! Line-protocol drivers for the websocket suites; mirror go/cmd/harness/ws*.go -/
namespace Ocpp.Drv
open Ocpp.WsAdmit

def csvList (s : String) : List String :=
  if s == "-" then [] else (s.splitOn ",").map (fun t => if t == "_" then "" else t)

def showOutcome : Outcome → String
  | .http n => toString n
  | .closeFrame c => s!"close:{c}"
  | .admitted _ => "admitted"

def stepWsAdmit (f : List String) : String :=
  match f with
  | ["h", sup, auth, check, origin, "|", req, creds, ohdr, id, dup, mode] =>
    let cfg : Cfg := {
      supported := csvList sup,
      auth := if auth == "handler" then some (fun u p => u == "u" && p == "p") else none,
      check := match check with
        | "true" => some (fun _ => true)
        | "false" => some (fun _ => false)
        | "id" => some (fun i => i.startsWith "ok")
        | _ => none,
      origin := match origin with
        | "allow" => some true
        | "deny" => some false
        | _ => none }
    let hs : Hs := {
      requested := csvList req,
      creds := match creds with
        | "good" => some ("u", "p")
        | "bad" => some ("u", "wrong")
        | _ => none,
      id := id,
      originSame := match ohdr with
        | "same" => some true
        | "cross" => some false
        | _ => none,
      wsUpgrade := mode == "ws",
      duplicate := false }
    if dup == "1" then
      -- the harness first opens a connection with the same id that offers every credential
      let hs1 : Hs := { requested := [(csvList sup).headD "ocpp1.6"], creds := some ("u", "p"), id := id, originSame := none,
                        wsUpgrade := true, duplicate := false }
      match admission cfg hs1 with
      | .admitted _ =>
        let o := admission cfg { hs with duplicate := true }
        s!"{showOutcome o} new={newClientCalls o} msg={newClientCalls o} disc=0 first=ok"
      | _ =>
        let o := admission cfg hs
        s!"{showOutcome o} new={newClientCalls o} msg={newClientCalls o} first=none"
    else
      let o := admission cfg hs
      s!"{showOutcome o} new={newClientCalls o} msg={newClientCalls o}"
  | _ => "bad-op"

end Ocpp.Drv

namespace Ocpp.Drv
open Ocpp.WsServer

def sortStrs (l : List String) : List String := (l.toArray.qsort (· < ·)).toList

def wsEvs (l : List Obs) : String :=
  let p := l.filterMap (fun o => match o with
    | .newCb id => some s!"new:{id}"
    | .discCb id => some s!"disc:{id}"
    | .msgCb id d => some s!"msg:{id}:{d}"
    | _ => none)
  if p.isEmpty then "-" else " ".intercalate p

def stepWsSrv (s : WsServer.St) (f : List String) : WsServer.St × String :=
  let go (e : WsServer.Ev) : WsServer.St × String :=
    let (s', obs) := WsServer.step s e
    let head := match e, obs with
      | .connect _ _, .admitted :: _ => "admitted"
      | .connect _ _, .refused c :: _ => s!"close:{c}"
      | .connect _ _, _ => "dial-error"
      | .stopConn _, .ok :: .closeSeen _ c :: _ => s!"ok close:{c}"
      | .stopConn _, _ => "error"
      | .swrite _ _, .ok :: _ => "ok delivered=true"
      | .swrite _ _, _ => "error"
      | .list, [.live ids] => "live=" ++ ",".intercalate (sortStrs ids)
      | .stop, _ => "stopped"
      | _, _ => "ok"
    match e with
    | .stop =>
      let p := sortStrs (obs.filterMap (fun o => match o with | .discCb id => some s!"disc:{id}" | _ => none))
      (s', "stopped " ++ (if p.isEmpty then "-" else " ".intercalate p))
    | _ => (s', head ++ " " ++ wsEvs obs)
  match f with
  | ["reset"] => ({}, "ok")
  | ["connect", k, id] => go (.connect k id)
  | ["close", k] => if (WsServer.findK s k).isNone then (s, "no-such-client") else go (.close k)
  | ["drop", k] => if (WsServer.findK s k).isNone then (s, "no-such-client") else go (.drop k)
  | ["stopconn", id] => go (.stopConn id)
  | ["swrite", id, n] => go (.swrite id n)
  | ["cwrite", k, n] => if (WsServer.findK s k).isNone then (s, "no-such-client") else go (.cwrite k n)
  | ["list"] => go .list
  | ["stop"] => go .stop
  | _ => (s, "bad-op")

end Ocpp.Drv

namespace Ocpp.Drv
open Ocpp.WsSocket

/-- two sockets (server side, client side) under the sequential schedule -/
structure IoSt where
  srv : Sock := init true [[]]
  cli : Sock := init true [[]]

def runLabels (s : Sock) (ls : List Label) : Sock := (runL s ls).getD s

/-- one `Write(m)` run to completion, then the pump to quiescence -/
def writeSeq (s : Sock) (m : Nat) : Sock × String :=
  let s0 := { s with ws := [.todo [m]] }
  let s1 := runLabels s0 [.rlock 0, .check 0]
  if s1.errors > s.errors then (s1, "error")
  else
    let s2 := runLabels s1 [.send 0, .take, .writeOk]
    (s2, if s2.net.length > s.net.length then "ok delivered" else "ok lost")

/-- a close (local request or the read pump's force-close after the peer went away) -/
def closeSeq (s : Sock) : Sock := runLabels s [.closeReq, .lock]

def stepWsIO (st : IoSt) (f : List String) : IoSt × String :=
  match f with
  | ["reset"] => ({}, "ok")
  | ["sw", n] => let (s, o) := writeSeq st.srv n.toNat!; ({ st with srv := s }, o)
  | ["cw", n] => let (s, o) := writeSeq st.cli n.toNat!; ({ st with cli := s }, o)
  | ["unknown", _] => (st, "error")
  | ["sclose"] =>
    if st.srv.pump == .done then (st, "error") else ({ srv := closeSeq st.srv, cli := closeSeq st.cli }, "ok")
  | ["cstop"] => ({ srv := closeSeq st.srv, cli := closeSeq st.cli }, "ok")
  | _ => (st, "bad-op")

end Ocpp.Drv

namespace Ocpp.Drv
open Ocpp.WsClient

def showCli (o : List WsClient.Obs) : String :=
  let p := o.filterMap (fun x => match x with
    | .discCb true => some "disc:err"
    | .discCb false => some "disc:nil"
    | .recCb => some "rec"
    | _ => none)
  if p.isEmpty then "-" else " ".intercalate p

def stepWsCli (s : WsClient.St) (f : List String) : WsClient.St × String :=
  match f with
  | ["reset", _] => ({}, "ok")
  | ["start"] =>
    let (s', o) := WsClient.step s .start
    (s', s!"{if o.head? == some .ok then "ok" else "err"} {showCli o} conns={s'.conns}")
  | ["startretry"] =>
    let (s', o) := WsClient.step s .startRetry
    (s', s!"{if s'.connected then "ok" else "looping"} {showCli o} conns={s'.conns}")
  | ["down"] => ((WsClient.step s .down).1, "ok")
  | ["hang"] => ((WsClient.step s .hang).1, "ok")
  | ["up"] =>
    let (s', o) := WsClient.step s .up
    (s', s!"ok {showCli o} conns={s'.conns} connected={s'.connected}")
  | ["lose", _] =>
    if !s.connected then (s, "no-connection") else
    let (s', o) := WsClient.step s .lose
    (s', s!"{if s'.connected then "reconnected" else "looping"} {showCli o} conns={s'.conns}")
  | ["fails", n] =>
    let (s', o) := WsClient.step s (.fails n.toNat!)
    (s', s!"failed={o.head? == some (.failed true)} - conns={s'.conns}")
  | ["idle", _] => (s, s!"connected={s.connected} - conns={s.conns}")
  | ["stop"] =>
    let (s', o) := WsClient.step s .stop
    (s', s!"stopped {showCli o} conns={s'.conns} connected=false")
  | ["stop2"] =>
    let (s1, o1) := WsClient.step s .stop
    let (s2, o2) := WsClient.step s1 .stop
    (s2, s!"stopped {showCli (o1 ++ o2)} conns={s2.conns} connected=false")
  | _ => (s, "bad-op")

end Ocpp.Drv

namespace Ocpp.Drv
open Ocpp.WsClient

def stepWsKa (f : List String) : String :=
  match f with
  | ["k", cp, cw, spw, sp, sw] =>
    if bothAlive (clientCfg cp.toNat! cw.toNat!) (serverCfg spw.toNat! sp.toNat! sw.toNat!) then "alive" else "dropped"
  | ["d", spw, sp, sw] =>
    match readWait (serverCfg spw.toNat! sp.toNat! sw.toNat!) with
    | some w => s!"detected:{w}"
    | none => "kept"
  | _ => "bad-op"

end Ocpp.Drv
