/-!
# `ws.server`: the life of one client id below quiescence — who is announced when (small-step model)

After /repo 3413323. For one client id: `entry` is `server.connections[id]`, `closing` is `server.closing[id]` (the
channel that is closed once the disconnected handler of the id's previous connection has returned), both guarded by
`connMutex`. Connections are numbered in the order they are accepted. One label = one synchronisation step of one
goroutine: the HTTP handler goroutine of a connection (`wsHandler`: duplicate check + insert in one critical section,
wait for the previous connection's channel, new-client handler) and the goroutine that tears a connection down (`cleanup`
waits for the announcement, then `handleDisconnect`: release the id + publish the channel in one critical section,
disconnected handler, unpublish + close the channel). Any number of connection attempts, any interleaving.

`waitPrev := false` is the code before the repair (the new-client handler does not wait): kept to state the defect as a
theorem (`old_announces_before_disconnected` in `OcppProps/C13.lean`).
-/
namespace Ocpp.WsIdFine

inductive Phase where
  | hs (prev : Option Nat)   -- inserted into the table; next: wait for `prev` (the channel captured under the lock)
  | announcing               -- next: the new-client handler
  | live                     -- announced; it may end at any moment
  | closing1                 -- ended, `announce.Wait()` passed; next: delete the entry, publish the channel
  | closing2                 -- next: the disconnected handler
  | closing3                 -- next: unpublish and close the channel
  | gone
deriving Repr, DecidableEq

inductive Cb where
  | new (k : Nat) | disc (k : Nat)
deriving Repr, DecidableEq

structure St where
  waitPrev : Bool := true
  conns   : List Phase := []       -- index = connection number
  entry   : Option Nat := none     -- connections[id]
  closing : Option Nat := none     -- closing[id]: the connection whose channel is published
  closed  : List Nat := []         -- connections whose channel is closed
  log     : List Cb := []          -- the application's callbacks for this id, in order
deriving Repr, DecidableEq

inductive Label where
  | accept                 -- a handshake for this id passes the duplicate check (entry = none): insert, capture `closing`
  | refuse                 -- a handshake for this id finds the entry taken: closed with 1008, nothing changes
  | wait (k : Nat)
  | announce (k : Nat)
  | drop (k : Nat)
  | release (k : Nat)
  | discCb (k : Nat)
  | finish (k : Nat)
deriving Repr, DecidableEq

def phase (s : St) (k : Nat) : Phase := s.conns.getD k .gone

def step (s : St) : Label → Option St
  | .accept => if s.entry.isNone then
      some { s with conns := s.conns ++ [.hs s.closing], entry := some s.conns.length } else none
  | .refuse => if s.entry.isSome then some s else none
  | .wait k => match phase s k with
    | .hs prev =>
      let pass := match prev with
        | none => true
        | some j => !s.waitPrev || s.closed.contains j
      if pass then some { s with conns := s.conns.set k .announcing } else none
    | _ => none
  | .announce k => if phase s k == .announcing then some { s with conns := s.conns.set k .live, log := s.log ++ [.new k] } else none
  | .drop k => if phase s k == .live then some { s with conns := s.conns.set k .closing1 } else none
  | .release k => if phase s k == .closing1 then
      some { s with conns := s.conns.set k .closing2, entry := none, closing := some k } else none
  | .discCb k => if phase s k == .closing2 then some { s with conns := s.conns.set k .closing3, log := s.log ++ [.disc k] } else none
  | .finish k => if phase s k == .closing3 then
      some { s with conns := s.conns.set k .gone, closing := if s.closing == some k then none else s.closing, closed := k :: s.closed }
    else none

def runL (s : St) : List Label → Option St
  | [] => some s
  | l :: ls => match step s l with
    | none => none
    | some s' => runL s' ls

/-- the callbacks of one id alternate: new k, disc k, new k', disc k', ... (`open` = the connection announced and not yet
    reported as ended) -/
def alternates : Option Nat → List Cb → Bool
  | _, [] => true
  | none, .new k :: rest => alternates (some k) rest
  | some k, .disc j :: rest => k == j && alternates none rest
  | _, _ => false

/-- `server.Write(id, …)`: the connection the data is queued on. The code consults the connection table only
    (`checkClosing := false`). `checkClosing := true` is a candidate repair that was tried and withdrawn (a write fails, as for
    an unknown id, while the channel of a previous connection of the id is published): kept to state what it would give. -/
def writeTarget (checkClosing : Bool) (s : St) : Option Nat :=
  if checkClosing && s.closing.isSome then none else s.entry

end Ocpp.WsIdFine
