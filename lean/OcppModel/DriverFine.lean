import OcppModel.ClientFine
import Std.Data.HashSet

/-!
# Driver mode `cfine`: does the interleaving model explain an implementation log?

Input: the log of one run of the instrumented client endpoint (injected queue, fake websocket, handlers), one visible
event per line. The driver keeps the *set* of model states that are consistent with the log so far: between two log lines
the threads may take any number of hidden steps (`closure`). `REJECT` = no interleaving of the model produces this log:
the correspondence between `Ocpp.ClientFine` and the code is broken (or the code misbehaves). A search over the model —
it validates the model against the code, it proves nothing.
-/
namespace Ocpp.Drv
open Ocpp.ClientFine

/-- search state: model state, disconnects announced in the log whose `Pause` has not taken effect yet, and `Resume`s that
    have taken effect but whose `connect` line has not been logged yet. (The scenario harness logs `disconnect-event` before
    it drops the link and `connect` after the reconnection returned, each on its own goroutine.) -/
abbrev DS := St × Nat × Nat

def hiddenLabels (s : St) : List Label :=
  [.wakeup, .takeWake, .takeReady, .expire, .pstep, .writeFail, .rstep, .lstep] ++ s.used.map Label.reply

def hiddenSucc (d : DS) : List DS :=
  let (s, pp, re) := d
  ((hiddenLabels s).filterMap (fun l => if (vis s l).isNone then (step s l).map (fun s' => (s', pp, re)) else none)) ++
  (if pp > 0 then ((step s .pause).map (fun s' => (s', pp - 1, re))).toList else []) ++
  (if re == 0 && (s.paused || pp > 0) then ((step s .resume).map (fun s' => (s', pp, re + 1))).toList else [])

/-- states reachable by hidden steps (fuel bounds the depth; the per-log state space is small) -/
def closure : Nat → Std.HashSet DS → List DS → Std.HashSet DS
  | 0, seen, _ => seen
  | _, seen, [] => seen
  | fuel + 1, seen, frontier =>
    let (seen', fresh) := (frontier.flatMap hiddenSucc).foldl
      (fun (acc : Std.HashSet DS × List DS) x => if acc.1.contains x then acc else (acc.1.insert x, x :: acc.2)) (seen, [])
    closure fuel seen' fresh

def closeList (l : List DS) : List DS :=
  let start : Std.HashSet DS := l.foldl (fun a x => a.insert x) {}
  (closure 64 start start.toList).toList

def labelsFor : Vis → List Label
  | .push id => [.push id]
  | .wrote _ => [.writeOk]
  | .pop _ => [.pstep, .rstep]
  | .resp _ => [.rstep]
  | .cancelTimeout _ => [.pstep]
  | .cancelWrite _ => [.pstep]
  | .disconnect => []
  | .connect => []

def stepVis (d : DS) (v : Vis) : List DS :=
  let (s, pp, re) := d
  match v with
  | .disconnect => [(s, pp + 1, re)]
  | .connect =>
    if re > 0 then [(s, pp, re - 1)]
    else ((step s .resume).map (fun s' => (s', pp, re))).toList
  | _ => (labelsFor v).filterMap (fun l => if vis s l == some v then (step s l).map (fun s' => (s', pp, re)) else none)

def parseId (s : String) : Option Nat := (s.drop 1).toNat?

def parseVis : List String → Option Vis
  | ["push", id] => (parseId id).map Vis.push
  | ["wrote", id] => (parseId id).map Vis.wrote
  | ["pop", id] => (parseId id).map Vis.pop
  | ["resp", id] => (parseId id).map Vis.resp
  | ["err", id] => (parseId id).map Vis.resp
  | ["cancel-timeout", id] => (parseId id).map Vis.cancelTimeout
  | ["cancel-write", id] => (parseId id).map Vis.cancelWrite
  | ["disconnect-event"] => some .disconnect
  | ["connect"] => some .connect
  | _ => none

/-- every thread is between operations, nothing is waiting, nothing is dispatchable (or the link is down), and every
    link event of the log has taken effect -/
def idleState (d : DS) : Bool :=
  let (s, pp, re) := d
  pp == 0 && re == 0 &&
  (match s.pump with | .sel _ => true | _ => false) && !s.wake && !s.ready && s.mid == 0 &&
  (match s.reader with | .idle => true | _ => false) && (match s.link with | .idle => true | _ => false) &&
  !(!s.paused && !s.q.isEmpty && s.pend.isNone)

/-- `none` = the log was rejected earlier in this run -/
def stepFine (st : Option (List DS)) (f : List String) : Option (List DS) × String :=
  match f with
  | ["reset"] => (some (closeList [({}, 0, 0)]), "ok")
  | ["end"] =>
    match st with
    | none => (none, "DEAD")
    | some cur => (st, if cur.any idleState then "idle" else "busy")
  | _ =>
    match st with
    | none => (none, "DEAD")
    | some cur =>
      match parseVis f with
      | none => (st, "bad-op")
      | some v =>
        let next := cur.flatMap (fun s => stepVis s v)
        if next.isEmpty then (none, "REJECT")
        else
          let cl := closeList next
          (some cl, s!"ok {cl.length}")

end Ocpp.Drv
