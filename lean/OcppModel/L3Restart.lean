/-!
# Charge point / charging station: sessions, callbacks and outcomes across Stop and Start (small-step model)

After /repo eacc875 and 656d0b0. A *session* is the time from `Start` to `Stop`. The protocol layer registers one
callback per request sent (FIFO per endpoint); the ocppj layer reports one outcome per request, in the order of the
requests (C01/C02), into a small outcome channel; a callback goroutine per session takes outcomes one at a time, takes
the oldest callback off the queue and invokes it. `Stop` closes the session's stop channel, drops the callbacks and
discards the outcomes still in the channel; the goroutine of the session leaves when it next looks at its stop channel
— if it is inside an application callback at that moment, that is after the callback returns, possibly long after the
next `Start`.

Ghost tags: outcomes and callbacks carry (session, request). Two assumptions can be switched off. `prio := true`: the
goroutine of a stopped session never takes another outcome (as if it looked at its stop channel first; in the code Go's
`select` may pick the outcome channel although the stop channel is closed). `atomicTake := true`: `Stop` does not happen
while a goroutine is between taking an outcome and dequeuing its callback (two adjacent statements of the code).
-/
namespace Ocpp.L3Restart

abbrev Tag := Nat × Nat      -- (session, request)

inductive H where
  | idle                      -- waiting in the select
  | holding (o : Tag)         -- took an outcome, next: dequeue a callback and invoke it
  | busy                      -- inside an application callback
deriving Repr, DecidableEq

structure St where
  atomicTake : Bool := true           -- assumption: no Stop while the goroutine is between taking an outcome and dequeuing its callback
  prio    : Bool := true              -- assumption: the goroutine of a stopped session takes no further outcome
  drain   : Bool := true              -- Stop discards the outcomes still in the channel (/repo 656d0b0); false = before
  sess    : Nat := 0
  cur     : Option H := none          -- the callback goroutine of the running session
  olds    : List (Nat × H) := []      -- goroutines of stopped sessions that are still alive
  chan    : List Tag := []            -- the outcome channel (oldest first)
  cbs     : List Tag := []            -- the callback queue (oldest first)
  out     : List Nat := []            -- requests of the running session sent and not yet answered (oldest first)
  nreq    : Nat := 0
  log     : List (Tag × Tag) := []    -- deliveries: (outcome, callback it was handed to)
deriving Repr, DecidableEq

inductive Label where
  | start | stop
  | send                    -- SendRequestAsync: register the callback, the request goes out
  | answer                  -- the ocppj layer reports the outcome of the oldest outstanding request
  | take | deliver | ret    -- the goroutine of the running session: take the oldest outcome; dequeue the oldest callback and invoke it; the callback returns
  | otake (k : Nat) | odeliver (k : Nat) | oret (k : Nat) | oexit (k : Nat)   -- the same for the goroutine of stopped session k; and its exit
deriving Repr, DecidableEq

def ostate (s : St) (k : Nat) : Option H := (s.olds.find? (fun p => p.1 == k)).map (·.2)

def setO (s : St) (k : Nat) (h : H) : List (Nat × H) := s.olds.map (fun p => if p.1 == k then (k, h) else p)

def isHolding : H → Bool
  | .holding _ => true
  | _ => false

def step (s : St) : Label → Option St
  | .start => if s.cur.isSome then none else some { s with cur := some .idle, sess := s.sess + 1 }
  | .stop =>
    match s.cur with
    | none => none
    | some h =>
      if s.atomicTake && isHolding h then none
      else some { s with cur := none, olds := (s.sess, h) :: s.olds, cbs := [], chan := if s.drain then [] else s.chan, out := [] }
  | .send => if s.cur.isNone then none else
      some { s with cbs := s.cbs ++ [(s.sess, s.nreq)], out := s.out ++ [s.nreq], nreq := s.nreq + 1 }
  | .answer =>
    match s.out with
    | r :: rest => if s.cur.isSome && s.chan.length < 2 then some { s with chan := s.chan ++ [(s.sess, r)], out := rest } else none
    | [] => none
  | .take =>
    match s.cur, s.chan with
    | some .idle, o :: rest => some { s with chan := rest, cur := some (.holding o) }
    | _, _ => none
  | .deliver =>
    match s.cur with
    | some (.holding o) =>
      match s.cbs with
      | c :: rest => some { s with cbs := rest, cur := some .busy, log := s.log ++ [(o, c)] }
      | [] => some { s with cur := some .idle }           -- "no handler available": the outcome is dropped
    | _ => none
  | .ret =>
    match s.cur with
    | some .busy => some { s with cur := some .idle }
    | _ => none
  | .otake k =>
    match ostate s k, s.chan with
    | some .idle, o :: rest => if s.prio then none else some { s with chan := rest, olds := setO s k (.holding o) }
    | _, _ => none
  | .odeliver k =>
    match ostate s k with
    | some (.holding o) =>
      match s.cbs with
      | c :: rest => some { s with cbs := rest, olds := setO s k .busy, log := s.log ++ [(o, c)] }
      | [] => some { s with olds := setO s k .idle }
    | _ => none
  | .oret k =>
    match ostate s k with
    | some .busy => some { s with olds := setO s k .idle }
    | _ => none
  | .oexit k =>
    match ostate s k with
    | some .idle => some { s with olds := s.olds.filter (fun p => p.1 != k) }
    | _ => none

def runL (s : St) : List Label → Option St
  | [] => some s
  | l :: ls => match step s l with
    | none => none
    | some s' => runL s' ls

/-- every delivery handed an outcome to the callback of the same request -/
def matched (s : St) : Bool := s.log.all (fun p => p.1 == p.2)

end Ocpp.L3Restart
