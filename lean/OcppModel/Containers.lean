import OcppGen.Guards

/-!
# L1 containers: `FIFOClientQueue`, `FIFOQueueMap`, `clientState`, `serverState`, `CallbackQueue`

Hand-written executable models (core Lean only). Every guard comes from the regenerated module
`Gen.Guards` (translator T2), so the conditions under which an operation rejects / misses are the
ones in today's source text. Each Go method body is one critical section of the structure's own
mutex, hence one atomic model operation.
-/

namespace Ocpp

/-! ## FIFOClientQueue -/

structure FQ (α : Type) where
  cap   : Int
  elems : List α
deriving Repr, DecidableEq

namespace FQ
variable {α : Type}

def new (cap : Int) : FQ α := { cap := cap, elems := [] }

/-- `Init`: `q.elements = make([]interface{}, 0, q.capacity)` -/
def init (q : FQ α) : FQ α := { q with elems := [] }

/-- `Push`; the Boolean is `true` when Go returns `nil` (accepted). -/
def push (q : FQ α) (x : α) : FQ α × Bool :=
  if Gen.Guards.queuePushRejects q.elems.length q.cap then (q, false)
  else ({ q with elems := q.elems ++ [x] }, true)

def peek (q : FQ α) : Option α :=
  if Gen.Guards.queuePeekNil q.elems.length then none else q.elems.head?

def pop (q : FQ α) : FQ α × Option α :=
  if Gen.Guards.queuePopNil q.elems.length then (q, none)
  else ({ q with elems := q.elems.tail }, q.elems.head?)

def size (q : FQ α) : Nat := q.elems.length
def isFull (q : FQ α) : Bool := Gen.Guards.queueIsFull q.elems.length q.cap
def isEmpty (q : FQ α) : Bool := Gen.Guards.queueIsEmpty q.elems.length

end FQ

/-! ## association lists standing for Go maps (iteration order is never observable in the code) -/

abbrev AMap (β : Type) := List (String × β)

namespace AMap
variable {β : Type}

def find (m : AMap β) (k : String) : Option β :=
  match m with
  | [] => none
  | (k', v) :: rest => if k' == k then some v else find rest k

def erase (m : AMap β) (k : String) : AMap β := m.filter (fun p => p.1 != k)

/-- `m[k] = v`: replace in place when present, append otherwise. -/
def insert (m : AMap β) (k : String) (v : β) : AMap β :=
  match m with
  | [] => [(k, v)]
  | (k', v') :: rest => if k' == k then (k, v) :: rest else (k', v') :: insert rest k v

def keys (m : AMap β) : List String := m.map (·.1)

end AMap

/-! ## FIFOQueueMap -/

structure QMap (α : Type) where
  cap  : Int
  data : AMap (FQ α)
deriving Repr

namespace QMap
variable {α : Type}
def new (cap : Int) : QMap α := { cap := cap, data := [] }
def init (m : QMap α) : QMap α := { m with data := [] }
def get (m : QMap α) (c : String) : Option (FQ α) := m.data.find c
def getOrCreate (m : QMap α) (c : String) : QMap α × FQ α :=
  match m.data.find c with
  | some q => (m, q)
  | none => ({ m with data := m.data.insert c (FQ.new m.cap) }, FQ.new m.cap)
def remove (m : QMap α) (c : String) : QMap α := { m with data := m.data.erase c }
def add (m : QMap α) (c : String) (q : FQ α) : QMap α := { m with data := m.data.insert c q }
/-- write back a queue after an operation on it (Go mutates through the shared pointer) -/
def set (m : QMap α) (c : String) (q : FQ α) : QMap α :=
  match m.data.find c with
  | some _ => { m with data := m.data.insert c q }
  | none => m
end QMap

/-! ## clientState: a single pending slot; `""` = free -/

structure CState where
  reqId : String := ""
  /-- the stored request (an opaque tag); stale after a delete, exactly as in Go -/
  req   : String := ""
deriving Repr, DecidableEq

namespace CState
def add (s : CState) (id req : String) : CState :=
  if Gen.Guards.stateAddAccepts id s.reqId then { reqId := id, req := req } else s
def get (s : CState) (id : String) : Option String :=
  if Gen.Guards.stateGetMiss id s.reqId then none else some s.req
def delete (s : CState) (id : String) : CState :=
  if Gen.Guards.stateDeleteMiss id s.reqId then s else { s with reqId := "" }
def clear (s : CState) : CState := { s with reqId := "" }
def has (s : CState) : Bool := Gen.Guards.stateHas s.reqId
end CState

/-! ## serverState: map client id → clientState -/

abbrev SState := AMap CState

namespace SState
def getOrCreate (m : SState) (c : String) : SState × CState :=
  match AMap.find m c with
  | some s => (m, s)
  | none => (AMap.insert m c {}, {})
def add (m : SState) (c id req : String) : SState :=
  let (m', s) := getOrCreate m c
  AMap.insert m' c (s.add id req)
def delete (m : SState) (c id : String) : SState :=
  match AMap.find m c with
  | some s => AMap.insert m c (s.delete id)
  | none => m
/-- `GetClientState(c).GetPendingRequest(id)`; creates the entry like Go does -/
def getPending (m : SState) (c id : String) : SState × Option String :=
  let (m', s) := getOrCreate m c
  (m', s.get id)
def has (m : SState) (c : String) : Bool :=
  match AMap.find m c with
  | some s => s.has
  | none => false
def hasAny (m : SState) : Bool := m.any (fun p => p.2.has)
def clearClient (m : SState) (c : String) : SState := AMap.erase m c
def clearAll (_ : SState) : SState := []
end SState

/-! ## CallbackQueue: map id → non-empty list of callbacks (callbacks are opaque tags) -/

abbrev CbQ := AMap (List String)

namespace CbQ

/-- `TryQueue(id, try, cb)` where `tryOk` is the outcome of `try()`; returns the new map and whether
    Go returned `nil`. The rollback pops the *last* callback of `id` and deletes an empty key. -/
def tryQueue (m : CbQ) (id : String) (tryOk : Bool) (cb : String) : CbQ × Bool :=
  let m1 := AMap.insert m id ((AMap.find m id).getD [] ++ [cb])
  if tryOk then (m1, true)
  else
    let l := ((AMap.find m1 id).getD []).dropLast
    if l.length == 0 then (AMap.erase m1 id, false) else (AMap.insert m1 id l, false)

inductive DeqResult where
  | none                       -- key absent: `(nil, false)`
  | cb (c : String)            -- `(callback, true)`
  | panic                      -- "Internal CallbackQueue inconsistency"
deriving Repr, DecidableEq

def dequeue (m : CbQ) (id : String) : CbQ × DeqResult :=
  match AMap.find m id with
  | none => (m, .none)
  | some [] => (m, .panic)
  | some [c] => (AMap.erase m id, .cb c)
  | some (c :: rest) => (AMap.insert m id rest, .cb c)

end CbQ

end Ocpp
