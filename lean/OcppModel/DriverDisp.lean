import OcppModel.ClientDisp

/-! Line-protocol driver for suite `cdisp` (ocppj client + default dispatcher at quiescence). -/
namespace Ocpp.Drv
open Ocpp.CD

def showObs : Obs → String
  | .accepted id => s!"accepted:{id}"
  | .rejected id => s!"rejected:{id}"
  | .wrote id => s!"wrote:{id}"
  | .resp id => s!"resp:{id}"
  | .errResp id => s!"err:{id}"
  | .cancel id t => s!"cancel:{id}:{if t then "timeout" else "write"}"
  | .panic => "PANIC"
  | .blocked => "BLOCKED"
  | .dead => "DEAD"
  | .stopped => "stopped"

def parseEv : List String → Option Ev
  | ["send", id] => some (.send id)
  | ["reply", id, "result"] => some (.reply id false)
  | ["reply", id, "error"] => some (.reply id true)
  | ["wait"] => some .wait
  | ["disconnect"] => some .disconnect
  | ["reconnect"] => some .reconnect
  | ["writefail", "on"] => some (.writeFail true)
  | ["writefail", "off"] => some (.writeFail false)
  | ["stop"] => some .stop
  | ["start"] => some .start
  | _ => none

def joinSp : List String → String
  | [] => "-"
  | l => " ".intercalate l

def stepCDisp (st : St) (f : List String) : St × String :=
  match f with
  | ["reset", cap] => (CD.init (cap.toInt?.getD 0), "ok")
  | _ =>
    match parseEv f with
    | none => (st, "bad-op")
    | some e => let (s, o) := CD.step st e; (s, joinSp (o.map showObs))

end Ocpp.Drv
