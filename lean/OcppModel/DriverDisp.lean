import OcppModel.ClientDisp
import OcppModel.ServerDisp
import OcppModel.ServerSpec
import OcppModel.DispSpec
import OcppModel.Endpoint
import OcppModel.Respond

/-! Line-protocol driver for suite `cdisp` (ocppj client + default dispatcher at quiescence). -/
namespace Ocpp.Drv
open Ocpp.CD

def showObs : Obs → String
  | .accepted id => s!"accepted:{id}"
  | .rejected id => s!"rejected:{id}"
  | .wrote id => s!"wrote:{id}"
  | .resp id => s!"resp:{id}"
  | .errResp id => s!"err:{id}"
  | .cancel id t => s!"cancel:{id}:{if t then "timeout" else "write"}"
  | .panic => "PANIC"
  | .blocked => "BLOCKED"
  | .dead => "DEAD"
  | .stopped => "stopped"

def parseEv : List String → Option Ev
  | ["send", id] => some (.send id)
  | ["reply", id, "result"] => some (.reply id false)
  | ["reply", id, "error"] => some (.reply id true)
  | ["wait"] => some .wait
  | ["disconnect"] => some .disconnect
  | ["reconnect"] => some .reconnect
  | ["writefail", "on"] => some (.writeFail true)
  | ["writefail", "off"] => some (.writeFail false)
  | ["stop"] => some .stop
  | ["start"] => some .start
  | _ => none

def joinSp : List String → String
  | [] => "-"
  | l => " ".intercalate l

def stepCDisp (st : St) (f : List String) : St × String :=
  match f with
  | ["reset", cap] => (CD.init (cap.toInt?.getD 0), "ok")
  | ["dsend", id] =>
    -- the application's disconnected handler (runs after `Pause`) sends a request: two events
    let (s1, o1) := CD.step st .disconnect
    let (s2, o2) := CD.step s1 (.send id)
    (s2, joinSp ((o1 ++ o2).map showObs))
  | _ =>
    match parseEv f with
    | none => (st, "bad-op")
    | some e => let (s, o) := CD.step st e; (s, joinSp (o.map showObs))

def showSObs : SD.Obs → String
  | .accepted c id => s!"accepted:{c}:{id}"
  | .rejected c id => s!"rejected:{c}:{id}"
  | .wrote c id => s!"wrote:{c}:{id}"
  | .resp c id => s!"resp:{c}:{id}"
  | .errResp c id => s!"err:{c}:{id}"
  | .cancel c id t => s!"cancel:{c}:{id}:{if t then "timeout" else "write"}"
  | .panic => "PANIC"
  | .blocked => "BLOCKED"
  | .dead => "DEAD"
  | .stopped => "stopped"

def parseSEv : List String → Option SD.Ev
  | ["connect", c] => some (.connect c)
  | ["disconnect", c] => some (.disconnect c)
  | ["send", c, id] => some (.send c id)
  | ["reply", c, id, "result"] => some (.reply c id false)
  | ["reply", c, id, "error"] => some (.reply c id true)
  | ["wait"] => some .wait
  | ["writefail", c, "on"] => some (.writeFail c true)
  | ["writefail", c, "off"] => some (.writeFail c false)
  | ["start"] => some .start
  | ["stop"] => some .stop
  | _ => none

def stepSDisp (st : SD.St) (f : List String) : SD.St × String :=
  match f with
  | ["reset", cap] => (SD.init (cap.toInt?.getD 0), "ok")
  | _ =>
    match parseSEv f with
    | none => (st, "bad-op")
    | some e => let (s, o) := SD.step st e; (s, joinSp (o.map showSObs))

end Ocpp.Drv

/-! Monitor modes: the specification monitors run over a history observed on the **implementation**
    (lines `event fields | observation fields`), reporting the first clause that is violated. -/
namespace Ocpp.Drv

def splitBar (f : List String) : List String × List String :=
  let rec go : List String → List String → List String × List String
    | [], acc => (acc.reverse, [])
    | "|" :: rest, acc => (acc.reverse, rest)
    | x :: rest, acc => go rest (x :: acc)
  go f []

def splitColon (s : String) : List String :=
  (s.toList.foldr (fun c (acc : List (List Char)) =>
    if c == ':' then [] :: acc else match acc with
      | [] => [[c]]
      | h :: t => (c :: h) :: t) [[]]).map String.ofList

def parseObs (s : String) : Option CD.Obs :=
  match splitColon s with
  | ["accepted", id] => some (.accepted id)
  | ["rejected", id] => some (.rejected id)
  | ["wrote", id] => some (.wrote id)
  | ["resp", id] => some (.resp id)
  | ["err", id] => some (.errResp id)
  | ["cancel", id, "timeout"] => some (.cancel id true)
  | ["cancel", id, "write"] => some (.cancel id false)
  | ["PANIC"] => some .panic
  | ["BLOCKED"] => some .blocked
  | ["DEAD"] => some .dead
  | ["stopped"] => some .stopped
  | _ => none

def parseSObs (s : String) : Option SD.Obs :=
  match splitColon s with
  | ["accepted", c, id] => some (.accepted c id)
  | ["rejected", c, id] => some (.rejected c id)
  | ["wrote", c, id] => some (.wrote c id)
  | ["resp", c, id] => some (.resp c id)
  | ["err", c, id] => some (.errResp c id)
  | ["cancel", c, id, "timeout"] => some (.cancel c id true)
  | ["cancel", c, id, "write"] => some (.cancel c id false)
  | ["PANIC"] => some .panic
  | ["BLOCKED"] => some .blocked
  | ["DEAD"] => some .dead
  | ["stopped"] => some .stopped
  | _ => none

def parseObsList {α} (p : String → Option α) (l : List String) : Option (List α) :=
  if l == ["-"] then some [] else l.mapM p

/-- state: `none` = already violated in this session -/
def stepCMon (st : Option CD.Mon) (f : List String) : Option CD.Mon × String :=
  if f.head? == some "reset" then (some {}, "ok") else
    match st with
    | none => (none, "skipped")
    | some m =>
      let (ef, of) := splitBar f
      match ef, parseObsList parseObs of with
      | ["dsend", id], some obs =>
        match CD.Mon.event m .disconnect [] with
        | none => (none, "VIOLATION")
        | some m1 =>
          match CD.Mon.event m1 (.send id) obs with
          | some m' => (some m', "ok")
          | none => (none, "VIOLATION")
      | _, _ =>
      match parseEv ef, parseObsList parseObs of with
      | some e, some obs =>
        match CD.Mon.event m e obs with
        | some m' => (some m', "ok")
        | none => (none, "VIOLATION")
      | _, _ => if of == ["TIMING"] then (none, "skipped") else (some m, "unparsed")

def stepSMon (st : Option SD.SMonSt) (f : List String) : Option SD.SMonSt × String :=
  if f.head? == some "reset" then (some {}, "ok") else
    match st with
    | none => (none, "skipped")
    | some m =>
      let (ef, of) := splitBar f
      match parseSEv ef, parseObsList parseSObs of with
      | some e, some obs =>
        match SD.SMonSt.event m e obs with
        | some m' => (some m', "ok")
        | none => (none, "VIOLATION")
      | _, _ => if of == ["TIMING"] then (none, "skipped") else (some m, "unparsed")

end Ocpp.Drv

namespace Ocpp.Drv
open Ocpp.L3

def showDel : Del → String
  | .accepted c id => s!"accepted:{c}:{id}"
  | .rejected c id => s!"rejected:{c}:{id}"
  | .wrote c id => s!"wrote:{c}:{id}"
  | .deliv cb kind id => s!"deliv:{cb}:{kind}:{id}"
  | .orphan kind id => s!"orphan:{kind}:{id}"
  | .stopped => "stopped"
  | .panic => "PANIC"
  | .blocked => "BLOCKED"
  | .dead => "DEAD"

/-- canonical order inside one event (as in the harness): everything else in order, then deliveries sorted -/
def canonDels (l : List Del) : String :=
  let isD : Del → Bool := fun d => match d with | .deliv _ _ _ => true | .orphan _ _ => true | _ => false
  let pre := l.filter (fun d => match d with | .accepted _ _ => true | .rejected _ _ => true | .stopped => true | _ => false)
  let mid := l.filter (fun d => !isD d && !(match d with | .accepted _ _ => true | .rejected _ _ => true | .stopped => true | _ => false))
  let ds := ((l.filter isD).map showDel).mergeSort (fun a b => decide (a ≤ b))
  joinSp (pre.map showDel ++ mid.map showDel ++ ds)

/-- driver state of suite `l3s`: the endpoint, whether the application's disconnect handler sends a request to the
    client that just went away (mode `appsend`), and the number of `disconnect` operations so far (names that request) -/
structure L3SDrv where
  st : L3.SSt := {}
  appsend : Bool := false
  discOps : Nat := 0

def stepL3S (d : L3SDrv) (f : List String) : L3SDrv × String :=
  match f with
  | "reset" :: cap :: rest => ({ st := { d := SD.init (cap.toInt?.getD 0) }, appsend := rest.getD 1 "" == "appsend" }, "ok")
  | _ =>
    match parseSEv f with
    | none => (d, "bad-op")
    | some e =>
      let (s, o) := L3.sstep d.st e
      match e with
      | .disconnect c =>
        let n := d.discOps + 1
        if d.appsend && (SD.get d.st.d c).connected then
          -- the handler runs after the client was removed: its send is an ordinary send event
          let (s2, o2) := L3.sstep s (.send c s!"hd{c}x{n}")
          ({ d with st := s2, discOps := n }, canonDels (o ++ o2))
        else ({ d with st := s, discOps := n }, canonDels o)
      | _ => ({ d with st := s }, canonDels o)

def stepL3C (st : L3.CSt) (f : List String) : L3.CSt × String :=
  match f with
  | "reset" :: cap :: _ => ({ d := CD.init (cap.toInt?.getD 0) }, "ok")
  | _ =>
    match parseEv f with
    | none => (st, "bad-op")
    | some e => let (s, o) := L3.cstep st e; (s, canonDels o)

end Ocpp.Drv

namespace Ocpp.Drv
open Ocpp.Resp

def flagOf (s : String) : Bool := s.endsWith "=1"

/-- suite `c03`: `a <ver> <role> <feature> known= handler= insw= write= <outcome> [arg]` -/
def stepC03 (f : List String) : String :=
  match f with
  | kind :: ver :: _role :: _feature :: known :: handler :: insw :: write :: outcome :: rest =>
    if kind != "a" && kind != "b" && kind != "c" then "bad-op" else
    let cfg : Cfg := { dialect := if ver == "R16" then .v16 else .v2, known := flagOf known, handlerSet := flagOf handler,
                       inSwitch := flagOf insw, writeOk := flagOf write }
    let arg := (rest.headD "").replace "_" " "
    let out? : Option Outcome := match outcome with
      | "valid" => some .valid
      | "invalid" => some (.invalid arg)
      | "nil" => some .nilResp
      | "error" => some .plainError
      | "ocpperr" => some (.ocppError arg)
      | _ => none
    match out? with
    | none => "bad-op"
    | some out =>
      let (rs, ran) := answer cfg out
      let r := match rs with
        | [] => "none"
        | [.result] => "result"
        | [.error c] => "error:" ++ c.replace " " "_"
        | l => s!"many:{l.length}"
      s!"{r} ran={if ran then 1 else 0} id={if rs.isEmpty then "-" else "ok"}"
  | _ => "bad-op"

end Ocpp.Drv
