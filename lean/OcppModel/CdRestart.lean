/-!
# `ocppj.DefaultClientDispatcher`: Stop, Start and the senders — small-step model of the session protocol

After /repo 82b951e and be75cb6 (`repaired := true`): `Stop` drops the wake-up channel from the struct (`field := none`: `IsRunning`
is false at once) and closes the stop channel of the session; the message pump of a session works on the channels it was
started with and leaves when its stop channel is closed, resetting the queue on its way out; `Start` waits until the pump
of the previous session has gone. A sender checks `IsRunning` (ocppj.Client), then - one step under the dispatcher's read lock - checks again,
pushes and posts its wake-up on the channel the field holds (a stopped dispatcher refuses the request).

`repaired := false` is the code before: `Stop` *closed* the wake-up channel and left it in the field; the pump reacted
later by resetting the queue and the field; `Start` did not wait; `SendRequest` pushed whatever the state. Kept to state the two defects as theorems.

Sessions are numbered; a wake-up channel is identified with the session it was made for.
-/
namespace Ocpp.CdRestart

structure St where
  repaired : Bool := true
  field    : Option Nat := none     -- d.requestChannel
  closedCh : List Nat := []         -- wake-up channels that were closed (old code only)
  stopSig  : List Nat := []         -- sessions whose stop channel is closed
  live     : List Nat := []         -- sessions whose message pump is still running
  serving  : List (Nat × Nat) := [] -- (pump of session k, listens on the wake-up channel of session c)
  next     : Nat := 0
  senders  : Nat := 0               -- senders past the IsRunning check, before their wake-up
  panicked : Bool := false          -- a send on a closed channel
  wiped    : Bool := false          -- a leaving pump reset the queue / the field of a session that is running
  latePush : Bool := false          -- a request was pushed into the queue while the dispatcher was stopped (it survives into the next session)
deriving Repr, DecidableEq

inductive Label where
  | start | stop
  | sendCheck | sendWake
  | pumpLoop (k : Nat)              -- old code: the pump of session k re-reads the field for its next select
  | pumpExit (k : Nat)
deriving Repr, DecidableEq

def step (s : St) : Label → Option St
  | .start =>
    if s.repaired then
      -- Start waits for the pump of the previous session
      if s.field.isNone && s.live.isEmpty then
        some { s with field := some s.next, live := [s.next], serving := [(s.next, s.next)], next := s.next + 1 }
      else none
    else
      -- the old Start does not look at anything
      some { s with field := some s.next, live := s.next :: s.live, serving := (s.next, s.next) :: s.serving, next := s.next + 1 }
  | .stop =>
    match s.field with
    | none => none
    | some k =>
      if s.repaired then some { s with field := none, stopSig := k :: s.stopSig }
      else if s.closedCh.contains k then none        -- (a second close would panic: not modelled)
      else some { s with closedCh := k :: s.closedCh }
  | .sendCheck => if s.field.isSome then some { s with senders := s.senders + 1 } else none
  | .sendWake =>
    -- `DefaultClientDispatcher.SendRequest`: since be75cb6 running check, push and wake-up are one step under the read lock,
    -- and a stopped dispatcher refuses; before, the push happened whatever the state
    if s.senders > 0 then
      match s.field with
      | some c => some { s with senders := s.senders - 1, panicked := s.panicked || s.closedCh.contains c }
      | none => some { s with senders := s.senders - 1, latePush := s.latePush || !s.repaired }
    else none
  | .pumpLoop k =>
    -- old code only: `reqChan()` returns the current field; a pump that was busy meanwhile now listens on the new channel
    if !s.repaired && s.live.contains k then
      match s.field with
      | some c => some { s with serving := (k, c) :: s.serving.filter (fun p => p.1 != k) }
      | none => none
    else none
  | .pumpExit k =>
    if !s.live.contains k then none
    else if s.repaired then
      if s.stopSig.contains k then
        some { s with live := s.live.erase k, serving := s.serving.filter (fun p => p.1 != k), wiped := s.wiped || s.field.isSome }
      else none
    else
      -- the old pump leaves when the channel it listens on is closed, then resets queue and field
      match s.serving.find? (fun p => p.1 == k) with
      | some (_, c) =>
        if s.closedCh.contains c then
          some { s with live := s.live.erase k, serving := s.serving.filter (fun p => p.1 != k),
                        wiped := s.wiped || (match s.field with | some f => f != c | none => false), field := none }
        else none
      | none => none

def runL (s : St) : List Label → Option St
  | [] => some s
  | l :: ls => match step s l with
    | none => none
    | some s' => runL s' ls

end Ocpp.CdRestart
