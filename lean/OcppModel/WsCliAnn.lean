/-!
# `ws.client`: the order of the reconnected / disconnected notifications of successive connections (small-step model)

After /repo 516d27f. Connection `k` is dialled by the reconnection routine (or by `Start` for `k = 0`, which announces
nothing); its pumps run at once; the routine then invokes the reconnected handler (`annBegin k` … `annEnd k`). The
connection can be lost at any moment after its pumps run; its teardown waits for the announcement (`announce.Wait()`),
then invokes the disconnected handler (`disc k`) and, from inside it, runs the reconnection routine for connection `k+1`.
`waitAnn := false` is the code before (the teardown does not wait).
-/
namespace Ocpp.WsCliAnn

inductive Phase where
  | announcing          -- pumps run, the reconnected handler has not returned yet
  | up                  -- announced
deriving Repr, DecidableEq

inductive Ev where
  | annBegin (k : Nat) | annEnd (k : Nat) | disc (k : Nat)
deriving Repr, DecidableEq

structure St where
  waitAnn : Bool := true
  k       : Nat := 0                    -- current connection
  phase   : Phase := .up                -- connection 0 is made by Start: nothing to announce
  began   : Bool := true                -- the reconnected handler of the current connection was entered
  lost    : Bool := false               -- the current connection is lost, its teardown has not reported yet
  log     : List Ev := []
deriving Repr, DecidableEq

inductive Label where
  | annBegin | annEnd | lose | report
deriving Repr, DecidableEq

def step (s : St) : Label → Option St
  | .annBegin => if s.phase == .announcing && !s.began then some { s with began := true, log := s.log ++ [.annBegin s.k] } else none
  | .annEnd => if s.phase == .announcing && s.began then some { s with phase := .up, log := s.log ++ [.annEnd s.k] } else none
  | .lose => if !s.lost then some { s with lost := true } else none
  | .report =>
    -- the teardown reports the loss and the reconnection routine (running inside the disconnected handler) dials the next
    -- connection; with the repair it first waits for the announcement of the lost connection
    if s.lost && (!s.waitAnn || s.phase == .up) then
      some { s with k := s.k + 1, phase := .announcing, began := false, lost := false, log := s.log ++ [.disc s.k] }
    else none

def runL (s : St) : List Label → Option St
  | [] => some s
  | l :: ls => match step s l with
    | none => none
    | some s' => runL s' ls

/-- the order automaton: state = (current connection, 0 = to be announced | 1 = announcement running | 2 = announced);
    `disc k` is accepted only when connection `k` is announced, `annBegin (k+1)` only after `disc k` -/
def ordStep : Option (Nat × Nat) → Ev → Option (Nat × Nat)
  | some (cur, 0), .annBegin k => if k = cur then some (cur, 1) else none
  | some (cur, 1), .annEnd k => if k = cur then some (cur, 2) else none
  | some (cur, 2), .disc k => if k = cur then some (cur + 1, 0) else none
  | _, _ => none

/-- connection 0 is made by `Start`: it counts as announced -/
def ordOf (log : List Ev) : Option (Nat × Nat) := log.foldl ordStep (some (0, 2))

end Ocpp.WsCliAnn
