import OcppModel.Json
import OcppModel.Respond
import OcppModel.ClientDisp
import OcppModel.ServerDisp

/-!
# OCPP-J framing on the receive path: `ParseMessage` and the reject branch of `ocppMessageHandler`

`classify` is a total function of the decoded JSON value, the pending id of that connection and an environment
describing the payload level (which actions are known; the verdict of typed decoding + validation of a payload —
that level is C04/C05's subject and enters here as a parameter). Every Go statement that could panic has a
guard in the code; where the guard is in this model it is a branch, where it is not (the `raw == nil` guards of
`parseRawJsonRequest/Confirmation`, the non-nil profile of a pending request) it is pinned by the T3 fingerprints.
-/
namespace Ocpp.OJ
open Ocpp.Resp (Dialect)

inductive Verdict where
  | ok
  | format                 -- typed decoding failed (wrong JSON type)
  | invalid (tag : String) -- first validation failure
deriving Repr, DecidableEq

structure Env where
  dialect     : Dialect
  known       : String → Bool
  reqVerdict  : String → J → Verdict    -- action, payload
  respVerdict : J → Verdict             -- payload, for the pending request's feature

inductive Outcome where
  | notJson                           -- `ParseRawJsonMessage` failed (invalid JSON or not an array): error returned, nothing else
  | dropNoId                          -- rejected; no unique id to answer to
  | dropLongId                        -- rejected; the id is longer than 36 characters, the CALL_ERROR itself is invalid
  | ignore                            -- CALL_RESULT / CALL_ERROR for an id that is not pending: discarded silently
  | replyError (id code : String)     -- rejected with a CALL_ERROR carrying this id
  | call (id action : String)         -- handed to the request handler
  | result (id : String)              -- CompleteRequest(id), response handler
  | error (id : String)               -- CompleteRequest(id), error handler
deriving Repr, DecidableEq

def formatCode : Dialect → String
  | .v16 => "FormationViolation"
  | .v2 => "FormatViolation"

/-- `SendError(id, code)` can only produce a frame if the id passes `validate:"required,max=36"` -/
def reject (id code : String) : Outcome :=
  if id.length > 36 then .dropLongId else .replyError id code

def verdictOutcome (d : Dialect) (id : String) (v : Verdict) (ok : Outcome) : Outcome :=
  if id.length > 36 then .dropLongId      -- `UniqueId` (max=36) is validated before the payload
  else match v with
    | .ok => ok
    | .format => reject id (formatCode d)
    | .invalid tag => reject id (Resp.codeOfTag d tag)

def classify (env : Env) (pendId : String) (frame : Option J) : Outcome :=
  match frame with
  | some (.arr l) =>
    match l with
    | t0 :: t1 :: t2 :: rest =>
      match t0 with
      | .num typeId _ =>
        match t1 with
        | .str id =>
          if id == "" then .dropNoId
          else if typeId == 2 then
            match rest with
            | [payload] =>
              match t2 with
              | .str action =>
                if !env.known action then reject id "NotSupported"
                else verdictOutcome env.dialect id (env.reqVerdict action payload) (.call id action)
              | _ => reject id (formatCode env.dialect)
            | _ => reject id (formatCode env.dialect)                -- "Expected array length 4"
          else if typeId == 3 then
            if !CD.pendHit pendId id then .ignore
            else verdictOutcome env.dialect id (env.respVerdict t2) (.result id)
          else if typeId == 4 then
            if !CD.pendHit pendId id then .ignore
            else match rest with
              | [] => reject id (formatCode env.dialect)             -- "Expected array length >= 4"
              | _ :: _ =>
                match t2 with
                | .str code =>
                  if id.length > 36 then .dropLongId
                  else if Gen.Guards.isErrorCodeValid code then .error id
                  else reject id (Resp.codeOfTag env.dialect "errorCode")
                | _ => .dropNoId                                     -- the error carries the empty `rawErrorCode` as id
          else reject id "MessageTypeNotSupported"
        | _ => .dropNoId
      | _ => .dropNoId
    | _ => .dropNoId                                                   -- "Expected array length >= 3"
  | some .null => .dropNoId                                            -- `null` decodes to a nil slice
  | _ => .notJson

/-- does the frame change the dispatcher state (queue / pending id)? only a matching result or error does -/
def Outcome.completes : Outcome → Option String
  | .result id => some id
  | .error id => some id
  | _ => none

def Outcome.reply : Outcome → Option (String × String)
  | .replyError id code => some (id, code)
  | _ => none

end Ocpp.OJ

/-! ## the receive path composed with the dispatcher models -/
namespace Ocpp.OJ

/-- what one incoming frame makes an endpoint do -/
inductive Out where
  | parseError                        -- the message handler returns an error to the websocket layer (which logs it)
  | reply (id code : String)          -- a CALL_ERROR frame written back
  | call (id action : String)         -- request handler invoked
  | cdisp (o : CD.Obs)                -- client dispatcher / handlers (response handler, error handler, next write…)
  | sdisp (o : SD.Obs)
deriving Repr, DecidableEq

def outsOf : Outcome → List Out
  | .notJson => [.parseError]
  | .dropNoId => [.parseError]
  | .dropLongId => [.parseError]
  | .ignore => []
  | .replyError id code => [.reply id code, .parseError]
  | .call id action => [.call id action]
  | .result _ => []
  | .error _ => []

/-- `Client.ocppMessageHandler` -/
def recvC (env : Env) (s : CD.St) (frame : Option J) : CD.St × List Out :=
  let o := classify env s.pend frame
  match o with
  | .result id => let (s', obs) := CD.step s (.reply id false); (s', obs.map .cdisp)
  | .error id => let (s', obs) := CD.step s (.reply id true); (s', obs.map .cdisp)
  | _ => (s, outsOf o)

/-- `Server.ocppMessageHandler` for a frame from client `c` -/
def recvS (env : Env) (s : SD.St) (c : String) (frame : Option J) : SD.St × List Out :=
  let o := classify env (SD.get s c).pend frame
  match o with
  | .result id => let (s', obs) := SD.step s (.reply c id false); (s', obs.map .sdisp)
  | .error id => let (s', obs) := SD.step s (.reply c id true); (s', obs.map .sdisp)
  | _ => (s, outsOf o)

end Ocpp.OJ
