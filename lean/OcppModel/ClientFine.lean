/-!
# `ocppj.DefaultClientDispatcher` below quiescence: small-step interleaving model of the signalling protocol

Threads: the message pump, the reader (responses), any number of senders (`SendRequest`: queue push, then the wake-up
token), and the link (`Pause` / `Resume` from the websocket callbacks). One label = one synchronisation operation of the
Go code after the repairs 24212cd (ready token posted without blocking: a flag), 7ab8ff9 (wake-up token posted without
blocking), 8a7b510 (`CompleteRequest`: look at the head, compare, pop, delete the pending id = one step under the
completion mutex; the ready token is posted afterwards, outside it), b34c7b4 (the timer branch only times out the head of
the queue if it is the pending request) and d6325cc (dispatch only while nothing is pending).

`pendFirst := true` is the order of the dispatch guard in the code (`rdy`, then *pending*, then *queue empty*);
`pendFirst := false` is the order d6325cc first had (`rdy`, queue empty, pending): kept to state its defect as a theorem
(`old_guard_order_crashes` in `OcppProps/C07Fine.lean`).

Abstractions: time (an expiry can be taken whenever the pump is parked), payloads, `Stop`. Request ids are `Nat`s.
-/
namespace Ocpp.ClientFine

inductive Pump where
  | sel (r : Bool)                 -- parked at the select, local `rdy = r`
  | chk1 (r : Bool)                -- an event was handled; next: `IsPaused()`
  | chk2 (r : Bool)                -- next: first test of the dispatch guard (after `rdy`)
  | chk3 (r : Bool)                -- next: second test of the dispatch guard
  | disp                           -- `dispatchNextRequest`: next `Peek` + `AddPendingRequest`
  | writing (id : Nat)             -- inside `network.Write`
  | wfail (id : Nat)               -- the write failed: next `CompleteRequest`
  | wcb (id : Nat)                 -- next: the cancel callback (write failure), then `rdy = false`
  | tmo1 (r : Bool)                -- timer branch: next `HasPendingRequest()`
  | tmo2 (r : Bool)                -- next: `Peek` + `GetPendingRequest(head)`
  | tmo3 (r : Bool) (h : Nat)      -- next: `CompleteRequest(h)`
  | tcb (r : Bool) (h : Nat)       -- next: the cancel callback (time-out), then the timer is re-armed
deriving Repr, DecidableEq, Hashable

inductive Reader where
  | idle
  | got (id : Nat)                 -- a CALL_RESULT / CALL_ERROR with this id was read: next the pending check
  | compl (id : Nat)               -- pending check passed: next `CompleteRequest(id)` (atomic part)
  | sig (id : Nat)                 -- popped and deleted: next post the ready token
  | handler (id : Nat)             -- next: the response handler
deriving Repr, DecidableEq, Hashable

inductive Link where
  | idle
  | resuming                       -- `Resume`: `paused = false` done, next `HasPendingRequest()` + token / timer
deriving Repr, DecidableEq, Hashable

structure St where
  pendFirst : Bool := true
  q      : List Nat := []          -- request queue, head first
  pend   : Option Nat := none      -- pending request state
  ready  : Bool := false           -- token in `readyForDispatch` (capacity 1)
  wake   : Bool := false           -- token in `requestChannel` (capacity 1)
  paused : Bool := false
  pump   : Pump := .sel true
  reader : Reader := .idle
  link   : Link := .idle
  mid    : Nat := 0                -- senders between their queue push and their wake-up token
  used   : List Nat := []          -- ghost: every id ever pushed (ids are fresh: A-ID)
  wire   : List Nat := []          -- ghost: CALLs written, in order
  crash  : Bool := false           -- `Peek` returned nil and the bundle was dereferenced
deriving Repr, DecidableEq, Hashable

inductive Label where
  | push (id : Nat)                -- a sender's `requestQueue.Push`
  | wakeup                         -- a sender's non-blocking wake-up token
  | takeWake | takeReady | expire  -- the pump's select
  | pstep                          -- the pump's next internal step
  | writeOk | writeFail            -- outcome of `network.Write`
  | reply (id : Nat)               -- the reader reads a reply
  | rstep                          -- the reader's next step
  | pause | resume | lstep         -- the link
deriving Repr, DecidableEq

/-- `CompleteRequest(id)`: one step under the completion mutex -/
def complete (s : St) (id : Nat) : St × Bool :=
  match s.q with
  | h :: t => if h == id then ({ s with q := t, pend := if s.pend == some id then none else s.pend }, true) else (s, false)
  | [] => (s, false)

def step (s : St) : Label → Option St
  | .push id => if id ∈ s.used then none else some { s with q := s.q ++ [id], used := id :: s.used, mid := s.mid + 1 }
  | .wakeup => if s.mid > 0 then some { s with mid := s.mid - 1, wake := true } else none
  | .takeWake =>
    match s.pump with
    | .sel r => if s.wake then some { s with wake := false, pump := .chk1 r } else none
    | _ => none
  | .takeReady =>
    match s.pump with
    | .sel _ => if s.ready then some { s with ready := false, pump := .chk1 true } else none
    | _ => none
  | .expire =>
    match s.pump with
    | .sel r => some { s with pump := .tmo1 r }
    | _ => none
  | .pstep =>
    match s.pump with
    | .sel _ => none
    | .chk1 r => some { s with pump := if s.paused then .sel r else .chk2 r }
    | .chk2 r =>
      if !r then some { s with pump := .sel r }                       -- `rdy &&` short-circuits
      else if s.pendFirst then some { s with pump := if s.pend.isNone then .chk3 r else .sel r }
      else some { s with pump := if !s.q.isEmpty then .chk3 r else .sel r }
    | .chk3 r =>
      if s.pendFirst then some { s with pump := if !s.q.isEmpty then .disp else .sel r }
      else some { s with pump := if s.pend.isNone then .disp else .sel r }
    | .disp =>
      match s.q with
      | h :: _ => some { s with pend := if s.pend.isNone then some h else s.pend, pump := .writing h }
      | [] => some { s with crash := true }                           -- nil bundle dereferenced
    | .writing _ => none
    | .wfail id => some { (complete s id).1 with ready := (complete s id).2 || s.ready, pump := .wcb id }
    | .wcb _ => some { s with pump := .sel false }
    | .tmo1 r => some { s with pump := if s.pend.isSome then .tmo2 r else .chk1 r }
    | .tmo2 r =>
      match s.q with
      | h :: _ => some { s with pump := if s.pend == some h then .tmo3 r h else .chk1 r }
      | [] => some { s with pump := .chk1 r }
    | .tmo3 r h => some { (complete s h).1 with ready := (complete s h).2 || s.ready, pump := .tcb r h }
    | .tcb r _ => some { s with pump := .chk1 r }
  | .writeOk =>
    match s.pump with
    | .writing id => some { s with wire := s.wire ++ [id], pump := .sel false }
    | _ => none
  | .writeFail =>
    match s.pump with
    | .writing id => some { s with pump := .wfail id }
    | _ => none
  | .reply id =>
    match s.reader with
    | .idle => some { s with reader := .got id }
    | _ => none
  | .rstep =>
    match s.reader with
    | .idle => none
    | .got id => some { s with reader := if s.pend == some id then .compl id else .idle }
    | .compl id => some { (complete s id).1 with reader := if (complete s id).2 then .sig id else .handler id }
    | .sig id => some { s with ready := true, reader := .handler id }
    | .handler _ => some { s with reader := .idle }
  | .pause => if s.link == .idle then some { s with paused := true } else none
  | .resume => if s.link == .idle then some { s with paused := false, link := .resuming } else none
  | .lstep =>
    match s.link with
    | .idle => none
    | .resuming => some { s with ready := s.pend.isNone || s.ready, link := .idle }

/-- what the instrumented implementation logs (injected queue, fake websocket, handlers), per step -/
inductive Vis where
  | push (id : Nat) | wrote (id : Nat) | pop (id : Nat) | resp (id : Nat)
  | cancelTimeout (id : Nat) | cancelWrite (id : Nat) | disconnect | connect
deriving Repr, DecidableEq

/-- the log line a step produces (at most one) -/
def vis (s : St) : Label → Option Vis
  | .push id => some (.push id)
  | .writeOk => match s.pump with
    | .writing id => some (.wrote id)
    | _ => none
  | .pstep => match s.pump with
    | .wfail id => if (complete s id).2 then some (.pop id) else none
    | .tmo3 _ h => if (complete s h).2 then some (.pop h) else none
    | .wcb id => some (.cancelWrite id)
    | .tcb _ h => some (.cancelTimeout h)
    | _ => none
  | .rstep => match s.reader with
    | .compl id => if (complete s id).2 then some (.pop id) else none
    | .handler id => some (.resp id)
    | _ => none
  | .pause => some .disconnect
  | .resume => some .connect
  | _ => none

def runL (s : St) : List Label → Option St
  | [] => some s
  | l :: ls => match step s l with
    | none => none
    | some s' => runL s' ls

end Ocpp.ClientFine
