/-!
# Lock discipline ⇒ no data race (C19)

An abstract machine of threads, reader/writer locks and two-phase memory accesses (`begin` … `end`, so that two
accesses can overlap). `Disc`: every access to a location is made while holding the location's guard, in write mode for
writes. A data race = a reachable state in which two different threads are inside accesses to the same location and
at least one of them writes.
-/
namespace Ocpp.LS

abbrev Thread := Nat
abbrev Lock := Nat
abbrev Loc := Nat

structure Acc where
  t : Thread
  loc : Loc
  write : Bool
deriving Repr, DecidableEq

structure St where
  held : List (Lock × Thread × Bool)   -- (lock, holder, write mode)
  inAcc : List Acc                     -- accesses in progress
deriving Repr

inductive Ev where
  | acquire (t : Thread) (l : Lock) (w : Bool)
  | release (t : Thread) (l : Lock)
  | begin (a : Acc)
  | finish (a : Acc)
deriving Repr

def holds (s : St) (t : Thread) (l : Lock) (needWrite : Bool) : Bool :=
  s.held.any (fun h => h.1 == l && h.2.1 == t && (h.2.2 || !needWrite))

/-- sync.RWMutex: a write lock needs the lock free, a read lock needs it free of writers -/
def canAcquire (s : St) (l : Lock) (w : Bool) : Bool :=
  if w then s.held.all (fun h => h.1 != l) else s.held.all (fun h => !(h.1 == l && h.2.2))

/-- one step; `guard` maps a location to the lock that protects it. `none` = the step is not possible; a thread does not
    release a lock while it is inside an access guarded by it (accesses are inside the critical section: discipline) -/
def step (guard : Loc → Lock) (s : St) : Ev → Option St
  | .acquire t l w => if canAcquire s l w then some { s with held := (l, t, w) :: s.held } else none
  | .release t l =>
    if s.inAcc.any (fun a => a.t == t && guard a.loc == l) then none
    else some { s with held := s.held.filter (fun h => !(h.1 == l && h.2.1 == t)) }
  | .begin a => if holds s a.t (guard a.loc) a.write then some { s with inAcc := a :: s.inAcc } else none
  | .finish a => some { s with inAcc := s.inAcc.erase a }

def run (guard : Loc → Lock) (s : St) : List Ev → Option St
  | [] => some s
  | e :: es => match step guard s e with
    | none => none
    | some s' => run guard s' es

def race (s : St) : Prop :=
  ∃ a ∈ s.inAcc, ∃ b ∈ s.inAcc, a.t ≠ b.t ∧ a.loc = b.loc ∧ (a.write = true ∨ b.write = true)

end Ocpp.LS
