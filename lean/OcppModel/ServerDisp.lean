import OcppGen.Guards
import OcppGen.Constants
import OcppModel.ClientDisp

/-!
# `ocppj.Server` + `DefaultServerDispatcher` — quiescent ("Coarse") semantics

One environment event is delivered, then the pump goroutine, the reader and the timeout goroutines run to
quiescence (correspondence harness H3 `sdisp`, fake `ws.Server`). Per client the state is a record `Cl`
holding what the Go code keeps in four places: the queue map entry, the pending-request state entry, the
pump-local context map entry, the fake socket. The pump-local variables that **persist across iterations**
(`rdy`, `clientQueue`) are part of the state (DESIGN.md Appendix A.2): they are the ones a timer event does
not refresh.

Guards are the regenerated `Gen.Guards.*`; the queue/pending containers are lists/ids as justified by C12.
`wait` = more than the timeout elapses: every armed timeout fires, in arming order, each handled to
quiescence before the next (the harness keeps arming times apart).
-/

namespace Ocpp.SD
open Ocpp.CD (pendAdd pendHit pendDel pendHas)

inductive Ev where
  | connect (c : String)
  | disconnect (c : String)
  | send (c : String) (id : String)
  | reply (c : String) (id : String) (isErr : Bool)
  | wait
  | writeFail (c : String) (b : Bool)
  | start
  | stop
deriving Repr, DecidableEq

inductive Obs where
  | accepted (c id : String)
  | rejected (c id : String)
  | wrote (c id : String)
  | resp (c id : String)
  | errResp (c id : String)
  | cancel (c id : String) (timedOut : Bool)
  | panic
  | blocked
  | dead
  | stopped
deriving Repr, DecidableEq

/-- everything the server keeps about one client id -/
structure Cl where
  connected  : Bool := false          -- fake ws: socket open
  writeFails : Bool := false
  hasQ       : Bool := false          -- queueMap has an entry
  q          : List String := []
  pend       : String := ""           -- pending-request state ("" also when the entry is absent)
  ctx        : Nat := 0               -- pump's clientContextMap: 0 absent, 1 present & inactive, 2 active
deriving Repr, DecidableEq

structure St where
  running : Bool := false
  cap     : Int := 0
  cls     : List (String × Cl) := []
  rdy     : Bool := false             -- pump-local, persistent
  cq      : Option String := none     -- pump-local `clientQueue`: whose queue it points to
  timers  : List String := []         -- armed timeout goroutines, in arming order
  dead    : Bool := false
deriving Repr, DecidableEq

def init (cap : Int) : St := { cap := cap }

def get (s : St) (c : String) : Cl :=
  match s.cls.find? (fun p => p.1 == c) with
  | some p => p.2
  | none => {}

def setCl : List (String × Cl) → String → Cl → List (String × Cl)
  | [], c, v => [(c, v)]
  | (k, w) :: rest, c, v => if k == c then (k, v) :: rest else (k, w) :: setCl rest c v

def set (s : St) (c : String) (v : Cl) : St := { s with cls := setCl s.cls c v }

/-- `CompleteRequest(c, id)`; the Boolean says whether a ready token for `c` was put -/
def complete (s : St) (c id : String) : St × Bool :=
  let cl := get s c
  if !cl.hasQ then (s, false)                                   -- "no matching queue found"
  else match cl.q with
    | [] => (s, false)                                          -- "queue is empty"
    | h :: rest =>
      if Gen.Guards.serverCompleteMismatch h id then (s, false)
      else (set s c { cl with q := rest, pend := pendDel cl.pend id }, true)

/-- pump: `dispatchNextRequest(c)` followed by the bookkeeping after it; returns whether a ready token was put -/
def dispatch (s : St) (c : String) : St × List Obs × Bool :=
  let cl := get s c
  if !cl.hasQ then
    -- "no request queue available": returns the zero context
    ({ set s c { cl with ctx := 1 } with rdy := false }, [], false)
  else match cl.q with
    | [] => ({ s with dead := true }, [.panic], false)          -- `bundle.Call` is nil
    | h :: _ =>
      let cl1 := { cl with pend := pendAdd cl.pend h }
      let s1 := set s c cl1
      if cl1.connected && !cl1.writeFails then
        ({ set s1 c { cl1 with ctx := 2 } with rdy := false, timers := s1.timers ++ [c] }, [.wrote c h], false)
      else
        let (s2, tok) := complete s1 c h
        let cl2 := get s2 c
        ({ set s2 c { cl2 with ctx := 1 } with rdy := false }, [.cancel c h false], tok)

def cancelTimer (s : St) (c : String) : St := { s with timers := s.timers.filter (· != c) }

/-- the check at the end of every pump iteration, with the **current** (possibly stale) `rdy` / `clientQueue`
    and the `clientID` of this iteration; then the `readyForDispatch` events it causes. `fuel` bounds the
    number of consecutive write failures. -/
def pumpTail : Nat → St → String → St × List Obs
  | 0, s, _ => (s, [])
  | fuel + 1, s, clientID =>
    let qNonEmpty := match s.cq with
      | none => false
      | some x => !(get s x).q.isEmpty
    if s.rdy && qNonEmpty then
      let (s1, obs, tok) := dispatch s clientID
      if s1.dead then (s1, obs)
      else if tok then
        -- case clientID = <-readyForDispatch
        let cl := get s1 clientID
        let s2 := if cl.ctx == 2 then cancelTimer (set s1 clientID { cl with ctx := 1 }) clientID else s1
        let s3 := if (get s2 clientID).hasQ then { s2 with cq := some clientID, rdy := true } else { s2 with cq := none }
        let (s4, obs2) := pumpTail fuel s3 clientID
        (s4, obs ++ obs2)
      else (s1, obs)
    else (s, [])

/-- `case clientID = <-d.readyForDispatch` and what follows -/
def onReady (s : St) (c : String) : St × List Obs :=
  let cl := get s c
  let s1 := if cl.ctx == 2 then cancelTimer (set s c { cl with ctx := 1 }) c else s
  let s2 := if (get s1 c).hasQ then { s1 with cq := some c, rdy := true } else { s1 with cq := none }
  pumpTail ((get s2 c).q.length + 1) s2 c

/-- one timeout goroutine fires for client `c` -/
def onTimer (s : St) (c : String) : St × List Obs :=
  let cl := get s c
  let s1 := if cl.ctx == 2 then set s c { cl with ctx := 1 } else s
  let s1 := cancelTimer s1 c
  let cl1 := get s1 c
  if pendHas cl1.pend then
    if !cl1.hasQ then (s1, [])                                  -- "no request queue found": continue
    else match cl1.q with
      | [] => (s1, [])                                          -- "no pending request found": continue
      | h :: _ =>
        let (s2, tok) := complete s1 c h
        -- cancel callback; the tail of this iteration dispatches nothing (rdy / clientQueue are reset at the top of every
        -- iteration and the timer branch sets neither); the completion's ready token is handled next
        let (s4, obs4) := if tok then onReady s2 c else (s2, [])
        (s4, .cancel c h true :: obs4)
  else
    (s1, [])

def fireAll : List String → St → St × List Obs
  | [], s => (s, [])
  | c :: rest, s =>
    if s.dead then (s, []) else
    -- a timer cancelled meanwhile does not fire
    if s.timers.contains c then
      let (s1, o1) := onTimer s c
      let (s2, o2) := fireAll rest s1
      (s2, o1 ++ o2)
    else fireAll rest s

def step (s : St) (e : Ev) : St × List Obs :=
  if s.dead then (s, [.dead]) else
  match e with
  | .connect c =>
    let cl := get s c
    -- CreateClient: GetOrCreate only while running
    if s.running then (set s c { cl with connected := true, hasQ := true }, [])
    else (set s c { cl with connected := true }, [])
  | .disconnect c =>
    let cl := get s c
    if !cl.connected then (s, []) else
    -- DeleteClient: queueMap.Remove; (running) requestChannel <- c; then ClearClientPendingRequest
    let cl1 := { cl with connected := false, hasQ := false, q := [], pend := "" }
    if s.running then
      -- pump: no queue -> delete and cancel the context, `continue`; clientQueue := nil
      ({ cancelTimer (set s c { cl1 with ctx := 0 }) c with cq := none }, [])
    else (set s c cl1, [])
  | .send c id =>
    let cl := get s c
    if !s.running then (s, [.rejected c id])
    else if !cl.hasQ then (s, [.rejected c id])
    else if Gen.Guards.queuePushRejects cl.q.length s.cap then (s, [.rejected c id])
    else
      let s1 := set s c { cl with q := cl.q ++ [id] }
      -- pump: case clientID = <-requestChannel
      let s2 := { s1 with cq := some c, rdy := if cl.ctx == 0 then true else !Gen.Guards.ctxIsActive (cl.ctx != 2) }
      let (s3, obs) := pumpTail (cl.q.length + 2) s2 c
      (s3, .accepted c id :: obs)
  | .reply c id isErr =>
    let cl := get s c
    if !pendHit cl.pend id then (s, [])
    else
      let (s1, tok) := complete s c id
      let h := if isErr then Obs.errResp c id else Obs.resp c id
      if s1.running && tok then
        let (s2, obs) := onReady s1 c
        (s2, h :: obs)
      else (s1, [h])
  | .wait =>
    if !s.running then (s, []) else fireAll s.timers s
  | .writeFail c b => (set s c { get s c with writeFails := b }, [])
  | .start =>
    if s.running then (s, []) else ({ s with running := true, rdy := false, cq := none, timers := [] }, [])
  | .stop =>
    if !s.running then (s, [])
    else
      -- dispatcher.Stop; pump: queueMap.Init, exits; timeout goroutines exit; ws server closes every socket:
      -- DeleteClient (not running any more) + ClearClientPendingRequest for each
      ({ s with running := false, timers := [],
                cls := s.cls.map (fun p => (p.1, { p.2 with connected := false, hasQ := false, q := [], pend := "", ctx := 0 })) },
       [.stopped])

end Ocpp.SD
