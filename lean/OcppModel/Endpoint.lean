import OcppModel.ServerSpec
import OcppModel.DispSpec

/-!
# Protocol layer (`ocpp1.6`, `ocpp2.0.1`): callbacks matched to conclusions **by arrival order**

The charge point / charging station keeps one list of callbacks (key `"main"`), the central system / CSMS one
list per client id. `SendRequestAsync` appends the callback *before* handing the request to the ocppj layer
(`TryQueue`, under the callback mutex) and pops it again if the send is rejected. Every ocppj-level conclusion
(response, error, cancellation) dequeues the **oldest** callback of that connection and invokes it. A client
disconnect (server roles) invokes all callbacks of that client with an error; `Stop` of a client role drops the
callbacks silently.

This layer is a function of the ocppj-level observable history only (`onObs`), so the theorem about it
(C01 `own_callback`) assumes of the layer below nothing but its specification (`SMon` / `Mon`).
Callback identities are modelled by tagging each callback with the id of the request it was passed with.
-/

namespace Ocpp.L3

inductive Del where
  | accepted (c id : String)
  | rejected (c id : String)
  | wrote (c id : String)
  | deliv (cb kind id : String)     -- callback `cb` invoked with conclusion `kind` (resp err timeout write disc) of request `id`
  | orphan (kind id : String)       -- a conclusion arrived with no callback queued (reported on the Errors() channel)
  | stopped | panic | blocked | dead
deriving Repr, DecidableEq

abbrev Cbq := List (String × List String)

def cbGet (m : Cbq) (c : String) : List String :=
  match m.find? (fun p => p.1 == c) with
  | some p => p.2
  | none => []

def cbSet : Cbq → String → List String → Cbq
  | [], c, v => [(c, v)]
  | (k, w) :: rest, c, v => if k == c then (k, v) :: rest else (k, w) :: cbSet rest c v

def conclude (m : Cbq) (c kind id : String) : Cbq × List Del :=
  match cbGet m c with
  | [] => (m, [.orphan kind id])
  | cb :: rest => (cbSet m c rest, [.deliv cb kind id])

/-- effect of one ocppj-level observation of a server endpoint on the callback lists -/
def onSObs (m : Cbq) : SD.Obs → Cbq × List Del
  | .accepted c id => (m, [.accepted c id])
  | .rejected c id => (cbSet m c (cbGet m c).dropLast, [.rejected c id])   -- TryQueue rolls back
  | .wrote c id => (m, [.wrote c id])
  | .resp c id => conclude m c "resp" id
  | .errResp c id => conclude m c "err" id
  | .cancel c id true => conclude m c "timeout" id
  | .cancel c id false => conclude m c "write" id
  | .stopped => (m, [.stopped])
  | .panic => (m, [.panic])
  | .blocked => (m, [.blocked])
  | .dead => (m, [.dead])

def foldS (m : Cbq) : List SD.Obs → Cbq × List Del
  | [] => (m, [])
  | o :: os =>
    let (m1, d1) := onSObs m o
    let (m2, d2) := foldS m1 os
    (m2, d1 ++ d2)

def drain (m : Cbq) (c : String) : Cbq × List Del :=
  (cbSet m c [], (cbGet m c).map (fun cb => Del.deliv cb "disc" ""))

def drainAll (m : Cbq) : List String → Cbq × List Del
  | [] => (m, [])
  | c :: cs =>
    let (m1, d1) := drain m c
    let (m2, d2) := drainAll m1 cs
    (m2, d1 ++ d2)

/-- the protocol layer of a server role over one ocppj-level (event, observations) pair. The disconnect
    handler drains the callbacks of that client; `Stop` closes every socket, hence drains every list. (For a
    client that is not connected the real code does not run the handler — its list is empty then, so draining it
    is the same.) -/
def serverLayer (m : Cbq) (e : SD.Ev) (obs : List SD.Obs) : Cbq × List Del :=
  let m0 := match e with
    | .send c id => cbSet m c (cbGet m c ++ [id])      -- the callback is registered first
    | _ => m
  let (m1, d1) := foldS m0 obs
  match e with
  | .disconnect c => let (m2, d2) := drain m1 c; (m2, d1 ++ d2)
  | .stop => let (m2, d2) := drainAll m1 (m1.map (·.1)); (m2, d1 ++ d2)
  | _ => (m1, d1)

structure SSt where
  d   : SD.St := {}
  cbq : Cbq := []
deriving Repr

def sstep (s : SSt) (e : SD.Ev) : SSt × List Del :=
  let (d', obs) := SD.step s.d e
  let (m', dels) := serverLayer s.cbq e obs
  ({ d := d', cbq := m' }, dels)

/-! ### client roles -/

def onCObs (m : List String) : CD.Obs → List String × List Del
  | .accepted id => (m, [.accepted "" id])
  | .rejected id => (m.dropLast, [.rejected "" id])
  | .wrote id => (m, [.wrote "" id])
  | .resp id => (match m with | [] => (m, [.orphan "resp" id]) | cb :: r => (r, [.deliv cb "resp" id]))
  | .errResp id => (match m with | [] => (m, [.orphan "err" id]) | cb :: r => (r, [.deliv cb "err" id]))
  | .cancel id true => (match m with | [] => (m, [.orphan "timeout" id]) | cb :: r => (r, [.deliv cb "timeout" id]))
  | .cancel id false => (match m with | [] => (m, [.orphan "write" id]) | cb :: r => (r, [.deliv cb "write" id]))
  | .stopped => ([], [.stopped])                      -- asyncCallbackHandler: clearCallbacks(false)
  | .panic => (m, [.panic])
  | .blocked => (m, [.blocked])
  | .dead => (m, [.dead])

def foldC (m : List String) : List CD.Obs → List String × List Del
  | [] => (m, [])
  | o :: os =>
    let (m1, d1) := onCObs m o
    let (m2, d2) := foldC m1 os
    (m2, d1 ++ d2)

def clientLayer (m : List String) (e : CD.Ev) (obs : List CD.Obs) : List String × List Del :=
  let m0 := match e with
    | .send id => m ++ [id]
    | _ => m
  foldC m0 obs

structure CSt where
  d   : CD.St := {}
  cbq : List String := []
deriving Repr

def cstep (s : CSt) (e : CD.Ev) : CSt × List Del :=
  let (d', obs) := CD.step s.d e
  let (m', dels) := clientLayer s.cbq e obs
  ({ d := d', cbq := m' }, dels)

end Ocpp.L3
