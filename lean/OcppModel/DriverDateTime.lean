import OcppModel.DateTime

/-! Line-protocol driver for suite `datetime`; mirrors go/cmd/harness/datetime.go. Bytes travel as hex. -/

namespace Ocpp.Drv
open Ocpp.DT

def hexVal (c : Char) : Int :=
  if '0' ≤ c && c ≤ '9' then c.toNat - '0'.toNat
  else if 'a' ≤ c && c ≤ 'f' then c.toNat - 'a'.toNat + 10
  else 0

def unhex : List Char → List Int
  | a :: b :: rest => (hexVal a * 16 + hexVal b) :: unhex rest
  | _ => []

def hexDigit (n : Int) : Char := if n < 10 then Char.ofNat (48 + n.toNat) else Char.ofNat (87 + n.toNat)

def hex (bs : List Int) : String :=
  String.ofList (bs.flatMap (fun b => [hexDigit (b / 16), hexDigit (b % 16)]))

def showU : UResult → String
  | .unset => "unset"
  | .ok t => s!"ok {t.sec} {t.nano}"
  | .error => "error"
  | .panic => "PANIC"

def stepDateTime (f : List String) : String :=
  match f with
  | ["reset"] => "ok"
  | ["dt16", h] => showU (unmarshal16 (unhex h.toList))
  | ["dt201", h] => showU (unmarshal201 (unhex h.toList))
  | ["dtx16", h, _, _] => showU (unmarshal16 (unhex h.toList))
  | ["dtx201", h, _, _] => showU (unmarshal201 (unhex h.toList))
  | ["dt16"] => showU (unmarshal16 [])
  | ["dt201"] => showU (unmarshal201 [])
  | ["fmt16", s, n] | ["fmt201", s, n] => hex (marshalRFC3339 { sec := s.toInt?.getD 0, nano := n.toInt?.getD 0 })
  | ["fmtnano16", s, n] | ["fmtnano201", s, n] => hex ([34] ++ formatRFC3339Nano { sec := s.toInt?.getD 0, nano := n.toInt?.getD 0 } ++ [34])
  | _ => "bad-op"

end Ocpp.Drv
