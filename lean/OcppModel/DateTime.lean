import OcppGen.Guards

/-!
# `types.DateTime` (both protocol versions): JSON (un)marshalling of timestamps

* `null` and the quote test are **regenerated from the source** (`Gen.Guards.null16/null201/quoted16/quoted201`).
* `parseIso` is a byte-level model of `github.com/relvacode/iso8601 v1.6.0 ParseInLocation/ParseISOZone`
  (third-party; modelled from its source, tied by the differential harness `datetime`).
* `daysFromCivil`/`civilFromDays` model the proleptic Gregorian arithmetic of Go's `time.Date` / `Time.UTC().Format`.
Bytes are `Int`s (as in `Gen.idx`).
-/

namespace Ocpp.DT

/-! ## civil-time arithmetic -/

/-- days since 1970-01-01 of the proleptic Gregorian date y-m-d (m ∈ 1..12; d may overflow, as in `time.Date`) -/
def daysFromCivil (y m d : Int) : Int :=
  let y' := if m ≤ 2 then y - 1 else y
  let era := y' / 400
  let yoe := y' - era * 400
  let mp := (m + 9) % 12
  let doy := (153 * mp + 2) / 5 + d - 1
  let doe := yoe * 365 + yoe / 4 - yoe / 100 + doy
  era * 146097 + doe - 719468

def civilFromDays (z0 : Int) : Int × Int × Int :=
  let z := z0 + 719468
  let era := z / 146097
  let doe := z - era * 146097
  let yoe := (doe - doe / 1460 + doe / 36524 - doe / 146096) / 365
  let y := yoe + era * 400
  let doy := doe - (365 * yoe + yoe / 4 - yoe / 100)
  let mp := (5 * doy + 2) / 153
  let d := doy - (153 * mp + 2) / 5 + 1
  let m := if mp < 10 then mp + 3 else mp - 9
  (if m ≤ 2 then y + 1 else y, m, d)

def isLeap (y : Int) : Bool := y % 4 == 0 && (y % 100 != 0 || y % 400 == 0)

def daysIn (m y : Int) : Int :=
  if m == 2 && isLeap y then 29
  else if m == 2 then 28
  else if m == 4 || m == 6 || m == 9 || m == 11 then 30 else 31

/-- an instant: Unix seconds and nanoseconds within the second -/
structure Instant where
  sec  : Int
  nano : Int
deriving Repr, DecidableEq

/-- broken-down timestamp as written in a string: wall clock + zone offset in seconds east of UTC -/
structure Fields where
  Y : Int
  M : Int
  D : Int
  h : Int
  mi : Int
  s : Int
  nano : Int
  off : Int
deriving Repr, DecidableEq

/-- `time.Date(Y, M, D, h, mi, s, nano, FixedZone(off))` as an instant -/
def Fields.instant (f : Fields) : Instant :=
  { sec := daysFromCivil f.Y f.M f.D * 86400 + f.h * 3600 + f.mi * 60 + f.s - f.off, nano := f.nano }

/-- `t.UTC()` broken down (what `Format` prints) -/
def Instant.utcFields (t : Instant) : Fields :=
  let days := t.sec / 86400
  let rem := t.sec % 86400
  let (y, m, d) := civilFromDays days
  { Y := y, M := m, D := d, h := rem / 3600, mi := rem % 3600 / 60, s := rem % 60, nano := t.nano, off := 0 }

/-! ## byte-level parser (model of relvacode/iso8601 v1.6.0) -/

inductive PErr where
  | unexpected   -- UnexpectedCharacterError
  | zoneChars    -- ErrZoneCharacters
  | invalidZone  -- ErrInvalidZone
  | precision    -- ErrPrecision
  | range        -- RangeError
deriving Repr, DecidableEq

def u64 : Int := 18446744073709551616
def wrap (n : Int) : Int := n % u64
/-- Go `int(c)` for a `uint` c -/
def toInt64 (c : Int) : Int := if c ≥ 9223372036854775808 then c - u64 else c

def isDigit (b : Int) : Bool := decide (48 ≤ b) && decide (b ≤ 57)

/-- `ParseISOZone(inp)`; `inp` starts at the sign / `Z` character -/
def zoneLoop : List Int → Nat → Int → Int → Int → Except PErr (Int × Int × Int)
  -- remaining bytes, index i, z, multiplier, offset
  | [], _, z, mult, off => .ok (z, mult, off)
  | b :: rest, i, z, mult, off =>
    let (z1, mult1, off1) := if i == 3 then ((0 : Int), (60 : Int), wrap (z * mult)) else (wrap (z * 10), mult, off)
    if isDigit b then zoneLoop rest (i + 1) (wrap (z1 + (b - 48))) mult1 off1
    else if b == 58 then
      if i != 3 then .error .unexpected else zoneLoop rest (i + 1) z1 mult1 off1
    else .error .unexpected

def parseZone (inp : List Int) : Except PErr Int :=
  let n := inp.length
  if n != 1 && (n < 3 || n > 6) then .error .zoneChars
  else match inp with
    | [] => .error .zoneChars
    | b :: rest =>
      if b == 90 || b == 122 then .ok 0
      else if b == 43 || b == 45 then
        match zoneLoop rest 1 0 3600 0 with
        | .error e => .error e
        | .ok (z, mult, off) =>
          let offset := toInt64 (wrap (off + wrap (z * mult)))
          let neg := b == 45
          let offset := if neg then -offset else offset
          if neg && offset == 0 then .error .invalidZone else .ok offset
      else .error .unexpected

structure PState where
  Y : Int := 0
  M : Int := 0
  d : Int := 0
  h : Int := 0
  m : Int := 0
  s : Int := 0
  fraction : Int := 0
  nfraction : Int := 1
  c : Int := 0
  /-- 0 year 1 month 2 day 3 hour 4 minute 5 second 6 millisecond -/
  p : Nat := 0
  off : Int := 0
deriving Repr

/-- the `-`/`+`/`Z` zone branch (after the `p < hour` test failed or for `+`/`Z`) -/
def zoneBranch (st : PState) (b : Int) (rest : List Int) : Except PErr PState :=
  let st1? : Option PState :=
    match st.p with
    | 3 => some { st with h := st.c }
    | 4 => some { st with m := st.c }
    | 5 => some { st with s := st.c }
    | 6 => some { st with fraction := toInt64 st.c }
    | _ => none
  match st1? with
  | none => .error .unexpected
  | some st1 =>
    match parseZone (b :: rest) with
    | .error e => .error e
    | .ok off => .ok { st1 with c := 0, off := off }

def parseLoop : List Int → Bool → PState → Except PErr PState
  | [], _, st => .ok st
  | b :: rest, first, st =>
    if isDigit b then
      parseLoop rest false { st with c := wrap (wrap (st.c * 10) + (b - 48)),
                                     nfraction := if st.p == 6 then st.nfraction + 1 else st.nfraction }
    else if b == 45 then   -- '-'
      if st.p < 3 then
        match st.p with
        | 0 => parseLoop rest false { st with Y := st.c, p := 1, c := 0 }
        | 1 => parseLoop rest false { st with M := st.c, p := 2, c := 0 }
        | _ => .error .unexpected
      else if first then parseLoop rest false st else zoneBranch st b rest
    else if b == 43 || b == 90 then   -- '+', 'Z'
      if first then parseLoop rest false st else zoneBranch st b rest
    else if b == 84 then   -- 'T'
      if st.p != 2 then .error .unexpected
      else parseLoop rest false { st with d := st.c, c := 0, p := 3 }
    else if b == 58 then   -- ':'
      match st.p with
      | 3 => parseLoop rest false { st with h := st.c, c := 0, p := 4 }
      | 4 => parseLoop rest false { st with m := st.c, c := 0, p := 5 }
      | 5 => parseLoop rest false { st with m := st.c, c := 0, p := 6 }   -- sic: the library assigns `m`
      | _ => .error .unexpected
    else if b == 46 then   -- '.'
      if st.p != 5 then .error .unexpected
      else parseLoop rest false { st with s := st.c, c := 0, p := 6 }
    else .error .unexpected

def pow10 : Nat → Int
  | 0 => 1
  | n + 1 => 10 * pow10 n

/-- `iso8601.Parse(inp)` up to the arguments handed to `time.Date` -/
def parseFields (inp : List Int) : Except PErr Fields :=
  match parseLoop inp true {} with
  | .error e => .error e
  | .ok st0 =>
    -- "capture remaining data"
    let st :=
      if st0.c > 0 then
        match st0.p with
        | 0 => { st0 with Y := st0.c, M := 1, d := 1 }
        | 1 => { st0 with M := st0.c, d := 1 }
        | 2 => { st0 with d := st0.c }
        | 3 => { st0 with h := st0.c }
        | 4 => { st0 with m := st0.c }
        | 5 => { st0 with s := st0.c }
        | _ => { st0 with fraction := toInt64 st0.c }
      else st0
    if st.fraction < 0 || 1000000000 ≤ st.fraction then .error .precision
    else
      let scale := 10 - st.nfraction
      let frac := st.fraction * pow10 scale.toNat
      let Yi := toInt64 st.Y
      if st.M < 1 || st.M > 12 then .error .range
      else if st.d < 1 || toInt64 st.d > daysIn st.M Yi then .error .range
      else if st.h > 23 then .error .range
      else if st.m > 59 then .error .range
      else if st.s > 59 then .error .range
      else .ok { Y := Yi, M := st.M, D := toInt64 st.d, h := st.h, mi := st.m, s := st.s, nano := frac, off := st.off }

/-- time.Date normalises nanoseconds ≥ 1e9 / < 0 into the seconds -/
def normalise (t : Instant) : Instant :=
  { sec := t.sec + t.nano / 1000000000, nano := t.nano % 1000000000 }

def parseIso (inp : List Int) : Except PErr Instant :=
  match parseFields inp with
  | .error e => .error e
  | .ok f => .ok (normalise f.instant)

/-! ## `DateTime.UnmarshalJSON` / `MarshalJSON` -/

inductive UResult where
  | unset                 -- `null`: the field is left as it was
  | ok (t : Instant)
  | error
  | panic                 -- Go: `input[1 : len(input)-1]` with len(input) = 1 (slice bounds out of range)
deriving Repr, DecidableEq

/-- `UnmarshalJSON` for dialect-specific guards `nullG`, `quotedG` (the regenerated ones are plugged in below) -/
def unmarshalWith (nullG quotedG : List Int → Bool) (b : List Int) : UResult :=
  if nullG b then .unset
  else if quotedG b then
    if b.length < 2 then .panic else
    match parseIso ((b.drop 1).dropLast) with
    | .ok t => .ok t
    | .error _ => .error
  else .error

def unmarshal16 := unmarshalWith Gen.Guards.null16 Gen.Guards.quoted16
def unmarshal201 := unmarshalWith Gen.Guards.null201 Gen.Guards.quoted201

/-! ## formatting: `t.UTC().Format(RFC3339)` and `RFC3339Nano` (years 0..9999) -/

def digit (n : Int) : Int := 48 + n % 10
def pad2 (n : Int) : List Int := [digit (n / 10), digit n]
def pad4 (n : Int) : List Int := [digit (n / 1000), digit (n / 100), digit (n / 10), digit n]

/-- nine fraction digits with trailing zeros removed (RFC3339Nano's `.999999999`) -/
def trimZeros (l : List Int) : List Int := (l.reverse.dropWhile (· == 48)).reverse

def nanoDigits (n : Int) : List Int :=
  [digit (n / 100000000), digit (n / 10000000), digit (n / 1000000), digit (n / 100000), digit (n / 10000),
   digit (n / 1000), digit (n / 100), digit (n / 10), digit n]

def renderDateTime (f : Fields) : List Int :=
  pad4 f.Y ++ [45] ++ pad2 f.M ++ [45] ++ pad2 f.D ++ [84] ++ pad2 f.h ++ [58] ++ pad2 f.mi ++ [58] ++ pad2 f.s

def formatRFC3339 (t : Instant) : List Int := renderDateTime t.utcFields ++ [90]

def formatRFC3339Nano (t : Instant) : List Int :=
  let f := t.utcFields
  renderDateTime f ++ (if t.nano == 0 then [] else 46 :: trimZeros (nanoDigits t.nano)) ++ [90]

/-- `MarshalJSON` with the default `DateTimeFormat` (RFC3339): a JSON string token -/
def marshalRFC3339 (t : Instant) : List Int := [34] ++ formatRFC3339 t ++ [34]

end Ocpp.DT
