import OcppModel.Tables

/-!
# Registry model: the tables behind feature dispatch, role allow-lists, validators and enumerations

`Reg` is the shape of what translator T1 extracts from one protocol version (`Gen.R16.reg`, `Gen.R201.reg`).
The checks below are the coherence conditions of C18 (and the dispatch-table part of C03) as Boolean
functions; the `…_spec` theorems give their meaning for **any** registry.
-/
namespace Ocpp
open Ocpp.Tbl

structure RoleTables where
  profiles       : List Nat
  send           : List Nat                        -- SendRequestAsync allow-list
  recv           : List Nat                        -- features with a case in the action switch
  recvRows       : List (Nat × Nat × Nat × Nat)    -- (feature, handler field, method, asserted type)
  profileSwitch  : List (Nat × Nat)                -- (profile, handler field tested for nil)
  helperFeatures : List Nat
  specSend       : List Nat                        -- committed role assignment
  handlerMethods : List (Nat × Nat × Nat)          -- (profile, method, request parameter type)

structure Reg where
  featureProfile  : List (Nat × Nat)
  featureReqName  : List (Nat × Nat)
  featureRespName : List (Nat × Nat)
  featureReqType  : List (Nat × Nat)
  cp : RoleTables
  cs : RoleTables
  fieldTags       : List Nat
  knownTags       : List Nat
  registrations   : List (Nat × Nat)
  enums           : List (Nat × List Nat × List Nat)   -- (tag, accepted, exported)
  enumSnapshot    : List (Nat × List Nat)
  enumExceptions  : List (Nat × Nat)

namespace Reg

def features (R : Reg) : List Nat := R.featureProfile.map (·.1)
def allProfiles (R : Reg) : List Nat := R.featureProfile.map (·.2)

/-- every feature name belongs to exactly one profile -/
def chkUniqueProfile (R : Reg) : Bool := functional R.featureProfile
/-- request and response types report the feature's own name -/
def chkNames (R : Reg) : Bool :=
  R.featureReqName.all (fun p => p.1 == p.2) && R.featureRespName.all (fun p => p.1 == p.2) &&
  sameSet (R.featureReqName.map (·.1)) R.features && sameSet (R.featureRespName.map (·.1)) R.features
/-- both constructors register every profile -/
def chkProfilesRegistered (R : Reg) : Bool := sameSet R.cp.profiles R.allProfiles && sameSet R.cs.profiles R.allProfiles
/-- each role can send exactly the features the (committed) protocol assignment gives it -/
def chkSendSpec (R : Reg) : Bool := sameSet R.cp.send R.cp.specSend && sameSet R.cs.send R.cs.specSend
/-- the two allow-lists cover all features -/
def chkSendCover (R : Reg) : Bool := sameSet (R.cp.send ++ R.cs.send) R.features
/-- each role dispatches to handlers exactly the features the opposite role can send -/
def chkRecvPeer (R : Reg) : Bool := sameSet R.cp.recv R.cs.send && sameSet R.cs.recv R.cp.send
/-- the typed helpers of a role build exactly the features of its allow-list -/
def chkHelpers (R : Reg) : Bool := sameSet R.cp.helperFeatures R.cp.send && sameSet R.cs.helperFeatures R.cs.send
/-- every validation tag on a reachable field is resolved by the validator -/
def chkTags (R : Reg) : Bool := subset R.fieldTags R.knownTags
/-- no tag is registered with two different validator functions -/
def chkRegistrations (R : Reg) : Bool := functional R.registrations
/-- every exported enumeration constant is accepted (up to the listed known findings) -/
def chkEnumExported (R : Reg) : Bool :=
  R.enums.all (fun e => e.2.2.all (fun v => e.2.1.contains v || R.enumExceptions.contains (e.1, v)))
/-- the accepted sets are the committed ones: undeclared values are rejected -/
def chkEnumSnapshot (R : Reg) : Bool :=
  R.enums.all (fun e => match lookupL R.enumSnapshot e.1 with
                        | some s => sameSet e.2.1 s
                        | none => false) &&
  sameSet (R.enums.map (·.1)) (R.enumSnapshot.map (·.1))

/-- dispatch rows of one role: the asserted type is the feature's request type, the handler field is the one
    the profile switch tested for nil, and the method is in that profile's handler interface with that type -/
def chkRows (R : Reg) (T : RoleTables) : Bool :=
  T.recvRows.all (fun r =>
    let (f, field, method, ty) := r
    lookup R.featureReqType f == some ty &&
    (match lookup R.featureProfile f with
     | some p => lookup T.profileSwitch p == some field && T.handlerMethods.contains (p, method, ty)
     | none => false)) &&
  functional (T.recvRows.map (fun r => (r.1, r.2.2.1)))

def chkDispatch (R : Reg) : Bool := chkRows R R.cp && chkRows R R.cs

def checkAll (R : Reg) : Bool :=
  R.chkUniqueProfile && R.chkNames && R.chkProfilesRegistered && R.chkSendSpec && R.chkSendCover && R.chkRecvPeer &&
  R.chkHelpers && R.chkTags && R.chkRegistrations && R.chkEnumExported && R.chkEnumSnapshot && R.chkDispatch

/-! ### meaning of the checks, for any registry -/

theorem uniqueProfile_spec (R : Reg) (h : R.chkUniqueProfile = true) :
    ∀ f p q, (f, p) ∈ R.featureProfile → (f, q) ∈ R.featureProfile → p = q :=
  (functional_spec _).mp h

theorem names_spec (R : Reg) (h : R.chkNames = true) :
    (∀ f n, (f, n) ∈ R.featureReqName → n = f) ∧ (∀ f n, (f, n) ∈ R.featureRespName → n = f) := by
  simp only [chkNames, Bool.and_eq_true, List.all_eq_true] at h
  constructor
  · intro f n hm; have := h.1.1.1 (f, n) hm; simp at this; exact this.symm
  · intro f n hm; have := h.1.1.2 (f, n) hm; simp at this; exact this.symm

theorem sendSpec_spec (R : Reg) (h : R.chkSendSpec = true) :
    (∀ f, f ∈ R.cp.send ↔ f ∈ R.cp.specSend) ∧ (∀ f, f ∈ R.cs.send ↔ f ∈ R.cs.specSend) := by
  simp only [chkSendSpec, Bool.and_eq_true, sameSet_spec] at h; exact h

theorem sendCover_spec (R : Reg) (h : R.chkSendCover = true) :
    ∀ f, f ∈ R.features ↔ (f ∈ R.cp.send ∨ f ∈ R.cs.send) := by
  simp only [chkSendCover, sameSet_spec] at h
  intro f; rw [← h f]; simp

theorem recvPeer_spec (R : Reg) (h : R.chkRecvPeer = true) :
    (∀ f, f ∈ R.cp.recv ↔ f ∈ R.cs.send) ∧ (∀ f, f ∈ R.cs.recv ↔ f ∈ R.cp.send) := by
  simp only [chkRecvPeer, Bool.and_eq_true, sameSet_spec] at h; exact h

theorem helpers_spec (R : Reg) (h : R.chkHelpers = true) :
    (∀ f, f ∈ R.cp.helperFeatures ↔ f ∈ R.cp.send) ∧ (∀ f, f ∈ R.cs.helperFeatures ↔ f ∈ R.cs.send) := by
  simp only [chkHelpers, Bool.and_eq_true, sameSet_spec] at h; exact h

theorem tags_spec (R : Reg) (h : R.chkTags = true) : ∀ t, t ∈ R.fieldTags → t ∈ R.knownTags :=
  (subset_spec _ _).mp h

theorem registrations_spec (R : Reg) (h : R.chkRegistrations = true) :
    ∀ t f g, (t, f) ∈ R.registrations → (t, g) ∈ R.registrations → f = g :=
  (functional_spec _).mp h

theorem enumExported_spec (R : Reg) (h : R.chkEnumExported = true) :
    ∀ t acc exp v, (t, acc, exp) ∈ R.enums → v ∈ exp → v ∈ acc ∨ (t, v) ∈ R.enumExceptions := by
  simp only [chkEnumExported, List.all_eq_true] at h
  intro t acc exp v he hv
  have := h (t, acc, exp) he v hv
  simpa using this

theorem enumSnapshot_spec (R : Reg) (h : R.chkEnumSnapshot = true) :
    ∀ t acc exp, (t, acc, exp) ∈ R.enums → ∃ s, lookupL R.enumSnapshot t = some s ∧ ∀ v, v ∈ acc ↔ v ∈ s := by
  simp only [chkEnumSnapshot, Bool.and_eq_true, List.all_eq_true] at h
  intro t acc exp he
  have := h.1 (t, acc, exp) he
  simp only at this
  split at this
  · rename_i s hs; exact ⟨s, hs, (sameSet_spec _ _).mp this⟩
  · exact absurd this (by simp)

end Reg
end Ocpp
