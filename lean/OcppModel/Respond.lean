import OcppGen.Guards

/-!
# Answering an incoming CALL: `ocppMessageHandler` (CALL branch) → `handleIncomingRequest` → `sendResponse`

Decision logic of the four protocol endpoints (they share it line by line; T3 fingerprints pin each copy).
Inputs: what the endpoint knows about the action (`Cfg`, the Booleans come from the regenerated tables of T1),
the scripted handler outcome, whether writes succeed. Output: the frames written (kind + error code) and whether
the handler ran. Error-code choices go through the regenerated `Gen.Guards.validationClass` /
`Gen.Guards.isErrorCodeValid`.
-/
namespace Ocpp.Resp

inductive Dialect | v16 | v2
deriving Repr, DecidableEq

/-- handler outcome -/
inductive Outcome where
  | valid                                   -- a response that passes validation
  | invalid (tag : String)                  -- a response whose first validation failure is on `tag`
  | nilResp                                 -- (nil, nil) — typed or untyped nil
  | plainError                              -- a non-OCPP Go error
  | ocppError (code : String)               -- *ocpp.Error with this code
deriving Repr, DecidableEq

structure Cfg where
  dialect    : Dialect
  known      : Bool      -- some registered profile has a feature with this action name
  handlerSet : Bool      -- the handler of that profile is non-nil
  inSwitch   : Bool      -- the role's action switch has a case for it (i.e. the peer role may send it)
  writeOk    : Bool := true
deriving Repr

inductive Reply where
  | result
  | error (code : String)
deriving Repr, DecidableEq

def occurrenceCode : Dialect → String
  | .v16 => "OccurenceConstraintViolation"
  | .v2 => "OccurrenceConstraintViolation"

/-- `errorFromValidation` for a single failing tag -/
def codeOfTag (d : Dialect) (tag : String) : String :=
  match Gen.Guards.validationClass tag with
  | 1 => occurrenceCode d
  | 2 => "PropertyConstraintViolation"
  | _ => "GenericError"

/-- `SendError(code)`: `CreateCallError` validates the code (tag `errorCode`), then writes -/
inductive SendRes | sent | invalidCode | writeFailed
deriving DecidableEq

def sendError (cfg : Cfg) (code : String) : SendRes :=
  if !Gen.Guards.isErrorCodeValid code then .invalidCode
  else if cfg.writeOk then .sent else .writeFailed

/-- `HandleFailedResponseError(err)`: one more `SendError` with a code derived from `err` -/
def fallback (cfg : Cfg) (why : SendRes) (respTag : Option String) : List Reply :=
  let code := match why, respTag with
    | _, some tag => codeOfTag cfg.dialect tag          -- the response failed validation
    | .invalidCode, none => codeOfTag cfg.dialect "errorCode"   -- the CALL_ERROR itself failed validation
    | _, none => "GenericError"                         -- write failure (wrapped as ocpp.Error GenericError)
  match sendError cfg code with
  | .sent => [.error code]
  | _ => []

/-- frames written in reply to one well-formed CALL, and whether the application handler ran -/
def answer (cfg : Cfg) (out : Outcome) : List Reply × Bool :=
  let err (code : String) : List Reply :=
    match sendError cfg code with
    | .sent => [.error code]
    | _ => []
  if !cfg.known then (err "NotSupported", false)          -- ParseMessage: "Unsupported feature"
  else if !cfg.handlerSet then (err "NotSupported", false)
  else if !cfg.inSwitch then (err "NotSupported", false)
  else
    match out with
    | .ocppError code =>
      (match sendError cfg code with
       | .sent => [.error code]
       | why => fallback cfg why none, true)
    | .plainError =>
      (match sendError cfg "InternalError" with
       | .sent => [.error "InternalError"]
       | why => fallback cfg why none, true)
    | .nilResp => (err "GenericError", true)
    | .valid => (if cfg.writeOk then [.result] else fallback cfg .writeFailed none, true)
    | .invalid tag => (fallback cfg .sent (some tag), true)

end Ocpp.Resp
