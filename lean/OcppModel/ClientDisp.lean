import OcppGen.Guards
import OcppGen.Constants

/-!
# `ocppj.Client` + `DefaultClientDispatcher` — quiescent ("Coarse") semantics

One environment event is delivered, then the pump goroutine and the reader run to quiescence. This is the
regime of every existing test and of the correspondence harness H3 (`cdisp`: events one at a time on a fake
websocket, quiescence read off the goroutine wait states).

State components are the Go fields (DESIGN.md Appendix A.1). The request queue is a list of request ids
(oldest first) and the pending-request state a single id (`""` = none): that `FIFOClientQueue` and
`clientState` behave like that is what C12 proves and diffs; every guard below is the **regenerated**
`Gen.Guards.*` (translator T2), and the channel capacity is the regenerated `Gen.Constants.clientReadyChanCap`.

Time is logical: `wait` means "more than the configured timeout elapses"; the timer either points at the
24 h idle tick (`armed = false`) or at `timeout` (`true`).
-/

namespace Ocpp.CD

/-- environment events -/
inductive Ev where
  | send (id : String)                 -- `Client.SendRequest` of a valid request; `id` is what the id generator returns
  | reply (id : String) (isErr : Bool) -- a well-formed CALL_RESULT / CALL_ERROR frame with this unique id arrives
  | wait                               -- more than the configured timeout elapses
  | disconnect                         -- ws client reports the connection lost (`onDisconnected` → `Pause`)
  | reconnect                          -- ws client re-established the connection (`onReconnected` → `Resume`)
  | writeFail (b : Bool)               -- environment: subsequent `Write`s fail (`true`) / succeed (`false`)
  | stop
  | start
deriving Repr, DecidableEq

/-- observable effects, in order -/
inductive Obs where
  | accepted (id : String)             -- send API returned nil
  | rejected (id : String)             -- send API returned an error
  | wrote (id : String)                -- CALL frame handed to the websocket (Write returned nil)
  | resp (id : String)                 -- response handler invoked
  | errResp (id : String)              -- error handler invoked
  | cancel (id : String) (timedOut : Bool)  -- cancel callback: "Request timed out" / write failure
  | panic                              -- the pump goroutine dereferences nil (process dies)
  | blocked                            -- a goroutine blocks for ever on the full `readyForDispatch` channel
  | dead                               -- (after `panic` / `blocked`: the endpoint is gone)
  | stopped                            -- `Stop` returned: queued and outstanding requests are dropped silently
deriving Repr, DecidableEq

structure St where
  running    : Bool := false           -- requestChannel ≠ nil (pump alive)
  connected  : Bool := false           -- ws client: IsConnected
  writeFails : Bool := false
  paused     : Bool := false
  cap        : Int := 0                -- queue capacity (≤ 0: unbounded)
  q          : List String := []       -- request queue: ids, oldest first
  pend       : String := ""            -- pending-request state: the single pending id
  rdy        : Bool := true            -- pump-local
  tok        : Nat := 0                -- tokens in readyForDispatch
  armed      : Bool := false           -- timer set to `timeout` (else the 24 h tick)
  dead       : Bool := false           -- the process crashed / a library goroutine is wedged for ever
deriving Repr, DecidableEq

def init (queueCap : Int) : St := { cap := queueCap }

/-! pending-state operations through the regenerated guards of `clientState` -/
def pendAdd (cur id : String) : String := if Gen.Guards.stateAddAccepts id cur then id else cur
def pendHit (cur id : String) : Bool := !Gen.Guards.stateGetMiss id cur
def pendDel (cur id : String) : String := if Gen.Guards.stateDeleteMiss id cur then cur else ""
def pendHas (cur : String) : Bool := Gen.Guards.stateHas cur

/-- `readyForDispatch <- true` on the capacity-1 channel: a second token with nobody draining blocks the
    sending goroutine for ever -/
def putTok (s : St) : St :=
  if (s.tok : Int) < Gen.Constants.clientReadyChanCap then { s with tok := s.tok + 1 }
  else { s with dead := true }

/-- `CompleteRequest(id)`: returns the new state and whether the head was popped -/
def complete (s : St) (id : String) : St × Bool :=
  match s.q with
  | [] => (s, false)                                                  -- "queue is empty"
  | h :: rest =>
    if Gen.Guards.clientCompleteMismatch h id then (s, false)          -- "internal state mismatch"
    else (putTok { s with q := rest, pend := pendDel s.pend id }, true)

/-- the tail of one pump iteration: paused check, then dispatch while ready; `fuel` bounds the number of
    consecutive write failures (each pops one request) -/
def pumpTail : Nat → St → St × List Obs
  | 0, s => (s, [])
  | fuel + 1, s =>
    if s.paused then (s, [])
    else if s.rdy then
      match s.q with
      | [] => (s, [])
      | h :: _ =>
        -- dispatchNextRequest
        let s1 := { s with pend := pendAdd s.pend h }
        if s1.connected && !s1.writeFails then
          ({ s1 with rdy := false, armed := true }, [.wrote h])
        else
          -- Write failed: CompleteRequest(h), cancel callback, then rdy := false, timer := timeout;
          -- the token put by CompleteRequest is consumed in the next iteration (rdy := true)
          let (s2, popped) := complete s1 h
          let s3 := { s2 with rdy := false, armed := true }
          if s3.dead then (s3, [.blocked]) else
          let s4 := if s3.tok > 0 then { s3 with tok := s3.tok - 1, rdy := true } else s3
          let (s5, obs) := if popped then pumpTail fuel s4 else (s4, [])
          (s5, .cancel h false :: obs)
    else (s, [])

/-- consume a ready token (if any) and run the tail -/
def pumpReady (s : St) : St × List Obs :=
  if s.tok > 0 then pumpTail (s.q.length + 1) { s with tok := s.tok - 1, rdy := true }
  else (s, [])

def step (s : St) (e : Ev) : St × List Obs :=
  if s.dead then (s, [.dead]) else
  match e with
  | .send id =>
    if !s.running then (s, [.rejected id])
    else if Gen.Guards.queuePushRejects s.q.length s.cap then (s, [.rejected id])
    else
      let (s1, obs) := pumpTail (s.q.length + 2) { s with q := s.q ++ [id] }
      (s1, .accepted id :: obs)
  | .reply id isErr =>
    -- ParseMessage: GetPendingRequest(id)
    if !pendHit s.pend id then (s, [])                    -- "No previous request … Discarding"
    else
      let (s1, _) := complete s id
      if s1.dead then (s1, [.blocked]) else                -- the reader hangs inside CompleteRequest, no handler runs
      let h := if isErr then Obs.errResp id else Obs.resp id
      if s1.running then
        let (s2, obs) := pumpReady s1
        (s2, h :: obs)
      else (s1, [h])
  | .wait =>
    if !s.running || !s.armed then (s, [])
    else
      -- timer fires; afterwards it is reset to the 24 h tick
      let s0 := { s with armed := false }
      if pendHas s0.pend then
        match s0.q with
        | [] => ({ s0 with dead := true }, [.panic])       -- `bundle.Call` is nil
        | h :: _ =>
          let (s1, _) := complete s0 h
          if s1.dead then (s1, [.blocked]) else
          let (s2, obs) := pumpReady s1
          (s2, .cancel h true :: obs)
      else (s0, [])
  | .disconnect =>
    if !s.running then ({ s with connected := false }, [])
    else ({ s with connected := false, paused := true, armed := false }, [])
  | .reconnect =>
    let s0 := { s with connected := true, paused := false }
    if pendHas s0.pend then ({ s0 with armed := true }, [])
    else
      let s1 := putTok s0
      if s1.dead then (s1, [.blocked])
      else if s1.running then pumpReady s1 else (s1, [])
  | .writeFail b => ({ s with writeFails := b }, [])
  | .stop =>
    if !s.running then ({ s with connected := false }, [])
    else
      -- dispatcher.Stop: close(requestChannel) (pump: queue.Init, exits), ClearPendingRequests
      ({ s with running := false, connected := false, q := [], pend := "", armed := false }, [.stopped])
  | .start =>
    if s.running then (s, [])
    else
      -- ws connects; dispatcher.Start: fresh channel, fresh 24 h timer, paused := false, stale ready token
      -- drained, fresh pump (rdy := true)
      ({ s with running := true, connected := true, rdy := true, armed := false, paused := false, tok := 0 }, [])

def run (s : St) : List Ev → St × List Obs
  | [] => (s, [])
  | e :: es =>
    let (s1, o1) := step s e
    let (s2, o2) := run s1 es
    (s2, o1 ++ o2)

end Ocpp.CD
