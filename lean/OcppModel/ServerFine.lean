/-!
# `ocppj.DefaultServerDispatcher` below quiescence: small-step interleaving model, per-client projection

The server dispatcher serves any number of clients with one message pump. Everything the pump does in one iteration is
keyed by the client id of the event it took (since be4f834 the loop variables are reset every iteration), so the
behaviour towards one client `c` is a function of the events of `c` plus what the *shared* one-slot ready channel does:
this model is the projection on one client. Other clients appear as the environment labels `otherReady` (another
client's token occupies the slot) and `takeOther` (the pump takes it; a pump busy for another client is a delay).

Threads: the message pump, the reader of the client's connection (A-READER: one frame at a time), any number of senders
(`SendRequest`: fetch the client's queue, push, wake-up), the link (`DeleteClient` + `ClearClientPendingRequest` of a
disconnection in three steps; `CreateClient` of the next connection — A-LINK: the websocket server reports the end of a
connection of an id before it announces the next one, /repo 3413323), time-out goroutines (one per context), and the
goroutines `signalReadyForDispatch` starts when the slot is taken. One label = one synchronisation operation of the Go
code after the repairs up to the orphan-on-failed-write repair (6d71525) and the send lock. Queue objects have identity (`qs`, index = object): a thread that fetched a queue
before a reconnection keeps using the old object, exactly as the code does.

Abstractions: time (a live context may expire whenever), payloads, `Stop`, the capacities of the wake-up and expiry
channels (senders wait for room without holding a lock; the pump never waits on them), other clients.
-/
namespace Ocpp.ServerFine

/-- the pump's `clientContextMap[c]` -/
inductive Ctx where
  | absent | zero | active (k : Nat)
deriving Repr, DecidableEq, Hashable

inductive Slot where
  | empty | me | other
deriving Repr, DecidableEq, Hashable

inductive Pump where
  | sel
  | rq1                              -- request branch: next `queueMap.Get(c)`
  | rqDel                            -- no queue: delete + cancel the context, `continue`
  | rq2 (qi : Nat)                   -- next: context lookup, `HasPendingRequest` => `rdy`
  | tm1 (k : Nat)                    -- timer branch: compare the expired context with the current one
  | tm2                              -- next: `HasPendingRequest(c)`
  | tm3                              -- next: `queueMap.Get(c)`
  | tm4 (qi : Nat)                   -- next: `Peek`
  | tm5 (h : Option Nat)             -- next: `GetPendingRequest(head)`
  | tmO                              -- head is not the pending request: drop an orphan (completion mutex)
  | tmOS                             -- next: ready signal
  | cp1 (w : Bool) (h : Nat)         -- `CompleteRequest(c, h)` on the pump (w: after a failed write): `queueMap.Get`
  | cp2 (w : Bool) (h : Nat) (qi : Nat)  -- look at the head, compare, pop, delete pending: one step (completion mutex)
  | cp3 (w : Bool) (h : Nat)         -- next: ready signal
  | wfO (h : Nat)                    -- failed write: drop the request if it is still pending (it was not in the client's queue)
  | wfOS (h : Nat)                   -- next: ready signal
  | cb (w : Bool) (h : Nat)          -- next: the cancel callback (outcome mutex), then back to the select
  | rd1                              -- ready branch: cancel the context unless a request is pending
  | rd2                              -- next: `queueMap.Get(c)`
  | g1 (qi : Nat)                    -- dispatch guard with `rdy = true`: next `HasPendingRequest(c)`
  | g2 (qi : Nat)                    -- next: `IsEmpty`
  | d1                               -- `dispatchNextRequest`: `queueMap.Get(c)`
  | d2 (qj : Nat)                    -- next: `Peek`
  | d3 (h : Nat)                     -- next: `AddPendingRequest`
  | wr (h : Nat)                     -- inside `network.Write`
  | d4                               -- written: next create the context, start its time-out goroutine
deriving Repr, DecidableEq, Hashable

inductive Reader where
  | idle
  | got (id : Nat)                   -- a reply was read: next the pending lookup of `ParseMessage`
  | lk (id : Nat)                    -- next: lock the outcome mutex
  | c1 (id : Nat)                    -- `CompleteRequest`: `queueMap.Get`
  | c2 (id : Nat) (qi : Nat)         -- the atomic part
  | c3 (id : Nat)                    -- next: ready signal
  | hd (id : Nat)                    -- next: response / error handler, unlock
deriving Repr, DecidableEq, Hashable

inductive Link where
  | idle
  | dl2                              -- `DeleteClient`: `Remove` done, next the wake-up
  | dl3                              -- next: `ClearClientPendingRequest`
deriving Repr, DecidableEq, Hashable

structure St where
  tmo    : Bool := true              -- a request timeout is configured
  dropW  : Bool := true              -- the failed-write path drops a request nothing completed (/repo 6d71525); false = before
  sendLock : Bool := true            -- `Get` + `Push` of a sender exclude `DeleteClient`'s `Remove` (sendMutex); false = before
  cur    : Option Nat := none        -- the queue map's entry for c (index into `qs`)
  qs     : List (List Nat) := []     -- every queue object ever created for c
  pend   : Option Nat := none        -- pending request state of c
  ctx    : Ctx := .absent
  nctx   : Nat := 0
  live   : List Nat := []            -- contexts whose time-out goroutine waits (not cancelled, not expired)
  tc     : List Nat := []            -- expiries of c waiting in `timerC`
  reqs   : Nat := 0                  -- wake-ups for c waiting in `requestChannel`
  ready  : Slot := .empty
  sigw   : Nat := 0                  -- goroutines waiting to post c's ready token
  pump   : Pump := .sel
  reader : Reader := .idle
  link   : Link := .idle
  hold   : List Nat := []            -- senders between `queueMap.Get` and `Push` (the queue object each holds)
  mid    : Nat := 0                  -- senders between `Push` and the wake-up
  used   : List Nat := []            -- ghost: ids ever pushed (fresh ids: A-ID)
  wire   : List Nat := []            -- ghost: CALLs written to c, in order
deriving Repr, DecidableEq, Hashable

inductive Label where
  | sget | push (id qi : Nat) | notify
  | takeReq | takeTimer | takeReady | takeOther | otherReady
  | pstep | writeOk | writeFail
  | fire (k : Nat) | sigPost
  | reply (id : Nat) | rstep
  | disc | lstep | connect
deriving Repr, DecidableEq

def getQ (qs : List (List Nat)) (i : Nat) : List Nat := qs.getD i []
def setQ (qs : List (List Nat)) (i : Nat) (v : List Nat) : List (List Nat) := qs.set i v

/-- `signalReadyForDispatch(c)` -/
def signal (s : St) : St :=
  if s.ready == .empty then { s with ready := .me } else { s with sigw := s.sigw + 1 }

/-- atomic part of `CompleteRequest(c, id)` on queue object `qi`; true = it took effect -/
def complete (s : St) (id qi : Nat) : St × Bool :=
  match getQ s.qs qi with
  | h :: t => if h == id then ({ s with qs := setQ s.qs qi t, pend := if s.pend == some id then none else s.pend }, true) else (s, false)
  | [] => (s, false)

def cancelCtx (s : St) : St :=
  match s.ctx with
  | .active k => { s with live := s.live.erase k }
  | _ => s

/-- the reader holds the outcome mutex of c -/
def readerHolds (s : St) : Bool :=
  match s.reader with
  | .c1 _ | .c2 _ _ | .c3 _ | .hd _ => true
  | _ => false

/-- where `CompleteRequest` returns to on the pump: the timer branch goes on to the cancel callback, `dispatchNextRequest`
    (failed write) first drops the request if nothing completed it -/
def afterCompletion (d w : Bool) (h : Nat) : Pump := if w && d then .wfO h else .cb w h

def pumpStep (s : St) : Option St :=
  match s.pump with
  | .sel => none
  | .rq1 => some { s with pump := match s.cur with | none => .rqDel | some qi => .rq2 qi }
  | .rqDel => some { cancelCtx s with ctx := .absent, pump := .sel }
  | .rq2 qi =>
    let rdy := match s.ctx with
      | .absent => true
      | .zero => true
      | .active _ => s.pend.isNone
    some { s with pump := if rdy then .g1 qi else .sel }
  | .tm1 k => if s.ctx == .active k then some { s with ctx := .zero, live := s.live.erase k, pump := .tm2 } else some { s with pump := .sel }
  | .tm2 => some { s with pump := if s.pend.isSome then .tm3 else .sel }
  | .tm3 => some { s with pump := match s.cur with | none => .sel | some qi => .tm4 qi }
  | .tm4 qi => some { s with pump := .tm5 (getQ s.qs qi).head? }
  | .tm5 oh =>
    match oh with
    | some h => some { s with pump := if s.pend == some h then .cp1 false h else .tmO }
    | none => some { s with pump := .tmO }
  | .tmO => some { s with pend := none, pump := if s.pend.isSome then .tmOS else .sel }
  | .tmOS => some { signal s with pump := .sel }
  | .cp1 w h => some { s with pump := match s.cur with | none => afterCompletion s.dropW w h | some qi => .cp2 w h qi }
  | .cp2 w h qi => some { (complete s h qi).1 with pump := if (complete s h qi).2 then .cp3 w h else afterCompletion s.dropW w h }
  | .cp3 w h => some { signal s with pump := afterCompletion s.dropW w h }
  | .wfO h => some (if s.pend == some h then { s with pend := none, pump := .wfOS h } else { s with pump := .cb true h })
  | .wfOS h => some { signal s with pump := .cb true h }
  | .cb w _ => if readerHolds s then none else some { s with ctx := if w then .zero else s.ctx, pump := .sel }
  | .rd1 =>
    match s.ctx with
    | .active k => some (if s.pend.isNone then { s with ctx := .zero, live := s.live.erase k, pump := .rd2 } else { s with pump := .rd2 })
    | _ => some { s with pump := .rd2 }
  | .rd2 => some { s with pump := match s.cur with | none => .sel | some qi => .g1 qi }
  | .g1 qi => some { s with pump := if s.pend.isNone then .g2 qi else .sel }
  | .g2 qi => some { s with pump := if (getQ s.qs qi).isEmpty then .sel else .d1 }
  | .d1 => some (match s.cur with | none => { s with ctx := .zero, pump := .sel } | some qj => { s with pump := .d2 qj })
  | .d2 qj =>
    match getQ s.qs qj with
    | h :: _ => some { s with pump := .d3 h }
    | [] => some { s with ctx := .zero, pump := .sel }
  | .d3 h => some { s with pend := if s.pend.isNone then some h else s.pend, pump := .wr h }
  | .wr _ => none
  | .d4 => some (if s.tmo then { s with ctx := .active s.nctx, nctx := s.nctx + 1, live := s.nctx :: s.live, pump := .sel }
                 else { s with ctx := .zero, pump := .sel })

def readerStep (s : St) : Option St :=
  match s.reader with
  | .idle => none
  | .got id => some { s with reader := if s.pend == some id then .lk id else .idle }
  | .lk id => some { s with reader := .c1 id }   -- the pump holds the outcome mutex only inside its (atomic) `cb` step
  | .c1 id => some { s with reader := match s.cur with | none => .hd id | some qi => .c2 id qi }
  | .c2 id qi => some { (complete s id qi).1 with reader := if (complete s id qi).2 then .c3 id else .hd id }
  | .c3 id => some { signal s with reader := .hd id }
  | .hd _ => some { s with reader := .idle }

def step (s : St) : Label → Option St
  | .sget => match s.cur with
    | some qi => some { s with hold := qi :: s.hold }
    | none => none                                                   -- `SendRequest` returns an error: nothing happens
  | .push id qi =>
    if id ∈ s.used || !(s.hold.contains qi) then none
    else some { s with qs := setQ s.qs qi (getQ s.qs qi ++ [id]), hold := s.hold.erase qi, used := id :: s.used, mid := s.mid + 1 }
  | .notify => if s.mid > 0 then some { s with mid := s.mid - 1, reqs := s.reqs + 1 } else none
  | .takeReq => if s.pump == .sel && s.reqs > 0 then some { s with reqs := s.reqs - 1, pump := .rq1 } else none
  | .takeTimer =>
    if s.pump == .sel then
      match s.tc with
      | k :: rest => some { s with tc := rest, pump := .tm1 k }
      | [] => none
    else none
  | .takeReady => if s.pump == .sel && s.ready == .me then some { s with ready := .empty, pump := .rd1 } else none
  | .takeOther => if s.pump == .sel && s.ready == .other then some { s with ready := .empty } else none
  | .otherReady => if s.ready == .empty then some { s with ready := .other } else none
  | .pstep => pumpStep s
  | .writeOk => match s.pump with
    | .wr h => some { s with wire := s.wire ++ [h], pump := .d4 }
    | _ => none
  | .writeFail => match s.pump with
    | .wr h => some { s with pump := .cp1 true h }
    | _ => none
  | .fire k => if s.live.contains k then some { s with live := s.live.erase k, tc := s.tc ++ [k] } else none
  | .sigPost => if s.sigw > 0 && s.ready == .empty then some { s with sigw := s.sigw - 1, ready := .me } else none
  | .reply id => match s.reader with
    | .idle => some { s with reader := .got id }
    | _ => none
  | .rstep => readerStep s
  | .disc =>
    -- with `sendMutex` the removal waits until no sender is between `Get` and `Push`
    if s.link == .idle && s.cur.isSome && (!s.sendLock || s.hold.isEmpty) then some { s with cur := none, link := .dl2 } else none
  | .lstep => match s.link with
    | .idle => none
    | .dl2 => some { s with reqs := s.reqs + 1, link := .dl3 }
    | .dl3 => some { s with pend := none, link := .idle }
  | .connect => if s.link == .idle && s.cur.isNone then some { s with cur := some s.qs.length, qs := s.qs ++ [[]] } else none

/-- what the instrumented implementation logs for client c (injected queue map / queues, fake websocket, handlers) -/
inductive Vis where
  | push (id : Nat) | wrote (id : Nat) | pop (id : Nat) | resp (id : Nat)
  | cancelTimeout (id : Nat) | cancelWrite (id : Nat) | disconnect | connect
deriving Repr, DecidableEq

def vis (s : St) : Label → Option Vis
  | .push id _ => some (.push id)
  | .writeOk => match s.pump with
    | .wr h => some (.wrote h)
    | _ => none
  | .pstep => match s.pump with
    | .cp2 _ h qi => if (complete s h qi).2 then some (.pop h) else none
    | .cb w h => some (if w then .cancelWrite h else .cancelTimeout h)
    | _ => none
  | .rstep => match s.reader with
    | .c2 id qi => if (complete s id qi).2 then some (.pop id) else none
    | .hd id => some (.resp id)
    | _ => none
  | .disc => some .disconnect
  | .connect => some .connect
  | _ => none

def runL (s : St) : List Label → Option St
  | [] => some s
  | l :: ls => match step s l with
    | none => none
    | some s' => runL s' ls

end Ocpp.ServerFine
