import OcppModel.Json

/-!
# Payload schemas, the JSON codec and the validator — generic model (C04, C05)

A payload type is a `Ty` (what `encoding/json` and go-playground/validator v9 see by reflection: json key, omitempty,
kind, validate tags in order). Everything here is a total function of **any** schema and **any** JSON value:

* `wellTyped t j` — `json.Unmarshal` into the Go type succeeds (else the endpoint answers FormationViolation / FormatViolation);
* `norm t j` — the JSON that re-serialising the decoded value yields (`json.Marshal ∘ json.Unmarshal`): unknown keys
  dropped, keys in field order, zero values of non-omitempty fields materialised, omitempty fields with an empty value omitted;
* `check t j` — the first validation failure (tag) in the validator's traversal order, or none.

The byte level (escaping, number formatting, UTF-8) is Go's `encoding/json`: the model works on trees. Floats and
timestamps are kept as their literal text (the generator emits them in Go's canonical form; timestamps are C20's subject).
Validator quirks modelled because the code relies on them: tags on a field of struct kind are not evaluated at all
(the first is skipped, then the validator descends), so `required` on a non-pointer struct/`DateTime` field is a no-op;
a nil pointer with a first tag other than `omitempty` fails with that tag.
-/
namespace Ocpp.Sch

inductive Tag where
  | required | omitempty | dive | unique | uri
  | max (n : Int) | min (n : Int) | gte (n : Int) | gt (n : Int) | lte (n : Int) | lt (n : Int)
  | enumTag (name : String)            -- a registered enumeration validator: the value must be one of the type's constants
  | svRequired                         -- struct-level validator of the enclosing message: this field must not be the zero value
  | svUnless (sib v : String)          -- struct-level validator: required unless the sibling field `sib` has the value `v` (or an undeclared one)
  | other (name : String)
deriving Repr, DecidableEq

mutual
inductive Ty where
  | str | int | float | bool | time | any
  | enum (vals : List String)
  | ptr (t : Ty)
  | slice (t : Ty)
  | struct (fs : Fields)
inductive Fields where
  | nil
  | cons (key : String) (om : Bool) (tags : List Tag) (t : Ty) (rest : Fields)
end

def lookup (kv : List (String × J)) (k : String) : Option J := (kv.find? (fun p => p.1 == k)).map (·.2)

/-- the text of a JSON number is an integer literal -/
def isIntText (s : String) : Bool :=
  let cs := s.toList
  let ds := if cs.head? == some '-' then cs.drop 1 else cs
  !ds.isEmpty && ds.all Char.isDigit

def isZeroNum (trunc : Int) (text : String) : Bool := trunc == 0 && (text == "0" || text == "-0" || text == "0.0")

mutual
/-- `json.Unmarshal` of `j` into a Go value of type `t` succeeds -/
def wellTyped : Ty → J → Bool
  | _, .null => true                                           -- null leaves the zero value, never an error
  | .str, .str _ => true
  | .enum _, .str _ => true
  | .time, .str _ => true                                      -- (parse errors are C20's subject; the generator emits valid ones)
  | .int, .num _ text => isIntText text
  | .float, .num _ _ => true
  | .bool, .bool _ => true
  | .any, _ => true
  | .ptr t, j => wellTyped t j
  | .slice t, .arr l => l.all (fun x => wellTyped t x)
  | .struct fs, .obj kv => wellTypedFields fs kv
  | _, _ => false
def wellTypedFields : Fields → List (String × J) → Bool
  | .nil, _ => true
  | .cons key _ _ t rest, kv =>
    (match lookup kv key with
     | none => true
     | some v => wellTyped t v) && wellTypedFields rest kv
end

/-- omitempty's notion of an empty value, on the decoded view of `j` -/
def isEmptyVal : Ty → J → Bool
  | _, .null => true
  | .str, .str s => s == ""
  | .enum _, .str s => s == ""
  | .int, .num tr text => isZeroNum tr text
  | .float, .num tr text => isZeroNum tr text
  | .bool, .bool b => !b
  | .slice _, .arr l => l.isEmpty
  | .ptr _, _ => false                                         -- a non-null value: the pointer is set
  | _, _ => false

def neverEmpty : Ty → Bool
  | .struct _ => true
  | .time => true
  | _ => false

mutual
/-- the zero value of a type as `json.Marshal` prints it -/
def zeroJ : Ty → J
  | .str => .str ""
  | .enum _ => .str ""
  | .int => .num 0 "0"
  | .float => .num 0 "0"
  | .bool => .bool false
  | .time => .str "0001-01-01T00:00:00Z"
  | .any => .null
  | .ptr _ => .null
  | .slice _ => .null
  | .struct fs => .obj (zeroFields fs)
def zeroFields : Fields → List (String × J)
  | .nil => []
  | .cons key om _ t rest => if om && !neverEmpty t then zeroFields rest else (key, zeroJ t) :: zeroFields rest
end

mutual
/-- `json.Marshal (json.Unmarshal j)` for a well-typed `j` -/
def norm : Ty → J → J
  | .ptr t, j => (match j with
      | .null => .null
      | _ => norm t j)
  | .slice t, j => (match j with
      | .null => .null
      | .arr l => .arr (l.map (fun x => norm t x))
      | _ => j)
  | .struct fs, j => (match j with
      | .null => .obj (zeroFields fs)
      | .obj kv => .obj (normFields fs kv)
      | _ => j)
  | .int, j => (match j with
      | .null => .num 0 "0"
      | .num tr _ => .num tr (toString tr)
      | _ => j)
  | .str, j => (match j with | .null => .str "" | _ => j)
  | .enum _, j => (match j with | .null => .str "" | _ => j)
  | .float, j => (match j with | .null => .num 0 "0" | _ => j)
  | .bool, j => (match j with | .null => .bool false | _ => j)
  | .time, j => (match j with | .null => .str "0001-01-01T00:00:00Z" | _ => j)
  | .any, j => j
def normFields : Fields → List (String × J) → List (String × J)
  | .nil, _ => []
  | .cons key om _ t rest, kv =>
    let v := match lookup kv key with
      | none => zeroJ t
      | some x => norm t x
    if om && !neverEmpty t && isEmptyVal t v then normFields rest kv
    else (key, v) :: normFields rest kv
end

/-! ## validation -/

def strLen (s : String) : Int := s.length

/-- the number a length / bound tag compares with its parameter: rune count, element count, or the numeric value -/
def measure : J → Option Int
  | .str s => some (strLen s)
  | .arr l => some l.length
  | .num tr _ => some tr                                        -- (integer fields; the generator keeps floats integral at the bounds)
  | _ => none

def tagName : Tag → String
  | .required => "required" | .omitempty => "omitempty" | .dive => "dive" | .unique => "unique" | .uri => "uri"
  | .max _ => "max" | .min _ => "min" | .gte _ => "gte" | .gt _ => "gt" | .lte _ => "lte" | .lt _ => "lt"
  | .enumTag n => n | .svRequired => "required" | .svUnless _ _ => "required" | .other n => n

/-- does the value have a value in the validator's sense (`hasValue`)? `j` is the normalised field value -/
def hasValue : Ty → J → Bool
  | .ptr _, j => !(match j with | .null => true | _ => false)
  | .slice _, j => !(match j with | .null => true | _ => false)
  | .any, j => !(match j with | .null => true | _ => false)
  | t, j => !isEmptyVal t j

/-- one tag on one (non-nil, non-struct) value; `none` = passes -/
def tagHolds (goodUri : String → Bool) (vals : List String) (tg : Tag) (j : J) : Bool :=
  match tg with
  | .max n | .lte n => (match measure j with | some m => m ≤ n | none => true)
  | .min n | .gte n => (match measure j with | some m => n ≤ m | none => true)
  | .gt n => (match measure j with | some m => n < m | none => true)
  | .lt n => (match measure j with | some m => m < n | none => true)
  | .enumTag _ => (match j with | .str s => vals.contains s | _ => true)
  | .uri => (match j with | .str s => goodUri s | _ => true)
  | .unique => (match j with
      | .arr l => (l.map (fun x => match x with | .str s => s | _ => "")).Nodup
      | _ => true)
  | _ => true

def enumVals : Ty → List String
  | .enum v => v
  | .ptr (.enum v) => v
  | _ => []

/-- the declared constants of the sibling enumeration field `sib` among the fields that follow -/
def enumValsOfSibling : Fields → String → List String
  | .nil, _ => []
  | .cons key _ _ t rest, sib => if key == sib then enumVals t else enumValsOfSibling rest sib

def deref : Ty → Ty
  | .ptr t => t
  | t => t

mutual
/-- the first failing tag of a field (`j` = its normalised value), then — for struct kinds — of its fields -/
def checkField (goodUri : String → Bool) : Ty → List Tag → J → Option String
  | .struct fs, _, j =>                                       -- tags on a struct-kind field are not evaluated
    (match j with
     | .obj kv => checkFields goodUri fs kv
     | _ => none)
  | .time, tags, j =>                                          -- DateTime is a struct to the validator: only the struct-level rule bites
    if tags.contains .svRequired && (match j with | .str s => s == "0001-01-01T00:00:00Z" | _ => false) then some "required" else none
  | .ptr t, tags, j =>
    (match j with
     | .null =>
       (match tags with
        | [] => none
        | .omitempty :: _ => none
        | tg :: _ => some (tagName tg))                         -- nil pointer: the first tag fails
     | _ => checkField goodUri t (tags.filter (fun x => x != .omitempty && x != .required)) j)
  | .slice t, tags, j =>
    let pre := tags.takeWhile (· != .dive)
    let post := (tags.dropWhile (· != .dive)).drop 1
    if pre.contains .omitempty && !hasValue (.slice t) j then none
    else if pre.contains .required && !hasValue (.slice t) j then some "required"
    else match pre.find? (fun tg => !tagHolds goodUri [] tg j) with
      | some tg => some (tagName tg)
      | none =>
        if tags.contains .dive then
          (match j with
           | .arr l => l.findSome? (fun x => checkField goodUri t post x)
           | _ => none)
        else none
  | t, tags, j =>
    if tags.contains .omitempty && !hasValue t j then none
    else if tags.contains .required && !hasValue t j then some "required"
    else match tags.find? (fun tg => !tagHolds goodUri (enumVals t) tg j) with
      | some tg => some (tagName tg)
      | none => none
def checkFields (goodUri : String → Bool) : Fields → List (String × J) → Option String
  | .nil, _ => none
  | .cons key _ tags t rest, kv =>
    let v := match lookup kv key with
      | none => zeroJ t
      | some x => x
    match checkField goodUri t tags v with
    | some e => some e
    | none =>
      match checkFields goodUri rest kv with
      | some e => some e
      | none =>
        -- struct-level validators run after the fields of the struct
        match tags.findSome? (fun tg => match tg with | .svUnless sib w => some (sib, w) | _ => none) with
        | some (sib, w) =>
          let sv := match lookup kv sib with | some (.str x) => x | _ => ""
          if !hasValue t v && sv != w && (enumValsOfSibling rest sib).contains sv then some "required" else none
        | none => none
end

inductive Verdict where
  | ok | format | invalid (tag : String)
deriving Repr, DecidableEq

/-- the payload level of `ParseMessage` / `CreateCall*`: typed decoding, then validation of the decoded value -/
def verdict (goodUri : String → Bool) (t : Ty) (j : J) : Verdict :=
  if !wellTyped t j then .format
  else match checkField goodUri t [] (norm t j) with
    | none => .ok
    | some tg => .invalid tg

end Ocpp.Sch
