/-!
# JSON trees (as `encoding/json` decodes them into `interface{}`) and a token reader for the line protocol

Numbers are float64 in Go; what the OCPP-J framing looks at is only `MessageType(rawTypeId)`, i.e. the Go
conversion of that float64 to `int` (truncation; implementation-defined for huge values): a number carries that
conversion `trunc` (computed by the harness with Go itself) and its literal text.
JSON *syntax* (bytes → tree) is Go's `encoding/json`: trusted library, not modelled.
-/
namespace Ocpp

inductive J where
  | null
  | bool (b : Bool)
  | num (trunc : Int) (text : String)
  | str (s : String)
  | arr (l : List J)
  | obj (l : List (String × J))
deriving Repr

namespace J

def isStr : J → Option String
  | .str s => some s
  | _ => none

/-- token reader: `Z` null, `T`/`F`, `N<trunc>:<text>`, `S<text-without-spaces>` (the harness hex-encodes), `A<n>`
    followed by n values, `O<n>` followed by n (key token, value) pairs. Returns the value and the rest. -/
def readAux : Nat → List String → Option (J × List String)
  | 0, _ => none
  | _ + 1, [] => none
  | fuel + 1, t :: rest =>
    match t.toList with
    | ['Z'] => some (.null, rest)
    | ['T'] => some (.bool true, rest)
    | ['F'] => some (.bool false, rest)
    | 'N' :: cs =>
      let s := String.ofList cs
      let i := (s.toList.takeWhile (· != ':'))
      let txt := (s.toList.dropWhile (· != ':')).drop 1
      some (.num ((String.ofList i).toInt?.getD 0) (String.ofList txt), rest)
    | 'S' :: cs => some (.str (String.ofList cs), rest)
    | 'A' :: cs =>
      let n := (String.ofList cs).toNat?.getD 0
      let rec items (k : Nat) (fuel' : Nat) (ts : List String) (acc : List J) : Option (List J × List String) :=
        match k, fuel' with
        | 0, _ => some (acc.reverse, ts)
        | _, 0 => none
        | k + 1, f + 1 =>
          match readAux fuel ts with
          | none => none
          | some (v, ts') => items k f ts' (v :: acc)
      match items n (n + 1) rest [] with
      | none => none
      | some (l, ts) => some (.arr l, ts)
    | 'O' :: cs =>
      let n := (String.ofList cs).toNat?.getD 0
      let rec pairs (k : Nat) (fuel' : Nat) (ts : List String) (acc : List (String × J)) : Option (List (String × J) × List String) :=
        match k, fuel', ts with
        | 0, _, ts => some (acc.reverse, ts)
        | _, 0, _ => none
        | _ + 1, _, [] => none
        | k + 1, f + 1, key :: ts1 =>
          match readAux fuel ts1 with
          | none => none
          | some (v, ts') => pairs k f ts' ((String.ofList (key.toList.drop 1), v) :: acc)
      match pairs n (n + 1) rest [] with
      | none => none
      | some (l, ts) => some (.obj l, ts)
    | _ => none

def read (ts : List String) : Option J :=
  match readAux (ts.length + 1) ts with
  | some (v, []) => some v
  | _ => none

end J
end Ocpp
