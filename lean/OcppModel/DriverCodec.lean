import OcppModel.Schema
import OcppModel.Respond
import OcppModel.DriverOcppJ

/-! Line-protocol driver for suite `codec`; mirrors go/cmd/harness/codec.go -/
namespace Ocpp.Drv
open Ocpp.Sch Ocpp

def parseTag (s : String) : Tag :=
  let name := String.ofList (s.toList.takeWhile (· != '='))
  let param := unhexStr (String.ofList ((s.toList.dropWhile (· != '=')).drop 1))
  let n : Int := param.toInt?.getD 0
  match name with
  | "required" => .required | "omitempty" => .omitempty | "dive" => .dive | "unique" => .unique
  | "uri" => .uri | "url" => .uri
  | "max" => .max n | "min" => .min n | "gte" => .gte n | "gt" => .gt n | "lte" => .lte n | "lt" => .lt n
  | "svRequired" => .svRequired
  | "svUnless" => .svUnless ((param.splitOn ":").headD "") ((param.splitOn ":").getD 1 "")
  | other => .enumTag other

mutual
partial def readTy : List String → Option (Ty × List String)
  | [] => none
  | t :: rest =>
    match t.toList with
    | ['s'] => some (.str, rest) | ['i'] => some (.int, rest) | ['f'] => some (.float, rest) | ['b'] => some (.bool, rest)
    | ['t'] => some (.time, rest) | ['a'] => some (.any, rest)
    | 'e' :: cs =>
      let n := (String.ofList cs).toNat?.getD 0
      some (.enum ((rest.take n).map (fun v => unhexStr (String.ofList (v.toList.drop 1)))), rest.drop n)
    | ['P'] => (readTy rest).map (fun (x, r) => (.ptr x, r))
    | ['L'] => (readTy rest).map (fun (x, r) => (.slice x, r))
    | 'S' :: cs =>
      let n := (String.ofList cs).toNat?.getD 0
      (readFields n rest).map (fun (fs, r) => (.struct fs, r))
    | _ => none
partial def readFields : Nat → List String → Option (Fields × List String)
  | 0, ts => some (.nil, ts)
  | n + 1, k :: o :: tc :: rest =>
    let key := unhexStr (String.ofList (k.toList.drop 1))
    let m := (String.ofList (tc.toList.drop 1)).toNat?.getD 0
    let tags := (rest.take m).map parseTag
    match readTy (rest.drop m) with
    | none => none
    | some (ty, r1) =>
      match readFields n r1 with
      | none => none
      | some (fs, r2) => some (.cons key (o == "1") tags ty fs, r2)
  | _, _ => none
end

/-- canonical tokens of a JSON tree, keys sorted (as the harness prints them) -/
partial def jTokens : J → List String
  | .null => ["Z"]
  | .bool true => ["T"]
  | .bool false => ["F"]
  | .num tr txt => [s!"N{tr}:{txt}"]
  | .str s => ["S" ++ hexStr s]
  | .arr l => s!"A{l.length}" :: l.flatMap jTokens
  | .obj kv =>
    let sorted := kv.toArray.qsort (fun a b => a.1 < b.1) |>.toList
    s!"O{kv.length}" :: sorted.flatMap (fun p => ("K" ++ hexStr p.1) :: jTokens p.2)

def fnv64 (s : String) : UInt64 :=
  s.toUTF8.data.foldl (fun h b => (h ^^^ b.toUInt64) * 0x100000001b3) 0xcbf29ce484222325

def hex64 (n : UInt64) : String :=
  let ds := (List.range 16).map (fun i => hexDigit (((n >>> (UInt64.ofNat (4 * (15 - i)))) &&& 0xf).toNat : Int))
  String.ofList ds

def splitAtBar (l : List String) : List String × List String :=
  (l.takeWhile (· != "|"), (l.dropWhile (· != "|")).drop 1)

def stepCodec (f : List String) : String :=
  let (hd, r1) := splitAtBar f
  let (sch, js) := splitAtBar r1
  match hd with
  | ["p", ver, _feature, _dir, _label, _desc, _esc] =>
    match readTy sch, (J.read js).map decodeJ with
    | some (ty, []), some j =>
      let d : Resp.Dialect := if ver == "R16" then .v16 else .v2
      let v := verdict (fun s => s == "http://example.com/a") ty j
      let recv := match v with
        | .ok => "ok"
        | .format => OJ.formatCode d
        | .invalid tg => Resp.codeOfTag d tg
      let send := match v with
        | .ok => "ok"
        | .format => "na"
        | .invalid _ => "err"
      let nj := norm ty j
      let re := match v with
        | .ok => hex64 (fnv64 (" " ++ " ".intercalate (jTokens nj)))
        | _ => "-"
      let stable := match v with
        | .ok => if jTokens nj == jTokens j then "1" else "0"
        | _ => "-"
      s!"recv={recv} send={send} re={re} rt={if v == .ok then "1" else "-"} stable={stable}"
    | _, _ => "bad-op"
  | _ => "bad-op"

end Ocpp.Drv

namespace Ocpp.Drv

/-- `e <ver> <code> h<hexdesc> <esc> | <details tokens>`: CreateCallError + MarshalJSON, parsed and re-serialised by the peer -/
def stepCodecErr (f : List String) : String :=
  match f with
  | "e" :: _ver :: code :: _desc :: _esc :: "|" :: _ =>
    if Gen.Guards.isErrorCodeValid code then "send=ok shape=true rt=1" else "send=err"
  | _ => "bad-op"

def stepCodecAny (f : List String) : String :=
  if f.head? == some "e" then stepCodecErr f else stepCodec f

end Ocpp.Drv
