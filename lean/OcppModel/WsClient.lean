/-!
# `ws.client`: connection loss, the reconnection loop, `Stop` — quiescent semantics with logical time

Events are handled to completion (suite `wscli`: real client against a scriptable raw server on loopback). The
reconnection goroutine is the state component `looping` (alive, between failed attempts) with its attempt
counter; the abort token of `reconnectC` is `token`. The environment decides whether the server accepts (`up`).
The back-off delay sequence is `delay` (pure arithmetic, random additions as a parameter); keep-alive is
`KeepAlive` below.
-/
namespace Ocpp.WsClient

structure St where
  up        : Bool := true      -- environment: the server accepts connections
  hanging   : Bool := false     -- environment: handshakes are not answered
  connected : Bool := false
  looping   : Bool := false     -- reconnection goroutine alive (it has failed at least once, or waits)
  attempts  : Nat := 0          -- failed attempts of the current loop
  token     : Bool := false     -- reconnectC holds the abort token
  conns     : Nat := 0          -- connections the server accepted so far
deriving Repr, DecidableEq

inductive Ev where
  | start                       -- Start(url)
  | startRetry                  -- go StartWithRetries(url)
  | down | up                   -- environment
  | hang                        -- environment: the server accepts TCP but does not answer handshakes (a dial blocks)
  | lose                        -- the connection is lost without Stop (close frame from the server, TCP reset, unanswered pings)
  | fails (n : Nat)             -- n further attempts fail while the server is down
  | idle                        -- nothing happens for a while on a healthy connection with keep-alive
  | stop
deriving Repr, DecidableEq

inductive Obs where
  | ok | err | loopingR | reconnectedR | stoppedR | failed (b : Bool)
  | discCb (forced : Bool)      -- disconnected handler (err ≠ nil / nil)
  | recCb                       -- reconnected handler
deriving Repr, DecidableEq

/-- the loop after a failed `Start` / a forced disconnect, up to its first outcome -/
def enterLoop (s : St) : St × List Obs :=
  if s.token then ({ s with token := false, looping := false }, [])              -- aborted by a token: no attempt at all
  else if s.up then ({ s with connected := true, looping := false, attempts := 0, conns := s.conns + 1 }, [.recCb])
  else ({ s with looping := true, attempts := 1 }, [])

def step (s : St) (e : Ev) : St × List Obs :=
  match e with
  | .start =>
    let s := { s with token := false }                                           -- a stale token is dropped (fix in /repo)
    if s.connected || s.looping then (s, [.err])
    else if s.up then ({ s with connected := true, conns := s.conns + 1 }, [.ok])
    else (s, [.err])
  | .startRetry =>
    let s := { s with token := false }
    if s.connected || s.looping then (s, [.err])
    else if s.up then ({ s with connected := true, conns := s.conns + 1 }, [.ok])
    else
      let (s', o) := enterLoop s
      (s', .loopingR :: o)
  | .down => ({ s with up := false }, [.ok])
  | .hang => ({ s with up := false, hanging := true }, [.ok])
  | .up =>
    let s := { s with up := true, hanging := false }
    if s.looping then ({ s with connected := true, looping := false, attempts := 0, conns := s.conns + 1 }, [.ok, .recCb])
    else (s, [.ok])
  | .lose =>
    if !s.connected then (s, [])
    else
      let (s', o) := enterLoop { s with connected := false }
      (s', (if s'.connected then Obs.reconnectedR else Obs.loopingR) :: .discCb true :: o)
  | .fails n =>
    if s.looping && !s.up then ({ s with attempts := s.attempts + n }, [.failed true]) else (s, [.failed false])
  | .idle => (s, [])
  | .stop =>
    -- connected: graceful close (disconnected handler with nil, no reconnection); a waiting loop takes the token and exits;
    -- otherwise the token stays (non-blocking put: idempotent)
    let o := if s.connected then [Obs.stoppedR, Obs.discCb false] else [Obs.stoppedR]
    if s.looping then ({ s with connected := false, looping := false, attempts := 0, token := false }, o)
    else ({ s with connected := false, token := true }, o)

def run (s : St) : List Ev → St × List Obs
  | [] => (s, [])
  | e :: es =>
    let (s1, o1) := step s e
    let (s2, o2) := run s1 es
    (s2, o1 ++ o2)

/-! ## back-off -/

/-- delay before attempt `k+1` (k failed attempts so far), in the unit of `minWait`; `r k` = the random addition
    drawn at step k (`0 ≤ r k ≤ range`), `repeatTimes` = RetryBackOffRepeatTimes -/
def delay (minWait : Nat) (repeatTimes : Nat) (r : Nat → Nat) : Nat → Nat
  | 0 => minWait + r 0
  | k + 1 => if k + 1 < repeatTimes then 2 * delay minWait repeatTimes r k + r (k + 1) else delay minWait repeatTimes r k

/-! ## keep-alive: read deadline arithmetic -/

structure KCfg where
  pingPeriod : Nat     -- 0: no pings sent
  pongWait   : Nat
  readWait   : Nat
deriving Repr, DecidableEq

/-- `getReadTimeout`: prefer the ping configuration, then the read wait, then no time-out (`none`) -/
def readWait (c : KCfg) : Option Nat :=
  if c.pingPeriod > 0 ∧ c.pongWait > 0 then some c.pongWait
  else if c.readWait > 0 then some c.readWait
  else none

/-- frames (pongs / pings / data) arrive at the given times (ascending); the read fails at the first deadline that
    passes without a frame: returns the failure time, `none` if the connection survives all arrivals -/
def firstTimeout (w : Nat) : Nat → List Nat → Option Nat
  | _, [] => none
  | deadline, t :: rest => if t ≤ deadline then firstTimeout w (t + w) rest else some deadline

end Ocpp.WsClient

namespace Ocpp.WsClient

/-! ## keep-alive between two library endpoints: who keeps whose read deadline alive -/

/-- periods of the frame streams that extend side `x`'s read deadline when the peer is `y` and both are healthy:
    the pongs answering x's own pings (every peer answers pings), and y's pings — which extend the deadline only if
    x installed the ping handler (`ReadWait > 0`) -/
def extensions (x y : KCfg) : List Nat :=
  (if x.pingPeriod > 0 then [x.pingPeriod] else []) ++
  (if y.pingPeriod > 0 ∧ x.readWait > 0 then [y.pingPeriod] else [])

/-- side `x` keeps a healthy idle connection to `y` open -/
def sideAlive (x y : KCfg) : Bool :=
  match readWait x with
  | none => true
  | some w => (extensions x y).any (fun p => p < w)

def bothAlive (c s : KCfg) : Bool := sideAlive c s && sideAlive s c

/-- the client's socket configuration as `client.Start` builds it (`ReadWait = 0`), the server's as `wsHandler` does -/
def clientCfg (pingPeriod pongWait : Nat) : KCfg := { pingPeriod := pingPeriod, pongWait := pongWait, readWait := 0 }
def serverCfg (pingWait pingPeriod pongWait : Nat) : KCfg := { pingPeriod := pingPeriod, pongWait := pongWait, readWait := pingWait }

end Ocpp.WsClient
