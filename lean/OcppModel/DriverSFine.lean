import OcppModel.ServerFine
import Std.Data.HashSet

/-!
# Driver mode `sfine`: does the per-client interleaving model of the server dispatcher explain an implementation log?

Input: the events of ONE client in the log of one run of the instrumented server endpoint (injected queue map and queues,
fake websocket server, handlers), one visible event per line; `reset N` announces a log with N pushes. The driver keeps
the set of model states consistent with the log so far, closed under hidden steps. `REJECT` = no interleaving of
`Ocpp.ServerFine` produces this log. A search over the model: it validates the model against the code, it proves nothing.
-/
namespace Ocpp.DrvS
open Ocpp.ServerFine

/-- search state: model state; disconnects announced in the log that have not taken effect yet (the harness logs
    `disconnect` before it tells the endpoint); connects that have taken effect but are not logged yet (it logs `connect`
    after the endpoint returned); pushes still to come in this log (bounds the senders that hold a queue) -/
structure DS where
  s  : St
  pp : Nat
  re : Nat
  pu : Nat
  multi : Bool     -- the server has other clients (their ready tokens can occupy the slot)
deriving DecidableEq, Hashable

/-- a reply that finds another (or no) request pending is discarded without any effect: only replies to the pending
    request are explored -/
def hiddenLabels (multi : Bool) (s : St) : List Label :=
  [.notify, .takeReq, .takeTimer, .takeReady, .pstep, .writeFail, .sigPost, .rstep, .lstep] ++
  (if multi then [.takeOther, .otherReady] else []) ++
  s.live.map Label.fire ++ (match s.pend with | some id => [Label.reply id] | none => [])

def hiddenSucc (d : DS) : List DS :=
  let s := d.s
  ((hiddenLabels d.multi s).filterMap (fun l => if (vis s l).isNone then (step s l).map (fun s' => { d with s := s' }) else none)) ++
  (if s.hold.length < min d.pu 3 then ((step s .sget).map (fun s' => { d with s := s' })).toList else []) ++
  (if d.pp > 0 then ((step s .disc).map (fun s' => { d with s := s', pp := d.pp - 1 })).toList else []) ++
  (if d.re == 0 then ((step s .connect).map (fun s' => { d with s := s', re := 1 })).toList else [])

def closure : Nat → Std.HashSet DS → List DS → Std.HashSet DS
  | 0, seen, _ => seen
  | _, seen, [] => seen
  | fuel + 1, seen, frontier =>
    let (seen', fresh) := (frontier.flatMap hiddenSucc).foldl
      (fun (acc : Std.HashSet DS × List DS) x => if acc.1.contains x then acc else (acc.1.insert x, x :: acc.2)) (seen, [])
    closure fuel seen' fresh

def closeList (l : List DS) : List DS :=
  let start : Std.HashSet DS := l.foldl (fun a x => a.insert x) {}
  (closure 96 start start.toList).toList

def stepVis (d : DS) (v : Vis) : List DS :=
  let s := d.s
  match v with
  | .disconnect => [{ d with pp := d.pp + 1 }]
  | .connect =>
    if d.re > 0 then [{ d with re := d.re - 1 }]
    else ((step s .connect).map (fun s' => { d with s := s' })).toList
  | .push id => (s.hold.eraseDups.filterMap (fun qi => (step s (.push id qi)).map (fun s' => { d with s := s', pu := d.pu - 1 })))
  | .wrote _ => if vis s .writeOk == some v then ((step s .writeOk).map (fun s' => { d with s := s' })).toList else []
  | .pop _ => [Label.pstep, Label.rstep].filterMap (fun l => if vis s l == some v then (step s l).map (fun s' => { d with s := s' }) else none)
  | .resp _ => if vis s .rstep == some v then ((step s .rstep).map (fun s' => { d with s := s' })).toList else []
  | .cancelTimeout _ | .cancelWrite _ => if vis s .pstep == some v then ((step s .pstep).map (fun s' => { d with s := s' })).toList else []

def parseId (s : String) : Option Nat := (s.drop 1).toNat?

def parseVis : List String → Option Vis
  | ["push", id] => (parseId id).map Vis.push
  | ["wrote", id] => (parseId id).map Vis.wrote
  | ["pop", id] => (parseId id).map Vis.pop
  | ["resp", id] => (parseId id).map Vis.resp
  | ["err", id] => (parseId id).map Vis.resp
  | ["cancel-timeout", id] => (parseId id).map Vis.cancelTimeout
  | ["cancel-write", id] => (parseId id).map Vis.cancelWrite
  | ["disconnect"] => some .disconnect
  | ["connect"] => some .connect
  | _ => none

/-- every thread is between operations, nothing is waiting, nothing is pending or dispatchable, every link event of the
    log has taken effect -/
def idleState (d : DS) : Bool :=
  let s := d.s
  d.pp == 0 && d.re == 0 && s.pump == .sel && s.reqs == 0 && s.ready != .me && s.sigw == 0 && s.mid == 0 && s.hold.isEmpty &&
  s.reader == .idle && s.link == .idle && s.tc.isEmpty && s.pend.isNone &&
  (match s.cur with | some i => (getQ s.qs i).isEmpty | none => true)

def stepSFine (st : Option (List DS)) (f : List String) : Option (List DS) × String :=
  match f with
  | ["reset", n, t, m] => (some (closeList [{ s := { tmo := t != "0" }, pp := 0, re := 0, pu := n.toNat?.getD 0, multi := m != "0" }]), "ok")
  | ["end"] =>
    match st with
    | none => (none, "DEAD")
    | some cur => (st, if cur.any idleState then "idle" else "busy")
  | _ =>
    match st with
    | none => (none, "DEAD")
    | some cur =>
      match parseVis f with
      | none => (st, "bad-op")
      | some v =>
        let next := cur.flatMap (fun s => stepVis s v)
        if next.isEmpty then (none, "REJECT")
        else
          let cl := closeList next
          (some cl, s!"ok {cl.length}")

end Ocpp.DrvS
