import OcppModel.OcppJ
import OcppModel.DriverDateTime

/-! Line-protocol driver for suite `c06`; mirrors go/cmd/harness/c06.go.
    The payload verdicts are those of the few payload classes the generator uses (field-less requests
    Heartbeat / ClearCache; responses with one required field). -/
namespace Ocpp.Drv
open Ocpp.OJ Ocpp

def unhexStr (h : String) : String :=
  let bytes := (unhex h.toList).map (fun (i : Int) => i.toNat.toUInt8)
  match String.fromUTF8? (ByteArray.mk bytes.toArray) with
  | some s => s
  | none => h

def hexStr (s : String) : String := hex (s.toUTF8.data.toList.map (fun b => (b.toNat : Int)))

/-- decode the hex-encoded strings and keys of a token-read tree -/
partial def decodeJ : J → J
  | .str s => .str (unhexStr s)
  | .arr l => .arr (l.map decodeJ)
  | .obj l => .obj (l.map (fun p => (unhexStr p.1, decodeJ p.2)))
  | j => j

def lookupKey (l : List (String × J)) (k : String) : Option J := (l.find? (·.1 == k)).map (·.2)

def reqVerdict (_action : String) : J → Verdict
  | .obj _ => .ok
  | .null => .ok
  | _ => .format

/-- response with one required field `key`; `good` the accepted strings, `badTag` the tag failing otherwise -/
def respVerdictOf (key : String) (good : List String) (parseFails : Bool) : J → Verdict
  | .obj l =>
    match lookupKey l key with
    | none => .invalid "required"
    | some .null => .invalid "required"
    | some (.str s) => if good.contains s then .ok else if parseFails then .format else .invalid "enumTag"
    | some _ => .format
  | .null => .invalid "required"
  | _ => .format

def envOf (ver role : String) : Env :=
  { dialect := if ver == "R16" then .v16 else .v2,
    known := fun a => a == "Heartbeat" || a == "ClearCache",
    reqVerdict := reqVerdict,
    respVerdict := if role == "cp" then respVerdictOf "currentTime" ["2020-01-01T00:00:00Z"] true
                   else respVerdictOf "status" ["Accepted", "Rejected"] false }

def showOut : Out → String
  | .parseError => "err"
  | .reply id code => s!"reply:{hexStr id}:{code}"
  | .call id action => s!"call:{id}:{action}"
  | .cdisp (.resp id) => s!"result:{id}"
  | .cdisp (.errResp id) => s!"error:{id}"
  | .cdisp (.wrote id) => s!"wrote-call:{id}"
  | .sdisp (.resp _ id) => s!"result:{id}"
  | .sdisp (.errResp _ id) => s!"error:{id}"
  | .sdisp (.wrote _ id) => s!"wrote-call:{id}"
  | o => s!"unexpected:{repr o}"

def joinOuts (l : List Out) : String :=
  let w := l.map showOut
  -- the harness prints the handler's return value first
  let w := (w.filter (· == "err")) ++ (w.filter (· != "err"))
  if w.isEmpty then "nothing" else " ".intercalate w

def runC (s : CD.St) (es : List CD.Ev) : CD.St := (CD.run s es).1

def runS (s : SD.St) : List SD.Ev → SD.St
  | [] => s
  | e :: es => runS (SD.step s e).1 es

def stepC06 (f : List String) : String :=
  match f with
  | "f" :: ver :: role :: pend :: _hex :: "|" :: toks =>
    let env := envOf ver role
    let frame : Option J := if toks == ["X"] then none else (J.read toks).map decodeJ
    if toks != ["X"] && frame.isNone then "bad-op" else
    -- "0h" / "1h": an invalid-message hook that returns a fresh error with the same code (no effect on what is written)
    let pend := pend == "1" || pend == "1h"
    if role == "cp" then
      let s0 := runC (CD.init 0) ([.start] ++ (if pend then [.send "pid", .send "qid"] else []))
      let (s1, outs) := recvC env s0 frame
      let genuine := outs.any (fun o => o == .cdisp (.resp "pid") || o == .cdisp (.errResp "pid"))
      let state := if pend && !genuine then (if CD.pendHas s1.pend && s1.q.length == 2 then "ok" else "corrupt")
                   else if !pend then (if !CD.pendHas s1.pend && s1.q.isEmpty then "ok" else "corrupt") else "ok"
      let follow :=
        if pend && !genuine then
          let (_, obs) := CD.step s1 (.reply "pid" false)
          if obs == [CD.Obs.resp "pid", CD.Obs.wrote "qid"] then "ok" else "bad"
        else
          let s2 := if genuine then (CD.step s1 (.reply "qid" false)).1 else s1
          let (s3, o3) := CD.step s2 (.send "nid")
          let (_, o4) := CD.step s3 (.reply "nid" false)
          if o3 == [CD.Obs.accepted "nid", CD.Obs.wrote "nid"] && o4 == [CD.Obs.resp "nid"] then "ok" else "bad"
      s!"{joinOuts outs} state={state} follow={follow}"
    else
      let c := "c1"
      let s0 := runS (SD.init 0) ([.start, .connect c] ++ (if pend then [.send c "pid", .send c "qid"] else []))
      let (s1, outs) := recvS env s0 c frame
      let genuine := outs.any (fun o => o == .sdisp (.resp c "pid") || o == .sdisp (.errResp c "pid"))
      let cl := SD.get s1 c
      let state := if pend && !genuine then (if CD.pendHas cl.pend && cl.q.length == 2 then "ok" else "corrupt")
                   else if !pend then (if !CD.pendHas cl.pend && cl.q.isEmpty then "ok" else "corrupt") else "ok"
      let follow :=
        if pend && !genuine then
          let (_, obs) := SD.step s1 (.reply c "pid" false)
          if obs == [SD.Obs.resp c "pid", SD.Obs.wrote c "qid"] then "ok" else "bad"
        else
          let s2 := if genuine then (SD.step s1 (.reply c "qid" false)).1 else s1
          let (s3, o3) := SD.step s2 (.send c "nid")
          let (_, o4) := SD.step s3 (.reply c "nid" false)
          if o3 == [SD.Obs.accepted c "nid", SD.Obs.wrote c "nid"] && o4 == [SD.Obs.resp c "nid"] then "ok" else "bad"
      s!"{joinOuts outs} state={state} follow={follow}"
  | _ => "bad-op"

end Ocpp.Drv
