/-!
# Admission of a websocket connection: `ws.server.wsHandler`

Decision logic of the handshake, in the order of the code: sub-protocol negotiation loop (client preference
order; "accept the first" when the server lists none), basic auth, check-client handler, gorilla's `Upgrade`
(its preconditions and the origin check: dependency, modelled from gorilla/websocket v1.5.3 and differentially
exercised), protocol-error close after the upgrade, duplicate-id close under the connection lock.
-/
namespace Ocpp.WsAdmit

structure Cfg where
  supported : List String                      -- upgrader.Subprotocols
  auth      : Option (String → String → Bool)  -- basicAuthHandler
  check     : Option (String → Bool)           -- checkClientHandler (by id)
  origin    : Option Bool                      -- custom CheckOrigin handler's verdict on this request; none: gorilla's same-origin default

structure Hs where
  requested  : List String                     -- websocket.Subprotocols(r): elements of the header list, trimmed
  creds      : Option (String × String)        -- r.BasicAuth(): present and well-formed
  id         : String
  originSame : Option Bool                     -- Origin header absent / its host equals the request host
  wsUpgrade  : Bool                            -- GET with Connection: upgrade, Upgrade: websocket, version 13, valid key
  duplicate  : Bool                            -- a connection with this id is in the map at the locked check

inductive Outcome where
  | http (status : Nat)
  | closeFrame (code : Nat)
  | admitted (proto : String)
deriving Repr, DecidableEq

/-- the inner loop: first supported protocol equal to `p` -/
def inSupported (supported : List String) (p : String) : Bool := supported.any (· == p)

/-- the negotiation loop of `wsHandler`; `""` = nothing negotiated -/
def negotiate (supported : List String) : List String → String
  | [] => ""
  | p :: rest =>
    if p == "" then negotiate supported rest                  -- empty list elements are skipped (fix in /repo)
    else if supported.isEmpty then p
    else if inSupported supported p then p
    else negotiate supported rest

def authOk (cfg : Cfg) (hs : Hs) : Bool :=
  match cfg.auth with
  | none => true
  | some h => match hs.creds with
    | none => false
    | some (u, p) => h u p

def checkOk (cfg : Cfg) (hs : Hs) : Bool :=
  match cfg.check with
  | none => true
  | some h => h hs.id

def originOk (cfg : Cfg) (hs : Hs) : Bool :=
  match cfg.origin with
  | some b => b
  | none => match hs.originSame with
    | none => true
    | some b => b

def admission (cfg : Cfg) (hs : Hs) : Outcome :=
  if !authOk cfg hs then .http 401
  else if !checkOk cfg hs then .http 401
  else if !hs.wsUpgrade then .http 400
  else if !originOk cfg hs then .http 403
  else
    let neg := negotiate cfg.supported hs.requested
    if neg == "" then .closeFrame 1002
    else if hs.duplicate then .closeFrame 1008
    else .admitted neg

/-- server callbacks caused by the handshake itself -/
def newClientCalls (o : Outcome) : Nat :=
  match o with
  | .admitted _ => 1
  | _ => 0

/-- may the application's message callback ever fire for this connection? -/
def mayDeliver (o : Outcome) : Bool :=
  match o with
  | .admitted _ => true
  | _ => false

end Ocpp.WsAdmit
