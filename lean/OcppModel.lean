import OcppModel.Containers
import OcppModel.Expected
import OcppModel.Tables
import OcppModel.Registry
import OcppModel.DateTime
import OcppModel.DriverDateTime
import OcppModel.DriverContainers
