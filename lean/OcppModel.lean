import OcppModel.Containers
import OcppModel.Expected
import OcppModel.DriverContainers
