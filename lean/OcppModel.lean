import OcppModel.Containers
import OcppModel.Expected
import OcppModel.DateTime
import OcppModel.DriverDateTime
import OcppModel.DriverContainers
