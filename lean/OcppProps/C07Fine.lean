import OcppModel.ClientFine

/-!
# C07 / C02 below quiescence (client dispatcher): every interleaving of pump, reader, senders and link

For the small-step model `Ocpp.ClientFine` (the signalling protocol of the repaired `DefaultClientDispatcher`):
* `no_crash`: the pump never dereferences a nil bundle;
* `pending_is_head`: the pending request is the head of the queue;
* `no_lost_wakeup`: whenever every thread is between operations, no token is waiting and the pump is parked, there is
  nothing the pump could dispatch (not paused, queue non-empty, nothing pending is impossible) — progress needs no further
  event;
* no operation of a sender, the reader or the link ever blocks (`no_thread_blocks`): there is nothing to deadlock on;
* `old_guard_order_crashes`: with the order of the dispatch guard that fix d6325cc first had, an interleaving reaches the
  nil dereference (this is how the order was corrected).
-/
namespace C07Fine
open Ocpp.ClientFine

def safeId (s : St) (id : Nat) : Prop := s.pend = some id ∨ id ∉ s.q

/-- ids held by the pump / the reader in states that are about to call `CompleteRequest` -/
def pumpSafe (s : St) : Prop :=
  match s.pump with
  | .writing id => id ∈ s.used ∧ safeId s id
  | .wfail id => id ∈ s.used ∧ safeId s id
  | .tmo3 _ h => h ∈ s.used ∧ safeId s h
  | .chk3 _ => s.pendFirst = true → s.pend = none
  | .disp => s.pendFirst = true → (s.pend = none ∧ s.q ≠ [])
  | _ => True

def readerSafe (s : St) : Prop :=
  match s.reader with
  | .compl id => id ∈ s.used ∧ safeId s id
  | _ => True

structure Inv (s : St) : Prop where
  nodup : s.q.Nodup
  sub : ∀ x ∈ s.q, x ∈ s.used
  head : ∀ p, s.pend = some p → s.q.head? = some p
  pump : pumpSafe s
  reader : readerSafe s
  nocrash : s.pendFirst = true → s.crash = false

/-- the part of the invariant about queue, pending id and used ids -/
structure Core (q : List Nat) (pend : Option Nat) (used : List Nat) : Prop where
  nodup : q.Nodup
  sub : ∀ x ∈ q, x ∈ used
  head : ∀ p, pend = some p → q.head? = some p

theorem Inv.core {s : St} (h : Inv s) : Core s.q s.pend s.used := ⟨h.nodup, h.sub, h.head⟩

theorem complete_eff (s : St) (id : Nat) (h : (complete s id).2 = true) :
    ∃ t, s.q = id :: t ∧ (complete s id).1 = { s with q := t, pend := if s.pend == some id then none else s.pend } := by
  unfold complete at h ⊢
  cases hq : s.q with
  | nil => simp [hq] at h
  | cons a t =>
    simp only [hq] at h ⊢
    by_cases e : (a == id) = true
    · simp only [e, if_true]
      have : a = id := by simpa using e
      exact ⟨t, by rw [this], rfl⟩
    · simp [e] at h

theorem complete_noeff (s : St) (id : Nat) (h : (complete s id).2 = false) : (complete s id).1 = s := by
  unfold complete at h ⊢
  cases hq : s.q with
  | nil => rfl
  | cons a t =>
    simp only [hq] at h ⊢
    by_cases e : (a == id) = true
    · simp [e] at h
    · simp [e]

/-- a completion that takes effect pops the head, which was the pending request or a request nobody waits for -/
theorem core_pop {id : Nat} {t : List Nat} {pend : Option Nat} {used : List Nat} (c : Core (id :: t) pend used) :
    Core t (if pend == some id then none else pend) used := by
  refine ⟨(List.nodup_cons.mp c.nodup).2, fun x hx => c.sub x (List.mem_cons_of_mem _ hx), ?_⟩
  intro p hp
  by_cases e : pend = some id
  · simp [e] at hp
  · have e' : (pend == some id) = false := by simpa using e
    simp only [e', Bool.false_eq_true, if_false] at hp
    have := c.head p hp
    simp only [List.head?_cons, Option.some.injEq] at this
    subst this
    exact absurd hp e

theorem safe_pop {id j : Nat} {t : List Nat} {pend : Option Nat} {used : List Nat} (c : Core (id :: t) pend used)
    (hj : pend = some j ∨ j ∉ id :: t) :
    (if pend == some id then none else pend) = some j ∨ j ∉ t := by
  rcases hj with hj | hj
  · have := c.head j hj
    simp only [List.head?_cons, Option.some.injEq] at this
    subst this
    right
    exact (List.nodup_cons.mp c.nodup).1
  · right; exact fun h => hj (List.mem_cons_of_mem _ h)

theorem inv_init : Inv {} := by
  refine ⟨by simp, by simp, by simp, ?_, ?_, by simp⟩ <;> simp [pumpSafe, readerSafe]

theorem safe_push {q : List Nat} {pend : Option Nat} {used : List Nat} {id j : Nat} (hj : j ∈ used) (hid : id ∉ used)
    (h : pend = some j ∨ j ∉ q) : pend = some j ∨ j ∉ q ++ [id] := by
  rcases h with h | h
  · exact Or.inl h
  · right
    simp only [List.mem_append, List.mem_singleton, not_or]
    exact ⟨h, fun e => hid (e ▸ hj)⟩

theorem core_push {q : List Nat} {pend : Option Nat} {used : List Nat} {id : Nat} (c : Core q pend used) (hid : id ∉ used) :
    Core (q ++ [id]) pend (id :: used) := by
  refine ⟨?_, ?_, ?_⟩
  · rw [List.nodup_append]
    refine ⟨c.nodup, by simp, ?_⟩
    intro a ha b hb
    simp only [List.mem_singleton] at hb
    subst hb
    exact fun e => hid (e ▸ c.sub a ha)
  · intro x hx
    simp only [List.mem_append, List.mem_singleton] at hx
    rcases hx with hx | hx
    · exact List.mem_cons_of_mem _ (c.sub x hx)
    · subst hx; exact List.mem_cons_self
  · intro p hp
    have := c.head p hp
    cases q with
    | nil => simp at this
    | cons a t => simpa using this

theorem inv_same (s s' : St) (hi : Inv s) (hq : s'.q = s.q) (hpe : s'.pend = s.pend) (hu : s'.used = s.used)
    (hf : s'.pendFirst = s.pendFirst) (hcr : s'.crash = s.crash) (hp : pumpSafe s') (hr : readerSafe s') : Inv s' :=
  ⟨hq ▸ hi.nodup, by rw [hq, hu]; exact hi.sub, by rw [hq, hpe]; exact hi.head, hp, hr, by rw [hf, hcr]; exact hi.nocrash⟩

theorem readerSafe_same (s s' : St) (hq : s'.q = s.q) (hpe : s'.pend = s.pend) (hu : s'.used = s.used)
    (hre : s'.reader = s.reader) (h : readerSafe s) : readerSafe s' := by
  unfold readerSafe safeId at h ⊢
  rw [hre, hq, hpe, hu]; exact h

theorem pumpSafe_same (s s' : St) (hq : s'.q = s.q) (hpe : s'.pend = s.pend) (hu : s'.used = s.used)
    (hf : s'.pendFirst = s.pendFirst) (hpu : s'.pump = s.pump) (h : pumpSafe s) : pumpSafe s' := by
  unfold pumpSafe safeId at h ⊢
  rw [hpu, hq, hpe, hu, hf]; exact h

/-- after an effective completion of `id` (the queue was `id :: t`) -/
theorem readerSafe_pop (s s' : St) (id : Nat) (t : List Nat) (hq : s.q = id :: t) (hc : Core s.q s.pend s.used)
    (hq' : s'.q = t) (hpe : s'.pend = if s.pend == some id then none else s.pend) (hu : s'.used = s.used)
    (hre : s'.reader = s.reader) (h : readerSafe s) : readerSafe s' := by
  unfold readerSafe safeId at h ⊢
  rw [hre]
  cases hr : s.reader with
  | compl j =>
    simp only [hr] at h ⊢
    rw [hq', hpe, hu]
    rw [hq] at hc h
    exact ⟨h.1, safe_pop hc h.2⟩
  | _ => trivial

theorem pumpSafe_pop (s s' : St) (id : Nat) (t : List Nat) (hq : s.q = id :: t) (hc : Core s.q s.pend s.used)
    (hq' : s'.q = t) (hpe : s'.pend = if s.pend == some id then none else s.pend) (hu : s'.used = s.used)
    (hf : s'.pendFirst = s.pendFirst) (hpu : s'.pump = s.pump)
    (hsafe : s.pend = some id ∨ id ∉ s.q) (h : pumpSafe s) : pumpSafe s' := by
  unfold pumpSafe safeId at h ⊢
  rw [hpu]
  cases hp : s.pump with
  | writing j =>
    simp only [hp] at h ⊢
    rw [hq', hpe, hu]; rw [hq] at hc h
    exact ⟨h.1, safe_pop hc h.2⟩
  | wfail j =>
    simp only [hp] at h ⊢
    rw [hq', hpe, hu]; rw [hq] at hc h
    exact ⟨h.1, safe_pop hc h.2⟩
  | tmo3 r j =>
    simp only [hp] at h ⊢
    rw [hq', hpe, hu]; rw [hq] at hc h
    exact ⟨h.1, safe_pop hc h.2⟩
  | chk3 r =>
    simp only [hp] at h ⊢
    rw [hpe, hf]
    intro hf'
    simp [h hf']
  | disp =>
    simp only [hp] at h ⊢
    rw [hf]
    intro hf'
    exfalso
    rcases hsafe with e | e
    · simp [(h hf').1] at e
    · exact e (by rw [hq]; exact List.mem_cons_self)
  | _ => trivial

/-- the invariant is preserved by every step of every thread -/
theorem inv_step (s s' : St) (l : Label) (hi : Inv s) (h : step s l = some s') : Inv s' := by
  have hc := hi.core
  have hp := hi.pump
  have hr := hi.reader
  cases l with
  | push id =>
    simp only [step] at h
    split at h
    · cases h
    · rename_i hfresh
      cases h
      have c' := core_push hc hfresh
      refine ⟨c'.nodup, c'.sub, c'.head, ?_, ?_, hi.nocrash⟩
      · unfold pumpSafe at hp ⊢
        cases hpu : s.pump with
        | chk3 r => simpa only [hpu] using hp
        | disp =>
          simp only [hpu] at hp ⊢
          intro hf; exact ⟨(hp hf).1, by simp⟩
        | writing j =>
          simp only [hpu] at hp ⊢
          exact ⟨List.mem_cons_of_mem _ hp.1, safe_push hp.1 hfresh hp.2⟩
        | wfail j =>
          simp only [hpu] at hp ⊢
          exact ⟨List.mem_cons_of_mem _ hp.1, safe_push hp.1 hfresh hp.2⟩
        | tmo3 r j =>
          simp only [hpu] at hp ⊢
          exact ⟨List.mem_cons_of_mem _ hp.1, safe_push hp.1 hfresh hp.2⟩
        | _ => trivial
      · unfold readerSafe at hr ⊢
        cases hre : s.reader with
        | compl j =>
          simp only [hre] at hr ⊢
          exact ⟨List.mem_cons_of_mem _ hr.1, safe_push hr.1 hfresh hr.2⟩
        | _ => trivial
  | wakeup =>
    simp only [step] at h
    split at h
    · cases h
      exact inv_same s _ hi rfl rfl rfl rfl rfl (pumpSafe_same s _ rfl rfl rfl rfl rfl hp) (readerSafe_same s _ rfl rfl rfl rfl hr)
    · cases h
  | takeWake =>
    simp only [step] at h
    split at h
    · split at h
      · cases h
        exact inv_same s _ hi rfl rfl rfl rfl rfl (by simp [pumpSafe]) (readerSafe_same s _ rfl rfl rfl rfl hr)
      · cases h
    · cases h
  | takeReady =>
    simp only [step] at h
    split at h
    · split at h
      · cases h
        exact inv_same s _ hi rfl rfl rfl rfl rfl (by simp [pumpSafe]) (readerSafe_same s _ rfl rfl rfl rfl hr)
      · cases h
    · cases h
  | expire =>
    simp only [step] at h
    split at h
    · cases h
      exact inv_same s _ hi rfl rfl rfl rfl rfl (by simp [pumpSafe]) (readerSafe_same s _ rfl rfl rfl rfl hr)
    · cases h
  | writeOk =>
    simp only [step] at h
    split at h
    · cases h
      exact inv_same s _ hi rfl rfl rfl rfl rfl (by simp [pumpSafe]) (readerSafe_same s _ rfl rfl rfl rfl hr)
    · cases h
  | writeFail =>
    simp only [step] at h
    split at h
    · rename_i id hpu
      cases h
      refine inv_same s _ hi rfl rfl rfl rfl rfl ?_ (readerSafe_same s _ rfl rfl rfl rfl hr)
      unfold pumpSafe at hp ⊢
      simp only [hpu] at hp
      exact hp
    · cases h
  | reply id =>
    simp only [step] at h
    split at h
    · cases h
      exact inv_same s _ hi rfl rfl rfl rfl rfl (pumpSafe_same s _ rfl rfl rfl rfl rfl hp) (by simp [readerSafe])
    · cases h
  | pause =>
    simp only [step] at h
    split at h
    · cases h
      exact inv_same s _ hi rfl rfl rfl rfl rfl (pumpSafe_same s _ rfl rfl rfl rfl rfl hp) (readerSafe_same s _ rfl rfl rfl rfl hr)
    · cases h
  | resume =>
    simp only [step] at h
    split at h
    · cases h
      exact inv_same s _ hi rfl rfl rfl rfl rfl (pumpSafe_same s _ rfl rfl rfl rfl rfl hp) (readerSafe_same s _ rfl rfl rfl rfl hr)
    · cases h
  | lstep =>
    simp only [step] at h
    split at h
    · cases h
    · cases h
      exact inv_same s _ hi rfl rfl rfl rfl rfl (pumpSafe_same s _ rfl rfl rfl rfl rfl hp) (readerSafe_same s _ rfl rfl rfl rfl hr)
  | rstep =>
    simp only [step] at h
    split at h
    · cases h
    · -- got id: the pending check
      rename_i id hre
      cases h
      refine inv_same s _ hi rfl rfl rfl rfl rfl (pumpSafe_same s _ rfl rfl rfl rfl rfl hp) ?_
      unfold readerSafe safeId
      by_cases e : s.pend = some id
      · simp only [e, beq_self_eq_true, if_true]
        have hh := hi.head id e
        have hm : id ∈ s.q := by
          cases hq : s.q with
          | nil => simp [hq] at hh
          | cons a t => simp only [hq, List.head?_cons, Option.some.injEq] at hh; simp [hh]
        exact ⟨hi.sub id hm, Or.inl trivial⟩
      · have e' : (s.pend == some id) = false := by simpa using e
        simp [e']
    · -- compl id: CompleteRequest under the completion mutex
      rename_i id hre
      cases h
      have hrs : id ∈ s.used ∧ safeId s id := by
        unfold readerSafe at hr; simpa only [hre] using hr
      cases he : (complete s id).2 with
      | true =>
        obtain ⟨t, hq, hcs⟩ := complete_eff s id he
        simp only [if_true]
        rw [hcs]
        have c' : Core t (if s.pend == some id then none else s.pend) s.used := by
          have := hc; rw [hq] at this; exact core_pop this
        refine ⟨c'.nodup, c'.sub, c'.head, ?_, by simp [readerSafe], hi.nocrash⟩
        exact pumpSafe_pop s _ id t hq hc rfl rfl rfl rfl rfl hrs.2 hp
      | false =>
        simp only [Bool.false_eq_true, if_false]
        rw [complete_noeff s id he]
        exact inv_same s _ hi rfl rfl rfl rfl rfl (pumpSafe_same s _ rfl rfl rfl rfl rfl hp) (by simp [readerSafe])
    · cases h
      exact inv_same s _ hi rfl rfl rfl rfl rfl (pumpSafe_same s _ rfl rfl rfl rfl rfl hp) (by simp [readerSafe])
    · cases h
      exact inv_same s _ hi rfl rfl rfl rfl rfl (pumpSafe_same s _ rfl rfl rfl rfl rfl hp) (by simp [readerSafe])
  | pstep =>
    simp only [step] at h
    have rs : ∀ s'' : St, s''.q = s.q → s''.pend = s.pend → s''.used = s.used → s''.reader = s.reader → readerSafe s'' :=
      fun s'' a b c d => readerSafe_same s s'' a b c d hr
    split at h
    · cases h
    · -- chk1
      cases h
      refine inv_same s _ hi rfl rfl rfl rfl rfl ?_ (rs _ rfl rfl rfl rfl)
      by_cases e : s.paused = true <;> simp [pumpSafe, e]
    · -- chk2
      rename_i r hpu
      split at h
      · cases h
        exact inv_same s _ hi rfl rfl rfl rfl rfl (by simp [pumpSafe]) (rs _ rfl rfl rfl rfl)
      · split at h
        · rename_i hf
          cases h
          refine inv_same s _ hi rfl rfl rfl rfl rfl ?_ (rs _ rfl rfl rfl rfl)
          unfold pumpSafe
          by_cases e : s.pend.isNone = true
          · simp only [e, if_true]
            intro _; simpa using e
          · simp [e]
        · rename_i hf
          cases h
          refine inv_same s _ hi rfl rfl rfl rfl rfl ?_ (rs _ rfl rfl rfl rfl)
          by_cases e : (!s.q.isEmpty) = true <;> simp [pumpSafe, e, hf]
    · -- chk3
      rename_i r hpu
      have hp3 : s.pendFirst = true → s.pend = none := by
        unfold pumpSafe at hp; simpa only [hpu] using hp
      split at h
      · rename_i hf
        cases h
        refine inv_same s _ hi rfl rfl rfl rfl rfl ?_ (rs _ rfl rfl rfl rfl)
        unfold pumpSafe
        by_cases e : (!s.q.isEmpty) = true
        · simp only [e, if_true]
          intro _
          refine ⟨hp3 hf, ?_⟩
          intro hq; simp [hq] at e
        · simp [e]
      · rename_i hf
        cases h
        refine inv_same s _ hi rfl rfl rfl rfl rfl ?_ (rs _ rfl rfl rfl rfl)
        by_cases e : s.pend.isNone = true <;> simp [pumpSafe, e, hf]
    · -- disp
      rename_i hpu
      have hpd : s.pendFirst = true → (s.pend = none ∧ s.q ≠ []) := by
        unfold pumpSafe at hp; simpa only [hpu] using hp
      split at h
      · rename_i hd tl hq
        cases h
        have hhd : hd ∈ s.q := by rw [hq]; exact List.mem_cons_self
        refine ⟨hi.nodup, hi.sub, ?_, ?_, ?_, hi.nocrash⟩
        · intro p hpp
          simp only at hpp
          by_cases e : s.pend.isNone = true
          · simp only [e, if_true, Option.some.injEq] at hpp
            subst hpp; simp [hq]
          · simp only [e, Bool.false_eq_true, if_false] at hpp
            exact hi.head p hpp
        · unfold pumpSafe safeId
          simp only
          refine ⟨hi.sub hd hhd, ?_⟩
          by_cases e : s.pend.isNone = true
          · simp [e]
          · simp only [e, Bool.false_eq_true, if_false]
            cases hpe : s.pend with
            | none => simp [hpe] at e
            | some p =>
              have := hi.head p hpe
              simp only [hq, List.head?_cons, Option.some.injEq] at this
              left; rw [this]
        · unfold readerSafe safeId at hr ⊢
          cases hre : s.reader with
          | compl j =>
            simp only [hre] at hr ⊢
            refine ⟨hr.1, ?_⟩
            rcases hr.2 with e | e
            · left; simp [e]
            · right; exact e
          | _ => trivial
      · rename_i hq
        cases h
        refine ⟨hi.nodup, hi.sub, hi.head, ?_, rs _ rfl rfl rfl rfl, ?_⟩
        · unfold pumpSafe; simp only [hpu]
          exact hpd
        · intro hf
          exact absurd hq (hpd hf).2
    · cases h
    · -- wfail id
      rename_i id hpu
      cases h
      cases he : (complete s id).2 with
      | true =>
        obtain ⟨t, hq, hcs⟩ := complete_eff s id he
        rw [hcs]
        have c' : Core t (if s.pend == some id then none else s.pend) s.used := by
          have := hc; rw [hq] at this; exact core_pop this
        refine ⟨c'.nodup, c'.sub, c'.head, by simp [pumpSafe], ?_, hi.nocrash⟩
        exact readerSafe_pop s _ id t hq hc rfl rfl rfl rfl hr
      | false =>
        rw [complete_noeff s id he]
        exact inv_same s _ hi rfl rfl rfl rfl rfl (by simp [pumpSafe]) (rs _ rfl rfl rfl rfl)
    · -- wcb
      cases h
      exact inv_same s _ hi rfl rfl rfl rfl rfl (by simp [pumpSafe]) (rs _ rfl rfl rfl rfl)
    · -- tmo1
      cases h
      refine inv_same s _ hi rfl rfl rfl rfl rfl ?_ (rs _ rfl rfl rfl rfl)
      by_cases e : s.pend.isSome = true <;> simp [pumpSafe, e]
    · -- tmo2
      rename_i r hpu
      split at h
      · rename_i hd tl hq
        cases h
        refine inv_same s _ hi rfl rfl rfl rfl rfl ?_ (rs _ rfl rfl rfl rfl)
        unfold pumpSafe safeId
        by_cases e : s.pend = some hd
        · simp only [e, beq_self_eq_true, if_true]
          exact ⟨hi.sub hd (by rw [hq]; exact List.mem_cons_self), Or.inl trivial⟩
        · have e' : (s.pend == some hd) = false := by simpa using e
          simp [e']
      · cases h
        exact inv_same s _ hi rfl rfl rfl rfl rfl (by simp [pumpSafe]) (rs _ rfl rfl rfl rfl)
    · -- tmo3 r h
      rename_i r id hpu
      cases h
      cases he : (complete s id).2 with
      | true =>
        obtain ⟨t, hq, hcs⟩ := complete_eff s id he
        rw [hcs]
        have c' : Core t (if s.pend == some id then none else s.pend) s.used := by
          have := hc; rw [hq] at this; exact core_pop this
        refine ⟨c'.nodup, c'.sub, c'.head, by simp [pumpSafe], ?_, hi.nocrash⟩
        exact readerSafe_pop s _ id t hq hc rfl rfl rfl rfl hr
      | false =>
        rw [complete_noeff s id he]
        exact inv_same s _ hi rfl rfl rfl rfl rfl (by simp [pumpSafe]) (rs _ rfl rfl rfl rfl)
    · -- tcb
      cases h
      exact inv_same s _ hi rfl rfl rfl rfl rfl (by simp [pumpSafe]) (rs _ rfl rfl rfl rfl)

theorem inv_run : ∀ (ls : List Label) (s s' : St), Inv s → runL s ls = some s' → Inv s'
  | [], s, s', hi, h => by simp only [runL, Option.some.injEq] at h; exact h ▸ hi
  | l :: ls, s, s', hi, h => by
    simp only [runL] at h
    cases hs : step s l with
    | none => simp [hs] at h
    | some s1 =>
      simp only [hs] at h
      exact inv_run ls s1 s' (inv_step s s1 l hi hs) h

theorem complete_pendFirst (s : St) (id : Nat) : (complete s id).1.pendFirst = s.pendFirst := by
  unfold complete
  split
  · split <;> rfl
  · rfl

theorem step_pendFirst (s s' : St) (l : Label) (hs : step s l = some s') : s'.pendFirst = s.pendFirst := by
  cases l <;> simp only [step] at hs <;> (repeat' (split at hs)) <;>
    first
      | (cases hs; rfl)
      | (cases hs; exact complete_pendFirst _ _)
      | cases hs

theorem run_pendFirst : ∀ (ls : List Label) (s s' : St), runL s ls = some s' → s'.pendFirst = s.pendFirst
  | [], s, s', h => by simp only [runL, Option.some.injEq] at h; rw [h]
  | l :: ls, s, s', h => by
    simp only [runL] at h
    cases hs : step s l with
    | none => simp [hs] at h
    | some s1 =>
      simp only [hs] at h
      rw [run_pendFirst ls s1 s' h, step_pendFirst s s1 l hs]

/-- **no crash, every interleaving**: the pump never dereferences a nil bundle -/
theorem no_crash (ls : List Label) (s' : St) (h : runL {} ls = some s') : s'.crash = false := by
  have hi := inv_run ls {} s' inv_init h
  have hf : s'.pendFirst = true := by
    have := run_pendFirst ls {} s' h
    simpa using this
  exact hi.nocrash hf

/-- **the pending request is the head of the queue, every interleaving** (hence: a completion pops exactly the pending
    request, and the pump dispatches only the oldest accepted request) -/
theorem pending_is_head (ls : List Label) (s' : St) (h : runL {} ls = some s') (p : Nat) (hp : s'.pend = some p) :
    s'.q.head? = some p := (inv_run ls {} s' inv_init h).head p hp

/-- with the order of the dispatch guard that d6325cc first had (queue, then pending) an interleaving reaches the nil
    dereference: Resume posts a ready token while the first request is being dispatched, the pump takes it with the
    request outstanding, tests the queue (non-empty: the outstanding request), the response completes the request, the
    pump tests "nothing pending" and dispatches from the empty queue -/
theorem old_guard_order_crashes :
    (runL { pendFirst := false } [.push 1, .wakeup, .takeWake, .pstep, .pstep, .pstep, .resume, .lstep, .pstep, .writeOk,
       .takeReady, .pstep, .pstep, .reply 1, .rstep, .rstep, .pstep, .pstep]).map (·.crash) = some true := by decide

/-! ## no lost wake-up -/

def rdyOf : Pump → Bool
  | .sel r => r | .chk1 r => r | .chk2 r => r | .chk3 r => r
  | .disp => true
  | .writing _ => false | .wfail _ => false | .wcb _ => false
  | .tmo1 r => r | .tmo2 r => r | .tmo3 r _ => r | .tcb r _ => r

def readerSig (s : St) : Bool := match s.reader with
  | .sig _ => true
  | _ => false

def parked (s : St) : Bool := match s.pump with
  | .sel _ => true
  | _ => false

/-- a token is waiting, or a thread is between its state change and the token it is about to post -/
def inflight (s : St) : Bool := s.wake || s.ready || decide (s.mid > 0) || readerSig s || decide (s.link = .resuming)

/-- there is something the pump could dispatch -/
def work (s : St) : Bool := !s.paused && !s.q.isEmpty && s.pend.isNone

structure Inv2 (s : St) : Prop where
  /-- `rdy = false` only while the request it was cleared for is pending, or the signal of its completion is on its way -/
  i1 : rdyOf s.pump = false → (s.pend.isSome || s.ready || readerSig s) = true
  /-- parked with work to do => something will wake the pump -/
  nlw : parked s = true → work s = true → inflight s = true

theorem inv2_init : Inv2 {} := ⟨by simp [rdyOf], by simp [work]⟩

theorem readerSig_eq (s s' : St) (h : s'.reader = s.reader) : readerSig s' = readerSig s := by
  unfold readerSig; rw [h]

/-- effect of `CompleteRequest` on the fields the wake-up invariant talks about -/
theorem complete_fields (s : St) (id : Nat) :
    (complete s id).1.paused = s.paused ∧ (complete s id).1.ready = s.ready ∧ (complete s id).1.wake = s.wake ∧
    (complete s id).1.mid = s.mid ∧ (complete s id).1.link = s.link ∧ (complete s id).1.reader = s.reader ∧
    (complete s id).1.pump = s.pump := by
  unfold complete
  split
  · split <;> simp
  · simp

/-- if the completion did not take effect the state is unchanged; if it did, the caller posts the ready token -/
theorem inv2_pump_complete (s : St) (id : Nat) (p' : Pump) (hnp : parked { s with pump := p' } = false)
    (hr : rdyOf p' = false → rdyOf s.pump = false) (hi : Inv2 s) :
    Inv2 { (complete s id).1 with ready := (complete s id).2 || s.ready, pump := p' } := by
  have hpk : ∀ x : St, parked { x with pump := p' } = false := by
    intro x; simpa [parked] using hnp
  cases he : (complete s id).2 with
  | true =>
    refine ⟨fun _ => by simp, ?_⟩
    intro hp _
    have := hpk { (complete s id).1 with ready := true || s.ready }
    simp [parked] at hp this
    rw [this] at hp; cases hp
  | false =>
    rw [complete_noeff s id he]
    simp only [Bool.false_or]
    refine ⟨?_, ?_⟩
    · intro hr'
      have := hi.i1 (hr hr')
      simpa [readerSig] using this
    · intro hp _
      have := hpk s
      simp [parked] at hp this
      rw [this] at hp; cases hp

/-- parking with `rdy = false`: the first invariant provides the token -/
theorem nlw_of_i1 (s : St) (p' : Pump) (h1 : (s.pend.isSome || s.ready || readerSig s) = true)
    (hw : work { s with pump := p' } = true) : inflight { s with pump := p' } = true := by
  simp only [work, Bool.and_eq_true] at hw
  have hn : s.pend.isSome = false := by
    cases hpe : s.pend with
    | none => rfl
    | some p => simp [hpe] at hw
  simp only [hn, Bool.false_or, Bool.or_eq_true] at h1
  simp only [inflight, Bool.or_eq_true]
  rcases h1 with e | e
  · simp [e]
  · have : readerSig { s with pump := p' } = true := by simpa [readerSig] using e
    simp [this]

theorem inv2_step (s s' : St) (l : Label) (hi : Inv2 s) (h : step s l = some s') : Inv2 s' := by
  have h1 := hi.i1
  have h2 := hi.nlw
  cases l with
  | push id =>
    simp only [step] at h
    split at h
    · cases h
    · cases h
      exact ⟨by simpa [readerSig] using h1, by intro _ _; simp [inflight]⟩
  | wakeup =>
    simp only [step] at h
    split at h
    · cases h
      exact ⟨by simpa [readerSig] using h1, by intro _ _; simp [inflight]⟩
    · cases h
  | takeWake =>
    simp only [step] at h
    split at h
    · rename_i r hpu
      split at h
      · cases h
        refine ⟨?_, by simp [parked]⟩
        simpa [rdyOf, hpu, readerSig] using h1
      · cases h
    · cases h
  | takeReady =>
    simp only [step] at h
    split at h
    · split at h
      · cases h
        exact ⟨by simp [rdyOf], by simp [parked]⟩
      · cases h
    · cases h
  | expire =>
    simp only [step] at h
    split at h
    · rename_i r hpu
      cases h
      refine ⟨?_, by simp [parked]⟩
      simpa [rdyOf, hpu, readerSig] using h1
    · cases h
  | writeOk =>
    simp only [step] at h
    split at h
    · rename_i id hpu
      cases h
      have := h1 (by simp [rdyOf, hpu])
      refine ⟨fun _ => by simpa [readerSig] using this, ?_⟩
      intro _ hw
      have := nlw_of_i1 { s with wire := s.wire ++ [id] } (.sel false) (by simpa [readerSig] using this) hw
      simpa using this
    · cases h
  | writeFail =>
    simp only [step] at h
    split at h
    · rename_i id hpu
      cases h
      refine ⟨?_, by simp [parked]⟩
      simpa [rdyOf, hpu, readerSig] using h1
    · cases h
  | reply id =>
    simp only [step] at h
    split at h
    · rename_i hre
      cases h
      refine ⟨?_, ?_⟩
      · simpa [readerSig, hre] using h1
      · simpa [parked, work, inflight, readerSig, hre] using h2
    · cases h
  | pause =>
    simp only [step] at h
    split at h
    · cases h
      exact ⟨by simpa [readerSig] using h1, by simp [work]⟩
    · cases h
  | resume =>
    simp only [step] at h
    split at h
    · cases h
      exact ⟨by simpa [readerSig] using h1, by intro _ _; simp [inflight]⟩
    · cases h
  | lstep =>
    simp only [step] at h
    split at h
    · cases h
    · cases h
      refine ⟨?_, ?_⟩
      · intro hr
        have := h1 hr
        simp only [readerSig] at this ⊢
        cases hpe : s.pend <;> simp_all
      · intro _ hw
        simp only [work, Bool.and_eq_true] at hw
        simp [inflight, hw.2]
  | rstep =>
    simp only [step] at h
    split at h
    · cases h
    · rename_i id hre
      cases h
      have e : ∀ x : Reader, (x = .compl id ∨ x = .idle) → readerSig { s with reader := x } = readerSig s := by
        intro x hx; rcases hx with rfl | rfl <;> simp [readerSig, hre]
      have hx : (if s.pend == some id then Reader.compl id else Reader.idle) = .compl id ∨
          (if s.pend == some id then Reader.compl id else Reader.idle) = .idle := by
        by_cases c : (s.pend == some id) = true <;> simp [c]
      refine ⟨?_, ?_⟩
      · intro hr; have := h1 hr; rw [e _ hx]; exact this
      · intro hp hw
        have := h2 hp hw
        simp only [inflight] at this ⊢
        rw [e _ hx]; exact this
    · rename_i id hre
      cases h
      obtain ⟨f1, f2, f3, f4, f5, f6, f7⟩ := complete_fields s id
      cases he : (complete s id).2 with
      | true =>
        simp only [if_true]
        exact ⟨fun _ => by simp [readerSig], by intro _ _; simp [inflight, readerSig]⟩
      | false =>
        simp only [Bool.false_eq_true, if_false]
        rw [complete_noeff s id he]
        have e : readerSig { s with reader := Reader.handler id } = readerSig s := by simp [readerSig, hre]
        refine ⟨?_, ?_⟩
        · intro hr; have := h1 hr; rw [e]; exact this
        · intro hp hw
          have := h2 hp hw
          simp only [inflight] at this ⊢
          rw [e]; exact this
    · cases h
      exact ⟨fun _ => by simp, by intro _ _; simp [inflight]⟩
    · rename_i id hre
      cases h
      have e : readerSig { s with reader := Reader.idle } = readerSig s := by simp [readerSig, hre]
      refine ⟨?_, ?_⟩
      · intro hr; have := h1 hr; rw [e]; exact this
      · intro hp hw
        have := h2 hp hw
        simp only [inflight] at this ⊢
        rw [e]; exact this
  | pstep =>
    simp only [step] at h
    have hrs : ∀ p' : Pump, readerSig { s with pump := p' } = readerSig s := fun _ => rfl
    split at h
    · cases h
    · -- chk1
      rename_i r hpu
      cases h
      by_cases e : s.paused = true
      · simp only [e, if_true]
        refine ⟨?_, ?_⟩
        · intro hr; exact h1 (by simpa [rdyOf, hpu] using hr)
        · intro _ hw; simp [work, e] at hw
      · simp only [e, Bool.false_eq_true, if_false]
        refine ⟨?_, by simp [parked]⟩
        intro hr; exact h1 (by simpa [rdyOf, hpu] using hr)
    · -- chk2
      rename_i r hpu
      split at h
      · rename_i hrf
        cases h
        have hrf' : r = false := by simpa using hrf
        subst hrf'
        have := h1 (by simp [rdyOf, hpu])
        exact ⟨fun _ => this, fun _ hw => nlw_of_i1 s (.sel false) this hw⟩
      · rename_i hrt
        have hrt' : r = true := by simpa using hrt
        subst hrt'
        split at h
        · cases h
          by_cases e : s.pend.isNone = true
          · simp only [e, if_true]
            exact ⟨by simp [rdyOf], by simp [parked]⟩
          · simp only [e, Bool.false_eq_true, if_false]
            refine ⟨by simp [rdyOf], ?_⟩
            intro _ hw; simp [work, e] at hw
        · cases h
          by_cases e : (!s.q.isEmpty) = true
          · simp only [e, if_true]
            exact ⟨by simp [rdyOf], by simp [parked]⟩
          · simp only [e, Bool.false_eq_true, if_false]
            refine ⟨by simp [rdyOf], ?_⟩
            intro _ hw; simp [work] at hw e; simp [e] at hw
    · -- chk3
      rename_i r hpu
      have hi1 : rdyOf (Pump.sel r) = false → (s.pend.isSome || s.ready || readerSig s) = true := by
        intro hr; exact h1 (by simpa [rdyOf, hpu] using hr)
      split at h
      · cases h
        by_cases e : (!s.q.isEmpty) = true
        · simp only [e, if_true]
          exact ⟨by simp [rdyOf], by simp [parked]⟩
        · simp only [e, Bool.false_eq_true, if_false]
          refine ⟨hi1, ?_⟩
          intro _ hw; simp [work] at hw e; simp [e] at hw
      · cases h
        by_cases e : s.pend.isNone = true
        · simp only [e, if_true]
          exact ⟨by simp [rdyOf], by simp [parked]⟩
        · simp only [e, Bool.false_eq_true, if_false]
          refine ⟨hi1, ?_⟩
          intro _ hw; simp [work, e] at hw
    · -- disp
      rename_i hpu
      split at h
      · cases h
        refine ⟨?_, by simp [parked]⟩
        intro _
        by_cases e : s.pend.isNone = true
        · simp [e]
        · have : s.pend.isSome = true := by cases hpe : s.pend <;> simp_all
          simp [e, this]
      · cases h
        exact ⟨by simp [rdyOf, hpu], by simp [parked, hpu]⟩
    · cases h
    · -- wfail
      rename_i id hpu
      cases h
      exact inv2_pump_complete s id (.wcb id) (by simp [parked]) (fun _ => by simp [rdyOf, hpu]) hi
    · -- wcb: the cancel callback returns, `rdy = false`, the pump parks
      rename_i id hpu
      cases h
      have := h1 (by simp [rdyOf, hpu])
      exact ⟨fun _ => this, fun _ hw => nlw_of_i1 s (.sel false) this hw⟩
    · -- tmo1
      rename_i r hpu
      cases h
      refine ⟨?_, ?_⟩
      · intro hr
        refine h1 ?_
        by_cases e : s.pend.isSome = true <;> simpa [rdyOf, hpu, e] using hr
      · by_cases e : s.pend.isSome = true <;> simp [parked, e]
    · -- tmo2
      rename_i r hpu
      split at h
      · rename_i hd tl hq
        cases h
        refine ⟨?_, ?_⟩
        · intro hr
          refine h1 ?_
          by_cases e : (s.pend == some hd) = true <;> simpa [rdyOf, hpu, e] using hr
        · by_cases e : (s.pend == some hd) = true <;> simp [parked, e]
      · cases h
        refine ⟨?_, by simp [parked]⟩
        intro hr; exact h1 (by simpa [rdyOf, hpu] using hr)
    · -- tmo3
      rename_i r id hpu
      cases h
      exact inv2_pump_complete s id (.tcb r id) (by simp [parked]) (fun e => by simpa [rdyOf, hpu] using e) hi
    · -- tcb
      rename_i r id hpu
      cases h
      refine ⟨?_, by simp [parked]⟩
      intro hr; exact h1 (by simpa [rdyOf, hpu] using hr)


theorem inv2_run : ∀ (ls : List Label) (s s' : St), Inv2 s → runL s ls = some s' → Inv2 s'
  | [], s, s', hi, h => by simp only [runL, Option.some.injEq] at h; exact h ▸ hi
  | l :: ls, s, s', hi, h => by
    simp only [runL] at h
    cases hs : step s l with
    | none => simp [hs] at h
    | some s1 =>
      simp only [hs] at h
      exact inv2_run ls s1 s' (inv2_step s s1 l hi hs) h

/-- every thread is between operations and no token is waiting -/
def quiet (s : St) : Bool :=
  !s.wake && !s.ready && decide (s.mid = 0) && !readerSig s && decide (s.link = .idle)

/-- **no lost wake-up, every interleaving** (C07 below quiescence, client dispatcher): in every reachable state in which
    the pump is parked at its select, no token is waiting and no thread is about to post one, there is nothing the pump
    could dispatch: it is paused, or the queue is empty, or a request is awaiting its response. Progress never depends on a
    further, unrelated event. -/
theorem no_lost_wakeup (ls : List Label) (s' : St) (h : runL {} ls = some s') (hp : parked s' = true)
    (hq : quiet s' = true) : work s' = false := by
  have hi := inv2_run ls {} s' inv2_init h
  cases hw : work s' with
  | false => rfl
  | true =>
    have := hi.nlw hp hw
    simp only [quiet, Bool.and_eq_true, Bool.not_eq_true', decide_eq_true_eq] at hq
    obtain ⟨⟨⟨⟨a, b⟩, c⟩, d⟩, e⟩ := hq
    simp [inflight, a, b, c, d, e] at this

/-- **nothing to deadlock on**: every operation of a sender, of the reader and of the link is enabled whenever its
    thread is at that operation (the token posts are non-blocking, `CompleteRequest` is one critical section), and the pump
    is blocked only at its select or inside `network.Write` -/
theorem no_thread_blocks (s : St) :
    (s.mid > 0 → (step s .wakeup).isSome) ∧
    (s.reader ≠ .idle → (step s .rstep).isSome) ∧
    (s.link = .resuming → (step s .lstep).isSome) ∧
    ((∀ r, s.pump ≠ .sel r) → (∀ id, s.pump ≠ .writing id) → (step s .pstep).isSome) ∧
    (∀ id, s.pump = .writing id → (step s .writeOk).isSome ∧ (step s .writeFail).isSome) := by
  refine ⟨?_, ?_, ?_, ?_, ?_⟩
  · intro h; simp [step, h]
  · intro h; cases hr : s.reader <;> simp_all [step]
  · intro h; simp [step, h]
  · intro h1 h2
    cases hp : s.pump with
    | sel r => exact absurd hp (h1 r)
    | writing id => exact absurd hp (h2 id)
    | chk2 r => simp only [step, hp]; split <;> (try split) <;> simp
    | chk3 r => simp only [step, hp]; split <;> simp
    | disp => simp only [step, hp]; split <;> simp
    | tmo2 r => simp only [step, hp]; split <;> simp
    | _ => simp [step, hp]
  · intro id h; simp [step, h]

def demoSched : List Label :=
  [.push 1, .wakeup, .push 2, .wakeup, .takeWake, .pstep, .pstep, .pstep, .resume, .lstep, .pstep, .writeOk] ++
  [.takeReady, .pstep, .pstep, .reply 1, .rstep, .rstep, .rstep, .rstep, .takeReady, .pstep, .pstep, .pstep, .pstep] ++
  [.writeFail, .pstep, .pstep, .takeReady, .pstep, .pstep, .pstep]

def demoOk (s : St) : Bool :=
  !s.crash && s.wire == [1] && s.q == [] && s.pend == none && parked s && quiet s && !work s

/-- non-vacuity: a run with two requests (their wake-up tokens coalesce), a flap racing the first dispatch (a second ready
    token), a response, and a failed write of the second request reaches a quiet state with the pump parked, request 1
    written once, nothing left to do -/
theorem demo_run : (runL {} demoSched).map demoOk = some true := by decide

/-! ## C02 below quiescence: every CALL is written at most once, and only while it is the pending head of the queue -/

structure Inv3 (s : St) : Prop where
  wsub : ∀ id ∈ s.wire, id ∈ s.used
  /-- a written request that is still queued is the pending one (so it cannot be dispatched again) -/
  wq : ∀ id ∈ s.wire, id ∈ s.q → s.pend = some id
  wnd : s.wire.Nodup
  wr : ∀ id, s.pump = .writing id → id ∉ s.wire

theorem inv3_init : Inv3 {} := ⟨by simp, by simp, by simp, by simp⟩

/-- an effective completion keeps `wq`: nothing written stays queued behind the popped head -/
theorem wq_pop (s : St) (hi : Inv s) (h3 : Inv3 s) (id : Nat) (t : List Nat) (hq : s.q = id :: t) :
    ∀ j ∈ s.wire, j ∈ t → (if s.pend == some id then none else s.pend) = some j := by
  intro j hj hjt
  exfalso
  have hjq : j ∈ s.q := by rw [hq]; exact List.mem_cons_of_mem _ hjt
  have hp := h3.wq j hj hjq
  have hh := hi.head j hp
  rw [hq] at hh
  simp only [List.head?_cons, Option.some.injEq] at hh
  subst hh
  have := hi.nodup
  rw [hq] at this
  exact (List.nodup_cons.mp this).1 hjt

theorem complete_wu (s : St) (id : Nat) : (complete s id).1.wire = s.wire ∧ (complete s id).1.used = s.used := by
  unfold complete
  split
  · split <;> simp
  · simp

theorem inv3_complete (s : St) (hi : Inv s) (h3 : Inv3 s) (id : Nat) (s' : St)
    (hw : s'.wire = s.wire) (hu : s'.used = s.used)
    (hq : s'.q = (complete s id).1.q) (hp : s'.pend = (complete s id).1.pend)
    (hpu : ∀ j, s'.pump = .writing j → s.pump = .writing j) : Inv3 s' := by
  refine ⟨by rw [hw, hu]; exact h3.wsub, ?_, by rw [hw]; exact h3.wnd, fun j e => by rw [hw]; exact h3.wr j (hpu j e)⟩
  cases he : (complete s id).2 with
  | true =>
    obtain ⟨t, hqq, hcs⟩ := complete_eff s id he
    rw [hw, hq, hp, hcs]
    exact wq_pop s hi h3 id t hqq
  | false =>
    rw [hw, hq, hp, complete_noeff s id he]
    exact h3.wq

theorem inv3_step (s s' : St) (l : Label) (hf : s.pendFirst = true) (hi : Inv s) (h3 : Inv3 s) (h : step s l = some s') :
    Inv3 s' := by
  cases l with
  | push id =>
    simp only [step] at h
    split at h
    · cases h
    · rename_i hfresh
      cases h
      refine ⟨fun j hj => List.mem_cons_of_mem _ (h3.wsub j hj), ?_, h3.wnd, h3.wr⟩
      intro j hj hjq
      simp only [List.mem_append, List.mem_singleton] at hjq
      rcases hjq with e | e
      · exact h3.wq j hj e
      · exact absurd (e ▸ h3.wsub j hj) hfresh
  | wakeup =>
    simp only [step] at h
    split at h
    · cases h; exact ⟨h3.wsub, h3.wq, h3.wnd, h3.wr⟩
    · cases h
  | takeWake =>
    simp only [step] at h
    split at h
    · split at h
      · cases h; exact ⟨h3.wsub, h3.wq, h3.wnd, by simp⟩
      · cases h
    · cases h
  | takeReady =>
    simp only [step] at h
    split at h
    · split at h
      · cases h; exact ⟨h3.wsub, h3.wq, h3.wnd, by simp⟩
      · cases h
    · cases h
  | expire =>
    simp only [step] at h
    split at h
    · cases h; exact ⟨h3.wsub, h3.wq, h3.wnd, by simp⟩
    · cases h
  | writeOk =>
    simp only [step] at h
    split at h
    · rename_i id hpu
      cases h
      have hps : id ∈ s.used ∧ safeId s id := by
        have := hi.pump; unfold pumpSafe at this; simpa only [hpu] using this
      have hnw := h3.wr id hpu
      refine ⟨?_, ?_, ?_, by simp⟩
      · intro j hj
        simp only [List.mem_append, List.mem_singleton] at hj
        rcases hj with e | e
        · exact h3.wsub j e
        · subst e; exact hps.1
      · intro j hj hjq
        simp only [List.mem_append, List.mem_singleton] at hj
        rcases hj with e | e
        · exact h3.wq j e hjq
        · subst e
          rcases hps.2 with e | e
          · exact e
          · exact absurd hjq e
      · rw [List.nodup_append]
        refine ⟨h3.wnd, by simp, ?_⟩
        intro a ha b hb
        simp only [List.mem_singleton] at hb
        subst hb
        exact fun e => hnw (e ▸ ha)
    · cases h
  | writeFail =>
    simp only [step] at h
    split at h
    · cases h; exact ⟨h3.wsub, h3.wq, h3.wnd, by simp⟩
    · cases h
  | reply id =>
    simp only [step] at h
    split at h
    · cases h; exact ⟨h3.wsub, h3.wq, h3.wnd, h3.wr⟩
    · cases h
  | pause =>
    simp only [step] at h
    split at h
    · cases h; exact ⟨h3.wsub, h3.wq, h3.wnd, h3.wr⟩
    · cases h
  | resume =>
    simp only [step] at h
    split at h
    · cases h; exact ⟨h3.wsub, h3.wq, h3.wnd, h3.wr⟩
    · cases h
  | lstep =>
    simp only [step] at h
    split at h
    · cases h
    · cases h; exact ⟨h3.wsub, h3.wq, h3.wnd, h3.wr⟩
  | rstep =>
    simp only [step] at h
    split at h
    · cases h
    · cases h; exact ⟨h3.wsub, h3.wq, h3.wnd, h3.wr⟩
    · rename_i id hre
      cases h
      obtain ⟨f1, f2, f3, f4, f5, f6, f7⟩ := complete_fields s id
      obtain ⟨g1, g2⟩ := complete_wu s id
      exact inv3_complete s hi h3 id _ g1 g2 rfl rfl (fun j e => by simpa [f7] using e)
    · cases h; exact ⟨h3.wsub, h3.wq, h3.wnd, h3.wr⟩
    · cases h; exact ⟨h3.wsub, h3.wq, h3.wnd, h3.wr⟩
  | pstep =>
    simp only [step] at h
    split at h
    · cases h
    · cases h
      refine ⟨h3.wsub, h3.wq, h3.wnd, ?_⟩
      intro j e; (repeat' (split at e)) <;> cases e
    · split at h
      · cases h; exact ⟨h3.wsub, h3.wq, h3.wnd, by simp⟩
      · split at h
        · cases h
          refine ⟨h3.wsub, h3.wq, h3.wnd, ?_⟩
          intro j e; (repeat' (split at e)) <;> cases e
        · cases h
          refine ⟨h3.wsub, h3.wq, h3.wnd, ?_⟩
          intro j e; (repeat' (split at e)) <;> cases e
    · split at h
      · cases h
        refine ⟨h3.wsub, h3.wq, h3.wnd, ?_⟩
        intro j e; (repeat' (split at e)) <;> cases e
      · cases h
        refine ⟨h3.wsub, h3.wq, h3.wnd, ?_⟩
        intro j e; (repeat' (split at e)) <;> cases e
    · -- disp: nothing is pending (guard order), so nothing written is still queued: the head was never written
      rename_i hpu
      have hpd : s.pend = none ∧ s.q ≠ [] := by
        have := hi.pump; unfold pumpSafe at this; simp only [hpu] at this; exact this hf
      split at h
      · rename_i hd tl hq
        cases h
        have hnq : ∀ j ∈ s.wire, j ∉ s.q := by
          intro j hj hjq
          have := h3.wq j hj hjq
          simp [hpd.1] at this
        refine ⟨h3.wsub, ?_, h3.wnd, ?_⟩
        · intro j hj hjq; exact absurd hjq (hnq j hj)
        · intro j e
          simp only [Pump.writing.injEq] at e
          subst e
          exact fun hj => hnq _ hj (by rw [hq]; exact List.mem_cons_self)
      · cases h
        exact ⟨h3.wsub, h3.wq, h3.wnd, fun j e => by simp [hpu] at e⟩
    · cases h
    · -- wfail
      rename_i id hpu
      cases h
      obtain ⟨g1, g2⟩ := complete_wu s id
      exact inv3_complete s hi h3 id _ g1 g2 rfl rfl (fun j e => by simp at e)
    · cases h; exact ⟨h3.wsub, h3.wq, h3.wnd, by simp⟩
    · cases h
      refine ⟨h3.wsub, h3.wq, h3.wnd, ?_⟩
      intro j e; (repeat' (split at e)) <;> cases e
    · split at h
      · rename_i hd tl hq
        cases h
        refine ⟨h3.wsub, h3.wq, h3.wnd, ?_⟩
        intro j e; (repeat' (split at e)) <;> cases e
      · cases h; exact ⟨h3.wsub, h3.wq, h3.wnd, by simp⟩
    · -- tmo3
      rename_i r id hpu
      cases h
      obtain ⟨g1, g2⟩ := complete_wu s id
      exact inv3_complete s hi h3 id _ g1 g2 rfl rfl (fun j e => by simp at e)
    · cases h; exact ⟨h3.wsub, h3.wq, h3.wnd, by simp⟩

theorem inv3_run : ∀ (ls : List Label) (s s' : St), s.pendFirst = true → Inv s → Inv3 s → runL s ls = some s' → Inv3 s'
  | [], s, s', _, _, h3, h => by simp only [runL, Option.some.injEq] at h; exact h ▸ h3
  | l :: ls, s, s', hf, hi, h3, h => by
    simp only [runL] at h
    cases hs : step s l with
    | none => simp [hs] at h
    | some s1 =>
      simp only [hs] at h
      exact inv3_run ls s1 s' (by rw [step_pendFirst s s1 l hs]; exact hf) (inv_step s s1 l hi hs)
        (inv3_step s s1 l hf hi h3 hs) h

/-- **C02 below quiescence, every interleaving**: no CALL is written twice -/
theorem written_once (ls : List Label) (s' : St) (h : runL {} ls = some s') : s'.wire.Nodup :=
  (inv3_run ls {} s' rfl inv_init inv3_init h).wnd

/-- … and a CALL that was written and is still queued is the pending one: nothing else is written until it is concluded
    (the pump dispatches only while nothing is pending: `pumpSafe` at `disp`) -/
theorem written_and_queued_is_pending (ls : List Label) (s' : St) (h : runL {} ls = some s') (id : Nat)
    (hw : id ∈ s'.wire) (hq : id ∈ s'.q) : s'.pend = some id :=
  (inv3_run ls {} s' rfl inv_init inv3_init h).wq id hw hq

end C07Fine
