import OcppModel.DateTime
import OcppModel.Expected
import OcppGen.Skeletons
import OcppProps.Civil.All

/-!
# C20 — timestamps parse and print faithfully; non-timestamps are rejected

`null` and the quote test are the *regenerated* `Gen.Guards.null16/null201/quoted16/quoted201`, so `null_iff`
and the decision theorems are re-proved against today's source text on every run.
Civil-time arithmetic (`time.Date`, `Time.UTC().Format`) and the ISO 8601 parser (`relvacode/iso8601`) are
models of code outside the repository, tied by the differential harness `datetime`.
-/

namespace C20
open Ocpp.DT

/-! ## the JSON-token tests of `UnmarshalJSON` -/

def nullBytes : List Int := [110, 117, 108, 108]   -- "null"

/-- `null(b)` holds **exactly** for the four bytes `null` (OCPP 1.6 types) -/
theorem null16_iff (b : List Int) : Gen.Guards.null16 b = true ↔ b = nullBytes := by
  unfold Gen.Guards.null16 nullBytes
  match b with
  | [] => simp
  | [_] => simp
  | [_, _] => simp
  | [_, _, _] => simp
  | [a, b, c, d] => simp [Gen.idx, and_assoc]
  | _ :: _ :: _ :: _ :: _ :: _ => simp; omega

/-- the same for the OCPP 2.0.1 types -/
theorem null201_iff (b : List Int) : Gen.Guards.null201 b = true ↔ b = nullBytes := by
  unfold Gen.Guards.null201 nullBytes
  match b with
  | [] => simp
  | [_] => simp
  | [_, _] => simp
  | [_, _, _] => simp
  | [a, b, c, d] => simp [Gen.idx, and_assoc]
  | _ :: _ :: _ :: _ :: _ :: _ => simp; omega

/-- a token passes the quote test only if it starts with `"` -/
theorem quoted16_head (b : List Int) (h : Gen.Guards.quoted16 b = true) : b.head? = some 34 := by
  unfold Gen.Guards.quoted16 at h
  match b with
  | [] => simp at h
  | x :: rest => simp [Gen.idx] at h; simp [h.1]

theorem quoted201_head (b : List Int) (h : Gen.Guards.quoted201 b = true) : b.head? = some 34 := by
  unfold Gen.Guards.quoted201 at h
  match b with
  | [] => simp at h
  | x :: rest => simp [Gen.idx] at h; simp [h.1]

/-- a well-formed JSON string token `"…"` passes the quote test -/
theorem quoted16_string (mid : List Int) : Gen.Guards.quoted16 (34 :: mid ++ [34]) = true := by
  unfold Gen.Guards.quoted16
  have h : Gen.idx (34 :: mid ++ [34]) (((34 :: mid ++ [34]).length : Int) - 1) = 34 := by
    unfold Gen.idx
    have : ¬ ((((34 :: mid ++ [34]).length : Nat) : Int) - 1 < 0) := by
      simp only [List.length_cons, List.length_append, List.length_nil]; omega
    simp only [this, if_false]
    have e : ((((34 :: mid ++ [34]).length : Nat) : Int) - 1).toNat = mid.length + 1 := by
      simp only [List.length_cons, List.length_append, List.length_nil]; omega
    rw [e]; simp [List.getD]
  rw [h]; simp [Gen.idx]; omega

theorem quoted201_string (mid : List Int) : Gen.Guards.quoted201 (34 :: mid ++ [34]) = true := by
  have := quoted16_string mid
  unfold Gen.Guards.quoted16 at this; unfold Gen.Guards.quoted201; exact this

/-! ## decision logic of `UnmarshalJSON`, stated outright (both dialects) -/

/-- **JSON null leaves the field unset** -/
theorem unmarshal_null : unmarshal16 nullBytes = .unset ∧ unmarshal201 nullBytes = .unset := by
  constructor
  · simp [unmarshal16, unmarshalWith, (null16_iff nullBytes).mpr rfl]
  · simp [unmarshal201, unmarshalWith, (null201_iff nullBytes).mpr rfl]

/-- … and **only** JSON null does: any other token is parsed or rejected, never silently skipped -/
theorem unmarshal_unset_iff (b : List Int) :
    (unmarshal16 b = .unset ↔ b = nullBytes) ∧ (unmarshal201 b = .unset ↔ b = nullBytes) := by
  constructor
  · unfold unmarshal16 unmarshalWith
    by_cases h : Gen.Guards.null16 b = true
    · have e := (null16_iff b).mp h; subst e; simp [h]
    · have : b ≠ nullBytes := fun e => h ((null16_iff b).mpr e)
      simp [h, this]; split <;> (try split) <;> (try split) <;> simp
  · unfold unmarshal201 unmarshalWith
    by_cases h : Gen.Guards.null201 b = true
    · have e := (null201_iff b).mp h; subst e; simp [h]
    · have : b ≠ nullBytes := fun e => h ((null201_iff b).mpr e)
      simp [h, this]; split <;> (try split) <;> (try split) <;> simp

/-- **every JSON value that is neither `null` nor a string is rejected**: numbers, `true`, `false`, objects and
    arrays do not start with `"` -/
theorem non_string_rejected (b : List Int) (hn : b ≠ nullBytes) (hs : b.head? ≠ some 34) :
    unmarshal16 b = .error ∧ unmarshal201 b = .error := by
  constructor
  · unfold unmarshal16 unmarshalWith
    have h1 : Gen.Guards.null16 b = false := by
      cases h : Gen.Guards.null16 b with
      | false => rfl
      | true => exact absurd ((null16_iff b).mp h) hn
    have h2 : Gen.Guards.quoted16 b = false := by
      cases h : Gen.Guards.quoted16 b with
      | false => rfl
      | true => exact absurd (quoted16_head b h) hs
    simp [h1, h2]
  · unfold unmarshal201 unmarshalWith
    have h1 : Gen.Guards.null201 b = false := by
      cases h : Gen.Guards.null201 b with
      | false => rfl
      | true => exact absurd ((null201_iff b).mp h) hn
    have h2 : Gen.Guards.quoted201 b = false := by
      cases h : Gen.Guards.quoted201 b with
      | false => rfl
      | true => exact absurd (quoted201_head b h) hs
    simp [h1, h2]

/-- a string token is accepted exactly when the ISO 8601 parser accepts its content, and yields that instant -/
theorem string_token (mid : List Int) :
    unmarshal16 (34 :: mid ++ [34]) = (match parseIso mid with | .ok t => .ok t | .error _ => .error) ∧
    unmarshal201 (34 :: mid ++ [34]) = (match parseIso mid with | .ok t => .ok t | .error _ => .error) := by
  have hne : (34 :: mid ++ [34] : List Int) ≠ nullBytes := by
    intro e; simp [nullBytes] at e
  have hdrop : ((34 :: mid ++ [34] : List Int).drop 1).dropLast = mid := by simp
  have hlen : ¬ ((34 :: mid ++ [34] : List Int).length < 2) := by simp
  constructor
  · unfold unmarshal16 unmarshalWith
    have h1 : Gen.Guards.null16 (34 :: mid ++ [34]) = false := by
      cases h : Gen.Guards.null16 (34 :: mid ++ [34]) with
      | false => rfl
      | true => exact absurd ((null16_iff _).mp h) hne
    rw [h1, quoted16_string, hdrop]; simp only [Bool.false_eq_true, if_false, if_true, hlen]; cases parseIso mid <;> rfl
  · unfold unmarshal201 unmarshalWith
    have h1 : Gen.Guards.null201 (34 :: mid ++ [34]) = false := by
      cases h : Gen.Guards.null201 (34 :: mid ++ [34]) with
      | false => rfl
      | true => exact absurd ((null201_iff _).mp h) hne
    rw [h1, quoted201_string, hdrop]; simp only [Bool.false_eq_true, if_false, if_true, hlen]; cases parseIso mid <;> rfl

/-- a well-formed JSON token never makes `UnmarshalJSON` panic (the only panic is the lone `"`,
    which `encoding/json` never hands to an unmarshaller) -/
theorem no_panic_on_tokens (b : List Int) (h : b.length ≠ 1) : unmarshal16 b ≠ .panic ∧ unmarshal201 b ≠ .panic := by
  constructor
  · unfold unmarshal16 unmarshalWith
    split; · simp
    split
    · have : ¬ b.length < 2 := by
        rename_i hq; have := quoted16_head b hq
        match b, this with
        | x :: y :: _, _ => simp
        | [x], _ => simp at h
      simp [this]; split <;> simp
    · simp
  · unfold unmarshal201 unmarshalWith
    split; · simp
    split
    · have : ¬ b.length < 2 := by
        rename_i hq; have := quoted201_head b hq
        match b, this with
        | x :: y :: _, _ => simp
        | [x], _ => simp at h
      simp [this]; split <;> simp
    · simp

/-! ## civil-time arithmetic: the wall clock printed by `Format` denotes the instant it was printed from -/

theorem chkN_unfold (n : Nat) (h : Civil.chkN n = true) :
    let yoe := (n - n / 1460 + n / 36524 - n / 146096) / 365
    let ys := 365 * yoe + yoe / 4 - yoe / 100
    let doy := n - ys
    let mp := (5 * doy + 2) / 153
    let ms := (153 * mp + 2) / 5
    let d := doy - ms + 1
    let m := if mp < 10 then mp + 3 else mp - 9
    let ym := (yoe + (if m ≤ 2 then 1 else 0)) % 400
    n / 146096 ≤ n - n / 1460 + n / 36524 ∧ yoe < 400 ∧ ys ≤ n ∧ yoe / 100 ≤ 365 * yoe + yoe / 4 ∧ doy ≤ 365 ∧ ms ≤ doy ∧
    d ≤ Civil.daysInN m ym := by
  simp only [Civil.chkN, Bool.and_eq_true, Nat.ble_eq, Nat.blt_eq] at h
  intro yoe ys doy mp ms d m ym
  obtain ⟨⟨⟨⟨⟨⟨a1, a2⟩, a3⟩, a4⟩, a5⟩, a6⟩, a7⟩ := h
  refine ⟨a1, a2, a3, a4, a5, a6, ?_⟩
  simp only [Bool.cond_eq_ite, Nat.blt_eq, Nat.ble_eq] at a7
  exact a7

theorem beq_decide (a b : Nat) : Nat.beq a b = decide (a = b) := by
  cases hb : Nat.beq a b
  · have : ¬ a = b := by
      intro e; subst e
      have := Nat.beq_refl a
      rw [this] at hb; exact Bool.noConfusion hb
    simp [this]
  · have : a = b := Nat.eq_of_beq_eq_true hb
    simp [this]

/-- the model's `daysIn` (Int) agrees with the table's (Nat) -/
theorem daysIn_cast (m ym : Nat) (hm : 1 ≤ m ∧ m ≤ 12) :
    daysIn (m : Int) (ym : Int) = (Civil.daysInN m ym : Int) := by
  have : m = 1 ∨ m = 2 ∨ m = 3 ∨ m = 4 ∨ m = 5 ∨ m = 6 ∨ m = 7 ∨ m = 8 ∨ m = 9 ∨ m = 10 ∨ m = 11 ∨ m = 12 := by omega
  rcases this with h | h | h | h | h | h | h | h | h | h | h | h <;> subst h
  case inr.inl =>
    have e4 : ((ym : Int) % 4 = 0) ↔ (ym % 4 = 0) := by omega
    have e100 : ((ym : Int) % 100 = 0) ↔ (ym % 100 = 0) := by omega
    have e400 : ((ym : Int) % 400 = 0) ↔ (ym % 400 = 0) := by omega
    simp only [daysIn, isLeap, Civil.daysInN, Civil.leapN, beq_decide]
    by_cases h4 : ym % 4 = 0 <;> by_cases h100 : ym % 100 = 0 <;> by_cases h400 : ym % 400 = 0 <;>
      simp [h4, h100, h400, e4.mpr, e100.mpr, e400.mpr] <;> omega
  all_goals rfl

theorem isLeap_mod (y : Int) : isLeap y = isLeap (y % 400) := by
  unfold isLeap
  have a : y % 400 % 4 = y % 4 := by omega
  have b : y % 400 % 100 = y % 100 := by omega
  have c : y % 400 % 400 = y % 400 := by omega
  rw [a, b, c]

theorem daysIn_mod (m y : Int) : daysIn m y = daysIn m (y % 400) := by
  unfold daysIn; rw [isLeap_mod]

theorem civil_facts (z : Int) :
    daysFromCivil (civilFromDays z).1 (civilFromDays z).2.1 (civilFromDays z).2.2 = z ∧
    1 ≤ (civilFromDays z).2.1 ∧ (civilFromDays z).2.1 ≤ 12 ∧ 1 ≤ (civilFromDays z).2.2 ∧
    (civilFromDays z).2.2 ≤ daysIn (civilFromDays z).2.1 (civilFromDays z).1 := by
  -- day of era as a natural number
  have hd0 : 0 ≤ z + 719468 - (z + 719468) / 146097 * 146097 := by omega
  have hd1 : z + 719468 - (z + 719468) / 146097 * 146097 < 146097 := by omega
  obtain ⟨n, hn⟩ : ∃ n : Nat, z + 719468 - (z + 719468) / 146097 * 146097 = (n : Int) :=
    ⟨(z + 719468 - (z + 719468) / 146097 * 146097).toNat, by omega⟩
  have hlt : n < 146097 := by omega
  have F := chkN_unfold n (Civil.chk_all n hlt)
  simp only [] at F
  obtain ⟨f1, f2, f3, f4, f5, f6, f7⟩ := F
  -- name the natural-number quantities
  generalize hyoe : (n - n / 1460 + n / 36524 - n / 146096) / 365 = yoe at *
  generalize hdoy : n - (365 * yoe + yoe / 4 - yoe / 100) = doy at *
  generalize hmp : (5 * doy + 2) / 153 = mp at *
  generalize hdd : doy - (153 * mp + 2) / 5 + 1 = d at *
  -- the integer quantities computed by the model are their casts
  have e_yoe : ((n : Int) - (n : Int) / 1460 + (n : Int) / 36524 - (n : Int) / 146096) / 365 = (yoe : Int) := by omega
  have e_doy : (n : Int) - (365 * (yoe : Int) + (yoe : Int) / 4 - (yoe : Int) / 100) = (doy : Int) := by omega
  have e_mp : (5 * (doy : Int) + 2) / 153 = (mp : Int) := by omega
  have e_d : (doy : Int) - (153 * (mp : Int) + 2) / 5 + 1 = (d : Int) := by omega
  have hmp12 : mp < 12 := by omega
  unfold civilFromDays daysFromCivil
  simp only [hn, e_yoe, e_doy, e_mp, e_d]
  generalize (z + 719468) / 146097 = era at *
  have hz : z = (n : Int) - 719468 + era * 146097 := by omega
  have hnI : (n : Int) = 365 * (yoe : Int) + (yoe : Int) / 4 - (yoe : Int) / 100 + (doy : Int) := by omega
  have hdoyI : (doy : Int) = (153 * (mp : Int) + 2) / 5 + (d : Int) - 1 := by omega
  have hera : ((yoe : Int) + era * 400) / 400 = era := by omega
  have hd1' : 1 ≤ (d : Int) := by omega
  by_cases h10 : mp < 10
  · have h10' : (mp : Int) < 10 := by omega
    have hm2 : ¬ ((mp : Int) + 3 ≤ 2) := by omega
    have hm2n : ¬ (mp + 3 ≤ 2) := by omega
    have hq : ((mp : Int) + 3 + 9) % 12 = (mp : Int) := by omega
    have hs : (yoe : Int) + era * 400 - era * 400 = (yoe : Int) := by omega
    simp only [h10', if_true, hm2, if_false, hera, hq, hs]
    simp only [h10, if_true, hm2n, if_false] at f7
    refine ⟨by rw [hz, hnI, hdoyI]; omega, by omega, by omega, by omega, ?_⟩
    have hc := daysIn_cast (mp + 3) ((yoe + 0) % 400) (by omega)
    rw [daysIn_mod]
    have e1 : ((yoe : Int) + era * 400) % 400 = (((yoe + 0) % 400 : Nat) : Int) := by omega
    have e2 : ((mp : Int) + 3) = ((mp + 3 : Nat) : Int) := by omega
    rw [e1, e2, hc]
    exact_mod_cast f7
  · have h10' : ¬ ((mp : Int) < 10) := by omega
    have hm2 : ((mp : Int) - 9 ≤ 2) := by omega
    have hm2n : (mp - 9 ≤ 2) := by omega
    have hq : ((mp : Int) - 9 + 9) % 12 = (mp : Int) := by omega
    have hy1 : (yoe : Int) + era * 400 + 1 - 1 = (yoe : Int) + era * 400 := by omega
    have hs : (yoe : Int) + era * 400 - era * 400 = (yoe : Int) := by omega
    simp only [h10', if_false, hm2, if_true, hy1, hera, hq, hs]
    simp only [h10, if_false, hm2n, if_true] at f7
    refine ⟨by rw [hz, hnI, hdoyI]; omega, by omega, by omega, by omega, ?_⟩
    have hc := daysIn_cast (mp - 9) ((yoe + 1) % 400) (by omega)
    rw [daysIn_mod]
    have e1 : ((yoe : Int) + era * 400 + 1) % 400 = (((yoe + 1) % 400 : Nat) : Int) := by omega
    have e2 : ((mp : Int) - 9) = ((mp - 9 : Nat) : Int) := by omega
    rw [e1, e2, hc]
    exact_mod_cast f7

/-- what `t.UTC().Format` prints is a valid calendar date / time of day (so the parser's range checks pass) -/
theorem utcFields_valid (t : Instant) :
    let f := t.utcFields
    1 ≤ f.M ∧ f.M ≤ 12 ∧ 1 ≤ f.D ∧ f.D ≤ daysIn f.M f.Y ∧ 0 ≤ f.h ∧ f.h ≤ 23 ∧ 0 ≤ f.mi ∧ f.mi ≤ 59 ∧
    0 ≤ f.s ∧ f.s ≤ 59 ∧ f.off = 0 := by
  have c := civil_facts (t.sec / 86400)
  simp only [Instant.utcFields]
  refine ⟨c.2.1, c.2.2.1, c.2.2.2.1, c.2.2.2.2, ?_, ?_, ?_, ?_, ?_, ?_, trivial⟩ <;> omega

/-- **round trip at the field level, for every instant**: the UTC wall clock that is printed, read back through
    `time.Date`, is the same instant (seconds and nanoseconds) -/
theorem utcFields_instant (t : Instant) : t.utcFields.instant = t := by
  have c := (civil_facts (t.sec / 86400)).1
  simp only [Instant.utcFields, Fields.instant]
  rw [c]
  cases t with
  | mk sec nano => simp only [Instant.mk.injEq, and_true]; omega

/-- the same wall clock written with any zone offset denotes the same instant: `time.Date` subtracts the offset -/
theorem offset_shift (f : Fields) (o : Int) :
    ({ f with s := f.s + o, off := f.off + o } : Fields).instant = f.instant := by
  simp only [Fields.instant, Instant.mk.injEq, and_true]; omega

/-- `MarshalJSON` always prints the UTC wall clock with the literal zone `Z`, as a JSON string -/
theorem marshal_shape (t : Instant) :
    marshalRFC3339 t = [34] ++ renderDateTime t.utcFields ++ [90] ++ [34] := by
  simp [marshalRFC3339, formatRFC3339]

/-! ## the byte-level parser on what `MarshalJSON` prints

Full statement (byte level, every instant with a four-digit year):
`∀ t, 0 ≤ (utcFields t).Y ≤ 9999 → unmarshal16 (marshalRFC3339 t) = .ok {t with nano := 0}` — theorem `roundtrip` below,
proved from the JSON-token layer (`string_token`), the field layer (`utcFields_instant`, `utcFields_valid`,
`offset_shift`, all instants) and the digit-level step `roundtrip_iso` (the parser loop unrolled over the twenty
rendered bytes, with the 64-bit wrap-around of the library's accumulator discharged by the four-digit bound).
`roundtrip_partial` is the composition lemma (kept under its historical name). Other configured layouts than RFC 3339 and
years outside 0..9999 are covered by the differential harness only. -/

theorem roundtrip_partial (t : Instant) (h : parseIso (formatRFC3339 t) = .ok { t with nano := 0 }) :
    unmarshal16 (marshalRFC3339 t) = .ok { t with nano := 0 } ∧ unmarshal201 (marshalRFC3339 t) = .ok { t with nano := 0 } := by
  have := string_token (formatRFC3339 t)
  simp only [marshalRFC3339]
  have e : [34] ++ formatRFC3339 t ++ [34] = 34 :: formatRFC3339 t ++ [34] := by simp
  rw [e, this.1, this.2, h]; simp

/-! ## the digit-level step, proved: the parser over `YYYY-MM-DDThh:mm:ssZ` -/

theorem isDigit_digit (n : Int) : isDigit (digit n) = true := by
  have h1 : 48 ≤ 48 + n % 10 := by omega
  have h2 : 48 + n % 10 ≤ 57 := by omega
  simp [isDigit, digit, h1, h2]

theorem digit_val (n : Int) : digit n - 48 = n % 10 := by simp only [digit]; omega

theorem wrap_small (x : Int) (h : 0 ≤ x ∧ x < 100000) : wrap x = x := by
  simp only [wrap, u64]; omega

/-- one digit byte (outside the fraction) -/
theorem parseLoop_digit (n : Int) (rest : List Int) (first : Bool) (st : PState) (hp : st.p ≠ 6) :
    parseLoop (digit n :: rest) first st = parseLoop rest false { st with c := wrap (wrap (st.c * 10) + n % 10) } := by
  rw [parseLoop]
  simp only [isDigit_digit, if_true, digit_val]
  have : (st.p == 6) = false := by simpa using hp
  simp [this]

theorem parseLoop_pad2 (n : Int) (hn : 0 ≤ n ∧ n ≤ 99) (rest : List Int) (first : Bool) (st : PState) (hp : st.p ≠ 6)
    (hc : st.c = 0) : parseLoop (pad2 n ++ rest) first st = parseLoop rest false { st with c := n } := by
  simp only [pad2, List.cons_append, List.nil_append]
  rw [parseLoop_digit _ _ _ _ hp, parseLoop_digit _ _ _ _ (by simpa using hp)]
  congr 1
  simp only [hc]
  have e1 : wrap ((0 : Int) * 10) = 0 := by rw [wrap_small] <;> omega
  have e2 : wrap (0 + n / 10 % 10) = n / 10 := by rw [wrap_small] <;> omega
  have e3 : wrap (n / 10 * 10) = n / 10 * 10 := by rw [wrap_small]; omega
  have e4 : wrap (n / 10 * 10 + n % 10) = n := by rw [wrap_small] <;> omega
  simp only [e1, e2, e3, e4]

theorem parseLoop_pad4 (n : Int) (hn : 0 ≤ n ∧ n ≤ 9999) (rest : List Int) (first : Bool) (st : PState) (hp : st.p ≠ 6)
    (hc : st.c = 0) : parseLoop (pad4 n ++ rest) first st = parseLoop rest false { st with c := n } := by
  simp only [pad4, List.cons_append, List.nil_append]
  rw [parseLoop_digit _ _ _ _ hp, parseLoop_digit _ _ _ _ (by simpa using hp), parseLoop_digit _ _ _ _ (by simpa using hp),
    parseLoop_digit _ _ _ _ (by simpa using hp)]
  congr 1
  simp only [hc]
  have e1 : wrap ((0 : Int) * 10) = 0 := by rw [wrap_small] <;> omega
  have e2 : wrap (0 + n / 1000 % 10) = n / 1000 := by rw [wrap_small] <;> omega
  have e3 : wrap (n / 1000 * 10) = n / 1000 * 10 := by rw [wrap_small]; omega
  have e4 : wrap (n / 1000 * 10 + n / 100 % 10) = n / 100 := by rw [wrap_small] <;> omega
  have e5 : wrap (n / 100 * 10) = n / 100 * 10 := by rw [wrap_small]; omega
  have e6 : wrap (n / 100 * 10 + n / 10 % 10) = n / 10 := by rw [wrap_small] <;> omega
  have e7 : wrap (n / 10 * 10) = n / 10 * 10 := by rw [wrap_small]; omega
  have e8 : wrap (n / 10 * 10 + n % 10) = n := by rw [wrap_small] <;> omega
  simp only [e1, e2, e3, e4, e5, e6, e7, e8]

structure ValidF (f : Fields) : Prop where
  y : 0 ≤ f.Y ∧ f.Y ≤ 9999
  m : 1 ≤ f.M ∧ f.M ≤ 12
  d : 1 ≤ f.D ∧ f.D ≤ daysIn f.M f.Y
  h : 0 ≤ f.h ∧ f.h ≤ 23
  mi : 0 ≤ f.mi ∧ f.mi ≤ 59
  s : 0 ≤ f.s ∧ f.s ≤ 59

theorem daysIn_le (m y : Int) : daysIn m y ≤ 31 := by
  unfold daysIn; split <;> (try split) <;> (try split) <;> omega

theorem sep_dash0 (rest : List Int) (first : Bool) (st : PState) (hp : st.p = 0) :
    parseLoop (45 :: rest) first st = parseLoop rest false { st with Y := st.c, p := 1, c := 0 } := by
  rw [parseLoop]; simp [isDigit, hp]
theorem sep_dash1 (rest : List Int) (first : Bool) (st : PState) (hp : st.p = 1) :
    parseLoop (45 :: rest) first st = parseLoop rest false { st with M := st.c, p := 2, c := 0 } := by
  rw [parseLoop]; simp [isDigit, hp]
theorem sep_T (rest : List Int) (first : Bool) (st : PState) (hp : st.p = 2) :
    parseLoop (84 :: rest) first st = parseLoop rest false { st with d := st.c, c := 0, p := 3 } := by
  rw [parseLoop]; simp [isDigit, hp]
theorem sep_colon3 (rest : List Int) (first : Bool) (st : PState) (hp : st.p = 3) :
    parseLoop (58 :: rest) first st = parseLoop rest false { st with h := st.c, c := 0, p := 4 } := by
  rw [parseLoop]; simp [isDigit, hp]
theorem sep_colon4 (rest : List Int) (first : Bool) (st : PState) (hp : st.p = 4) :
    parseLoop (58 :: rest) first st = parseLoop rest false { st with m := st.c, c := 0, p := 5 } := by
  rw [parseLoop]; simp [isDigit, hp]
theorem sep_Z5 (st : PState) (hp : st.p = 5) :
    parseLoop [90] false st = .ok { st with s := st.c, c := 0, off := 0 } := by
  rw [parseLoop]; simp [isDigit, hp, zoneBranch, parseZone]

/-- the parser loop over `YYYY-MM-DDThh:mm:ssZ` -/
theorem parseLoop_render (f : Fields) (v : ValidF f) :
    parseLoop (renderDateTime f ++ [90]) true {} =
      .ok { Y := f.Y, M := f.M, d := f.D, h := f.h, m := f.mi, s := f.s, fraction := 0, nfraction := 1, c := 0, p := 5, off := 0 } := by
  have hd := daysIn_le f.M f.Y
  simp only [renderDateTime, List.append_assoc, List.cons_append, List.nil_append]
  rw [parseLoop_pad4 f.Y v.y _ _ _ (by simp) rfl, sep_dash0 _ _ _ rfl]
  rw [parseLoop_pad2 f.M ⟨by have := v.m; omega, by have := v.m; omega⟩ _ _ _ (by simp) rfl, sep_dash1 _ _ _ rfl]
  rw [parseLoop_pad2 f.D ⟨by have := v.d; omega, by have := v.d; omega⟩ _ _ _ (by simp) rfl, sep_T _ _ _ rfl]
  rw [parseLoop_pad2 f.h ⟨by have := v.h; omega, by have := v.h; omega⟩ _ _ _ (by simp) rfl, sep_colon3 _ _ _ rfl]
  rw [parseLoop_pad2 f.mi ⟨by have := v.mi; omega, by have := v.mi; omega⟩ _ _ _ (by simp) rfl, sep_colon4 _ _ _ rfl]
  rw [parseLoop_pad2 f.s ⟨by have := v.s; omega, by have := v.s; omega⟩ _ _ _ (by simp) rfl, sep_Z5 _ rfl]

theorem toInt64_small (x : Int) (h : 0 ≤ x ∧ x ≤ 9999) : toInt64 x = x := by
  unfold toInt64; split <;> omega

/-- `iso8601.Parse` on the rendered wall clock returns exactly the rendered fields (UTC, no fraction) -/
theorem parseFields_render (f : Fields) (v : ValidF f) :
    parseFields (renderDateTime f ++ [90]) = .ok { f with nano := 0, off := 0 } := by
  have hd := daysIn_le f.M f.Y
  have hY := toInt64_small f.Y v.y
  have hD := toInt64_small f.D ⟨by have := v.d; omega, by have := v.d; omega⟩
  have h1 := v.m; have h2 := v.d; have h3 := v.h; have h4 := v.mi; have h5 := v.s
  simp only [parseFields, parseLoop_render f v]
  have c1 : ¬ (f.M < 1 ∨ f.M > 12) := by omega
  have c2 : ¬ (f.D < 1 ∨ f.D > daysIn f.M f.Y) := by omega
  have c3 : ¬ (f.h > 23) := by omega
  have c4 : ¬ (f.mi > 59) := by omega
  have c5 : ¬ (f.s > 59) := by omega
  simp [hY, hD, c1, c2, c3, c4, c5, pow10]

/-- **byte-level round trip, every instant with a four-digit year**: what `t.UTC().Format(RFC3339)` prints is parsed
    back by the ISO 8601 parser to the same instant at the format's precision (whole seconds) -/
theorem roundtrip_iso (t : Instant) (hy : 0 ≤ t.utcFields.Y ∧ t.utcFields.Y ≤ 9999) :
    parseIso (formatRFC3339 t) = .ok { t with nano := 0 } := by
  have v := utcFields_valid t
  simp only at v
  have vf : ValidF t.utcFields := ⟨hy, ⟨v.1, v.2.1⟩, ⟨v.2.2.1, v.2.2.2.1⟩, ⟨v.2.2.2.2.1, v.2.2.2.2.2.1⟩,
    ⟨v.2.2.2.2.2.2.1, v.2.2.2.2.2.2.2.1⟩, ⟨v.2.2.2.2.2.2.2.2.1, v.2.2.2.2.2.2.2.2.2.1⟩⟩
  have hi := utcFields_instant t
  simp only [parseIso, formatRFC3339, parseFields_render _ vf, normalise]
  have hs : daysFromCivil t.utcFields.Y t.utcFields.M t.utcFields.D * 86400 + t.utcFields.h * 3600 + t.utcFields.mi * 60 +
      t.utcFields.s = t.sec := by
    have := congrArg Instant.sec hi
    simp only [Fields.instant] at this
    have ho := v.2.2.2.2.2.2.2.2.2.2
    omega
  simp [Fields.instant, hs]

/-- **C20 round trip, both dialects, byte level**: `UnmarshalJSON(MarshalJSON(t))` is `t` truncated to the second, for
    every instant whose UTC year has four digits (Go prints other years with a sign or more digits; outside the model) -/
theorem roundtrip (t : Instant) (hy : 0 ≤ t.utcFields.Y ∧ t.utcFields.Y ≤ 9999) :
    unmarshal16 (marshalRFC3339 t) = .ok { t with nano := 0 } ∧ unmarshal201 (marshalRFC3339 t) = .ok { t with nano := 0 } :=
  roundtrip_partial t (roundtrip_iso t hy)

/-- the hypothesis is met by a whole range of instants: 0000-01-01T00:00:00Z … 9999-12-31T23:59:59Z (spot instances) -/
example : (0 ≤ (⟨1700000000, 5⟩ : Instant).utcFields.Y ∧ (⟨1700000000, 5⟩ : Instant).utcFields.Y ≤ 9999) := by decide
example : (0 ≤ (⟨-62167219200, 0⟩ : Instant).utcFields.Y ∧ (⟨253402300799, 999999999⟩ : Instant).utcFields.Y ≤ 9999) := by decide


def ok? (r : Except PErr Instant) : Option Instant := match r with | .ok t => some t | .error _ => none

/-! tests (kernel evaluation of the executable model on literals — tests, not the unbounded claim) -/
example : ok? (parseIso (formatRFC3339 ⟨0, 0⟩)) = some ⟨0, 0⟩ := by decide
example : ok? (parseIso (formatRFC3339 ⟨951782400, 0⟩)) = some ⟨951782400, 0⟩ := by decide   -- 2000-02-29
example : ok? (parseIso (formatRFC3339 ⟨-62167219200, 0⟩)) = some ⟨-62167219200, 0⟩ := by decide   -- 0000-01-01
example : ok? (parseIso (formatRFC3339 ⟨253402300799, 0⟩)) = some ⟨253402300799, 0⟩ := by decide  -- 9999-12-31T23:59:59
example : ok? (parseIso (formatRFC3339Nano ⟨1582934400, 123000000⟩)) = some ⟨1582934400, 123000000⟩ := by decide
example : unmarshal16 (marshalRFC3339 ⟨1700000000, 0⟩) = .ok ⟨1700000000, 0⟩ := by decide
-- "2020-01-01T00:00:00+01:00" is 2019-12-31T23:00:00Z
example : ok? (parseIso [50,48,50,48,45,48,49,45,48,49,84,48,48,58,48,48,58,48,48,43,48,49,58,48,48]) = some ⟨1577833200, 0⟩ := by decide
-- non-timestamps
example : unmarshal16 [49, 50, 51] = .error := by decide          -- 123
example : unmarshal16 [116, 114, 117, 101] = .error := by decide  -- true
example : unmarshal16 [34, 117, 108, 34] = .error := by decide    -- "ul"  (S1: was taken for null before the fix)
example : unmarshal201 [34, 34] = .error := by decide             -- ""

/-! ## T3 tie -/
theorem skel_dtUnmarshal16 : Gen.Skeletons.dtUnmarshal16 = Ocpp.Expected.dtUnmarshal16 := by decide
theorem skel_dtMarshal16 : Gen.Skeletons.dtMarshal16 = Ocpp.Expected.dtMarshal16 := by decide
theorem skel_dtFormat16 : Gen.Skeletons.dtFormat16 = Ocpp.Expected.dtFormat16 := by decide
theorem skel_dtUnmarshal201 : Gen.Skeletons.dtUnmarshal201 = Ocpp.Expected.dtUnmarshal201 := by decide
theorem skel_dtMarshal201 : Gen.Skeletons.dtMarshal201 = Ocpp.Expected.dtMarshal201 := by decide
theorem skel_dtFormat201 : Gen.Skeletons.dtFormat201 = Ocpp.Expected.dtFormat201 := by decide

end C20
