import OcppModel.DispSpec
import OcppProps.CDLemmas

/-!
Simulation between the client-dispatcher model `Ocpp.CD` and the specification monitor `Ocpp.CD.Mon`:
state invariant, abstraction relation, preservation by every event.
-/

namespace CDS
open Ocpp Ocpp.CD CDL

structure Inv (used : List String) (s : St) : Prop where
  alive   : s.dead = false
  tok0    : s.running = true → s.tok = 0
  pendHd  : s.pend ≠ "" → s.q.head? = some s.pend
  rdyIff  : s.running = true → (s.rdy = true ↔ s.pend = "")
  idle    : s.running = true → s.paused = false → s.pend = "" → s.q = []
  nodup   : s.q.Nodup
  nonE    : ∀ x ∈ s.q, x ≠ ""
  usedQ   : ∀ x ∈ s.q, x ∈ used
  stop    : s.running = false → s.q = [] ∧ s.pend = ""
  armedP  : s.running = true → s.paused = false → s.pend ≠ "" → s.armed = true
  pausedA : s.paused = true → s.armed = false

/-- abstraction: what the specification monitor should believe in model state `s` -/
def absM (s : St) : Mon :=
  { paused := s.paused,
    waiting := if s.pend = "" then s.q else s.q.tail,
    out := if s.pend = "" then none else some s.pend }

theorem inv_init (cap : Int) : Inv [] (CD.init cap) := by
  constructor <;> simp [CD.init]

theorem obsList_append (w : Bool) (m : Mon) (a b : List Obs) :
    Mon.obsList w m (a ++ b) = (Mon.obsList w m a).bind (fun m' => Mon.obsList w m' b) := by
  induction a generalizing m with
  | nil => simp [Mon.obsList]
  | cons o os ih =>
    simp only [List.cons_append, Mon.obsList]
    cases Mon.obs w m o with
    | none => simp
    | some m' => simpa using ih m'

/-- cancelling a whole waiting list (write failures) is allowed when nothing is outstanding -/
theorem cancels_ok (w : Bool) (l : List String) :
    Mon.obsList w { paused := false, waiting := l, out := none } (l.map (fun x => Obs.cancel x false)) =
      some { paused := false, waiting := [], out := none } := by
  induction l with
  | nil => simp [Mon.obsList]
  | cons h t ih => simp [Mon.obsList, Mon.obs, ih]

/-- the dispatch that follows a freed slot, seen by the monitor -/
theorem dispatch_ok (w : Bool) (s : St) (hp : s.pend = "") (hne : ∀ x ∈ s.q, x ≠ "") :
    Mon.obsList w { paused := s.paused, waiting := s.q, out := none } (dispatchSpec s).2 = some (absM (dispatchSpec s).1) := by
  unfold dispatchSpec
  cases hpa : s.paused with
  | true => simp [Mon.obsList, absM, hp, hpa]
  | false =>
    cases hq : s.q with
    | nil => simp [Mon.obsList, absM, hp, hpa, hq]
    | cons h r =>
      have hh : h ≠ "" := hne h (by simp [hq])
      by_cases hw : canWrite s = true
      · simp [hw, Mon.obsList, Mon.obs, absM, hh, hpa, hq]
      · have := cancels_ok w (h :: r)
        simp only [List.map_cons] at this
        simp [hw, this, absM, hp]

theorem inv_mono {used used' : List String} {s : St} (h : Inv used s) (hs : ∀ x ∈ used, x ∈ used') : Inv used' s :=
  { h with usedQ := fun x hx => hs x (h.usedQ x hx) }

def Sim (used : List String) (s : St) (e : Ev) : Prop :=
  Mon.eventCore (absM s) e (step s e).2 = some (absM (step s e).1) ∧ Inv (usedAfter used e) (step s e).1

/-- the progress clause holds in every state satisfying the invariant -/
theorem quiet_absM {used : List String} {s : St} (hI : Inv used s) : (absM s).quiet = true := by
  unfold Mon.quiet absM
  cases hpa : s.paused with
  | true => simp
  | false =>
    by_cases hp : s.pend = ""
    · cases hrun : s.running with
      | true => simp [hp, hI.idle hrun hpa hp]
      | false => simp [hp, (hI.stop hrun).1]
    · simp [hp]

theorem nodup_snoc {l : List String} {x : String} (h : l.Nodup) (hx : x ∉ l) : (l ++ [x]).Nodup := by
  rw [List.nodup_append]
  exact ⟨h, by simp, by intro a ha b hb; simp at hb; subst hb; intro e; subst e; exact hx ha⟩

theorem head_snoc {l : List String} {x y : String} (h : l.head? = some y) : (l ++ [x]).head? = some y := by
  cases l with
  | nil => simp at h
  | cons a t => simpa using h

theorem tail_snoc {l : List String} {x y : String} (h : l.head? = some y) : (l ++ [x]).tail = l.tail ++ [x] := by
  cases l with
  | nil => simp at h
  | cons a t => simp

theorem sim_send (used : List String) (s : St) (id : String) (hI : Inv used s)
    (hok : evOK used s (.send id) = true) : Sim used s (.send id) := by
  have hid : id ≠ "" := by simp [evOK] at hok; exact hok.1
  have hfresh : id ∉ used := by simp [evOK] at hok; exact hok.2
  have hnq : id ∉ s.q := fun h => hfresh (hI.usedQ id h)
  obtain ⟨running, connected, writeFails, paused, cap, q, pend, rdy, tok, armed, dead⟩ := s
  obtain ⟨alive, tok0, pendHd, rdyIff, idle, nodup, nonE, usedQ, stop, armedP, pausedA⟩ := hI
  simp only at alive tok0 pendHd rdyIff idle nodup nonE usedQ stop armedP pausedA hnq
  subst alive
  unfold Sim
  simp only [step, Bool.false_eq_true, if_false, usedAfter]
  cases running with
  | false =>
    refine ⟨by simp [Mon.eventCore, Mon.obsList, Mon.obs], ?_⟩
    constructor <;> simp_all
  | true =>
    simp only [Bool.not_true, Bool.false_eq_true, if_false]
    cases hrej : Gen.Guards.queuePushRejects (↑q.length) cap with
    | true =>
      refine ⟨by simp [Mon.eventCore, Mon.obsList, Mon.obs], ?_⟩
      constructor <;> simp_all
    | false =>
      simp only [Bool.false_eq_true, if_false]
      have hnd : (q ++ [id]).Nodup := nodup_snoc nodup hnq
      have hne' : ∀ x ∈ q ++ [id], x ≠ "" := by
        intro x hx; simp at hx; rcases hx with hx | hx
        · exact nonE x hx
        · subst hx; exact hid
      have hu' : ∀ x ∈ q ++ [id], x ∈ id :: used := by
        intro x hx; simp at hx; rcases hx with hx | hx
        · simp [usedQ x hx]
        · simp [hx]
      cases rdy with
      | false =>
        have hp : pend ≠ "" := by simpa using rdyIff
        have hq : q.head? = some pend := pendHd hp
        rw [pumpTail_idle _ _ (Or.inr rfl)]
        refine ⟨by simp [Mon.eventCore, Mon.obsList, Mon.obs, absM, hp, tail_snoc hq], ?_⟩
        constructor <;> simp_all [head_snoc]
      | true =>
        have hp : pend = "" := by simpa using rdyIff
        have ht : tok = 0 := by simpa using tok0
        subst hp ht
        rw [pumpTail_closed (q ++ [id]) _ _ rfl (by simp) rfl rfl rfl hne']
        cases paused with
        | true =>
          refine ⟨by simp [Mon.eventCore, Mon.obsList, Mon.obs, absM], ?_⟩
          constructor <;> simp_all
        | false =>
          have hq : q = [] := by simpa using idle
          subst hq
          simp only [List.nil_append, Bool.false_eq_true, or_self, if_false]
          by_cases hw : canWrite { running := true, connected := connected, writeFails := writeFails, paused := false, cap := cap, q := [id], pend := "", rdy := true, tok := 0, armed := armed, dead := false } = true
          · simp only [hw, if_true]
            refine ⟨by simp [Mon.eventCore, Mon.obsList, Mon.obs, absM, hid], ?_⟩
            constructor <;> simp_all
          · simp only [hw, Bool.false_eq_true, if_false]
            refine ⟨by simp [Mon.eventCore, Mon.obsList, Mon.obs, absM], ?_⟩
            constructor <;> simp_all

/-- the common continuation of reply / time-out / resume: slot freed, token put, pump dispatches -/
theorem after_free (used : List String) (w : Bool) (s : St) (pre : List Obs) (m0 : Mon)
    (hd : s.dead = false) (ht : s.tok = 1) (hp : s.pend = "") (hrun : s.running = true)
    (hnd : s.q.Nodup) (hne : ∀ x ∈ s.q, x ≠ "") (hu : ∀ x ∈ s.q, x ∈ used) (hpa : s.paused = true → s.armed = false)
    (hm : Mon.obsList w m0 pre = some { paused := s.paused, waiting := s.q, out := none }) :
    Mon.obsList w m0 (pre ++ (pumpReady s).2) = some (absM (pumpReady s).1) ∧ Inv used (pumpReady s).1 := by
  rw [pumpReady_closed s hd ht hp hne, obsList_append, hm]
  refine ⟨by simpa using dispatch_ok w s hp hne, ?_⟩
  obtain ⟨running, connected, writeFails, paused, cap, q, pend, rdy, tok, armed, dead⟩ := s
  simp only at hd ht hp hrun hnd hne hu hpa
  subst hd ht hp hrun
  unfold dispatchSpec
  cases paused with
  | true => constructor <;> simp_all
  | false =>
    cases q with
    | nil => constructor <;> simp_all
    | cons h r =>
      simp only [Bool.false_eq_true, if_false]
      split <;> (constructor <;> simp_all)

theorem sim_reply (used : List String) (s : St) (id : String) (isErr : Bool) (hI : Inv used s)
    (hok : evOK used s (.reply id isErr) = true) : Sim used s (.reply id isErr) := by
  have hid : id ≠ "" := by simpa [evOK] using hok
  unfold Sim
  simp only [usedAfter]
  by_cases hhit : s.pend = id
  · -- the reply to the outstanding request
    have hp : s.pend ≠ "" := by rw [hhit]; exact hid
    have hrun : s.running = true := by
      cases h : s.running with
      | true => rfl
      | false => exact absurd (hI.stop h).2 hp
    have hq := hI.pendHd hp
    obtain ⟨running, connected, writeFails, paused, cap, q, pend, rdy, tok, armed, dead⟩ := s
    obtain ⟨alive, tok0, pendHd, rdyIff, idle, nodup, nonE, usedQ, stop, armedP, pausedA⟩ := hI
    simp only at alive tok0 pendHd rdyIff idle nodup nonE usedQ stop armedP pausedA hhit hp hrun hq
    subst alive hrun hhit
    have ht : tok = 0 := by simpa using tok0
    subst ht
    cases q with
    | nil => simp at hq
    | cons h r =>
      simp only [List.head?_cons, Option.some.injEq] at hq
      subst hq
      simp only [step, Bool.false_eq_true, if_false, pendHit_eq, decide_true, Bool.not_true, complete_eq,
        ne_eq, not_true_eq_false, if_true, putTok_eq, Nat.lt_irrefl, Nat.zero_lt_one, Nat.zero_add]
      have key := after_free used false
        { running := true, connected := connected, writeFails := writeFails, paused := paused, cap := cap, q := r,
          pend := "", rdy := rdy, tok := 1, armed := armed, dead := false }
        [if isErr then Obs.errResp h else Obs.resp h]
        (absM { running := true, connected := connected, writeFails := writeFails, paused := paused, cap := cap,
                q := h :: r, pend := h, rdy := rdy, tok := 0, armed := armed, dead := false })
        rfl rfl rfl rfl (by simp_all) (by simp_all) (by simp_all) (by simpa using pausedA)
        (by cases isErr <;> simp [Mon.obsList, Mon.obs, absM, hp])
      simp only [Mon.eventCore, List.singleton_append] at key ⊢
      exact key
  · -- a foreign id: discarded, nothing changes (C09)
    have : pendHit s.pend id = false := by simp [hhit]
    simp only [step, hI.alive, Bool.false_eq_true, if_false, this, Bool.not_false, if_true]
    exact ⟨by simp [Mon.eventCore, Mon.obsList], hI⟩

theorem sim_wait (used : List String) (s : St) (hI : Inv used s) : Sim used s .wait := by
  unfold Sim
  simp only [usedAfter]
  obtain ⟨running, connected, writeFails, paused, cap, q, pend, rdy, tok, armed, dead⟩ := s
  obtain ⟨alive, tok0, pendHd, rdyIff, idle, nodup, nonE, usedQ, stop, armedP, pausedA⟩ := hI
  simp only at alive tok0 pendHd rdyIff idle nodup nonE usedQ stop armedP pausedA
  subst alive
  simp only [step, Bool.false_eq_true, if_false]
  cases running with
  | false =>
    refine ⟨by simp [Mon.eventCore, Mon.obsList], ?_⟩
    constructor <;> simp_all
  | true =>
    cases armed with
    | false =>
      refine ⟨by simp [Mon.eventCore, Mon.obsList], ?_⟩
      constructor <;> simp_all
    | true =>
      have hnp : paused = false := by cases paused <;> simp_all
      subst hnp
      have ht : tok = 0 := by simpa using tok0
      subst ht
      simp only [Bool.not_true, Bool.or_self, Bool.false_eq_true, if_false, pendHas_eq]
      by_cases hp : pend = ""
      · subst hp
        refine ⟨by simp [Mon.eventCore, Mon.obsList, absM], ?_⟩
        constructor <;> simp_all
      · have hq := pendHd hp
        cases q with
        | nil => simp at hq
        | cons h r =>
          simp only [List.head?_cons, Option.some.injEq] at hq
          subst hq
          simp only [hp, ne_eq, not_false_eq_true, decide_true, if_true, complete_eq, not_true_eq_false,
            putTok_eq, Nat.lt_irrefl, Nat.zero_lt_one, Nat.zero_add, Bool.false_eq_true, if_false]
          have key := after_free used true
            { running := true, connected := connected, writeFails := writeFails, paused := false, cap := cap, q := r,
              pend := "", rdy := rdy, tok := 1, armed := false, dead := false }
            [Obs.cancel h true]
            (absM { running := true, connected := connected, writeFails := writeFails, paused := false, cap := cap,
                    q := h :: r, pend := h, rdy := rdy, tok := 0, armed := true, dead := false })
            rfl rfl rfl rfl (by simp_all) (by simp_all) (by simp_all) (by simp)
            (by simp [Mon.obsList, Mon.obs, absM, hp])
          simp only [Mon.eventCore, List.singleton_append, decide_true] at key ⊢
          exact key

theorem sim_disconnect (used : List String) (s : St) (hI : Inv used s)
    (hok : evOK used s .disconnect = true) : Sim used s .disconnect := by
  have hrun : s.running = true := by simpa [evOK] using hok
  unfold Sim
  obtain ⟨running, connected, writeFails, paused, cap, q, pend, rdy, tok, armed, dead⟩ := s
  obtain ⟨alive, tok0, pendHd, rdyIff, idle, nodup, nonE, usedQ, stop, armedP, pausedA⟩ := hI
  simp only at alive tok0 pendHd rdyIff idle nodup nonE usedQ stop armedP pausedA hrun
  subst alive hrun
  simp only [step, Bool.false_eq_true, if_false, Bool.not_true, usedAfter]
  refine ⟨by simp [Mon.eventCore, Mon.obsList, absM], ?_⟩
  constructor <;> simp_all

theorem sim_reconnect (used : List String) (s : St) (hI : Inv used s)
    (hok : evOK used s .reconnect = true) : Sim used s .reconnect := by
  have hrun : s.running = true := by simpa [evOK] using hok
  unfold Sim
  obtain ⟨running, connected, writeFails, paused, cap, q, pend, rdy, tok, armed, dead⟩ := s
  obtain ⟨alive, tok0, pendHd, rdyIff, idle, nodup, nonE, usedQ, stop, armedP, pausedA⟩ := hI
  simp only at alive tok0 pendHd rdyIff idle nodup nonE usedQ stop armedP pausedA hrun
  subst alive hrun
  have ht : tok = 0 := by simpa using tok0
  subst ht
  simp only [step, Bool.false_eq_true, if_false, usedAfter, pendHas_eq]
  by_cases hp : pend = ""
  · subst hp
    simp only [ne_eq, not_true_eq_false, decide_false, Bool.false_eq_true, if_false, putTok_eq,
      Nat.zero_lt_one, if_true, Nat.zero_add]
    have key := after_free used false
      { running := true, connected := true, writeFails := writeFails, paused := false, cap := cap, q := q,
        pend := "", rdy := rdy, tok := 1, armed := armed, dead := false }
      [] { paused := false, waiting := q, out := none }
      rfl rfl rfl rfl (by simp_all) (by simp_all) (by simp_all) (by simp)
      (by simp [Mon.obsList])
    simp only [Mon.eventCore, List.nil_append, absM] at key ⊢
    simpa using key
  · simp only [hp, ne_eq, not_false_eq_true, decide_true, if_true]
    refine ⟨by simp [Mon.eventCore, Mon.obsList, absM, hp], ?_⟩
    constructor <;> simp_all

theorem sim_writeFail (used : List String) (s : St) (b : Bool) (hI : Inv used s) : Sim used s (.writeFail b) := by
  unfold Sim
  simp only [step, hI.alive, Bool.false_eq_true, if_false, usedAfter]
  refine ⟨by simp [Mon.eventCore, Mon.obsList, absM], ?_⟩
  obtain ⟨alive, tok0, pendHd, rdyIff, idle, nodup, nonE, usedQ, stop, armedP, pausedA⟩ := hI
  constructor <;> simp_all

theorem sim_stop (used : List String) (s : St) (hI : Inv used s) : Sim used s .stop := by
  unfold Sim
  obtain ⟨running, connected, writeFails, paused, cap, q, pend, rdy, tok, armed, dead⟩ := s
  obtain ⟨alive, tok0, pendHd, rdyIff, idle, nodup, nonE, usedQ, stop, armedP, pausedA⟩ := hI
  simp only at alive tok0 pendHd rdyIff idle nodup nonE usedQ stop armedP pausedA
  subst alive
  simp only [step, Bool.false_eq_true, if_false, usedAfter]
  cases running with
  | false =>
    refine ⟨by simp [Mon.eventCore, Mon.obsList, absM], ?_⟩
    constructor <;> simp_all
  | true =>
    refine ⟨by simp [Mon.eventCore, Mon.obsList, Mon.obs, absM], ?_⟩
    constructor <;> simp_all

theorem sim_start (used : List String) (s : St) (hI : Inv used s)
    (hok : evOK used s .start = true) : Sim used s .start := by
  have hrun : s.running = false := by simpa [evOK] using hok
  unfold Sim
  obtain ⟨running, connected, writeFails, paused, cap, q, pend, rdy, tok, armed, dead⟩ := s
  obtain ⟨alive, tok0, pendHd, rdyIff, idle, nodup, nonE, usedQ, stop, armedP, pausedA⟩ := hI
  simp only at alive tok0 pendHd rdyIff idle nodup nonE usedQ stop armedP pausedA hrun
  subst alive hrun
  simp only [step, Bool.false_eq_true, if_false, usedAfter]
  have hq : q = [] ∧ pend = "" := by simpa using stop
  obtain ⟨hq, hp⟩ := hq
  subst hq hp
  refine ⟨by simp [Mon.eventCore, Mon.obsList, absM], ?_⟩
  constructor <;> simp_all

/-- every event preserves the invariant and is accepted by the specification monitor -/
theorem step_sim (used : List String) (s : St) (e : Ev) (hI : Inv used s) (hok : evOK used s e = true) :
    Sim used s e := by
  cases e with
  | send id => exact sim_send used s id hI hok
  | reply id isErr => exact sim_reply used s id isErr hI hok
  | wait => exact sim_wait used s hI
  | disconnect => exact sim_disconnect used s hI hok
  | reconnect => exact sim_reconnect used s hI hok
  | writeFail b => exact sim_writeFail used s b hI
  | stop => exact sim_stop used s hI
  | start => exact sim_start used s hI hok

/-- **refinement**: every well-formed history of the model, of any length, satisfies the specification -/
theorem history_accepted (evs : List Ev) :
    ∀ (used : List String) (s : St), Inv used s → wf used s evs = true →
      Mon.accepts (absM s) (history s evs) = true := by
  induction evs with
  | nil => intro _ _ _ _; rfl
  | cons e es ih =>
    intro used s hI hw
    simp only [wf, Bool.and_eq_true] at hw
    have ⟨h1, h2⟩ := step_sim used s e hI hw.1
    simp only [history, Mon.accepts, Mon.event, h1, quiet_absM h2, if_true]
    exact ih _ _ h2 hw.2

end CDS
