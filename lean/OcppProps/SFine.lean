import OcppModel.ServerFine

/-!
# C02 / C07 below quiescence (server dispatcher, per client): every interleaving

For the small-step model `Ocpp.ServerFine` (projection of the repaired `DefaultServerDispatcher` on one client: pump,
reader, any number of senders holding queue objects, link, time-out goroutines, ready-signal goroutines):

* `pump_waits_only_at`: the pump has an enabled step everywhere except at its `select`, inside `network.Write` and in
  front of the outcome mutex while the reader holds it; the reader, the link, the senders, the time-out and signal
  goroutines never wait for the pump (`reader_never_blocks`, `link_never_blocks`): nothing to deadlock on (C07);
* invariant `Inv` for every label sequence (`inv_run`), from which
  * `written_once`: no CALL is written twice (C02),
  * `written_and_queued_is_pending`: a written CALL that is still in the client's current queue is the pending one,
  * `pending_is_head`: the pending request, if it is in the current queue, is its head,
  * `write_only_own_pending`: while the pump is inside `Write` for `h`, nothing but `h` is pending — together with the
    previous two: at the moment of a write no other written request waits in the client's queue (one outstanding CALL),
  * `dropped_is_orphan`: the two places that clear the pending mark without a completion (timer branch, failed write)
    only ever drop a request that is not in the client's current queue (a request of an earlier connection).
-/
namespace SFine
open Ocpp.ServerFine

/-! ## queue objects -/

theorem getQ_setQ (qs : List (List Nat)) (i j : Nat) (v : List Nat) :
    getQ (setQ qs i v) j = if i = j ∧ i < qs.length then v else getQ qs j := by
  unfold getQ setQ
  simp only [List.getD_eq_getElem?_getD, List.getElem?_set]
  by_cases h : i = j
  · subst h
    by_cases hl : i < qs.length
    · simp [hl]
    · simp [hl]
  · simp [h]

theorem getQ_setQ_same (qs : List (List Nat)) (i : Nat) (v : List Nat) (h : i < qs.length) : getQ (setQ qs i v) i = v := by
  rw [getQ_setQ]; simp [h]

theorem getQ_oob (qs : List (List Nat)) (i : Nat) (h : qs.length ≤ i) : getQ qs i = [] := by
  unfold getQ
  simp only [List.getD_eq_getElem?_getD]
  have : qs[i]? = none := by simp; omega
  simp [this]

theorem getQ_new (qs : List (List Nat)) (j : Nat) : getQ (qs ++ [[]]) j = getQ qs j := by
  unfold getQ
  simp only [List.getD_eq_getElem?_getD]
  by_cases h : j < qs.length
  · rw [List.getElem?_append_left h]
  · have h1 : qs[j]? = none := by simp; omega
    rw [h1]
    by_cases h2 : j = qs.length
    · subst h2; simp
    · have : (qs ++ [[]])[j]? = none := by simp; omega
      rw [this]

/-- what a queue update does, seen through `getQ`: queue `i` becomes `v` (or nothing happens, out of range) -/
theorem getQ_setQ_cases (qs : List (List Nat)) (i : Nat) (v : List Nat) :
    (∀ j, getQ (setQ qs i v) j = if i = j then v else getQ qs j) ∨ (∀ j, getQ (setQ qs i v) j = getQ qs j) := by
  by_cases h : i < qs.length
  · left; intro j; rw [getQ_setQ]
    by_cases e : i = j
    · subst e; simp [h]
    · simp [e]
  · right; intro j; rw [getQ_setQ]; simp [h]

/-! ## the invariant -/

/-- `h`, if it is in the client's current queue, is its head -/
def HeadIf (cur : Option Nat) (qs : List (List Nat)) (h : Nat) : Prop :=
  ∀ i, cur = some i → h ∈ getQ qs i → (getQ qs i).head? = some h

def NotInCur (cur : Option Nat) (qs : List (List Nat)) (h : Nat) : Prop :=
  ∀ i, cur = some i → h ∉ getQ qs i

/-- the part of the invariant about queues, pending mark and the ghost lists -/
structure G (cur : Option Nat) (qs : List (List Nat)) (pend : Option Nat) (used wire : List Nat) : Prop where
  uq : ∀ i, (getQ qs i).Nodup
  dj : ∀ i j, i ≠ j → ∀ x ∈ getQ qs i, x ∉ getQ qs j
  sub : ∀ i, ∀ x ∈ getQ qs i, x ∈ used
  wsub : ∀ x ∈ wire, x ∈ used
  wnd : wire.Nodup
  wq : ∀ i, cur = some i → ∀ x ∈ getQ qs i, x ∈ wire → pend = some x
  ph : ∀ p, pend = some p → HeadIf cur qs p
  pused : ∀ p, pend = some p → p ∈ used

/-- the pump holds queue object `qi`: it is still the client's queue, or the disconnection is in progress, or `p` holds
    of the pending mark (the disconnection cleared it) -/
def Holds (cur : Option Nat) (link : Link) (pend : Option Nat) (qi : Nat) (p : Option Nat → Prop) : Prop :=
  cur = some qi ∨ (cur = none ∧ link ≠ .idle) ∨ p pend

def PI (pc : Pump) (cur : Option Nat) (qs : List (List Nat)) (pend : Option Nat) (used wire : List Nat) (link : Link) : Prop :=
  match pc with
  | .g2 _ => pend = none
  | .d1 => pend = none
  | .d2 qj => pend = none ∧ ∀ x ∈ getQ qs qj, x ∉ wire
  | .d3 h => pend = none ∧ h ∉ wire ∧ h ∈ used ∧ HeadIf cur qs h
  | .wr h => h ∉ wire ∧ h ∈ used ∧ (pend = some h ∨ (pend = none ∧ NotInCur cur qs h))
  | .tm4 qi => Holds cur link pend qi (· = none)
  | .tm5 oh => ∀ p, pend = some p → ∀ i, cur = some i → p ∈ getQ qs i → oh = some p
  | .tmO => ∀ p, pend = some p → NotInCur cur qs p
  | .cp2 _ h qi => Holds cur link pend qi (· ≠ some h)
  | .cp3 _ h => pend ≠ some h
  | .wfO h => pend = some h → NotInCur cur qs h
  | _ => True

structure Inv (s : St) : Prop where
  g : G s.cur s.qs s.pend s.used s.wire
  lk : s.link ≠ .idle → s.cur = none
  pump : PI s.pump s.cur s.qs s.pend s.used s.wire s.link
  hl : s.sendLock = true → ∀ qi ∈ s.hold, s.cur = some qi

theorem inv_init (t d k : Bool) : Inv { tmo := t, dropW := d, sendLock := k } := by
  refine ⟨⟨?_, ?_, ?_, ?_, ?_, ?_, ?_, ?_⟩, ?_, ?_, ?_⟩ <;> simp [getQ, PI]

/-! ## the queue part under the primitive updates -/

theorem G_push {cur qs pend used wire} (g : G cur qs pend used wire) (id qi : Nat) (hid : id ∉ used) :
    G cur (setQ qs qi (getQ qs qi ++ [id])) pend (id :: used) wire := by
  have fresh : ∀ j, id ∉ getQ qs j := fun j h => hid (g.sub j id h)
  rcases getQ_setQ_cases qs qi (getQ qs qi ++ [id]) with hq | hq
  · refine ⟨?_, ?_, ?_, ?_, g.wnd, ?_, ?_, ?_⟩
    · intro i; rw [hq]; by_cases e : qi = i
      · subst e; simp only [if_true]
        rw [List.nodup_append]
        exact ⟨g.uq qi, by simp, by intro a ha b hb; simp at hb; subst hb; exact fun e => fresh qi (e ▸ ha)⟩
      · simp [e]; exact g.uq i
    · intro i j hij x hx; rw [hq] at hx ⊢
      by_cases e1 : qi = i
      · subst e1; simp only [if_true] at hx
        have e2 : ¬ qi = j := hij
        simp only [e2, if_false]
        rcases List.mem_append.mp hx with h | h
        · exact g.dj qi j hij x h
        · simp at h; subst h; exact fresh j
      · simp only [e1, if_false] at hx
        by_cases e2 : qi = j
        · subst e2; simp only [if_true]
          intro h; rcases List.mem_append.mp h with h | h
          · exact g.dj i qi hij x hx h
          · simp at h; subst h; exact fresh i hx
        · simp only [e2, if_false]; exact g.dj i j hij x hx
    · intro i x hx; rw [hq] at hx
      by_cases e : qi = i
      · subst e; simp only [if_true] at hx
        rcases List.mem_append.mp hx with h | h
        · exact List.mem_cons_of_mem _ (g.sub qi x h)
        · simp at h; subst h; exact List.mem_cons_self
      · simp only [e, if_false] at hx; exact List.mem_cons_of_mem _ (g.sub i x hx)
    · intro x hx; exact List.mem_cons_of_mem _ (g.wsub x hx)
    · intro i hc x hx hw; rw [hq] at hx
      by_cases e : qi = i
      · subst e; simp only [if_true] at hx
        rcases List.mem_append.mp hx with h | h
        · exact g.wq qi hc x h hw
        · simp at h; subst h; exact absurd (g.wsub x hw) hid
      · simp only [e, if_false] at hx; exact g.wq i hc x hx hw
    · intro p hp i hc hx; rw [hq] at hx ⊢
      by_cases e : qi = i
      · subst e; simp only [if_true] at hx ⊢
        rcases List.mem_append.mp hx with h | h
        · have := g.ph p hp qi hc h
          cases hq' : getQ qs qi with
          | nil => rw [hq'] at h; simp at h
          | cons a t => rw [hq'] at this; simpa using this
        · simp at h; subst h; exact absurd (g.pused p hp) hid
      · simp only [e, if_false] at hx ⊢; exact g.ph p hp i hc hx
    · intro p hp; exact List.mem_cons_of_mem _ (g.pused p hp)
  · have hq' : ∀ j, getQ (setQ qs qi (getQ qs qi ++ [id])) j = getQ qs j := hq
    refine ⟨?_, ?_, ?_, ?_, g.wnd, ?_, ?_, ?_⟩
    · intro i; rw [hq']; exact g.uq i
    · intro i j hij x hx; rw [hq'] at hx ⊢; exact g.dj i j hij x hx
    · intro i x hx; rw [hq'] at hx; exact List.mem_cons_of_mem _ (g.sub i x hx)
    · intro x hx; exact List.mem_cons_of_mem _ (g.wsub x hx)
    · intro i hc x hx hw; rw [hq'] at hx; exact g.wq i hc x hx hw
    · intro p hp i hc hx; rw [hq'] at hx ⊢; exact g.ph p hp i hc hx
    · intro p hp; exact List.mem_cons_of_mem _ (g.pused p hp)

/-- popping the head `id` of queue `qi` (and clearing the pending mark if it is `id`) -/
theorem G_pop {cur qs pend used wire} (g : G cur qs pend used wire) (id qi : Nat) (t : List Nat) (hq0 : getQ qs qi = id :: t) :
    G cur (setQ qs qi t) (if pend == some id then none else pend) used wire := by
  have hlt : qi < qs.length := by
    apply Classical.byContradiction; intro h
    rw [getQ_oob qs qi (by omega)] at hq0; cases hq0
  have hq : ∀ j, getQ (setQ qs qi t) j = if qi = j then t else getQ qs j := by
    intro j; rw [getQ_setQ]; by_cases e : qi = j
    · subst e; simp [hlt]
    · simp [e]
  have hnd := g.uq qi
  rw [hq0] at hnd
  have hidt : id ∉ t := (List.nodup_cons.mp hnd).1
  have sub' : ∀ j x, x ∈ getQ (setQ qs qi t) j → x ∈ getQ qs j := by
    intro j x hx; rw [hq] at hx
    by_cases e : qi = j
    · subst e; simp only [if_true] at hx; rw [hq0]; exact List.mem_cons_of_mem _ hx
    · simpa [e] using hx
  refine ⟨?_, ?_, ?_, g.wsub, g.wnd, ?_, ?_, ?_⟩
  · intro i; rw [hq]; by_cases e : qi = i
    · subst e; simp only [if_true]; exact (List.nodup_cons.mp hnd).2
    · simp only [e, if_false]; exact g.uq i
  · intro i j hij x hx hx'; exact g.dj i j hij x (sub' i x hx) (sub' j x hx')
  · intro i x hx; exact g.sub i x (sub' i x hx)
  · intro i hc x hx hw
    have hp := g.wq i hc x (sub' i x hx) hw
    by_cases e : pend = some id
    · have hxid : x = id := by rw [hp] at e; exact Option.some.inj e
      subst hxid
      -- the popped request is still in the current queue after the pop: impossible
      exfalso
      rw [hq] at hx
      by_cases e2 : qi = i
      · subst e2; simp only [if_true] at hx; exact hidt hx
      · simp only [e2, if_false] at hx
        exact g.dj qi i e2 x (by rw [hq0]; exact List.mem_cons_self) hx
    · have : (pend == some id) = false := by simpa using e
      simp only [this, Bool.false_eq_true, if_false]; exact hp
  · intro p hp i hc hx
    by_cases e : pend = some id
    · simp [e] at hp
    · have e' : (pend == some id) = false := by simpa using e
      simp only [e', Bool.false_eq_true, if_false] at hp
      have h0 := g.ph p hp i hc (sub' i p hx)
      rw [hq] at hx ⊢
      by_cases e2 : qi = i
      · subst e2; simp only [if_true] at hx ⊢
        rw [hq0] at h0; simp at h0; subst h0
        exact absurd hp e
      · simp only [e2, if_false] at hx ⊢; exact h0
  · intro p hp
    by_cases e : pend = some id
    · simp [e] at hp
    · have e' : (pend == some id) = false := by simpa using e
      simp only [e', Bool.false_eq_true, if_false] at hp; exact g.pused p hp

theorem G_clear {cur qs pend used wire} (g : G cur qs pend used wire) (h : ∀ p, pend = some p → NotInCur cur qs p) :
    G cur qs none used wire := by
  refine ⟨g.uq, g.dj, g.sub, g.wsub, g.wnd, ?_, by simp, by simp⟩
  intro i hc x hx hw
  have hp := g.wq i hc x hx hw
  exact absurd hx (h x hp i hc)

theorem G_disc {cur qs pend used wire} (g : G cur qs pend used wire) : G none qs pend used wire :=
  ⟨g.uq, g.dj, g.sub, g.wsub, g.wnd, (by simp), (by intro p _ i hc; cases hc), g.pused⟩

theorem G_connect {qs pend used wire} (g : G none qs pend used wire) : G (some qs.length) (qs ++ [[]]) pend used wire := by
  refine ⟨?_, ?_, ?_, g.wsub, g.wnd, ?_, ?_, g.pused⟩
  · intro i; rw [getQ_new]; exact g.uq i
  · intro i j hij x hx; rw [getQ_new] at hx ⊢; exact g.dj i j hij x hx
  · intro i x hx; rw [getQ_new] at hx; exact g.sub i x hx
  · intro i hc x hx; rw [getQ_new] at hx; cases hc; rw [getQ_oob qs _ (Nat.le_refl _)] at hx; simp at hx
  · intro p _ i hc hx; rw [getQ_new] at hx; cases hc; rw [getQ_oob qs _ (Nat.le_refl _)] at hx; simp at hx

theorem G_addpend {cur qs used wire} (g : G cur qs none used wire) (h : Nat) (hu : h ∈ used) (hh : HeadIf cur qs h) :
    G cur qs (some h) used wire := by
  refine ⟨g.uq, g.dj, g.sub, g.wsub, g.wnd, ?_, ?_, ?_⟩
  · intro i hc x hx hw; have := g.wq i hc x hx hw; cases this
  · intro p hp; cases hp; exact hh
  · intro p hp; cases hp; exact hu

theorem G_write {cur qs pend used wire} (g : G cur qs pend used wire) (h : Nat) (hw : h ∉ wire) (hu : h ∈ used)
    (hp : pend = some h ∨ NotInCur cur qs h) : G cur qs pend used (wire ++ [h]) := by
  refine ⟨g.uq, g.dj, g.sub, ?_, ?_, ?_, g.ph, g.pused⟩
  · intro x hx; rcases List.mem_append.mp hx with h1 | h1
    · exact g.wsub x h1
    · simp at h1; subst h1; exact hu
  · rw [List.nodup_append]; exact ⟨g.wnd, by simp, by intro a ha b hb; simp at hb; subst hb; exact fun e => hw (e ▸ ha)⟩
  · intro i hc x hx hxw
    rcases List.mem_append.mp hxw with h1 | h1
    · exact g.wq i hc x hx h1
    · simp at h1; subst h1
      rcases hp with hp | hp
      · exact hp
      · exact absurd hx (hp i hc)

/-! ## the pump's local knowledge under the steps of the other threads -/

theorem mem_push {qs : List (List Nat)} {qi id j x : Nat} (h : x ∈ getQ (setQ qs qi (getQ qs qi ++ [id])) j) :
    x ∈ getQ qs j ∨ x = id := by
  rcases getQ_setQ_cases qs qi (getQ qs qi ++ [id]) with hq | hq
  · rw [hq] at h
    by_cases e : qi = j
    · subst e; simp only [if_true] at h
      rcases List.mem_append.mp h with h | h
      · exact Or.inl h
      · right; simpa using h
    · simp only [e, if_false] at h; exact Or.inl h
  · rw [hq] at h; exact Or.inl h

theorem head_push {qs : List (List Nat)} {qi id j x : Nat} (h : x ∈ getQ qs j) :
    (getQ (setQ qs qi (getQ qs qi ++ [id])) j).head? = (getQ qs j).head? := by
  rcases getQ_setQ_cases qs qi (getQ qs qi ++ [id]) with hq | hq
  · rw [hq]
    by_cases e : qi = j
    · subst e; simp only [if_true]
      cases hq' : getQ qs qi with
      | nil => rw [hq'] at h; simp at h
      | cons a t => simp
    · simp only [e, if_false]
  · rw [hq]

theorem HeadIf_push {cur qs} {h qi id : Nat} (hh : HeadIf cur qs h) (hne : h ≠ id) :
    HeadIf cur (setQ qs qi (getQ qs qi ++ [id])) h := by
  intro i hc hx
  rcases mem_push hx with hx | hx
  · rw [head_push hx]; exact hh i hc hx
  · exact absurd hx hne

theorem NotInCur_push {cur qs} {h qi id : Nat} (hh : NotInCur cur qs h) (hne : h ≠ id) :
    NotInCur cur (setQ qs qi (getQ qs qi ++ [id])) h := by
  intro i hc hx
  rcases mem_push hx with hx | hx
  · exact hh i hc hx
  · exact hne hx

theorem PI_push {pc cur qs pend used wire link} (g : G cur qs pend used wire)
    (h : PI pc cur qs pend used wire link) (id qi : Nat) (hid : id ∉ used) :
    PI pc cur (setQ qs qi (getQ qs qi ++ [id])) pend (id :: used) wire link := by
  have ne_of_used : ∀ x, x ∈ used → x ≠ id := fun x hx e => hid (e ▸ hx)
  cases pc <;> simp only [PI] at h ⊢ <;> try exact h
  case d2 qj =>
    refine ⟨h.1, ?_⟩
    intro x hx; rcases mem_push hx with hx | hx
    · exact h.2 x hx
    · subst hx; exact fun hw => hid (g.wsub _ hw)
  case d3 hh =>
    exact ⟨h.1, h.2.1, List.mem_cons_of_mem _ h.2.2.1, HeadIf_push h.2.2.2 (ne_of_used _ h.2.2.1)⟩
  case wr hh =>
    refine ⟨h.1, List.mem_cons_of_mem _ h.2.1, ?_⟩
    rcases h.2.2 with h2 | h2
    · exact Or.inl h2
    · exact Or.inr ⟨h2.1, NotInCur_push h2.2 (ne_of_used _ h.2.1)⟩
  case tm5 oh =>
    intro p hp i hc hx
    rcases mem_push hx with hx | hx
    · exact h p hp i hc hx
    · exact absurd hx (ne_of_used _ (g.pused p hp))
  case tmO =>
    intro p hp; exact NotInCur_push (h p hp) (ne_of_used _ (g.pused p hp))
  case wfO hh =>
    intro hp; exact NotInCur_push (h hp) (ne_of_used _ (g.pused _ hp))

theorem PI_pop {pc cur qs pend used wire link} (g : G cur qs pend used wire)
    (h : PI pc cur qs pend used wire link) (id qi : Nat) (t : List Nat) (hq0 : getQ qs qi = id :: t) :
    PI pc cur (setQ qs qi t) (if pend == some id then none else pend) used wire link := by
  have hlt : qi < qs.length := by
    apply Classical.byContradiction; intro h
    rw [getQ_oob qs qi (by omega)] at hq0; cases hq0
  have hq : ∀ j, getQ (setQ qs qi t) j = if qi = j then t else getQ qs j := by
    intro j; rw [getQ_setQ]; by_cases e : qi = j
    · subst e; simp [hlt]
    · simp [e]
  have hnd := g.uq qi
  rw [hq0] at hnd
  have hidt : id ∉ t := (List.nodup_cons.mp hnd).1
  have sub' : ∀ j x, x ∈ getQ (setQ qs qi t) j → x ∈ getQ qs j := by
    intro j x hx; rw [hq] at hx
    by_cases e : qi = j
    · subst e; simp only [if_true] at hx; rw [hq0]; exact List.mem_cons_of_mem _ hx
    · simpa [e] using hx
  have nic : ∀ x, NotInCur cur qs x → NotInCur cur (setQ qs qi t) x := fun x hx i hc hm => hx i hc (sub' i x hm)
  have popped_gone : NotInCur cur (setQ qs qi t) id := by
    intro i hc hm
    rw [hq] at hm
    by_cases e : qi = i
    · subst e; simp only [if_true] at hm; exact hidt hm
    · simp only [e, if_false] at hm
      exact g.dj qi i e id (by rw [hq0]; exact List.mem_cons_self) hm
  have pend_none : pend = none → (if pend == some id then none else pend) = none := by intro e; simp [e]
  have pend_some : ∀ p, (if pend == some id then none else pend) = some p → pend = some p ∧ p ≠ id := by
    intro p hp
    by_cases e : pend = some id
    · simp [e] at hp
    · have e' : (pend == some id) = false := by simpa using e
      simp only [e', Bool.false_eq_true, if_false] at hp
      exact ⟨hp, fun e2 => e (e2 ▸ hp)⟩
  cases pc <;> simp only [PI] at h ⊢ <;> try exact h
  case g2 => exact pend_none h
  case d1 => exact pend_none h
  case d2 qj => exact ⟨pend_none h.1, fun x hx => h.2 x (sub' qj x hx)⟩
  case d3 hh =>
    refine ⟨pend_none h.1, h.2.1, h.2.2.1, ?_⟩
    intro i hc hx
    have h0 := h.2.2.2 i hc (sub' i hh hx)
    rw [hq] at hx ⊢
    by_cases e2 : qi = i
    · subst e2; simp only [if_true] at hx ⊢
      rw [hq0] at h0; simp at h0; subst h0
      exact absurd hx hidt
    · simp only [e2, if_false] at hx ⊢; exact h0
  case wr hh =>
    refine ⟨h.1, h.2.1, ?_⟩
    rcases h.2.2 with h2 | h2
    · by_cases e : hh = id
      · subst e; right; exact ⟨by simp [h2], popped_gone⟩
      · left
        have : ¬ (pend = some id) := by rw [h2]; intro e2; exact e (Option.some.inj e2)
        have e' : (pend == some id) = false := by simpa using this
        simp only [e', Bool.false_eq_true, if_false]; exact h2
    · right; exact ⟨pend_none h2.1, nic _ h2.2⟩
  case tm4 qj =>
    rcases h with h | h | h
    · exact Or.inl h
    · exact Or.inr (Or.inl h)
    · exact Or.inr (Or.inr (pend_none h))
  case tm5 oh =>
    intro p hp i hc hx
    exact h p (pend_some p hp).1 i hc (sub' i p hx)
  case tmO =>
    intro p hp; exact nic p (h p (pend_some p hp).1)
  case cp2 w hh qj =>
    rcases h with h | h | h
    · exact Or.inl h
    · exact Or.inr (Or.inl h)
    · right; right; intro e; exact h (pend_some hh e).1
  case cp3 w hh =>
    intro e; exact h (pend_some hh e).1
  case wfO hh =>
    intro e; exact nic hh (h (pend_some hh e).1)

/-- the link clears the pending mark at the end of a disconnection (no queue is registered then) -/
theorem PI_clearD {pc qs pend used wire link} (h : PI pc none qs pend used wire link) :
    PI pc none qs none used wire .idle := by
  cases pc <;> simp only [PI] at h ⊢ <;> try exact h
  case d2 qj => exact ⟨trivial, h.2⟩
  case d3 hh => exact ⟨trivial, h.2.1, h.2.2.1, h.2.2.2⟩
  case wr hh => exact ⟨h.1, h.2.1, Or.inr ⟨trivial, by intro i hc; cases hc⟩⟩
  case tm4 qj => exact Or.inr (Or.inr rfl)
  case tm5 oh => intro p hp; cases hp
  case tmO => intro p hp; cases hp
  case cp2 w hh qj => exact Or.inr (Or.inr (by simp))
  case cp3 w hh => simp
  case wfO hh => intro hp; cases hp

theorem PI_disc {pc cur qs pend used wire} (h : PI pc cur qs pend used wire .idle) :
    PI pc none qs pend used wire .dl2 := by
  cases pc <;> simp only [PI] at h ⊢ <;> try exact h
  case d3 hh => exact ⟨h.1, h.2.1, h.2.2.1, by intro i hc; cases hc⟩
  case wr hh =>
    refine ⟨h.1, h.2.1, ?_⟩
    rcases h.2.2 with h2 | h2
    · exact Or.inl h2
    · exact Or.inr ⟨h2.1, by intro i hc; cases hc⟩
  case tm4 qj => exact Or.inr (Or.inl ⟨rfl, by simp⟩)
  case tm5 oh => intro p _ i hc; cases hc
  case tmO => intro p _ i hc; cases hc
  case cp2 w hh qj => exact Or.inr (Or.inl ⟨rfl, by simp⟩)
  case wfO hh => intro _ i hc; cases hc

theorem PI_dl2 {pc qs pend used wire} (h : PI pc none qs pend used wire .dl2) : PI pc none qs pend used wire .dl3 := by
  cases pc <;> simp only [PI] at h ⊢ <;> try exact h
  case tm4 qj =>
    rcases h with h | h | h
    · cases h
    · exact Or.inr (Or.inl ⟨rfl, by simp⟩)
    · exact Or.inr (Or.inr h)
  case cp2 w hh qj =>
    rcases h with h | h | h
    · cases h
    · exact Or.inr (Or.inl ⟨rfl, by simp⟩)
    · exact Or.inr (Or.inr h)

theorem PI_connect {pc qs pend used wire} (h : PI pc none qs pend used wire .idle) :
    PI pc (some qs.length) (qs ++ [[]]) pend used wire .idle := by
  have empty : ∀ x i, some qs.length = some i → x ∉ getQ (qs ++ [[]]) i := by
    intro x i hc; cases hc; rw [getQ_new, getQ_oob qs _ (Nat.le_refl _)]; simp
  cases pc <;> simp only [PI] at h ⊢ <;> try exact h
  case d2 qj => exact ⟨h.1, by intro x hx; rw [getQ_new] at hx; exact h.2 x hx⟩
  case d3 hh => exact ⟨h.1, h.2.1, h.2.2.1, by intro i hc hx; exact absurd hx (empty _ i hc)⟩
  case wr hh =>
    refine ⟨h.1, h.2.1, ?_⟩
    rcases h.2.2 with h2 | h2
    · exact Or.inl h2
    · exact Or.inr ⟨h2.1, fun i hc => empty _ i hc⟩
  case tm4 qj =>
    rcases h with h | h | h
    · cases h
    · exact absurd rfl h.2
    · exact Or.inr (Or.inr h)
  case tm5 oh => intro p _ i hc hx; exact absurd hx (empty _ i hc)
  case tmO => intro p _ i hc; exact empty _ i hc
  case cp2 w hh qj =>
    rcases h with h | h | h
    · cases h
    · exact absurd rfl h.2
    · exact Or.inr (Or.inr h)
  case wfO hh => intro _ i hc; exact empty _ i hc

/-! ## one step -/

theorem complete_eff (s : St) (id qi : Nat) (h : (complete s id qi).2 = true) :
    ∃ t, getQ s.qs qi = id :: t ∧
      (complete s id qi).1 = { s with qs := setQ s.qs qi t, pend := if s.pend == some id then none else s.pend } := by
  unfold complete at h ⊢
  cases hq : getQ s.qs qi with
  | nil => simp [hq] at h
  | cons a t =>
    simp only [hq] at h ⊢
    by_cases e : (a == id) = true
    · simp only [e, if_true]
      have : a = id := by simpa using e
      exact ⟨t, by rw [this], rfl⟩
    · simp [e] at h

theorem complete_noeff (s : St) (id qi : Nat) (h : (complete s id qi).2 = false) :
    (complete s id qi).1 = s ∧ (getQ s.qs qi).head? ≠ some id := by
  unfold complete at h ⊢
  cases hq : getQ s.qs qi with
  | nil => simp
  | cons a t =>
    simp only [hq] at h ⊢
    by_cases e : (a == id) = true
    · simp [e] at h
    · simp only [e, Bool.false_eq_true, if_false, List.head?_cons, ne_eq, Option.some.injEq, true_and]
      simpa using e

@[simp] theorem signal_cur (s : St) : (signal s).cur = s.cur := by unfold signal; split <;> rfl
@[simp] theorem signal_qs (s : St) : (signal s).qs = s.qs := by unfold signal; split <;> rfl
@[simp] theorem signal_pend (s : St) : (signal s).pend = s.pend := by unfold signal; split <;> rfl
@[simp] theorem signal_used (s : St) : (signal s).used = s.used := by unfold signal; split <;> rfl
@[simp] theorem signal_wire (s : St) : (signal s).wire = s.wire := by unfold signal; split <;> rfl
@[simp] theorem signal_link (s : St) : (signal s).link = s.link := by unfold signal; split <;> rfl
@[simp] theorem signal_pump (s : St) : (signal s).pump = s.pump := by unfold signal; split <;> rfl
@[simp] theorem signal_reader (s : St) : (signal s).reader = s.reader := by unfold signal; split <;> rfl
@[simp] theorem signal_hold (s : St) : (signal s).hold = s.hold := by unfold signal; split <;> rfl
@[simp] theorem signal_sendLock (s : St) : (signal s).sendLock = s.sendLock := by unfold signal; split <;> rfl
@[simp] theorem cancel_hold (s : St) : (cancelCtx s).hold = s.hold := by unfold cancelCtx; split <;> rfl
@[simp] theorem cancel_sendLock (s : St) : (cancelCtx s).sendLock = s.sendLock := by unfold cancelCtx; split <;> rfl
@[simp] theorem cancel_cur (s : St) : (cancelCtx s).cur = s.cur := by unfold cancelCtx; split <;> rfl
@[simp] theorem cancel_qs (s : St) : (cancelCtx s).qs = s.qs := by unfold cancelCtx; split <;> rfl
@[simp] theorem cancel_pend (s : St) : (cancelCtx s).pend = s.pend := by unfold cancelCtx; split <;> rfl
@[simp] theorem cancel_used (s : St) : (cancelCtx s).used = s.used := by unfold cancelCtx; split <;> rfl
@[simp] theorem cancel_wire (s : St) : (cancelCtx s).wire = s.wire := by unfold cancelCtx; split <;> rfl
@[simp] theorem cancel_link (s : St) : (cancelCtx s).link = s.link := by unfold cancelCtx; split <;> rfl

/-- a step that touches neither the queues, the pending mark, the ghost lists, the link nor the pump's program point -/
theorem inv_same {s s' : St} (h : Inv s) (e1 : s'.cur = s.cur) (e2 : s'.qs = s.qs) (e3 : s'.pend = s.pend)
    (e4 : s'.used = s.used) (e5 : s'.wire = s.wire) (e6 : s'.link = s.link) (e7 : s'.pump = s.pump)
    (e8 : s'.hold = s.hold) (e9 : s'.sendLock = s.sendLock) : Inv s' := by
  refine ⟨?_, ?_, ?_, ?_⟩
  · rw [e1, e2, e3, e4, e5]; exact h.g
  · rw [e1, e6]; exact h.lk
  · rw [e1, e2, e3, e4, e5, e6, e7]; exact h.pump
  · rw [e1, e8, e9]; exact h.hl

/-- the pump moves to a program point about which nothing has to be known -/
theorem inv_pc {s s' : St} (h : Inv s) (e1 : s'.cur = s.cur) (e2 : s'.qs = s.qs) (e3 : s'.pend = s.pend)
    (e4 : s'.used = s.used) (e5 : s'.wire = s.wire) (e6 : s'.link = s.link)
    (e8 : s'.hold = s.hold) (e9 : s'.sendLock = s.sendLock)
    (hp : PI s'.pump s.cur s.qs s.pend s.used s.wire s.link) : Inv s' := by
  refine ⟨?_, ?_, ?_, ?_⟩
  · rw [e1, e2, e3, e4, e5]; exact h.g
  · rw [e1, e6]; exact h.lk
  · rw [e1, e2, e3, e4, e5, e6]; exact hp
  · rw [e1, e8, e9]; exact h.hl

/-- a completion (reader or pump), where it takes effect -/
theorem inv_complete {s : St} (h : Inv s) (id qi : Nat) (he : (complete s id qi).2 = true) (pc : Pump) (rd : Reader)
    (hpc : ∀ t, getQ s.qs qi = id :: t →
      PI pc s.cur (setQ s.qs qi t) (if s.pend == some id then none else s.pend) s.used s.wire s.link) :
    Inv { (complete s id qi).1 with pump := pc, reader := rd } := by
  obtain ⟨t, hq, hc⟩ := complete_eff s id qi he
  rw [hc]
  exact ⟨G_pop h.g id qi t hq, h.lk, hpc t hq, h.hl⟩

theorem PI_after {d w : Bool} {h : Nat} {cur qs pend used wire link}
    (hh : pend = some h → NotInCur cur qs h) : PI (afterCompletion d w h) cur qs pend used wire link := by
  unfold afterCompletion
  cases w <;> cases d <;> simp [PI]
  exact hh

theorem inv_pstep {s s' : St} (h : Inv s) (hs : pumpStep s = some s') : Inv s' := by
  have hpi := h.pump
  unfold pumpStep at hs
  cases hp : s.pump <;> rw [hp] at hpi <;> simp only [hp] at hs <;> simp only [PI] at hpi
  case sel => cases hs
  case wr => cases hs
  case rq1 =>
    cases hs
    refine inv_pc h rfl rfl rfl rfl rfl rfl rfl rfl ?_
    show PI (match s.cur with | none => .rqDel | some qi => .rq2 qi) _ _ _ _ _ _
    cases s.cur <;> simp [PI]
  case rqDel =>
    cases hs
    exact inv_pc h (by simp) (by simp) (by simp) (by simp) (by simp) (by simp) (by simp) (by simp) (by simp [PI])
  case rq2 qi =>
    cases hs
    refine inv_pc h rfl rfl rfl rfl rfl rfl rfl rfl ?_
    dsimp only
    split
    · simp [PI]
    · simp [PI]
    · split <;> simp [PI]
  case tm1 k =>
    split at hs <;> cases hs <;> exact inv_pc h rfl rfl rfl rfl rfl rfl rfl rfl (by simp [PI])
  case tm2 =>
    cases hs
    refine inv_pc h rfl rfl rfl rfl rfl rfl rfl rfl ?_
    dsimp only
    split <;> simp [PI]
  case tm3 =>
    cases hs
    refine inv_pc h rfl rfl rfl rfl rfl rfl rfl rfl ?_
    show PI (match s.cur with | none => .sel | some qi => .tm4 qi) _ _ _ _ _ _
    cases hc : s.cur <;> simp [PI, Holds]
  case tm4 qi =>
    cases hs
    refine inv_pc h rfl rfl rfl rfl rfl rfl rfl rfl ?_
    simp only [PI]
    intro p hpp i hc hx
    rcases hpi with h1 | h1 | h1
    · rw [h1] at hc; cases hc; exact h.g.ph p hpp qi h1 hx
    · rw [h1.1] at hc; cases hc
    · rw [h1] at hpp; cases hpp
  case tm5 oh =>
    cases oh with
    | none =>
      cases hs
      refine inv_pc h rfl rfl rfl rfl rfl rfl rfl rfl ?_
      simp only [PI]
      intro p hpp i hc hx
      have := hpi p hpp i hc hx
      cases this
    | some hh =>
      cases hs
      refine inv_pc h rfl rfl rfl rfl rfl rfl rfl rfl ?_
      dsimp only
      split
      · simp [PI]
      · rename_i hne
        simp only [PI]
        intro p hpp i hc hx
        have := hpi p hpp i hc hx
        cases this
        rw [hpp] at hne; simp at hne
  case tmO =>
    cases hs
    refine ⟨G_clear h.g hpi, h.lk, ?_, h.hl⟩
    dsimp only
    split <;> simp [PI]
  case tmOS =>
    cases hs
    exact inv_pc h (by simp) (by simp) (by simp) (by simp) (by simp) (by simp) (by simp) (by simp) (by simp [PI])
  case cp1 w hh =>
    cases hs
    refine inv_pc h rfl rfl rfl rfl rfl rfl rfl rfl ?_
    show PI (match s.cur with | none => afterCompletion s.dropW w hh | some qi => .cp2 w hh qi) _ _ _ _ _ _
    cases hc : s.cur
    · exact PI_after (by intro _ i hci; cases hci)
    · simp [PI, Holds]
  case cp2 w hh qi =>
    cases hs
    by_cases he : (complete s hh qi).2 = true
    · simp only [he, if_true]
      have := inv_complete h hh qi he (.cp3 w hh) s.reader (by
        intro t _
        simp only [PI]
        by_cases e : s.pend = some hh
        · simp [e]
        · have e' : (s.pend == some hh) = false := by simpa using e
          simp only [e', Bool.false_eq_true, if_false]; exact e)
      obtain ⟨t, hq, hc⟩ := complete_eff s hh qi he
      rw [hc] at this ⊢
      exact this
    · have he' : (complete s hh qi).2 = false := by simpa using he
      obtain ⟨h1, h2⟩ := complete_noeff s hh qi he'
      simp only [he', Bool.false_eq_true, if_false, h1]
      refine inv_pc h rfl rfl rfl rfl rfl rfl rfl rfl ?_
      apply PI_after
      intro hpp i hc hx
      rcases hpi with h3 | h3 | h3
      · rw [h3] at hc; cases hc
        exact h2 (h.g.ph hh hpp qi h3 hx)
      · rw [h3.1] at hc; cases hc
      · exact h3 hpp
  case cp3 w hh =>
    cases hs
    exact inv_pc h (by simp) (by simp) (by simp) (by simp) (by simp) (by simp) (by simp) (by simp) (PI_after (fun e => absurd e hpi))
  case wfO hh =>
    cases hs
    by_cases e : s.pend = some hh
    · have e' : (s.pend == some hh) = true := by simpa using e
      simp only [e', if_true]
      refine ⟨G_clear h.g (by intro p hp; rw [e] at hp; cases hp; exact hpi e), h.lk, by simp [PI], h.hl⟩
    · have e' : (s.pend == some hh) = false := by simpa using e
      simp only [e', Bool.false_eq_true, if_false]
      exact inv_pc h rfl rfl rfl rfl rfl rfl rfl rfl (by simp [PI])
  case wfOS hh =>
    cases hs
    exact inv_pc h (by simp) (by simp) (by simp) (by simp) (by simp) (by simp) (by simp) (by simp) (by simp [PI])
  case cb w hh =>
    split at hs
    · cases hs
    · cases hs
      exact inv_pc h rfl rfl rfl rfl rfl rfl rfl rfl (by simp [PI])
  case rd1 =>
    split at hs
    · cases hs
      split <;> exact inv_pc h rfl rfl rfl rfl rfl rfl rfl rfl (by simp [PI])
    · cases hs
      exact inv_pc h rfl rfl rfl rfl rfl rfl rfl rfl (by simp [PI])
  case rd2 =>
    cases hs
    refine inv_pc h rfl rfl rfl rfl rfl rfl rfl rfl ?_
    show PI (match s.cur with | none => .sel | some qi => .g1 qi) _ _ _ _ _ _
    cases s.cur <;> simp [PI]
  case g1 qi =>
    cases hs
    refine inv_pc h rfl rfl rfl rfl rfl rfl rfl rfl ?_
    dsimp only
    split
    · rename_i hn; simp only [PI]; simpa using hn
    · simp [PI]
  case g2 qi =>
    cases hs
    refine inv_pc h rfl rfl rfl rfl rfl rfl rfl rfl ?_
    dsimp only
    split
    · simp [PI]
    · simp only [PI]; exact hpi
  case d1 =>
    cases hs
    split
    · exact inv_pc h rfl rfl rfl rfl rfl rfl rfl rfl (by simp [PI])
    · rename_i qj hc
      refine inv_pc h rfl rfl rfl rfl rfl rfl rfl rfl ?_
      simp only [PI]
      refine ⟨hpi, ?_⟩
      intro x hx hw
      have := h.g.wq qj hc x hx hw
      rw [hpi] at this; cases this
  case d2 qj =>
    cases hq : getQ s.qs qj with
    | nil =>
      simp only [hq] at hs; cases hs
      exact inv_pc h rfl rfl rfl rfl rfl rfl rfl rfl (by simp [PI])
    | cons a t =>
      simp only [hq] at hs; cases hs
      refine inv_pc h rfl rfl rfl rfl rfl rfl rfl rfl ?_
      simp only [PI]
      have ha : a ∈ getQ s.qs qj := by rw [hq]; exact List.mem_cons_self
      refine ⟨hpi.1, hpi.2 a ha, h.g.sub qj a ha, ?_⟩
      intro i hc hx
      by_cases e : qj = i
      · subst e; rw [hq]; rfl
      · exact absurd hx (h.g.dj qj i e a ha)
  case d3 hh =>
    cases hs
    have hn : s.pend.isNone = true := by rw [hpi.1]; rfl
    simp only [hn, if_true]
    refine ⟨?_, h.lk, ?_, h.hl⟩
    · have g := h.g; rw [hpi.1] at g
      exact G_addpend g hh hpi.2.2.1 hpi.2.2.2
    · simp only [PI]; exact ⟨hpi.2.1, hpi.2.2.1, Or.inl trivial⟩
  case d4 =>
    cases hs
    split <;> exact inv_pc h rfl rfl rfl rfl rfl rfl rfl rfl (by simp [PI])

theorem inv_rstep {s s' : St} (h : Inv s) (hs : readerStep s = some s') : Inv s' := by
  unfold readerStep at hs
  cases hr : s.reader <;> simp only [hr] at hs
  case idle => cases hs
  case got id => cases hs; exact inv_same h rfl rfl rfl rfl rfl rfl rfl rfl rfl
  case lk id => cases hs; exact inv_same h rfl rfl rfl rfl rfl rfl rfl rfl rfl
  case c1 id => cases hs; exact inv_same h rfl rfl rfl rfl rfl rfl rfl rfl rfl
  case c3 id => cases hs; exact inv_same h (by simp) (by simp) (by simp) (by simp) (by simp) (by simp) (by simp) (by simp) (by simp)
  case hd id => cases hs; exact inv_same h rfl rfl rfl rfl rfl rfl rfl rfl rfl
  case c2 id qi =>
    cases hs
    by_cases he : (complete s id qi).2 = true
    · simp only [he, if_true]
      have := inv_complete h id qi he s.pump (.c3 id) (fun t hq => PI_pop h.g h.pump id qi t hq)
      obtain ⟨t, hq, hc⟩ := complete_eff s id qi he
      rw [hc] at this ⊢
      exact this
    · have he' : (complete s id qi).2 = false := by simpa using he
      obtain ⟨h1, _⟩ := complete_noeff s id qi he'
      simp only [he', Bool.false_eq_true, if_false, h1]
      exact inv_same h rfl rfl rfl rfl rfl rfl rfl rfl rfl

theorem inv_step {s s' : St} (h : Inv s) (l : Label) (hs : step s l = some s') : Inv s' := by
  cases l <;> simp only [step] at hs
  case sget =>
    split at hs
    · rename_i qi hc
      cases hs
      refine ⟨h.g, h.lk, h.pump, ?_⟩
      intro hk q hq
      rcases List.mem_cons.mp hq with e | e
      · rw [e]; exact hc
      · exact h.hl hk q e
    · cases hs
  case push id qi =>
    split at hs
    · cases hs
    · rename_i hc
      cases hs
      have hid : id ∉ s.used := by
        intro hm; apply hc; simp [hm]
      exact ⟨G_push h.g id qi hid, h.lk, PI_push h.g h.pump id qi hid, fun hk q hq => h.hl hk q (List.mem_of_mem_erase hq)⟩
  case notify =>
    split at hs
    · cases hs; exact inv_same h rfl rfl rfl rfl rfl rfl rfl rfl rfl
    · cases hs
  case takeReq =>
    split at hs
    · cases hs; exact inv_pc h rfl rfl rfl rfl rfl rfl rfl rfl (by simp [PI])
    · cases hs
  case takeTimer =>
    split at hs
    · split at hs
      · cases hs; exact inv_pc h rfl rfl rfl rfl rfl rfl rfl rfl (by simp [PI])
      · cases hs
    · cases hs
  case takeReady =>
    split at hs
    · cases hs; exact inv_pc h rfl rfl rfl rfl rfl rfl rfl rfl (by simp [PI])
    · cases hs
  case takeOther =>
    split at hs
    · cases hs; exact inv_same h rfl rfl rfl rfl rfl rfl rfl rfl rfl
    · cases hs
  case otherReady =>
    split at hs
    · cases hs; exact inv_same h rfl rfl rfl rfl rfl rfl rfl rfl rfl
    · cases hs
  case pstep => exact inv_pstep h hs
  case writeOk =>
    have hpi := h.pump
    split at hs
    · rename_i hh hp
      cases hs
      rw [hp] at hpi; simp only [PI] at hpi
      refine ⟨G_write h.g hh hpi.1 hpi.2.1 ?_, h.lk, by simp [PI], h.hl⟩
      rcases hpi.2.2 with h2 | h2
      · exact Or.inl h2
      · exact Or.inr h2.2
    · cases hs
  case writeFail =>
    split at hs
    · cases hs; exact inv_pc h rfl rfl rfl rfl rfl rfl rfl rfl (by simp [PI])
    · cases hs
  case fire k =>
    split at hs
    · cases hs; exact inv_same h rfl rfl rfl rfl rfl rfl rfl rfl rfl
    · cases hs
  case sigPost =>
    split at hs
    · cases hs; exact inv_same h rfl rfl rfl rfl rfl rfl rfl rfl rfl
    · cases hs
  case reply id =>
    split at hs
    · cases hs; exact inv_same h rfl rfl rfl rfl rfl rfl rfl rfl rfl
    · cases hs
  case rstep => exact inv_rstep h hs
  case disc =>
    split at hs
    · rename_i hc
      cases hs
      have hl : s.link = .idle := by simp at hc; exact hc.1.1
      have hpi := h.pump; rw [hl] at hpi
      refine ⟨G_disc h.g, fun _ => rfl, PI_disc hpi, ?_⟩
      intro hk q hq
      have : s.hold = [] := by
        have := hc
        simp [show s.sendLock = true from hk] at this
        exact this.2
      change q ∈ s.hold at hq
      rw [this] at hq; cases hq
    · cases hs
  case lstep =>
    have hpi := h.pump
    split at hs
    · cases hs
    · rename_i hl
      cases hs
      have hc : s.cur = none := h.lk (by rw [hl]; simp)
      rw [hl, hc] at hpi
      refine ⟨?_, fun _ => hc, ?_, h.hl⟩
      · exact h.g
      · show PI s.pump s.cur s.qs s.pend s.used s.wire .dl3
        rw [hc]; exact PI_dl2 hpi
    · rename_i hl
      cases hs
      have hc : s.cur = none := h.lk (by rw [hl]; simp)
      rw [hc] at hpi
      refine ⟨?_, fun hn => absurd rfl hn, ?_, h.hl⟩
      · have g := h.g; rw [hc] at g
        show G s.cur s.qs none s.used s.wire
        rw [hc]; exact G_clear g (fun p _ i hi => by cases hi)
      · show PI s.pump s.cur s.qs none s.used s.wire .idle
        rw [hc]; exact PI_clearD hpi
  case connect =>
    split at hs
    · rename_i hc
      cases hs
      have hl : s.link = .idle := by simp at hc; exact hc.1
      have hcn : s.cur = none := by simp at hc; exact hc.2
      have hpi := h.pump; rw [hl, hcn] at hpi
      have g := h.g; rw [hcn] at g
      refine ⟨G_connect g, fun hn => absurd hl hn, ?_, ?_⟩
      · show PI s.pump (some s.qs.length) (s.qs ++ [[]]) s.pend s.used s.wire s.link
        rw [hl]; exact PI_connect hpi
      · intro hk q hq
        have := h.hl hk q hq
        rw [hcn] at this; cases this
    · cases hs

/-- the invariant holds after every label sequence: every interleaving of pump, reader, senders, link, time-out and
    signal goroutines and the other clients' use of the ready slot -/
theorem inv_run (t d k : Bool) (ls : List Label) (s : St) (h : runL { tmo := t, dropW := d, sendLock := k } ls = some s) : Inv s := by
  suffices ∀ (s0 : St), Inv s0 → ∀ ls s, runL s0 ls = some s → Inv s from this _ (inv_init t d k) ls s h
  intro s0 h0 ls
  induction ls generalizing s0 with
  | nil => intro s h; simp [runL] at h; subst h; exact h0
  | cons l ls ih =>
    intro s h
    simp only [runL] at h
    cases hst : step s0 l with
    | none => simp [hst] at h
    | some s1 => simp only [hst] at h; exact ih s1 (inv_step h0 l hst) s h

/-! ## the properties -/

/-- reachable by some interleaving, with or without a configured request timeout -/
def Reach (s : St) : Prop := ∃ t d k ls, runL { tmo := t, dropW := d, sendLock := k } ls = some s

theorem reach_inv {s : St} (h : Reach s) : Inv s := by
  obtain ⟨t, d, k, ls, h⟩ := h; exact inv_run t d k ls s h

/-- C02: no CALL is written twice -/
theorem written_once {s : St} (h : Reach s) : s.wire.Nodup := (reach_inv h).g.wnd

/-- C02: a written CALL that is still in the client's current queue is the pending one -/
theorem written_and_queued_is_pending {s : St} (h : Reach s) (i x : Nat) (hc : s.cur = some i) (hx : x ∈ getQ s.qs i)
    (hw : x ∈ s.wire) : s.pend = some x := (reach_inv h).g.wq i hc x hx hw

/-- the pending request, if it is in the client's current queue, is its head -/
theorem pending_is_head {s : St} (h : Reach s) (p i : Nat) (hp : s.pend = some p) (hc : s.cur = some i)
    (hx : p ∈ getQ s.qs i) : (getQ s.qs i).head? = some p := (reach_inv h).g.ph p hp i hc hx

/-- C02: while the pump is inside `Write` for `h`, `h` was not written before and nothing but `h` is pending -/
theorem write_only_own_pending {s : St} (h : Reach s) (hh : Nat) (hp : s.pump = .wr hh) :
    hh ∉ s.wire ∧ (s.pend = some hh ∨ s.pend = none) := by
  have hpi := (reach_inv h).pump
  rw [hp] at hpi; simp only [PI] at hpi
  exact ⟨hpi.1, hpi.2.2.elim Or.inl (fun h2 => Or.inr h2.1)⟩

/-- C02 (one outstanding CALL): at the moment of a write no written request waits in the client's current queue -/
theorem one_outstanding_at_write {s : St} (h : Reach s) (hh : Nat) (hp : s.pump = .wr hh) (i x : Nat) (hc : s.cur = some i)
    (hx : x ∈ getQ s.qs i) : x ∉ s.wire := by
  intro hw
  have h1 := written_and_queued_is_pending h i x hc hx hw
  obtain ⟨h2, h3⟩ := write_only_own_pending h hh hp
  rcases h3 with h3 | h3
  · rw [h1] at h3; cases h3; exact h2 hw
  · rw [h1] at h3; cases h3

/-- the two places that clear the pending mark without a completion (timer branch, failed write) only ever drop a request
    that is not in the client's current queue: a request of an earlier connection -/
theorem dropped_is_orphan {s : St} (h : Reach s) :
    (s.pump = .tmO → ∀ p, s.pend = some p → NotInCur s.cur s.qs p) ∧
    (∀ hh, s.pump = .wfO hh → s.pend = some hh → NotInCur s.cur s.qs hh) := by
  have hpi := (reach_inv h).pump
  constructor
  · intro hp; rw [hp] at hpi; simpa only [PI] using hpi
  · intro hh hp; rw [hp] at hpi; simpa only [PI] using hpi

/-- every queued id was pushed once, queue objects are disjoint (a request lives in the queue object it was pushed to) -/
theorem queues_disjoint {s : St} (h : Reach s) (i j x : Nat) (hij : i ≠ j) (hx : x ∈ getQ s.qs i) : x ∉ getQ s.qs j :=
  (reach_inv h).g.dj i j hij x hx

/-- C01/C11 (since /repo 602795e): with the send lock a sender only ever pushes into the queue that is registered for the
    client at that moment - a request is never accepted into the queue of a connection that is gone -/
theorem pushed_into_current {s s' : St} (h : Reach s) (hk : s.sendLock = true) (id qi : Nat)
    (hs : step s (.push id qi) = some s') : s.cur = some qi := by
  simp only [step] at hs
  split at hs
  · cases hs
  · rename_i hc
    have : qi ∈ s.hold := by
      apply Classical.byContradiction; intro hn
      apply hc; simp [hn]
    exact (reach_inv h).hl hk qi this

/-- before 602795e: a sender that fetched the queue, then lost the race against a disconnection and a reconnection, pushed
    its request into the queue object of the old connection: accepted, never written - the pump serves every wake-up and
    parks with the request still sitting in a queue nobody looks at (open finding `never-concluded:server` until then;
    replay on the code: `bin/harness sched "s-reconnect|queue.Push<|1"`) -/
theorem old_push_into_old_queue :
    ((runL { sendLock := false } [.connect, .sget, .disc, .lstep, .lstep, .connect, .push 1 0, .notify,
        .takeReq, .pstep, .pstep, .pstep, .pstep, .takeReq, .pstep, .pstep, .pstep, .pstep]).map (fun s =>
      decide (s.pump = .sel ∧ s.cur = some 1 ∧ getQ s.qs 0 = [1] ∧ getQ s.qs 1 = [] ∧ s.wire = [] ∧ s.pend = none ∧ s.reqs = 0 ∧
        s.mid = 0 ∧ s.hold = [] ∧ s.ready = .empty ∧ s.sigw = 0 ∧ s.reader = .idle ∧ s.link = .idle))) = some true := by decide

/-- with the lock the disconnection waits for the sender -/
example : runL {} [.connect, .sget, .disc] = none := by decide

/-! ### C07: who can wait for whom (no invariant needed: true in every state) -/

/-- the pump has a step everywhere except at its select, inside `network.Write`, and in front of the outcome mutex while
    the reader holds it -/
theorem pump_waits_only_at (s : St) (h : pumpStep s = none) :
    s.pump = .sel ∨ (∃ hh, s.pump = .wr hh) ∨ (∃ w hh, s.pump = .cb w hh ∧ readerHolds s = true) := by
  unfold pumpStep at h
  cases hp : s.pump <;> simp only [hp] at h <;> try (first | (cases h; done) | simp at h)
  case sel => exact Or.inl rfl
  case wr hh => exact Or.inr (Or.inl ⟨hh, rfl⟩)
  case cb w hh =>
    right; right; refine ⟨w, hh, rfl, ?_⟩
    by_cases e : readerHolds s = true
    · exact e
    · simp [e] at h
  all_goals (repeat' split at h) <;> simp at h

/-- the reader never waits: every step of an incoming reply is enabled (it holds the outcome mutex only over such steps) -/
theorem reader_never_blocks (s : St) (h : s.reader ≠ .idle) : (readerStep s).isSome = true := by
  unfold readerStep
  cases hr : s.reader <;> simp_all

/-- the link never waits -/
theorem link_never_blocks (s : St) (h : s.link ≠ .idle) : (step s .lstep).isSome = true := by
  simp only [step]
  cases hl : s.link <;> simp_all

/-- a sender that pushed its request posts its wake-up without waiting for the pump -/
theorem sender_never_blocks (s : St) (h : s.mid > 0) : (step s .notify).isSome = true := by
  simp [step, h]

/-- a goroutine waiting to post the client's ready token waits only while the slot is taken, and a taken slot is always
    freed by the pump at its select -/
theorem slot_is_freed (s : St) (hs : s.pump = .sel) (hr : s.ready ≠ .empty) :
    (step s .takeReady).isSome = true ∨ (step s .takeOther).isSome = true := by
  simp only [step, hs]
  cases h : s.ready <;> simp_all

/-- both outcomes of `network.Write` return the pump -/
theorem write_returns (s : St) (hh : Nat) (hp : s.pump = .wr hh) :
    (step s .writeOk).isSome = true ∧ (step s .writeFail).isSome = true := by
  simp [step, hp]


/-! ## C07 progress clause for the server dispatcher: no lost wake-up (every interleaving)

`Dispatchable`: the client's current queue is not empty and nothing is pending. `Tok`: somebody is on the way to make the
pump look at this client - a wake-up in the request channel, the client's ready token in the slot or with a goroutine
waiting for the slot, a sender between push and wake-up, a disconnection before its wake-up, the reader or the pump about
to post the ready signal, or the pump in the middle of an iteration for this client that has not decided yet. The
invariant `Wake`: dispatchable implies a token (`w`), and an iteration that works on a queue object which is no longer the
client's is followed by another wake-up (`r`). Needs nothing of `Inv`. -/

def Dispatchable (s : St) : Prop := ∃ i, s.cur = some i ∧ getQ s.qs i ≠ [] ∧ s.pend = none

def pumpTok : Pump → Bool
  | .rq1 | .rq2 _ | .rd1 | .rd2 | .g1 _ | .g2 _ | .d1 | .d2 _ | .d3 _ | .cp3 _ _ | .tmOS | .wfOS _ => true
  | _ => false

def readerTok : Reader → Bool
  | .c3 _ => true
  | _ => false

def Tok (s : St) : Prop :=
  s.reqs > 0 ∨ s.ready = .me ∨ s.sigw > 0 ∨ s.mid > 0 ∨ s.link = .dl2 ∨ readerTok s.reader = true ∨ pumpTok s.pump = true

def heldQ : Pump → Option Nat
  | .rq2 q | .g1 q | .g2 q | .d2 q => some q
  | _ => none

structure Wake (s : St) : Prop where
  w : Dispatchable s → Tok s
  r : ∀ q, heldQ s.pump = some q → s.cur = some q ∨ s.reqs > 0 ∨ s.link = .dl2

theorem wake_init (t d k : Bool) : Wake { tmo := t, dropW := d, sendLock := k } := by
  refine ⟨?_, ?_⟩
  · intro ⟨i, h, _⟩; cases h
  · intro q h; simp [heldQ] at h

theorem signal_tok (s : St) : (signal s).ready = .me ∨ (signal s).sigw > 0 := by
  unfold signal; split
  · left; rfl
  · right; simp

@[simp] theorem signal_reqs (s : St) : (signal s).reqs = s.reqs := by unfold signal; split <;> rfl
@[simp] theorem signal_mid (s : St) : (signal s).mid = s.mid := by unfold signal; split <;> rfl

/-- the new state has a pump token -/
theorem wake_ptok {s' : St} (ht : pumpTok s'.pump = true)
    (hr : ∀ q, heldQ s'.pump = some q → s'.cur = some q ∨ s'.reqs > 0 ∨ s'.link = .dl2) : Wake s' :=
  ⟨fun _ => Or.inr (Or.inr (Or.inr (Or.inr (Or.inr (Or.inr ht))))), hr⟩

/-- the new state is not dispatchable -/
theorem wake_nd {s' : St} (hn : ¬ Dispatchable s')
    (hr : ∀ q, heldQ s'.pump = some q → s'.cur = some q ∨ s'.reqs > 0 ∨ s'.link = .dl2) : Wake s' :=
  ⟨fun hd => absurd hd hn, hr⟩

/-- a step of the pump from a program point that holds no token to one that holds no queue: nothing relevant changes -/
theorem wake_quiet {s s' : St} (h : Wake s) (e1 : s'.cur = s.cur) (e2 : s'.qs = s.qs) (e3 : s'.pend = s.pend)
    (e4 : s'.reqs = s.reqs) (e5 : s'.ready = s.ready) (e6 : s'.sigw = s.sigw) (e7 : s'.mid = s.mid) (e8 : s'.link = s.link)
    (e9 : s'.reader = s.reader) (hp : pumpTok s.pump = false) (hq : heldQ s'.pump = none) : Wake s' := by
  refine ⟨fun hd => ?_, fun q hh => by rw [hq] at hh; cases hh⟩
  have hd0 : Dispatchable s := by
    obtain ⟨i, a, b, c⟩ := hd
    exact ⟨i, by rw [← e1]; exact a, by rw [← e2]; exact b, by rw [← e3]; exact c⟩
  rcases h.w hd0 with t | t | t | t | t | t | t
  · left; rw [e4]; exact t
  · right; left; rw [e5]; exact t
  · right; right; left; rw [e6]; exact t
  · right; right; right; left; rw [e7]; exact t
  · right; right; right; right; left; rw [e8]; exact t
  · right; right; right; right; right; left; rw [e9]; exact t
  · rw [hp] at t; cases t

/-- a step of another thread that keeps or adds tokens and does not touch the pump -/
theorem wake_other {s s' : St} (h : Wake s) (e1 : s'.cur = s.cur) (e2 : s'.qs = s.qs) (e3 : s'.pend = s.pend)
    (e8 : s'.link = s.link) (ep : s'.pump = s.pump) (hreq : s.reqs ≤ s'.reqs)
    (ht : Tok s → Tok s') : Wake s' := by
  refine ⟨fun hd => ?_, fun q hh => ?_⟩
  · have hd0 : Dispatchable s := by
      obtain ⟨i, a, b, c⟩ := hd
      exact ⟨i, by rw [← e1]; exact a, by rw [← e2]; exact b, by rw [← e3]; exact c⟩
    exact ht (h.w hd0)
  · rw [ep] at hh
    rcases h.r q hh with t | t | t
    · left; rw [e1]; exact t
    · right; left; omega
    · right; right; rw [e8]; exact t

/-- a state that has just been given a ready signal -/
theorem wake_signal {s s' : St} (e1 : s'.ready = (signal s).ready) (e2 : s'.sigw = (signal s).sigw) (hq : heldQ s'.pump = none) :
    Wake s' := by
  refine ⟨fun _ => ?_, fun q hh => by rw [hq] at hh; cases hh⟩
  rcases signal_tok s with t | t
  · right; left; rw [e1]; exact t
  · right; right; left; rw [e2]; exact t

theorem heldQ_after (d w : Bool) (h : Nat) : heldQ (afterCompletion d w h) = none := by
  unfold afterCompletion; split <;> rfl

theorem wake_pstep {s s' : St} (h : Wake s) (hs : pumpStep s = some s') : Wake s' := by
  unfold pumpStep at hs
  cases hp : s.pump <;> simp only [hp] at hs
  case sel => cases hs
  case wr => cases hs
  case rq1 =>
    cases hs
    cases hc : s.cur with
    | none => exact wake_nd (by intro ⟨i, a, _⟩; cases a) (by intro q hh; simp [heldQ] at hh)
    | some qi => exact wake_ptok (by simp [pumpTok]) (by intro q hh; simp [heldQ] at hh; left; simp [hh])
  case rqDel =>
    cases hs
    exact wake_quiet h (by simp) (by simp) (by simp) (by simp [cancelCtx]; split <;> rfl) (by simp [cancelCtx]; split <;> rfl)
      (by simp [cancelCtx]; split <;> rfl) (by simp [cancelCtx]; split <;> rfl) (by simp) (by simp [cancelCtx]; split <;> rfl)
      (by rw [hp]; rfl) rfl
  case rq2 qi =>
    cases hs
    have hr := h.r qi (by rw [hp]; rfl)
    have tok : ∀ c, Wake { s with ctx := c, pump := .g1 qi } := fun c =>
      wake_ptok rfl (by intro q hh; simp [heldQ] at hh; subst hh; exact hr)
    have nd : s.pend.isNone = false → ∀ c, Wake { s with ctx := c, pump := .sel } := fun hn c => by
      refine wake_nd ?_ (by intro q hh; simp [heldQ] at hh)
      intro ⟨i, _, _, c⟩
      simp only at c
      simp [c] at hn
    cases hctx : s.ctx with
    | absent => exact tok _
    | zero => exact tok _
    | active k =>
      by_cases hn : s.pend.isNone = true
      · simp only [hn, if_true]; exact tok _
      · simp only [hn, Bool.false_eq_true, if_false]; exact nd (by cases hpd : s.pend <;> simp_all) _
  case tm1 k =>
    split at hs <;> cases hs <;>
      exact wake_quiet h rfl rfl rfl rfl rfl rfl rfl rfl rfl (by rw [hp]; rfl) rfl
  case tm2 =>
    cases hs
    refine wake_quiet h rfl rfl rfl rfl rfl rfl rfl rfl rfl (by rw [hp]; rfl) ?_
    dsimp only; split <;> rfl
  case tm3 =>
    cases hs
    refine wake_quiet h rfl rfl rfl rfl rfl rfl rfl rfl rfl (by rw [hp]; rfl) ?_
    dsimp only; cases s.cur <;> rfl
  case tm4 qi =>
    cases hs
    exact wake_quiet h rfl rfl rfl rfl rfl rfl rfl rfl rfl (by rw [hp]; rfl) rfl
  case tm5 oh =>
    cases oh with
    | none => cases hs; exact wake_quiet h rfl rfl rfl rfl rfl rfl rfl rfl rfl (by rw [hp]; rfl) rfl
    | some hh =>
      cases hs
      refine wake_quiet h rfl rfl rfl rfl rfl rfl rfl rfl rfl (by rw [hp]; rfl) ?_
      dsimp only; split <;> rfl
  case tmO =>
    cases hs
    by_cases e : s.pend.isSome = true
    · simp only [e, if_true]
      exact wake_ptok rfl (by intro q hh; simp [heldQ] at hh)
    · have e' : s.pend = none := by cases hpd : s.pend <;> simp_all
      simp only [e, Bool.false_eq_true, if_false]
      exact wake_quiet h rfl rfl (by simp [e']) rfl rfl rfl rfl rfl rfl (by rw [hp]; rfl) rfl
  case tmOS => cases hs; exact wake_signal (s := s) rfl rfl rfl
  case cp1 w hh =>
    cases hs
    refine wake_quiet h rfl rfl rfl rfl rfl rfl rfl rfl rfl (by rw [hp]; rfl) ?_
    dsimp only; cases s.cur
    · exact heldQ_after _ _ _
    · rfl
  case cp2 w hh qi =>
    cases hs
    by_cases he : (complete s hh qi).2 = true
    · simp only [he, if_true]
      exact wake_ptok rfl (by intro q hq; simp [heldQ] at hq)
    · have he' : (complete s hh qi).2 = false := by simpa using he
      obtain ⟨h1, _⟩ := complete_noeff s hh qi he'
      simp only [he', Bool.false_eq_true, if_false, h1]
      exact wake_quiet h rfl rfl rfl rfl rfl rfl rfl rfl rfl (by rw [hp]; rfl) (heldQ_after _ _ _)
  case cp3 w hh =>
    cases hs
    exact wake_signal (s := s) rfl rfl (heldQ_after _ _ _)
  case wfO hh =>
    cases hs
    by_cases e : (s.pend == some hh) = true
    · simp only [e, if_true]; exact wake_ptok rfl (by intro q hq; simp [heldQ] at hq)
    · simp only [e, Bool.false_eq_true, if_false]
      exact wake_quiet h rfl rfl rfl rfl rfl rfl rfl rfl rfl (by rw [hp]; rfl) rfl
  case wfOS hh => cases hs; exact wake_signal (s := s) rfl rfl rfl
  case cb w hh =>
    split at hs
    · cases hs
    · cases hs; exact wake_quiet h rfl rfl rfl rfl rfl rfl rfl rfl rfl (by rw [hp]; rfl) rfl
  case rd1 =>
    split at hs
    · cases hs; split <;> exact wake_ptok rfl (by intro q hq; simp [heldQ] at hq)
    · cases hs; exact wake_ptok rfl (by intro q hq; simp [heldQ] at hq)
  case rd2 =>
    cases hs
    cases hc : s.cur with
    | none => exact wake_nd (by intro ⟨i, a, _⟩; cases a) (by intro q hh; simp [heldQ] at hh)
    | some qi => exact wake_ptok (by simp [pumpTok]) (by intro q hh; simp [heldQ] at hh; left; simp [hh])
  case g1 qi =>
    cases hs
    have hr := h.r qi (by rw [hp]; rfl)
    split
    · exact wake_ptok (by simp [pumpTok]) (by intro q hh; simp [heldQ] at hh; subst hh; exact hr)
    · rename_i hn
      refine wake_nd ?_ (by intro q hh; simp [heldQ] at hh)
      intro ⟨i, _, _, c⟩
      simp only at c
      apply hn; simp [c]
  case g2 qi =>
    cases hs
    have hr := h.r qi (by rw [hp]; rfl)
    split
    · rename_i hem
      refine ⟨fun hd => ?_, by intro q hh; simp [heldQ] at hh⟩
      obtain ⟨i, a, b, _⟩ := hd
      simp only at a b
      rcases hr with t | t | t
      · rw [t] at a; cases a
        exfalso; apply b; simpa using hem
      · left; exact t
      · right; right; right; right; left; exact t
    · exact wake_ptok rfl (by intro q hh; simp [heldQ] at hh)
  case d1 =>
    cases hs
    cases hc : s.cur with
    | none => exact wake_nd (by intro ⟨i, a, _⟩; cases a) (by intro q hh; simp [heldQ] at hh)
    | some qj => exact wake_ptok (by simp [pumpTok]) (by intro q hh; simp [heldQ] at hh; left; simp [hh])
  case d2 qj =>
    have hr := h.r qj (by rw [hp]; rfl)
    cases hq : getQ s.qs qj with
    | nil =>
      simp only [hq] at hs; cases hs
      refine ⟨fun hd => ?_, by intro q hh; simp [heldQ] at hh⟩
      obtain ⟨i, a, b, _⟩ := hd
      simp only at a b
      rcases hr with t | t | t
      · rw [t] at a; cases a
        exact absurd hq b
      · left; exact t
      · right; right; right; right; left; exact t
    | cons a t =>
      simp only [hq] at hs; cases hs
      exact wake_ptok rfl (by intro q hh; simp [heldQ] at hh)
  case d3 hh =>
    cases hs
    refine wake_nd ?_ (by intro q hq; simp [heldQ] at hq)
    intro ⟨i, _, _, c⟩
    simp only at c
    cases hpd : s.pend <;> simp [hpd] at c
  case d4 =>
    cases hs
    split <;> exact wake_quiet h rfl rfl rfl rfl rfl rfl rfl rfl rfl (by rw [hp]; rfl) rfl


theorem wake_rstep {s s' : St} (h : Wake s) (hs : readerStep s = some s') : Wake s' := by
  unfold readerStep at hs
  -- a reader step from a point without token that only moves the reader
  have quiet : ∀ rd : Reader, readerTok s.reader = false → Wake { s with reader := rd } := by
    intro rd hrt
    refine wake_other h rfl rfl rfl rfl rfl (Nat.le_refl _) ?_
    intro t
    rcases t with t | t | t | t | t | t | t
    · exact Or.inl t
    · exact Or.inr (Or.inl t)
    · exact Or.inr (Or.inr (Or.inl t))
    · exact Or.inr (Or.inr (Or.inr (Or.inl t)))
    · exact Or.inr (Or.inr (Or.inr (Or.inr (Or.inl t))))
    · rw [hrt] at t; cases t
    · exact Or.inr (Or.inr (Or.inr (Or.inr (Or.inr (Or.inr t)))))
  cases hr : s.reader <;> simp only [hr] at hs
  case idle => cases hs
  case got id => cases hs; exact quiet _ (by rw [hr]; rfl)
  case lk id => cases hs; exact quiet _ (by rw [hr]; rfl)
  case c1 id => cases hs; exact quiet _ (by rw [hr]; rfl)
  case hd id => cases hs; exact quiet _ (by rw [hr]; rfl)
  case c3 id =>
    cases hs
    refine ⟨fun _ => ?_, fun q hh => ?_⟩
    · rcases signal_tok s with t | t
      · right; left; exact t
      · right; right; left; exact t
    · have := h.r q (by simpa using hh)
      simpa using this
  case c2 id qi =>
    cases hs
    by_cases he : (complete s id qi).2 = true
    · simp only [he, if_true]
      obtain ⟨t, _, hc⟩ := complete_eff s id qi he
      refine ⟨fun _ => Or.inr (Or.inr (Or.inr (Or.inr (Or.inr (Or.inl rfl))))), fun q hh => ?_⟩
      rw [hc] at hh ⊢
      exact h.r q hh
    · have he' : (complete s id qi).2 = false := by simpa using he
      obtain ⟨h1, _⟩ := complete_noeff s id qi he'
      simp only [he', Bool.false_eq_true, if_false, h1]
      exact quiet _ (by rw [hr]; rfl)

theorem tok_mono {s s' : St} (e1 : s.reqs ≤ s'.reqs) (e2 : s.ready = .me → s'.ready = .me) (e3 : s.sigw ≤ s'.sigw) (e4 : s.mid ≤ s'.mid)
    (e5 : s'.link = s.link) (e6 : s'.reader = s.reader) (e7 : s'.pump = s.pump) (t : Tok s) : Tok s' := by
  rcases t with t | t | t | t | t | t | t
  · left; omega
  · right; left; exact e2 t
  · right; right; left; omega
  · right; right; right; left; omega
  · right; right; right; right; left; rw [e5]; exact t
  · right; right; right; right; right; left; rw [e6]; exact t
  · right; right; right; right; right; right; rw [e7]; exact t

theorem wake_step {s s' : St} (hi : Inv s) (h : Wake s) (l : Label) (hs : step s l = some s') : Wake s' := by
  cases l <;> simp only [step] at hs
  case sget =>
    split at hs
    · cases hs; exact wake_other h rfl rfl rfl rfl rfl (Nat.le_refl _) (tok_mono (Nat.le_refl _) id (Nat.le_refl _) (Nat.le_refl _) rfl rfl rfl)
    · cases hs
  case push id qi =>
    split at hs
    · cases hs
    · cases hs
      exact ⟨fun _ => Or.inr (Or.inr (Or.inr (Or.inl (by simp)))), fun q hh => h.r q hh⟩
  case notify =>
    split at hs
    · cases hs
      exact ⟨fun _ => Or.inl (by simp), fun q hh => by
        rcases h.r q hh with t | t | t
        · exact Or.inl t
        · exact Or.inr (Or.inl (by simp))
        · exact Or.inr (Or.inr t)⟩
    · cases hs
  case takeReq =>
    split at hs
    · cases hs; exact wake_ptok rfl (by intro q hh; simp [heldQ] at hh)
    · cases hs
  case takeTimer =>
    split at hs
    · rename_i hp
      have hsel : s.pump = .sel := by simpa using hp
      split at hs
      · cases hs
        exact wake_quiet h rfl rfl rfl rfl rfl rfl rfl rfl rfl (by rw [hsel]; rfl) rfl
      · cases hs
    · cases hs
  case takeReady =>
    split at hs
    · cases hs; exact wake_ptok rfl (by intro q hh; simp [heldQ] at hh)
    · cases hs
  case takeOther =>
    split at hs
    · rename_i hc
      cases hs
      have hro : s.ready = .other := by simp at hc; exact hc.2
      exact wake_other h rfl rfl rfl rfl rfl (Nat.le_refl _)
        (tok_mono (Nat.le_refl _) (fun e => by rw [hro] at e; cases e) (Nat.le_refl _) (Nat.le_refl _) rfl rfl rfl)
    · cases hs
  case otherReady =>
    split at hs
    · rename_i hc
      cases hs
      have hro : s.ready = .empty := by simpa using hc
      exact wake_other h rfl rfl rfl rfl rfl (Nat.le_refl _)
        (tok_mono (Nat.le_refl _) (fun e => by rw [hro] at e; cases e) (Nat.le_refl _) (Nat.le_refl _) rfl rfl rfl)
    · cases hs
  case pstep => exact wake_pstep h hs
  case writeOk =>
    split at hs
    · rename_i hh hp
      cases hs
      exact wake_quiet h rfl rfl rfl rfl rfl rfl rfl rfl rfl (by rw [hp]; rfl) rfl
    · cases hs
  case writeFail =>
    split at hs
    · rename_i hh hp
      cases hs
      exact wake_quiet h rfl rfl rfl rfl rfl rfl rfl rfl rfl (by rw [hp]; rfl) rfl
    · cases hs
  case fire k =>
    split at hs
    · cases hs; exact wake_other h rfl rfl rfl rfl rfl (Nat.le_refl _) (tok_mono (Nat.le_refl _) id (Nat.le_refl _) (Nat.le_refl _) rfl rfl rfl)
    · cases hs
  case sigPost =>
    split at hs
    · cases hs
      exact ⟨fun _ => Or.inr (Or.inl rfl), fun q hh => h.r q hh⟩
    · cases hs
  case reply id =>
    split at hs
    · rename_i hr
      cases hs
      refine wake_other h rfl rfl rfl rfl rfl (Nat.le_refl _) ?_
      intro t
      rcases t with t | t | t | t | t | t | t
      · exact Or.inl t
      · exact Or.inr (Or.inl t)
      · exact Or.inr (Or.inr (Or.inl t))
      · exact Or.inr (Or.inr (Or.inr (Or.inl t)))
      · exact Or.inr (Or.inr (Or.inr (Or.inr (Or.inl t))))
      · rw [hr] at t; cases t
      · exact Or.inr (Or.inr (Or.inr (Or.inr (Or.inr (Or.inr t)))))
    · cases hs
  case rstep => exact wake_rstep h hs
  case disc =>
    split at hs
    · cases hs
      exact ⟨fun ⟨i, a, _⟩ => (by cases a), fun q _ => Or.inr (Or.inr rfl)⟩
    · cases hs
  case lstep =>
    split at hs
    · cases hs
    · cases hs
      exact ⟨fun _ => Or.inl (by simp), fun q _ => Or.inr (Or.inl (by simp))⟩
    · rename_i hl
      cases hs
      have hc : s.cur = none := hi.lk (by rw [hl]; simp)
      refine ⟨fun ⟨i, a, _⟩ => (by simp only at a; rw [hc] at a; cases a), fun q hh => ?_⟩
      rcases h.r q hh with t | t | t
      · rw [hc] at t; cases t
      · exact Or.inr (Or.inl t)
      · rw [hl] at t; cases t
  case connect =>
    split at hs
    · rename_i hc
      cases hs
      have hl : s.link = .idle := by simp at hc; exact hc.1
      have hcn : s.cur = none := by simp at hc; exact hc.2
      refine ⟨fun ⟨i, a, b, _⟩ => ?_, fun q hh => ?_⟩
      · simp only at a b
        cases a
        rw [getQ_new, getQ_oob s.qs _ (Nat.le_refl _)] at b
        exact absurd rfl b
      · rcases h.r q hh with t | t | t
        · rw [hcn] at t; cases t
        · exact Or.inr (Or.inl t)
        · rw [hl] at t; cases t
    · cases hs

theorem wake_run (t d k : Bool) (ls : List Label) (s : St) (h : runL { tmo := t, dropW := d, sendLock := k } ls = some s) :
    Inv s ∧ Wake s := by
  suffices ∀ (s0 : St), Inv s0 ∧ Wake s0 → ∀ ls s, runL s0 ls = some s → Inv s ∧ Wake s from
    this _ ⟨inv_init t d k, wake_init t d k⟩ ls s h
  intro s0 h0 ls
  induction ls generalizing s0 with
  | nil => intro s h; simp [runL] at h; subst h; exact h0
  | cons l ls ih =>
    intro s h
    simp only [runL] at h
    cases hst : step s0 l with
    | none => simp [hst] at h
    | some s1 => simp only [hst] at h; exact ih s1 ⟨inv_step h0.1 l hst, wake_step h0.1 h0.2 l hst⟩ s h

/-- C07 (progress clause, server dispatcher, every interleaving): whenever the pump is parked at its select and nothing
    is on its way to it - no wake-up in the request channel, the client's ready token neither in the slot nor with a
    goroutine waiting for the slot, no sender between push and wake-up, no disconnection before its wake-up, the reader
    not about to post the ready signal - then there is nothing the pump could dispatch for this client: its current queue
    is empty or a request is pending (whose reply, expiry or failed write will signal). No wake-up is ever lost. -/
theorem no_lost_wakeup {s : St} (h : Reach s) (hp : s.pump = .sel) (h1 : s.reqs = 0) (h2 : s.ready ≠ .me) (h3 : s.sigw = 0)
    (h4 : s.mid = 0) (h5 : s.link ≠ .dl2) (h6 : ∀ id, s.reader ≠ .c3 id) : ¬ Dispatchable s := by
  obtain ⟨t, d, k, ls, hr⟩ := h
  intro hd
  rcases (wake_run t d k ls s hr).2.w hd with t | t | t | t | t | t | t
  · omega
  · exact h2 t
  · omega
  · omega
  · exact h5 t
  · cases hrd : s.reader <;> rw [hrd] at t <;> simp [readerTok] at t
    exact h6 _ hrd
  · rw [hp] at t; cases t

/-- non-vacuity: a reachable parked state in which something is dispatchable exists (a token is waiting there) -/
example : ∃ s, Reach s ∧ s.pump = .sel ∧ Dispatchable s :=
  ⟨_, ⟨true, true, true, [.connect, .sget, .push 1 0, .notify], rfl⟩, rfl, ⟨0, rfl, by decide, rfl⟩⟩


/-! ## C02: CALLs are written in the order in which the requests were accepted (server dispatcher, every interleaving)

`used` lists the accepted ids, newest first: `older u a b` = `a` was accepted before `b`. With the send lock (a request is
only pushed into the client's registered queue) queue objects are filled one after the other, so everything in an older
queue object was accepted before everything in a newer one. Invariant `Ord`: the written list, every queue object and the
sequence of queue objects are sorted by acceptance; everything written was accepted before everything unwritten in the
client's current queue; and what the pump knows at `d2`, `d3` and inside `Write`. -/

def older (u : List Nat) (a b : Nat) : Prop := u.idxOf b < u.idxOf a

theorem older_cons {u : List Nat} {a b id : Nat} (ha : a ≠ id) (hb : b ≠ id) (h : older u a b) : older (id :: u) a b := by
  unfold older at *
  simp only [List.idxOf_cons]
  have e1 : (id == a) = false := by simpa using Ne.symm ha
  have e2 : (id == b) = false := by simpa using Ne.symm hb
  simp only [e1, e2, cond_false]; omega

theorem older_new {u : List Nat} {a id : Nat} (ha : a ≠ id) : older (id :: u) a id := by
  unfold older
  simp only [List.idxOf_cons]
  have e1 : (id == a) = false := by simpa using Ne.symm ha
  simp [e1]

structure Ord (s : St) : Prop where
  last : ∀ i, s.cur = some i → i + 1 = s.qs.length
  wsort : s.wire.Pairwise (older s.used)
  qsort : ∀ i, (getQ s.qs i).Pairwise (older s.used)
  cross : ∀ i j, i < j → ∀ x ∈ getQ s.qs i, ∀ y ∈ getQ s.qs j, older s.used x y
  front : ∀ i, s.cur = some i → ∀ w ∈ s.wire, ∀ x ∈ getQ s.qs i, x ∉ s.wire → older s.used w x
  pd2 : ∀ qj, s.pump = .d2 qj → ∀ w ∈ s.wire, ∀ x ∈ getQ s.qs qj, older s.used w x
  pwr : ∀ h, (s.pump = .d3 h ∨ s.pump = .wr h) →
    (∀ w ∈ s.wire, older s.used w h) ∧ (∀ i, s.cur = some i → ∀ x ∈ getQ s.qs i, x ≠ h → x ∉ s.wire → older s.used h x)

theorem ord_init (t d : Bool) : Ord { tmo := t, dropW := d } := by
  refine ⟨?_, ?_, ?_, ?_, ?_, ?_, ?_⟩ <;> simp [getQ]


@[simp] theorem complete_sendLock (s : St) (id qi : Nat) : (complete s id qi).1.sendLock = s.sendLock := by
  unfold complete; split
  · split <;> rfl
  · rfl

theorem pumpStep_sendLock {s s' : St} (hs : pumpStep s = some s') : s'.sendLock = s.sendLock := by
  unfold pumpStep at hs
  cases hp : s.pump <;> simp only [hp] at hs
  all_goals first
    | (cases hs; done)
    | (cases hs; simp; done)
    | ((repeat' split at hs) <;> first | (cases hs; done) | (cases hs; simp; done))

theorem readerStep_sendLock {s s' : St} (hs : readerStep s = some s') : s'.sendLock = s.sendLock := by
  unfold readerStep at hs
  cases hr : s.reader <;> simp only [hr] at hs
  all_goals first
    | (cases hs; done)
    | (cases hs; simp; done)

theorem step_sendLock {s s' : St} (l : Label) (hs : step s l = some s') : s'.sendLock = s.sendLock := by
  cases l <;> simp only [step] at hs
  case pstep => exact pumpStep_sendLock hs
  case rstep => exact readerStep_sendLock hs
  all_goals first
    | (cases hs; done)
    | ((repeat' split at hs) <;> first | (cases hs; done) | (cases hs; rfl))


/-- a step that leaves queues, registered queue and ghost lists alone, and does not enter `d2`, `d3`, `Write` -/
theorem ord_same {s s' : St} (h : Ord s) (e1 : s'.cur = s.cur) (e2 : s'.qs = s.qs) (e4 : s'.used = s.used) (e5 : s'.wire = s.wire)
    (hd2 : ∀ qj, s'.pump = .d2 qj → s.pump = .d2 qj)
    (hwr : ∀ hh, (s'.pump = .d3 hh ∨ s'.pump = .wr hh) → (s.pump = .d3 hh ∨ s.pump = .wr hh)) : Ord s' := by
  refine ⟨?_, ?_, ?_, ?_, ?_, ?_, ?_⟩
  · rw [e1, e2]; exact h.last
  · rw [e4, e5]; exact h.wsort
  · rw [e2, e4]; exact h.qsort
  · rw [e2, e4]; exact h.cross
  · rw [e1, e2, e4, e5]; exact h.front
  · intro qj hp; rw [e2, e4, e5]; exact h.pd2 qj (hd2 qj hp)
  · intro hh hp; rw [e1, e2, e4, e5]; exact h.pwr hh (hwr hh hp)

/-- popping the head of a queue object -/
theorem ord_pop {s s' : St} (h : Ord s) (id qi : Nat) (t : List Nat) (hq0 : getQ s.qs qi = id :: t)
    (e1 : s'.cur = s.cur) (e2 : s'.qs = setQ s.qs qi t) (e4 : s'.used = s.used) (e5 : s'.wire = s.wire)
    (hd2 : ∀ qj, s'.pump = .d2 qj → s.pump = .d2 qj)
    (hwr : ∀ hh, (s'.pump = .d3 hh ∨ s'.pump = .wr hh) → (s.pump = .d3 hh ∨ s.pump = .wr hh)) : Ord s' := by
  have hlt : qi < s.qs.length := by
    apply Classical.byContradiction; intro hn
    rw [getQ_oob s.qs qi (by omega)] at hq0; cases hq0
  have hq : ∀ j, getQ (setQ s.qs qi t) j = if qi = j then t else getQ s.qs j := by
    intro j; rw [getQ_setQ]; by_cases e : qi = j
    · subst e; simp [hlt]
    · simp [e]
  have sub' : ∀ j x, x ∈ getQ (setQ s.qs qi t) j → x ∈ getQ s.qs j := by
    intro j x hx; rw [hq] at hx
    by_cases e : qi = j
    · subst e; simp only [if_true] at hx; rw [hq0]; exact List.mem_cons_of_mem _ hx
    · simpa [e] using hx
  refine ⟨?_, ?_, ?_, ?_, ?_, ?_, ?_⟩
  · rw [e1, e2]; intro i hc; have := h.last i hc; simp [setQ]; exact this
  · rw [e4, e5]; exact h.wsort
  · rw [e2, e4]; intro i; rw [hq]
    by_cases e : qi = i
    · subst e; simp only [if_true]
      have := h.qsort qi; rw [hq0] at this; exact (List.pairwise_cons.mp this).2
    · simp only [e, if_false]; exact h.qsort i
  · rw [e2, e4]; intro i j hij x hx y hy; exact h.cross i j hij x (sub' i x hx) y (sub' j y hy)
  · rw [e1, e2, e4, e5]; intro i hc w hw x hx hxw; exact h.front i hc w hw x (sub' i x hx) hxw
  · intro qj hp; rw [e2, e4, e5]; intro w hw x hx; exact h.pd2 qj (hd2 qj hp) w hw x (sub' qj x hx)
  · intro hh hp; rw [e1, e2, e4, e5]
    have := h.pwr hh (hwr hh hp)
    exact ⟨this.1, fun i hc x hx => this.2 i hc x (sub' i x hx)⟩

/-- a push into the registered queue (send lock) -/
theorem ord_push {s : St} (hi : Inv s) (h : Ord s) (id qi : Nat) (hid : id ∉ s.used) (hc : s.cur = some qi)
    (s' : St) (e1 : s'.cur = s.cur) (e2 : s'.qs = setQ s.qs qi (getQ s.qs qi ++ [id])) (e4 : s'.used = id :: s.used)
    (e5 : s'.wire = s.wire) (ep : s'.pump = s.pump) : Ord s' := by
  have ne_used : ∀ x, x ∈ s.used → x ≠ id := fun x hx e => hid (e ▸ hx)
  have qused : ∀ j x, x ∈ getQ s.qs j → x ∈ s.used := fun j x hx => hi.g.sub j x hx
  have wused : ∀ w, w ∈ s.wire → w ∈ s.used := fun w hw => hi.g.wsub w hw
  have lift : ∀ a b, a ∈ s.used → b ∈ s.used → older s.used a b → older (id :: s.used) a b :=
    fun a b ha hb => older_cons (ne_used a ha) (ne_used b hb)
  have hlast := h.last qi hc
  have hlt : qi < s.qs.length := by omega
  have hq : ∀ j, getQ (setQ s.qs qi (getQ s.qs qi ++ [id])) j = if qi = j then getQ s.qs qi ++ [id] else getQ s.qs j := by
    intro j; rw [getQ_setQ]; by_cases e : qi = j
    · subst e; simp [hlt]
    · simp [e]
  refine ⟨?_, ?_, ?_, ?_, ?_, ?_, ?_⟩
  · rw [e1, e2]; intro i hci; have := h.last i hci; simp [setQ]; exact this
  · rw [e4, e5]
    exact h.wsort.imp_of_mem (fun {a b} ha hb hab => lift a b (wused a ha) (wused b hb) hab)
  · rw [e2, e4]; intro i; rw [hq]
    by_cases e : qi = i
    · subst e; simp only [if_true]
      rw [List.pairwise_append]
      refine ⟨(h.qsort qi).imp_of_mem (fun {a b} ha hb hab => lift a b (qused qi a ha) (qused qi b hb) hab), by simp, ?_⟩
      intro a ha b hb; simp at hb; subst hb
      exact older_new (ne_used a (qused qi a ha))
    · simp only [e, if_false]
      exact (h.qsort i).imp_of_mem (fun {a b} ha hb hab => lift a b (qused i a ha) (qused i b hb) hab)
  · rw [e2, e4]; intro i j hij x hx y hy
    rw [hq] at hx hy
    by_cases ei : qi = i
    · -- nothing lies above the registered queue object
      subst ei
      have : getQ s.qs j = [] := getQ_oob s.qs j (by omega)
      have ej : ¬ qi = j := by omega
      simp only [ej, if_false] at hy; rw [this] at hy; cases hy
    · simp only [ei, if_false] at hx
      by_cases ej : qi = j
      · subst ej; simp only [if_true] at hy
        rcases List.mem_append.mp hy with hy | hy
        · exact lift x y (qused i x hx) (qused qi y hy) (h.cross i qi hij x hx y hy)
        · simp at hy; subst hy; exact older_new (ne_used x (qused i x hx))
      · simp only [ej, if_false] at hy
        exact lift x y (qused i x hx) (qused j y hy) (h.cross i j hij x hx y hy)
  · rw [e1, e2, e4, e5]; intro i hci w hw x hx hxw
    rw [hc] at hci; cases hci
    rw [hq] at hx; simp only [if_true] at hx
    rcases List.mem_append.mp hx with hx | hx
    · exact lift w x (wused w hw) (qused qi x hx) (h.front qi hc w hw x hx hxw)
    · simp at hx; subst hx; exact older_new (ne_used w (wused w hw))
  · intro qj hp; rw [ep] at hp; rw [e2, e4, e5]; intro w hw x hx
    rw [hq] at hx
    by_cases e : qi = qj
    · subst e; simp only [if_true] at hx
      rcases List.mem_append.mp hx with hx | hx
      · exact lift w x (wused w hw) (qused qi x hx) (h.pd2 qi hp w hw x hx)
      · simp at hx; subst hx; exact older_new (ne_used w (wused w hw))
    · simp only [e, if_false] at hx
      exact lift w x (wused w hw) (qused qj x hx) (h.pd2 qj hp w hw x hx)
  · intro hh hp; rw [ep] at hp; rw [e1, e2, e4, e5]
    have hpi := hi.pump
    have hhu : hh ∈ s.used := by
      rcases hp with hp | hp <;> rw [hp] at hpi <;> simp only [PI] at hpi
      · exact hpi.2.2.1
      · exact hpi.2.1
    have := h.pwr hh hp
    refine ⟨fun w hw => lift w hh (wused w hw) hhu (this.1 w hw), ?_⟩
    intro i hci x hx hne hxw
    rw [hc] at hci; cases hci
    rw [hq] at hx; simp only [if_true] at hx
    rcases List.mem_append.mp hx with hx | hx
    · exact lift hh x hhu (qused qi x hx) (this.2 qi hc x hx hne hxw)
    · simp at hx; subst hx; exact older_new (ne_used hh hhu)


theorem ord_pstep {s s' : St} (hi : Inv s) (h : Ord s) (hs : pumpStep s = some s') : Ord s' := by
  have hpi := hi.pump
  -- a pump step that keeps the core and lands outside d2 / d3 / wr
  have plain : ∀ (s'' : St), s''.cur = s.cur → s''.qs = s.qs → s''.used = s.used → s''.wire = s.wire →
      (∀ qj, s''.pump ≠ .d2 qj) → (∀ hh, s''.pump ≠ .d3 hh ∧ s''.pump ≠ .wr hh) → Ord s'' :=
    fun s'' a b c d e f => ord_same h a b c d (fun qj hp => absurd hp (e qj))
      (fun hh hp => by rcases hp with hp | hp; exact absurd hp (f hh).1; exact absurd hp (f hh).2)
  unfold pumpStep at hs
  cases hp : s.pump <;> rw [hp] at hpi <;> simp only [hp] at hs <;> simp only [PI] at hpi
  case sel => cases hs
  case wr => cases hs
  case rq1 =>
    cases hs
    refine plain _ rfl rfl rfl rfl ?_ ?_ <;> intro x <;> cases s.cur <;> simp
  case rqDel =>
    cases hs
    exact plain _ (by simp) (by simp) (by simp) (by simp) (by simp) (by simp)
  case rq2 qi =>
    cases hs
    refine plain _ rfl rfl rfl rfl ?_ ?_ <;> intro x <;> dsimp only <;> (repeat' split) <;> simp
  case tm1 k =>
    split at hs <;> cases hs <;> exact plain _ rfl rfl rfl rfl (by simp) (by simp)
  case tm2 =>
    cases hs
    refine plain _ rfl rfl rfl rfl ?_ ?_ <;> intro x <;> dsimp only <;> split <;> simp
  case tm3 =>
    cases hs
    refine plain _ rfl rfl rfl rfl ?_ ?_ <;> intro x <;> cases s.cur <;> simp
  case tm4 qi => cases hs; exact plain _ rfl rfl rfl rfl (by simp) (by simp)
  case tm5 oh =>
    cases oh with
    | none => cases hs; exact plain _ rfl rfl rfl rfl (by simp) (by simp)
    | some hh =>
      cases hs
      refine plain _ rfl rfl rfl rfl ?_ ?_ <;> intro x <;> dsimp only <;> split <;> simp
  case tmO =>
    cases hs
    refine plain _ rfl rfl rfl rfl ?_ ?_ <;> intro x <;> dsimp only <;> split <;> simp
  case tmOS => cases hs; exact plain _ (by simp) (by simp) (by simp) (by simp) (by simp) (by simp)
  case cp1 w hh =>
    cases hs
    refine plain _ rfl rfl rfl rfl ?_ ?_ <;> intro x <;> cases s.cur <;> simp [afterCompletion] <;> split <;> simp
  case cp2 w hh qi =>
    cases hs
    by_cases he : (complete s hh qi).2 = true
    · simp only [he, if_true]
      obtain ⟨t, hq, hc⟩ := complete_eff s hh qi he
      rw [hc]
      exact ord_pop h hh qi t hq rfl rfl rfl rfl (by simp) (by simp)
    · have he' : (complete s hh qi).2 = false := by simpa using he
      obtain ⟨h1, _⟩ := complete_noeff s hh qi he'
      simp only [he', Bool.false_eq_true, if_false, h1]
      refine plain _ rfl rfl rfl rfl ?_ ?_ <;> intro x <;> simp [afterCompletion] <;> split <;> simp
  case cp3 w hh =>
    cases hs
    refine plain _ (by simp) (by simp) (by simp) (by simp) ?_ ?_ <;> intro x <;> simp [afterCompletion] <;> split <;> simp
  case wfO hh =>
    cases hs
    split <;> exact plain _ rfl rfl rfl rfl (by simp) (by simp)
  case wfOS hh => cases hs; exact plain _ (by simp) (by simp) (by simp) (by simp) (by simp) (by simp)
  case cb w hh =>
    split at hs
    · cases hs
    · cases hs; exact plain _ rfl rfl rfl rfl (by simp) (by simp)
  case rd1 =>
    split at hs
    · cases hs; split <;> exact plain _ rfl rfl rfl rfl (by simp) (by simp)
    · cases hs; exact plain _ rfl rfl rfl rfl (by simp) (by simp)
  case rd2 =>
    cases hs
    refine plain _ rfl rfl rfl rfl ?_ ?_ <;> intro x <;> cases s.cur <;> simp
  case g1 qi =>
    cases hs
    refine plain _ rfl rfl rfl rfl ?_ ?_ <;> intro x <;> dsimp only <;> split <;> simp
  case g2 qi =>
    cases hs
    refine plain _ rfl rfl rfl rfl ?_ ?_ <;> intro x <;> dsimp only <;> split <;> simp
  case d1 =>
    cases hs
    split
    · exact plain _ rfl rfl rfl rfl (by simp) (by simp)
    · rename_i qj hc
      refine ⟨h.last, h.wsort, h.qsort, h.cross, h.front, ?_, by intro hh hp; simp at hp⟩
      intro q hq w hw x hx
      simp only [Pump.d2.injEq] at hq; subst hq
      refine h.front qj hc w hw x hx ?_
      intro hxw
      have := hi.g.wq qj hc x hx hxw
      rw [hpi] at this; cases this
  case d2 qj =>
    have hp0 := hp
    cases hq : getQ s.qs qj with
    | nil =>
      simp only [hq] at hs; cases hs
      exact plain _ rfl rfl rfl rfl (by simp) (by simp)
    | cons a t =>
      simp only [hq] at hs; cases hs
      have ha : a ∈ getQ s.qs qj := by rw [hq]; exact List.mem_cons_self
      have hlt : qj < s.qs.length := by
        apply Classical.byContradiction; intro hn
        rw [getQ_oob s.qs qj (by omega)] at hq; cases hq
      refine ⟨h.last, h.wsort, h.qsort, h.cross, h.front, by intro q hp; simp at hp, ?_⟩
      intro hh hp
      have e : hh = a := by rcases hp with hp | hp <;> simp at hp; exact hp.symm
      subst e
      refine ⟨fun w hw => h.pd2 qj hp0 w hw hh ha, ?_⟩
      intro i hc x hx hne _
      by_cases e : qj = i
      · subst e
        have := h.qsort qj; rw [hq] at this
        rw [hq] at hx
        rcases List.mem_cons.mp hx with hx | hx
        · exact absurd hx hne
        · exact (List.pairwise_cons.mp this).1 x hx
      · have := h.last i hc
        exact h.cross qj i (by omega) hh ha x hx
  case d3 hh =>
    cases hs
    refine ord_same h rfl rfl rfl rfl (by intro qj hp; simp at hp) ?_
    intro h2 hp'
    have e : h2 = hh := by rcases hp' with hp' | hp' <;> simp at hp'; exact hp'.symm
    subst e; exact Or.inl hp
  case d4 =>
    cases hs
    split <;> exact plain _ rfl rfl rfl rfl (by simp) (by simp)


theorem ord_rstep {s s' : St} (h : Ord s) (hs : readerStep s = some s') : Ord s' := by
  unfold readerStep at hs
  cases hr : s.reader <;> simp only [hr] at hs
  case idle => cases hs
  case got id => cases hs; exact ord_same h rfl rfl rfl rfl (fun _ e => e) (fun _ e => e)
  case lk id => cases hs; exact ord_same h rfl rfl rfl rfl (fun _ e => e) (fun _ e => e)
  case c1 id => cases hs; exact ord_same h rfl rfl rfl rfl (fun _ e => e) (fun _ e => e)
  case c3 id => cases hs; exact ord_same h (by simp) (by simp) (by simp) (by simp) (fun _ e => by simpa using e) (fun _ e => by simpa using e)
  case hd id => cases hs; exact ord_same h rfl rfl rfl rfl (fun _ e => e) (fun _ e => e)
  case c2 id qi =>
    cases hs
    by_cases he : (complete s id qi).2 = true
    · simp only [he, if_true]
      obtain ⟨t, hq, hc⟩ := complete_eff s id qi he
      rw [hc]
      exact ord_pop h id qi t hq rfl rfl rfl rfl (fun _ e => e) (fun _ e => e)
    · have he' : (complete s id qi).2 = false := by simpa using he
      obtain ⟨h1, _⟩ := complete_noeff s id qi he'
      simp only [he', Bool.false_eq_true, if_false, h1]
      exact ord_same h rfl rfl rfl rfl (fun _ e => e) (fun _ e => e)

theorem ord_step {s s' : St} (hi : Inv s) (hk : s.sendLock = true) (h : Ord s) (l : Label) (hs : step s l = some s') : Ord s' := by
  cases l <;> simp only [step] at hs
  case sget =>
    split at hs
    · cases hs; exact ord_same h rfl rfl rfl rfl (fun _ e => e) (fun _ e => e)
    · cases hs
  case push id qi =>
    split at hs
    · cases hs
    · rename_i hc
      cases hs
      have hid : id ∉ s.used := by intro hm; apply hc; simp [hm]
      have hq : qi ∈ s.hold := by
        apply Classical.byContradiction; intro hn
        apply hc; simp [hn]
      exact ord_push hi h id qi hid (hi.hl hk qi hq) _ rfl rfl rfl rfl rfl
  case notify =>
    split at hs
    · cases hs; exact ord_same h rfl rfl rfl rfl (fun _ e => e) (fun _ e => e)
    · cases hs
  case takeReq =>
    split at hs
    · cases hs; exact ord_same h rfl rfl rfl rfl (by intro _ e; simp at e) (by intro _ e; simp at e)
    · cases hs
  case takeTimer =>
    split at hs
    · split at hs
      · cases hs; exact ord_same h rfl rfl rfl rfl (by intro _ e; simp at e) (by intro _ e; simp at e)
      · cases hs
    · cases hs
  case takeReady =>
    split at hs
    · cases hs; exact ord_same h rfl rfl rfl rfl (by intro _ e; simp at e) (by intro _ e; simp at e)
    · cases hs
  case takeOther =>
    split at hs
    · cases hs; exact ord_same h rfl rfl rfl rfl (fun _ e => e) (fun _ e => e)
    · cases hs
  case otherReady =>
    split at hs
    · cases hs; exact ord_same h rfl rfl rfl rfl (fun _ e => e) (fun _ e => e)
    · cases hs
  case pstep => exact ord_pstep hi h hs
  case writeOk =>
    have hpi := hi.pump
    split at hs
    · rename_i hh hp
      cases hs
      rw [hp] at hpi; simp only [PI] at hpi
      have hw := h.pwr hh (Or.inr hp)
      refine ⟨h.last, ?_, h.qsort, h.cross, ?_, (by intro q e; simp at e), (by intro q e; simp at e)⟩
      · show (s.wire ++ [hh]).Pairwise (older s.used)
        rw [List.pairwise_append]
        exact ⟨h.wsort, by simp, by intro a ha b hb; simp at hb; subst hb; exact hw.1 a ha⟩
      · intro i hc w hw' x hx hxw
        change w ∈ s.wire ++ [hh] at hw'
        change x ∉ s.wire ++ [hh] at hxw
        have hxw1 : x ∉ s.wire := fun e => hxw (List.mem_append_left _ e)
        have hxh : x ≠ hh := fun e => hxw (by rw [e]; simp)
        rcases List.mem_append.mp hw' with h1 | h1
        · exact h.front i hc w h1 x hx hxw1
        · simp at h1; subst h1; exact hw.2 i hc x hx hxh hxw1
    · cases hs
  case writeFail =>
    split at hs
    · cases hs; exact ord_same h rfl rfl rfl rfl (by intro _ e; simp at e) (by intro _ e; simp at e)
    · cases hs
  case fire k =>
    split at hs
    · cases hs; exact ord_same h rfl rfl rfl rfl (fun _ e => e) (fun _ e => e)
    · cases hs
  case sigPost =>
    split at hs
    · cases hs; exact ord_same h rfl rfl rfl rfl (fun _ e => e) (fun _ e => e)
    · cases hs
  case reply id =>
    split at hs
    · cases hs; exact ord_same h rfl rfl rfl rfl (fun _ e => e) (fun _ e => e)
    · cases hs
  case rstep => exact ord_rstep h hs
  case disc =>
    split at hs
    · cases hs
      refine ⟨(by intro i e; cases e), h.wsort, h.qsort, h.cross, (by intro i e; cases e), h.pd2, ?_⟩
      intro hh hp
      exact ⟨(h.pwr hh hp).1, (by intro i e; cases e)⟩
    · cases hs
  case lstep =>
    split at hs
    · cases hs
    · cases hs; exact ord_same h rfl rfl rfl rfl (fun _ e => e) (fun _ e => e)
    · cases hs; exact ord_same h rfl rfl rfl rfl (fun _ e => e) (fun _ e => e)
  case connect =>
    split at hs
    · cases hs
      have empty : ∀ x, x ∉ getQ (s.qs ++ [[]]) s.qs.length := by
        intro x; rw [getQ_new, getQ_oob s.qs _ (Nat.le_refl _)]; simp
      refine ⟨?_, h.wsort, ?_, ?_, ?_, ?_, ?_⟩
      · intro i e; cases e; simp
      · intro i; rw [getQ_new]; exact h.qsort i
      · intro i j hij x hx y hy; rw [getQ_new] at hx hy; exact h.cross i j hij x hx y hy
      · intro i e w _ x hx; cases e; exact absurd hx (empty x)
      · intro qj hp w hw x hx; rw [getQ_new] at hx; exact h.pd2 qj hp w hw x hx
      · intro hh hp
        exact ⟨(h.pwr hh hp).1, (by intro i e x hx; cases e; exact absurd hx (empty x))⟩
    · cases hs

theorem ord_run (t d : Bool) (ls : List Label) (s : St) (h : runL { tmo := t, dropW := d } ls = some s) :
    Inv s ∧ s.sendLock = true ∧ Ord s := by
  suffices ∀ (s0 : St), Inv s0 ∧ s0.sendLock = true ∧ Ord s0 → ∀ ls s, runL s0 ls = some s → Inv s ∧ s.sendLock = true ∧ Ord s from
    this _ ⟨inv_init t d true, rfl, ord_init t d⟩ ls s h
  intro s0 h0 ls
  induction ls generalizing s0 with
  | nil => intro s h; simp [runL] at h; subst h; exact h0
  | cons l ls ih =>
    intro s h
    simp only [runL] at h
    cases hst : step s0 l with
    | none => simp [hst] at h
    | some s1 =>
      simp only [hst] at h
      exact ih s1 ⟨inv_step h0.1 l hst, by rw [step_sendLock l hst]; exact h0.2.1, ord_step h0.1 h0.2.1 h0.2.2 l hst⟩ s h

/-- C02 (server dispatcher, every interleaving, with or without a request timeout): CALLs are written to a client in the
    order in which the send API accepted them - if `a` was written before `b` then `a` was accepted before `b`, across
    reconnections too (a request of an earlier connection that still goes out precedes everything of the later one) -/
theorem written_in_acceptance_order (t d : Bool) (ls : List Label) (s : St) (h : runL { tmo := t, dropW := d } ls = some s) :
    s.wire.Pairwise (older s.used) := (ord_run t d ls s h).2.2.wsort

/-- queue objects are filled one after the other: everything in an older queue object was accepted before everything in
    a newer one, and each queue object is in acceptance order -/
theorem queues_in_acceptance_order (t d : Bool) (ls : List Label) (s : St) (h : runL { tmo := t, dropW := d } ls = some s) :
    (∀ i, (getQ s.qs i).Pairwise (older s.used)) ∧ (∀ i j, i < j → ∀ x ∈ getQ s.qs i, ∀ y ∈ getQ s.qs j, older s.used x y) :=
  ⟨(ord_run t d ls s h).2.2.qsort, (ord_run t d ls s h).2.2.cross⟩

/-- non-vacuity: a run that writes two requests, the second one accepted while the first was outstanding -/
example : (runL {} [.connect, .sget, .push 1 0, .notify, .sget, .push 2 0, .notify, .takeReq, .pstep, .pstep, .pstep, .pstep,
    .pstep, .pstep, .pstep, .writeOk, .pstep, .reply 1, .rstep, .rstep, .rstep, .rstep, .rstep, .rstep,
    .takeReady, .pstep, .pstep, .pstep, .pstep, .pstep, .pstep, .pstep, .writeOk]).map (fun s => (s.wire, s.used)) = some ([1, 2], [2, 1]) := by decide

/-! ### non-vacuity and the defect the model exposed -/

/-- the interleaving of scenario `s-orphan-write-fails`: the client reconnects between the pump's queue lookup and its
    `Peek`, the request of the old connection is marked pending, its write fails -/
def orphanRun : List Label :=
  [.connect, .sget, .push 1 0, .notify, .takeReq, .pstep, .pstep, .pstep, .pstep, .pstep,   -- pump holds queue object 0
   .disc, .lstep, .lstep, .connect,                                                         -- the client reconnects
   .pstep, .pstep, .writeFail, .pstep, .pstep, .pstep]

/-- with the repair the orphan is dropped (and a ready signal follows) -/
example : (runL {} orphanRun).map (fun s => (s.pump, s.pend, s.cur, getQ s.qs 0)) = some (.wfOS 1, none, some 1, [1]) := by decide

/-- before /repo 6d71525 the same interleaving (and the pump serving the wake-up of the disconnection) left the request
    pending for ever: the pump is back at its select, every thread is idle, no context is live, no expiry and no token is
    waiting, the new connection's queue is empty - and the dispatch guard of this client can never pass again, because
    the only steps that clear the pending mark need a reply (none comes: the request went out on a failed write), an
    expiry (no context) or a disconnection. Found while proving `Inv`; reproduced on the code by scenario
    `s-orphan-write-fails` -/
theorem old_orphan_stays_pending :
    ((runL { dropW := false } (orphanRun ++ [.takeReq, .pstep, .pstep, .pstep])).map (fun s =>
      decide (s.pump = .sel ∧ s.pend = some 1 ∧ s.cur = some 1 ∧ getQ s.qs 1 = [] ∧ s.ctx = .zero ∧ s.live = [] ∧ s.tc = [] ∧
        s.reqs = 0 ∧ s.ready = .empty ∧ s.sigw = 0 ∧ s.reader = .idle ∧ s.link = .idle))) = some true := by decide

/-- a reachable state inside `Write` (hypotheses of `write_only_own_pending` are satisfiable) -/
example : ∃ s, Reach s ∧ s.pump = .wr 1 :=
  ⟨_, ⟨true, true, true, [.connect, .sget, .push 1 0, .notify, .takeReq, .pstep, .pstep, .pstep, .pstep, .pstep, .pstep, .pstep], rfl⟩, by decide⟩

end SFine
