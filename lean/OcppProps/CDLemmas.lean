import OcppModel.ClientDisp
import OcppProps.C12

/-!
Helper lemmas for the quiescent client-dispatcher model `Ocpp.CD`: the regenerated guards in plain form, the
closed form of the pump tail, the state invariant. Property theorems live in `OcppProps/C01 … C16`.
-/

namespace CDL
open Ocpp Ocpp.CD

/-! ### the regenerated guards, in plain form (these pin today's source text) -/

@[simp] theorem pendAdd_eq (cur id : String) : pendAdd cur id = if id ≠ "" ∧ cur = "" then id else cur := by
  simp [pendAdd, Gen.Guards.stateAddAccepts]
@[simp] theorem pendHit_eq (cur id : String) : pendHit cur id = decide (cur = id) := by
  by_cases h : cur = id <;> simp [pendHit, Gen.Guards.stateGetMiss, h]
@[simp] theorem pendDel_eq (cur id : String) : pendDel cur id = if cur = id then "" else cur := by
  by_cases h : cur = id <;> simp [pendDel, Gen.Guards.stateDeleteMiss, h]
@[simp] theorem pendHas_eq (cur : String) : pendHas cur = decide (cur ≠ "") := by
  by_cases h : cur = "" <;> simp [pendHas, Gen.Guards.stateHas, h]
@[simp] theorem mismatch_eq (h id : String) : Gen.Guards.clientCompleteMismatch h id = decide (h ≠ id) := by
  by_cases e : h = id <;> simp [Gen.Guards.clientCompleteMismatch, e]
theorem pushRejects_eq (len : Nat) (cap : Int) :
    Gen.Guards.queuePushRejects len cap = decide (0 < cap ∧ cap ≤ len) := by
  have := C12.guard_push len cap
  cases h : Gen.Guards.queuePushRejects (↑len) cap <;> simp_all
theorem chanCap : Gen.Constants.clientReadyChanCap = 1 := rfl

@[simp] theorem putTok_eq (s : St) :
    putTok s = if s.tok < 1 then { s with tok := s.tok + 1 } else { s with dead := true } := by
  unfold putTok; rw [chanCap]; split <;> split <;> first | rfl | omega

@[simp] theorem complete_eq (s : St) (id : String) :
    complete s id = match s.q with
      | [] => (s, false)
      | h :: rest => if h ≠ id then (s, false)
                     else (putTok { s with q := rest, pend := if s.pend = id then "" else s.pend }, true) := by
  unfold complete; cases s.q <;> simp

def canWrite (s : St) : Bool := s.connected && !s.writeFails

/-- closed form of the pump tail when nothing is pending: either nothing happens, or the head is written,
    or (writes failing) **every** queued request is cancelled in order and the queue ends up empty -/
theorem pumpTail_closed (q : List String) :
    ∀ (fuel : Nat) (s : St), s.q = q → q.length + 1 ≤ fuel → s.dead = false → s.tok = 0 → s.pend = "" →
      (∀ x ∈ q, x ≠ "") →
      pumpTail fuel s =
        if s.paused = true ∨ s.rdy = false then (s, [])
        else match q with
          | [] => (s, [])
          | h :: _ =>
            if canWrite s then ({ s with pend := h, rdy := false, armed := true }, [.wrote h])
            else ({ s with q := [], pend := "", rdy := true, armed := true, tok := 0 }, q.map (fun x => Obs.cancel x false)) := by
  induction q with
  | nil =>
    intro fuel s hq hf _ _ _ _
    cases fuel with
    | zero => omega
    | succ n => simp [pumpTail, hq]
  | cons h rest ih =>
    intro fuel s hq hf hd ht hp hne
    cases fuel with
    | zero => simp at hf
    | succ n =>
      have hh : h ≠ "" := hne h (by simp)
      unfold pumpTail
      cases hpa : s.paused with
      | true => simp
      | false =>
        cases hr : s.rdy with
        | false => simp
        | true =>
          simp only [hq, hp, pendAdd_eq, hh, ne_eq, not_false_eq_true, and_self, if_true]
          cases hw : canWrite s with
          | true =>
            simp only [canWrite] at hw
            simp [hw]
          | false =>
            simp only [canWrite] at hw
            simp only [hw, Bool.false_eq_true, if_false, complete_eq, hq, ne_eq, not_true_eq_false, if_true, putTok_eq, ht]
            simp only [Nat.lt_irrefl, Nat.zero_lt_one, if_true, hd, Bool.false_eq_true, if_false, Nat.zero_add,
              Nat.lt_add_one, Nat.add_sub_cancel]
            simp only [Nat.sub_self]
            rw [ih n]
            · simp only [hpa, Bool.false_eq_true, false_or, if_false]
              cases rest with
              | nil => simp
              | cons h2 r2 =>
                simp only [canWrite] at hw ⊢
                simp [hw]
            · rfl
            · simp at hf ⊢; omega
            · first | rfl | exact hd
            · rfl
            · rfl
            · exact fun x hx => hne x (by simp [hx])

/-- closed form of "ready token present, nothing pending": the pump takes the token and dispatches -/
def dispatchSpec (s : St) : St × List Obs :=
  let s0 := { s with tok := 0, rdy := true }
  if s.paused then (s0, [])
  else match s.q with
    | [] => (s0, [])
    | h :: _ =>
      if canWrite s then ({ s0 with pend := h, rdy := false, armed := true }, [.wrote h])
      else ({ s0 with q := [], armed := true }, s.q.map (fun x => Obs.cancel x false))

theorem pumpReady_closed (s : St) (hd : s.dead = false) (ht : s.tok = 1) (hp : s.pend = "")
    (hne : ∀ x ∈ s.q, x ≠ "") : pumpReady s = dispatchSpec s := by
  unfold pumpReady dispatchSpec
  simp only [ht, Nat.lt_irrefl, Nat.zero_lt_one, if_true, Nat.sub_self]
  rw [pumpTail_closed s.q]
  rotate_left
  · rfl
  · exact Nat.le_refl _
  · exact hd
  · rfl
  · exact hp
  · exact hne
  cases hpa : s.paused with
  | true => simp
  | false =>
    simp only [Bool.false_eq_true, false_or, if_false]
    cases hq : s.q with
    | nil => simp
    | cons h r =>
      by_cases hw : canWrite s = true
      · simp only [canWrite] at hw ⊢
        simp [hw, hq]
      · simp only [canWrite] at hw ⊢
        simp [hw, hp, hq]

theorem pumpTail_idle (fuel : Nat) (s : St) (h : s.paused = true ∨ s.rdy = false) : pumpTail fuel s = (s, []) := by
  cases fuel with
  | zero => rfl
  | succ n => unfold pumpTail; rcases h with h | h <;> simp [h]

end CDL
