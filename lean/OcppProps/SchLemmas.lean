import OcppModel.Schema

/-!
Lemmas about the generic codec model `Ocpp.Sch`: re-serialisation is idempotent for every schema whose structs have
distinct json keys (mutual structural recursion over `Ty` / `Fields`).
-/
namespace SchL
open Ocpp Ocpp.Sch

def keys : Fields → List String
  | .nil => []
  | .cons k _ _ _ rest => k :: keys rest

def find : Fields → String → Option (Bool × Ty)
  | .nil, _ => none
  | .cons k om _ t rest, x => if k == x then some (om, t) else find rest x

mutual
/-- well-formed: json keys distinct inside every struct, recursively -/
def wfTy : Ty → Bool
  | .ptr t => wfTy t
  | .slice t => wfTy t
  | .struct fs => decide ((keys fs).Nodup) && wfFields fs
  | _ => true
def wfFields : Fields → Bool
  | .nil => true
  | .cons _ _ _ t rest => wfTy t && wfFields rest
end

/-- the value a field contributes to the re-serialised object -/
def nv (t : Ty) (x : Option J) : J :=
  match x with
  | none => zeroJ t
  | some v => norm t v

def omitted (om : Bool) (t : Ty) (v : J) : Bool := om && !neverEmpty t && isEmptyVal t v

theorem normFields_cons (k : String) (om : Bool) (tags : List Tag) (t : Ty) (rest : Fields) (kv : List (String × J)) :
    normFields (.cons k om tags t rest) kv =
      if omitted om t (nv t (lookup kv k)) then normFields rest kv else (k, nv t (lookup kv k)) :: normFields rest kv := by
  simp only [normFields, nv, omitted]
  cases lookup kv k <;> rfl

theorem lookup_cons_ne (k x : String) (v : J) (l : List (String × J)) (h : (k == x) = false) :
    lookup ((k, v) :: l) x = lookup l x := by
  simp [lookup, List.find?, h]

theorem lookup_cons_eq (k : String) (v : J) (l : List (String × J)) : lookup ((k, v) :: l) k = some v := by
  simp [lookup, List.find?]

theorem lookup_normFields_notin : ∀ (fs : Fields) (kv : List (String × J)) (x : String), x ∉ keys fs →
    lookup (normFields fs kv) x = none
  | .nil, _, _, _ => by simp [normFields, lookup]
  | .cons k om tags t rest, kv, x, h => by
    simp only [keys, List.mem_cons, not_or] at h
    rw [normFields_cons]
    have hne : (k == x) = false := by simpa using fun e => h.1 e.symm
    split
    · exact lookup_normFields_notin rest kv x h.2
    · rw [lookup_cons_ne _ _ _ _ hne]; exact lookup_normFields_notin rest kv x h.2

/-- what the re-serialised object holds under key `x` -/
theorem lookup_normFields : ∀ (fs : Fields) (kv : List (String × J)) (x : String), (keys fs).Nodup →
    lookup (normFields fs kv) x =
      match find fs x with
      | none => none
      | some (om, t) => if omitted om t (nv t (lookup kv x)) then none else some (nv t (lookup kv x))
  | .nil, _, _, _ => by simp [normFields, lookup, find]
  | .cons k om tags t rest, kv, x, hd => by
    simp only [keys, List.nodup_cons] at hd
    rw [normFields_cons]
    by_cases hk : (k == x) = true
    · have hx : k = x := by simpa using hk
      subst hx
      simp only [find, beq_self_eq_true, if_true]
      split
      · exact lookup_normFields_notin rest kv k hd.1
      · exact lookup_cons_eq _ _ _
    · have hne : (k == x) = false := by simpa using hk
      simp only [find, hne, Bool.false_eq_true, if_false]
      split
      · exact lookup_normFields rest kv x hd.2
      · rw [lookup_cons_ne _ _ _ _ hne]; exact lookup_normFields rest kv x hd.2

theorem isEmpty_zero (t : Ty) (h : neverEmpty t = false) : isEmptyVal t (zeroJ t) = true := by
  cases t <;> simp_all [neverEmpty, zeroJ, isEmptyVal, isZeroNum]

/-- `FieldIn k om t fs`: the struct `fs` has a field with this key, omitempty flag and type -/
def FieldIn (k : String) (om : Bool) (t : Ty) : Fields → Prop
  | .nil => False
  | .cons k' om' _ t' rest => (k' = k ∧ om' = om ∧ t' = t) ∨ FieldIn k om t rest

theorem mem_keys_of_fieldIn : ∀ (fs : Fields) (k : String) (om : Bool) (t : Ty), FieldIn k om t fs → k ∈ keys fs
  | .nil, _, _, _, h => absurd h (by simp [FieldIn])
  | .cons k' om' tags t' rest, k, om, t, h => by
    simp only [FieldIn] at h
    rcases h with ⟨rfl, _, _⟩ | h
    · simp [keys]
    · simp only [keys, List.mem_cons]; exact Or.inr (mem_keys_of_fieldIn rest k om t h)

theorem find_of_fieldIn : ∀ (fs : Fields) (k : String) (om : Bool) (t : Ty), (keys fs).Nodup → FieldIn k om t fs →
    find fs k = some (om, t)
  | .nil, _, _, _, _, h => absurd h (by simp [FieldIn])
  | .cons k' om' tags t' rest, k, om, t, hd, h => by
    simp only [keys, List.nodup_cons] at hd
    simp only [FieldIn] at h
    rcases h with ⟨rfl, rfl, rfl⟩ | h
    · simp [find]
    · have hin := mem_keys_of_fieldIn rest k om t h
      have hne : (k' == k) = false := by
        cases hb : (k' == k) with
        | false => rfl
        | true =>
          have e : k' = k := by simpa using hb
          exact absurd (e ▸ hin) hd.1
      simp only [find, hne, Bool.false_eq_true, if_false]
      exact find_of_fieldIn rest k om t hd.2 h

/-- normalising never turns a value into `null` unless the type's zero is `null` -/
theorem norm_null_iff_ptrlike (t : Ty) (j : J) (h : norm t j = .null) : zeroJ t = .null ∨ j = .null := by
  cases t <;> cases j <;> simp_all [norm, zeroJ]

mutual
/-- re-serialising the zero value gives the zero value -/
theorem norm_zero : ∀ (t : Ty), wfTy t = true → norm t (zeroJ t) = zeroJ t
  | .str, _ => by simp [norm, zeroJ]
  | .int, _ => by simp only [norm, zeroJ]; rfl
  | .float, _ => by simp [norm, zeroJ]
  | .bool, _ => by simp [norm, zeroJ]
  | .time, _ => by simp [norm, zeroJ]
  | .any, _ => by simp [norm, zeroJ]
  | .enum _, _ => by simp [norm, zeroJ]
  | .ptr _, _ => by simp [norm, zeroJ]
  | .slice _, _ => by simp [norm, zeroJ]
  | .struct fs, hw => by
    simp only [wfTy, Bool.and_eq_true, decide_eq_true_eq] at hw
    simp only [norm, zeroJ]
    congr 1
    exact normFields_zero fs fs hw.1 hw.2 (fun _ _ _ h => h)
/-- … field by field: `fs` is a suffix-closed part of the struct `fs0` -/
theorem normFields_zero : ∀ (fs fs0 : Fields), (keys fs0).Nodup → wfFields fs = true →
    (∀ k om t, FieldIn k om t fs → FieldIn k om t fs0) →
    normFields fs (zeroFields fs0) = zeroFields fs
  | .nil, _, _, _, _ => by simp [normFields, zeroFields]
  | .cons k om tags t rest, fs0, hd, hw, hsub => by
    simp only [wfFields, Bool.and_eq_true] at hw
    have hin : FieldIn k om t fs0 := hsub k om t (by simp [FieldIn])
    have hfind := find_of_fieldIn fs0 k om t hd hin
    have hrest := normFields_zero rest fs0 hd hw.2 (fun k' om' t' h => hsub k' om' t' (by simp only [FieldIn]; exact Or.inr h))
    have hz := norm_zero t hw.1
    -- what zeroFields fs0 holds under k
    have hlook : lookup (zeroFields fs0) k = if om && !neverEmpty t then none else some (zeroJ t) := by
      exact lookup_zeroFields fs0 k om t hd hfind
    rw [normFields_cons, hrest]
    by_cases ho : (om && !neverEmpty t) = true
    · have hne : neverEmpty t = false := by
        cases h : neverEmpty t <;> simp_all
      simp only [hlook, ho, if_true, nv, omitted, isEmpty_zero t hne, Bool.and_true]
      simp [zeroFields, ho]
    · have ho' : (om && !neverEmpty t) = false := by simpa using ho
      simp only [hlook, ho', Bool.false_eq_true, if_false, nv, omitted, hz, Bool.false_and]
      simp [zeroFields, ho']
/-- what the zero object holds under the key of one of its fields -/
theorem lookup_zeroFields : ∀ (fs0 : Fields) (k : String) (om : Bool) (t : Ty), (keys fs0).Nodup → find fs0 k = some (om, t) →
    lookup (zeroFields fs0) k = if om && !neverEmpty t then none else some (zeroJ t)
  | .nil, _, _, _, _, h => by simp [find] at h
  | .cons k' om' tags t' rest, k, om, t, hd, h => by
    simp only [keys, List.nodup_cons] at hd
    by_cases hk : (k' == k) = true
    · have hx : k' = k := by simpa using hk
      subst hx
      simp only [find, beq_self_eq_true, if_true, Option.some.injEq, Prod.mk.injEq] at h
      obtain ⟨rfl, rfl⟩ := h
      simp only [zeroFields]
      by_cases ho : (om' && !neverEmpty t') = true
      · simp only [ho, if_true]
        exact lookup_zeroFields_notin rest k' hd.1
      · have ho' : (om' && !neverEmpty t') = false := by simpa using ho
        simp only [ho', Bool.false_eq_true, if_false]
        exact lookup_cons_eq _ _ _
    · have hne : (k' == k) = false := by simpa using hk
      simp only [find, hne, Bool.false_eq_true, if_false] at h
      simp only [zeroFields]
      split
      · exact lookup_zeroFields rest k om t hd.2 h
      · rw [lookup_cons_ne _ _ _ _ hne]; exact lookup_zeroFields rest k om t hd.2 h
theorem lookup_zeroFields_notin : ∀ (fs : Fields) (x : String), x ∉ keys fs → lookup (zeroFields fs) x = none
  | .nil, _, _ => by simp [zeroFields, lookup]
  | .cons k om tags t rest, x, h => by
    simp only [keys, List.mem_cons, not_or] at h
    have hne : (k == x) = false := by simpa using fun e => h.1 e.symm
    simp only [zeroFields]
    split
    · exact lookup_zeroFields_notin rest x h.2
    · rw [lookup_cons_ne _ _ _ _ hne]; exact lookup_zeroFields_notin rest x h.2
end

theorem wellTyped_ptr (t : Ty) (j : J) (h : wellTyped (.ptr t) j = true) : wellTyped t j = true := by
  cases j <;> simpa [wellTyped] using h

mutual
/-- **re-serialisation is idempotent**: `Marshal (Unmarshal (Marshal (Unmarshal j))) = Marshal (Unmarshal j)` -/
theorem norm_idem : ∀ (t : Ty) (j : J), wfTy t = true → wellTyped t j = true → norm t (norm t j) = norm t j
  | .str, j, _, _ => by cases j <;> simp [norm]
  | .enum _, j, _, _ => by cases j <;> simp [norm]
  | .time, j, _, _ => by cases j <;> simp [norm]
  | .float, j, _, _ => by cases j <;> simp [norm]
  | .bool, j, _, _ => by cases j <;> simp [norm]
  | .any, j, _, _ => by simp [norm]
  | .int, j, _, _ => by
    cases j <;> simp only [norm]
    rfl
  | .ptr t, j, hw, ht => by
    have hw' : wfTy t = true := by simpa [wfTy] using hw
    have ht' := wellTyped_ptr t j ht
    have ih := norm_idem t j hw' ht'
    cases j with
    | null => simp [norm]
    | bool b => simp only [norm]; cases hr : norm t (.bool b) <;> simp_all [norm]
    | num a b => simp only [norm]; cases hr : norm t (.num a b) <;> simp_all [norm]
    | str x => simp only [norm]; cases hr : norm t (.str x) <;> simp_all [norm]
    | arr l => simp only [norm]; cases hr : norm t (.arr l) <;> simp_all [norm]
    | obj kv => simp only [norm]; cases hr : norm t (.obj kv) <;> simp_all [norm]
  | .slice t, j, hw, ht => by
    have hw' : wfTy t = true := by simpa [wfTy] using hw
    cases j with
    | arr l =>
      simp only [norm, List.map_map]
      congr 1
      apply List.map_congr_left
      intro x hx
      simp only [wellTyped, List.all_eq_true] at ht
      exact norm_idem t x hw' (ht x hx)
    | null => simp [norm]
    | bool b => simp [norm]
    | num a b => simp [norm]
    | str x => simp [norm]
    | obj kv => simp [norm]
  | .struct fs, j, hw, ht => by
    simp only [wfTy, Bool.and_eq_true, decide_eq_true_eq] at hw
    cases j with
    | null =>
      simp only [norm]
      congr 1
      exact normFields_zero fs fs hw.1 hw.2 (fun _ _ _ h => h)
    | obj kv =>
      simp only [norm]
      congr 1
      exact normFields_idem fs fs kv hw.1 hw.2 (fun _ _ _ h => h) (by simpa [wellTyped] using ht)
    | bool b => simp [norm]
    | num a b => simp [norm]
    | str x => simp [norm]
    | arr l => simp [norm]
theorem normFields_idem : ∀ (fs fs0 : Fields) (kv : List (String × J)), (keys fs0).Nodup → wfFields fs = true →
    (∀ k om t, FieldIn k om t fs → FieldIn k om t fs0) → wellTypedFields fs kv = true →
    normFields fs (normFields fs0 kv) = normFields fs kv
  | .nil, _, _, _, _, _, _ => by simp [normFields]
  | .cons k om tags t rest, fs0, kv, hd, hw, hsub, ht => by
    simp only [wfFields, Bool.and_eq_true] at hw
    simp only [wellTypedFields, Bool.and_eq_true] at ht
    have hin : FieldIn k om t fs0 := hsub k om t (by simp [FieldIn])
    have hfind := find_of_fieldIn fs0 k om t hd hin
    have hrest := normFields_idem rest fs0 kv hd hw.2
      (fun k' om' t' h => hsub k' om' t' (by simp only [FieldIn]; exact Or.inr h)) ht.2
    have hlook := lookup_normFields fs0 kv k hd
    simp only [hfind] at hlook
    -- the value of this field is a fixpoint
    have hv : norm t (nv t (lookup kv k)) = nv t (lookup kv k) := by
      cases hl : lookup kv k with
      | none => simp only [nv]; exact norm_zero t hw.1
      | some x =>
        simp only [nv]
        have : wellTyped t x = true := by simpa [hl] using ht.1
        exact norm_idem t x hw.1 this
    rw [normFields_cons, normFields_cons, hrest, hlook]
    generalize nv t (lookup kv k) = v at hv ⊢
    by_cases ho : omitted om t v = true
    · have hoo : om = true ∧ neverEmpty t = false := by
        simp only [omitted, Bool.and_eq_true, Bool.not_eq_true'] at ho
        exact ⟨ho.1.1, ho.1.2⟩
      have hz : omitted om t (zeroJ t) = true := by
        simp [omitted, hoo.1, hoo.2, isEmpty_zero t hoo.2]
      have e1 : nv t (none : Option J) = zeroJ t := rfl
      simp only [ho, if_true, e1, hz]
    · have ho' : omitted om t v = false := by simpa using ho
      have e2 : nv t (some v) = norm t v := rfl
      simp only [ho', Bool.false_eq_true, if_false, e2, hv]
end

/-- what the peer decodes from the serialised value re-serialises to the same JSON, and validates the same -/
theorem reencode_stable (g : String → Bool) (t : Ty) (j : J) (hw : wfTy t = true) (ht : wellTyped t j = true) :
    norm t (norm t j) = norm t j ∧ checkField g t [] (norm t (norm t j)) = checkField g t [] (norm t j) := by
  have := norm_idem t j hw ht
  exact ⟨this, by rw [this]⟩

end SchL
