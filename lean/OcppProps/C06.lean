import OcppModel.OcppJ
import OcppProps.CDSim
import OcppProps.C03
import OcppModel.Expected
import OcppGen.Skeletons

/-!
# C06 — arbitrary incoming bytes never crash, wedge or corrupt an endpoint

The receive path is `bytes → encoding/json → ParseMessage → (reject | handler | CompleteRequest)`. JSON syntax is
Go's library (trusted); from the decoded value on, `Ocpp.OJ.classify` is the model (differential suite `c06`
against the real `ocppMessageHandler` of client and server endpoints of both dialects, with and without an
outstanding and a queued request).

* `frame_rejected_no_effect` — a frame that is not the genuine reply to the outstanding request leaves the whole
  dispatcher state (queue, pending id, timer, ready flag …) *equal*;
* `completes_genuine` — the only frames that change state are a CALL_RESULT / CALL_ERROR whose id is non-empty and
  equal to the outstanding request's id (so C09 and the refinement theorem apply to them: they are `reply` events);
* `reply_addressed` — an error reply is written exactly when the model says so, it carries the frame's own id
  (non-empty, ≤ 36 characters) and a valid OCPP-J error code: never more than one;
* `arbitrary_frames_safe` — **every** interleaving of arbitrary frames (any JSON value or non-JSON, any payload
  verdict) with well-formed API/connection events keeps the client invariant, hence the endpoint alive (no panic,
  no wedged goroutine) and its bookkeeping that of the specification: unbounded in the number of frames.
-/

namespace C06
open Ocpp Ocpp.OJ CDS

attribute [local irreducible] Gen.Guards.isErrorCodeValid Gen.Guards.validationClass

theorem reject_not_completes (id code : String) : (reject id code).completes = none := by
  unfold reject; split <;> rfl

theorem verdict_completes (d : Resp.Dialect) (id : String) (v : Verdict) (ok : Outcome) (x : String)
    (h : (verdictOutcome d id v ok).completes = some x) : ok.completes = some x := by
  unfold verdictOutcome at h
  split at h
  · simp [Outcome.completes] at h
  · cases v with
    | ok => exact h
    | format => simp [reject_not_completes] at h
    | invalid t => simp [reject_not_completes] at h

/-- only a CALL_RESULT / CALL_ERROR carrying the non-empty id of the outstanding request completes anything -/
theorem completes_genuine (env : Env) (pendId : String) (frame : Option J) (id : String)
    (h : (classify env pendId frame).completes = some id) : id ≠ "" ∧ pendId = id := by
  unfold classify at h
  split at h
  · split at h
    · split at h
      · split at h
        · rename_i fid
          by_cases he : fid = ""
          · simp [he, Outcome.completes] at h
          · simp only [beq_iff_eq, he, if_false] at h
            split at h
            · -- CALL
              split at h
              · split at h
                · split at h
                  · simp [reject_not_completes] at h
                  · have := verdict_completes _ _ _ _ _ h; simp [Outcome.completes] at this
                · simp [reject_not_completes] at h
              · simp [reject_not_completes] at h
            · split at h
              · -- CALL_RESULT
                split at h
                · simp [Outcome.completes] at h
                · rename_i hp
                  have := verdict_completes _ _ _ _ _ h
                  simp only [Outcome.completes, Option.some.injEq] at this
                  subst this
                  simp at hp
                  exact ⟨he, hp⟩
              · split at h
                · -- CALL_ERROR
                  split at h
                  · simp [Outcome.completes] at h
                  · rename_i hp
                    simp at hp
                    split at h
                    · simp [reject_not_completes] at h
                    · split at h
                      · split at h
                        · simp [Outcome.completes] at h
                        · split at h
                          · simp only [Outcome.completes, Option.some.injEq] at h
                            subst h; exact ⟨he, hp⟩
                          · simp [reject_not_completes] at h
                      · simp [Outcome.completes] at h
                · simp [reject_not_completes] at h
        · simp [Outcome.completes] at h
      · simp [Outcome.completes] at h
    · simp [Outcome.completes] at h
  · simp [Outcome.completes] at h
  · simp [Outcome.completes] at h

/-- client: every other frame leaves the endpoint state equal -/
theorem frame_rejected_no_effect (env : Env) (s : CD.St) (frame : Option J)
    (h : (classify env s.pend frame).completes = none) : (recvC env s frame).1 = s := by
  unfold recvC
  generalize classify env s.pend frame = o at h
  cases o <;> simp_all [Outcome.completes]

/-- server: same, for the whole server state (all clients) -/
theorem server_frame_rejected_no_effect (env : Env) (s : SD.St) (c : String) (frame : Option J)
    (h : (classify env (SD.get s c).pend frame).completes = none) : (recvS env s c frame).1 = s := by
  unfold recvS
  generalize classify env (SD.get s c).pend frame = o at h
  cases o <;> simp_all [Outcome.completes]

/-- a state-changing frame *is* the dispatcher event `reply id` -/
theorem frame_is_reply_event (env : Env) (s : CD.St) (frame : Option J) (id : String)
    (h : (classify env s.pend frame).completes = some id) :
    ∃ isErr, (recvC env s frame).1 = (CD.step s (.reply id isErr)).1 := by
  unfold recvC
  generalize classify env s.pend frame = o at h
  cases o <;> simp_all [Outcome.completes]

theorem server_frame_is_reply_event (env : Env) (s : SD.St) (c : String) (frame : Option J) (id : String)
    (h : (classify env (SD.get s c).pend frame).completes = some id) :
    ∃ isErr, (recvS env s c frame).1 = (SD.step s (.reply c id isErr)).1 := by
  unfold recvS
  generalize classify env (SD.get s c).pend frame = o at h
  cases o <;> simp_all [Outcome.completes]

/-- at most one frame is written in answer to a rejected frame, and none to an accepted one -/
theorem at_most_one_reply (o : Outcome) :
    ((outsOf o).filter (fun x => match x with | .reply _ _ => true | _ => false)).length ≤ 1 := by
  cases o <;> simp [outsOf]

theorem formatCode_valid (d : Resp.Dialect) : Gen.Guards.isErrorCodeValid (formatCode d) = true := by
  cases d <;> (unfold formatCode; simp only []; first | decide | skip)
  all_goals (delta Gen.Guards.isErrorCodeValid; decide)

theorem vMT : Gen.Guards.isErrorCodeValid "MessageTypeNotSupported" = true := by
  delta Gen.Guards.isErrorCodeValid; decide

theorem reject_reply (id code : String) (rid rcode : String) (h : reject id code = .replyError rid rcode) :
    rid = id ∧ rcode = code ∧ id.length ≤ 36 := by
  unfold reject at h
  split at h
  · cases h
  · rename_i hl
    simp only [Outcome.replyError.injEq] at h
    exact ⟨h.1.symm, h.2.symm, by omega⟩

/-- the id of the frame as `ParseMessage` reads it -/
def frameId : Option J → Option String
  | some (.arr (_ :: .str id :: _)) => some id
  | _ => none

theorem verdict_reply (d : Resp.Dialect) (id : String) (v : Verdict) (ok : Outcome) (rid rcode : String)
    (hok : ∀ a b, ok ≠ .replyError a b)
    (h : verdictOutcome d id v ok = .replyError rid rcode) :
    rid = id ∧ id.length ≤ 36 ∧ Gen.Guards.isErrorCodeValid rcode = true := by
  unfold verdictOutcome at h
  split at h
  · cases h
  · cases v with
    | ok => exact absurd h (hok _ _)
    | format =>
      have := reject_reply _ _ _ _ h
      exact ⟨this.1, this.2.2, this.2.1 ▸ formatCode_valid d⟩
    | invalid t =>
      have := reject_reply _ _ _ _ h
      exact ⟨this.1, this.2.2, this.2.1 ▸ C03.codeOfTag_valid d t⟩

/-- a written error reply carries the frame's own non-empty id (≤ 36 characters) and a valid OCPP-J error code -/
theorem reply_addressed (env : Env) (pendId : String) (frame : Option J) (rid rcode : String)
    (h : classify env pendId frame = .replyError rid rcode) :
    frameId frame = some rid ∧ rid ≠ "" ∧ rid.length ≤ 36 ∧ Gen.Guards.isErrorCodeValid rcode = true := by
  unfold classify at h
  split at h
  · split at h
    · split at h
      · split at h
        · rename_i fid
          by_cases he : fid = ""
          · simp [he] at h
          · simp only [beq_iff_eq, he, if_false] at h
            suffices hs : rid = fid ∧ rid ≠ "" ∧ rid.length ≤ 36 ∧ Gen.Guards.isErrorCodeValid rcode = true by
              exact ⟨by rw [hs.1]; rfl, hs.2⟩
            have fin : ∀ code, Gen.Guards.isErrorCodeValid code = true → reject fid code = .replyError rid rcode →
                rid = fid ∧ rid ≠ "" ∧ rid.length ≤ 36 ∧ Gen.Guards.isErrorCodeValid rcode = true := by
              intro code hv hr
              have := reject_reply _ _ _ _ hr
              obtain ⟨h1, h2, h3⟩ := this
              subst h1 h2
              exact ⟨rfl, he, h3, hv⟩
            have finv : ∀ v ok, (∀ a b, ok ≠ .replyError a b) → verdictOutcome env.dialect fid v ok = .replyError rid rcode →
                rid = fid ∧ rid ≠ "" ∧ rid.length ≤ 36 ∧ Gen.Guards.isErrorCodeValid rcode = true := by
              intro v ok hok hr
              have := verdict_reply _ _ _ _ _ _ hok hr
              obtain ⟨h1, h2, h3⟩ := this
              subst h1
              exact ⟨rfl, he, h2, h3⟩
            split at h
            · split at h
              · split at h
                · split at h
                  · exact fin _ C03.vNS h
                  · exact finv _ _ (by intro a b; simp) h
                · exact fin _ (formatCode_valid _) h
              · exact fin _ (formatCode_valid _) h
            · split at h
              · split at h
                · cases h
                · exact finv _ _ (by intro a b; simp) h
              · split at h
                · split at h
                  · cases h
                  · split at h
                    · exact fin _ (formatCode_valid _) h
                    · split at h
                      · split at h
                        · cases h
                        · split at h
                          · cases h
                          · exact fin _ (C03.codeOfTag_valid _ _) h
                      · cases h
                · exact fin _ vMT h
        · cases h
      · cases h
    · cases h
  · cases h
  · cases h

/-! ## every interleaving of arbitrary frames with well-formed events -/

inductive In where
  | ev (e : CD.Ev)
  | frame (f : Option J)

def stepIn (env : Env) (s : CD.St) : In → CD.St
  | .ev e => (CD.step s e).1
  | .frame f => (recvC env s f).1

def runIn (env : Env) (s : CD.St) : List In → CD.St
  | [] => s
  | i :: rest => runIn env (stepIn env s i) rest

/-- environment assumptions on the *API / connection* events only (as in the refinement theorem); frames are
    unconstrained -/
def wfIn (env : Env) (used : List String) (s : CD.St) : List In → Bool
  | [] => true
  | .ev e :: rest => CD.evOK used s e && wfIn env (CD.usedAfter used e) (CD.step s e).1 rest
  | .frame f :: rest => wfIn env used (recvC env s f).1 rest

theorem frame_inv (env : Env) (used : List String) (s : CD.St) (f : Option J) (hI : Inv used s) :
    Inv used (recvC env s f).1 := by
  cases hc : (classify env s.pend f).completes with
  | none => rw [frame_rejected_no_effect env s f hc]; exact hI
  | some id =>
    obtain ⟨isErr, he⟩ := frame_is_reply_event env s f id hc
    rw [he]
    have hid := (completes_genuine env s.pend f id hc).1
    have := (step_sim used s (.reply id isErr) hI (by simp [CD.evOK, hid])).2
    simpa [CD.usedAfter] using this

theorem arbitrary_frames_safe (env : Env) (ins : List In) :
    ∀ (used : List String) (s : CD.St), Inv used s → wfIn env used s ins = true →
      ∃ used', Inv used' (runIn env s ins) := by
  induction ins with
  | nil => intro used s hI _; exact ⟨used, hI⟩
  | cons i rest ih =>
    intro used s hI hw
    cases i with
    | ev e =>
      simp only [wfIn, Bool.and_eq_true] at hw
      exact ih _ _ (step_sim used s e hI hw.1).2 hw.2
    | frame f =>
      simp only [wfIn] at hw
      exact ih _ _ (frame_inv env used s f hI) hw

/-- in particular the endpoint is alive (no panic, nothing wedged) after any such history, from a fresh endpoint -/
theorem never_crashes (env : Env) (cap : Int) (ins : List In) (hw : wfIn env [] (CD.init cap) ins = true) :
    (runIn env (CD.init cap) ins).dead = false := by
  obtain ⟨_, hI⟩ := arbitrary_frames_safe env ins [] (CD.init cap) (inv_init cap) hw
  exact hI.alive

/-! non-vacuity / tests -/
def envT : Env := { dialect := .v16, known := fun a => a == "Heartbeat", reqVerdict := fun _ _ => .ok, respVerdict := fun _ => .ok }

example : classify envT "pid" (some (.arr [.num 3 "3", .str "pid", .obj []])) = .result "pid" := by decide
example : classify envT "pid" (some (.arr [.num 3 "3", .str "zzz", .obj []])) = .ignore := by decide
example : classify envT "" (some (.arr [.num 2 "2.9", .str "a", .str "Heartbeat", .null])) = .call "a" "Heartbeat" := by decide
example : classify envT "" (some (.arr [.num 9 "9", .str "a", .null])) = .replyError "a" "MessageTypeNotSupported" := by decide
example : classify envT "" (some (.arr [.num 2 "2", .str "a", .num 1 "1", .null])) = .replyError "a" "FormationViolation" := by decide
example : classify envT "" (some (.arr [.str "2", .str "a", .null])) = .dropNoId := by decide
example : classify envT "" none = .notJson := by decide
example : wfIn envT [] (CD.init 0) [.ev .start, .ev (.send "pid"), .frame none, .frame (some (.arr [.num 3 "3", .str "pid", .null]))] = true := by decide

theorem skel_parseMessage : Gen.Skeletons.parseMessage = Ocpp.Expected.parseMessage := by decide
theorem skel_parseRawJsonMessage : Gen.Skeletons.parseRawJsonMessage = Ocpp.Expected.parseRawJsonMessage := by decide
theorem skel_parseJsonMessage : Gen.Skeletons.parseJsonMessage = Ocpp.Expected.parseJsonMessage := by decide
theorem skel_parseRawJsonRequest : Gen.Skeletons.parseRawJsonRequest = Ocpp.Expected.parseRawJsonRequest := by decide
theorem skel_parseRawJsonConfirmation : Gen.Skeletons.parseRawJsonConfirmation = Ocpp.Expected.parseRawJsonConfirmation := by decide
theorem skel_formatErrorType : Gen.Skeletons.formatErrorType = Ocpp.Expected.formatErrorType := by decide
theorem skel_occurrenceViolationType : Gen.Skeletons.occurrenceViolationType = Ocpp.Expected.occurrenceViolationType := by decide
theorem skel_jcMessageHandler : Gen.Skeletons.jcMessageHandler = Ocpp.Expected.jcMessageHandler := by decide
theorem skel_jsMessageHandler : Gen.Skeletons.jsMessageHandler = Ocpp.Expected.jsMessageHandler := by decide
theorem skel_jcSendError : Gen.Skeletons.jcSendError = Ocpp.Expected.jcSendError := by decide
theorem skel_jsSendError : Gen.Skeletons.jsSendError = Ocpp.Expected.jsSendError := by decide
theorem skel_createCallError : Gen.Skeletons.createCallError = Ocpp.Expected.createCallError := by decide
theorem skel_errorFromValidation : Gen.Skeletons.errorFromValidation = Ocpp.Expected.errorFromValidation := by decide
theorem skel_getProfileForFeature : Gen.Skeletons.getProfileForFeature = Ocpp.Expected.getProfileForFeature := by decide
theorem skel_profileParseRequest : Gen.Skeletons.profileParseRequest = Ocpp.Expected.profileParseRequest := by decide
theorem skel_profileParseResponse : Gen.Skeletons.profileParseResponse = Ocpp.Expected.profileParseResponse := by decide

end C06
