import OcppModel.WsIdFine

/-!
# C13 / C11 below quiescence: the callbacks of one client id alternate in every interleaving

For the small-step model `Ocpp.WsIdFine` of `ws.server` after /repo 3413323 (any number of connection attempts for one
id; handler goroutines and teardown goroutines interleave freely): the application's callbacks for the id are
`new k₀, disconnected k₀, new k₁, disconnected k₁, …` — the end of a connection is reported before the next connection of
the id is announced (`callbacks_alternate`), at most one connection of the id is registered (`one_registered`).
`old_announces_before_disconnected`: without the wait (the code before the repair) an interleaving announces the next
connection first — the history monitor `c11_idreuse` produced on the real server.
-/
namespace C13Fine
open Ocpp.WsIdFine

/-- the alternation automaton: `some none` = no connection announced and unreported, `some (some k)` = k is, `none` = broken -/
def cbStep : Option (Option Nat) → Cb → Option (Option Nat)
  | some none, .new k => some (some k)
  | some (some k), .disc j => if k = j then some none else none
  | _, _ => none

def openOf (log : List Cb) : Option (Option Nat) := log.foldl cbStep (some none)

theorem openOf_append (log : List Cb) (c : Cb) : openOf (log ++ [c]) = cbStep (openOf log) c := by
  simp [openOf, List.foldl_append]

def isActive : Phase → Bool
  | .hs _ | .announcing | .live | .closing1 => true
  | _ => false

def isClosing : Phase → Bool
  | .closing2 | .closing3 => true
  | _ => false

/-- announced and not yet reported as ended -/
def isOpen : Phase → Bool
  | .live | .closing1 | .closing2 => true
  | _ => false

structure Inv (s : St) : Prop where
  w : s.waitPrev = true
  act : ∀ k, isActive (phase s k) = true ↔ s.entry = some k
  clo : ∀ k, isClosing (phase s k) = true ↔ s.closing = some k
  hs : s.waitPrev = true → ∀ k j, s.entry = some k → s.closing = some j → phase s k = .hs (some j)
  ncl : ∀ j, s.closing = some j → j ∉ s.closed
  gone : ∀ j ∈ s.closed, phase s j = .gone ∧ j < s.conns.length
  log : s.waitPrev = true → ∃ o, openOf s.log = some o ∧ ∀ k, isOpen (phase s k) = true ↔ o = some k

theorem phase_set (s : St) (k j : Nat) (p : Phase) (conns' : List Phase) (h : conns' = s.conns.set k p) (hk : phase s k ≠ .gone) :
    (conns'.getD j .gone) = if j = k then p else phase s j := by
  subst h
  unfold phase at *
  simp only [List.getD_eq_getElem?_getD, List.getElem?_set]
  have hlt : k < s.conns.length := by
    apply Classical.byContradiction; intro hn
    have : s.conns[k]? = none := by simp; omega
    simp [this] at hk
  by_cases e : j = k
  · subst e; simp [hlt]
  · have : ¬ k = j := fun h => e h.symm
    simp [this, e]

theorem phase_append (s : St) (j : Nat) (p : Phase) :
    ((s.conns ++ [p]).getD j .gone) = if j = s.conns.length then p else phase s j := by
  unfold phase
  simp only [List.getD_eq_getElem?_getD]
  by_cases h : j < s.conns.length
  · rw [List.getElem?_append_left h]
    have : j ≠ s.conns.length := by omega
    simp [this]
  · by_cases h2 : j = s.conns.length
    · subst h2; simp
    · have h1 : s.conns[j]? = none := by simp; omega
      have h3 : (s.conns ++ [p])[j]? = none := by simp; omega
      simp [h1, h3, h2]

theorem phase_oob (s : St) (j : Nat) (h : s.conns.length ≤ j) : phase s j = .gone := by
  unfold phase
  simp only [List.getD_eq_getElem?_getD]
  have : s.conns[j]? = none := by simp; omega
  simp [this]

theorem inv_init : Inv {} := by
  refine ⟨rfl, ?_, ?_, ?_, ?_, ?_, ?_⟩ <;> simp [phase, isActive, isClosing, isOpen, openOf]

theorem inv_accept {s s' : St} (h : Inv s) (hs : step s .accept = some s') : Inv s' := by
  simp only [step] at hs
  split at hs
  · rename_i he
    cases hs
    have hen : s.entry = none := by simpa using he
    have hph : ∀ j, phase { s with conns := s.conns ++ [.hs s.closing], entry := some s.conns.length } j =
        if j = s.conns.length then .hs s.closing else phase s j := fun j => phase_append s j _
    have hoob := phase_oob s s.conns.length (Nat.le_refl _)
    refine ⟨h.w, ?_, ?_, ?_, ?_, ?_, ?_⟩
    · intro k; rw [hph]
      by_cases e : k = s.conns.length
      · subst e; simp [isActive]
      · have := h.act k; rw [hen] at this
        simp only [e, if_false]
        constructor
        · intro h1; exact absurd (this.mp h1) (by simp)
        · intro h1; exact absurd (Option.some.inj h1).symm e
    · intro k; rw [hph]
      by_cases e : k = s.conns.length
      · subst e; simp only [if_true, isClosing]
        constructor
        · intro h1; cases h1
        · intro h1; have := (h.clo _).mpr h1; rw [hoob] at this; simp [isClosing] at this
      · simp only [e, if_false]; exact h.clo k
    · intro _ k j hk hj
      have : k = s.conns.length := (Option.some.inj hk).symm
      subst this; rw [hph]; simp only [if_true]; exact congrArg Phase.hs hj
    · exact h.ncl
    · intro j hj
      have := h.gone j hj
      rw [hph]
      have e : j ≠ s.conns.length := by omega
      simp only [e, if_false]
      exact ⟨this.1, by simp; omega⟩
    · intro hw
      obtain ⟨o, ho, hk⟩ := h.log hw
      refine ⟨o, ho, ?_⟩
      intro k; rw [hph]
      by_cases e : k = s.conns.length
      · subst e; simp only [if_true, isOpen]
        constructor
        · intro h1; cases h1
        · intro h1; have := (hk _).mpr h1; rw [hoob] at this; simp [isOpen] at this
      · simp only [e, if_false]; exact hk k
  · cases hs

/-- a step that only moves connection `k` from an active phase to another active phase (not `hs`) -/
theorem inv_move_active {s : St} (h : Inv s) (k : Nat) (p : Phase) (hk : isActive (phase s k) = true) (hp : isActive p = true)
    (hnh : ∀ prev, p ≠ .hs prev) (hclN : s.waitPrev = true → s.closing = none)
    (hopen : isOpen p = isOpen (phase s k)) :
    Inv { s with conns := s.conns.set k p } := by
  have hne : phase s k ≠ .gone := by intro e; rw [e] at hk; simp [isActive] at hk
  have hph : ∀ j, phase { s with conns := s.conns.set k p } j = if j = k then p else phase s j :=
    fun j => phase_set s k j p _ rfl hne
  have hek := (h.act k).mp hk
  refine ⟨h.w, ?_, ?_, ?_, h.ncl, ?_, ?_⟩
  · intro j; rw [hph]
    by_cases e : j = k
    · subst e; simp [hp, hek]
    · simp only [e, if_false]; exact h.act j
  · intro j; rw [hph]
    by_cases e : j = k
    · subst e; simp only [if_true]
      have h1 : isClosing p = false := by cases p <;> simp_all [isActive, isClosing]
      have h2 : isClosing (phase s j) = false := by cases hh : phase s j <;> simp_all [isActive, isClosing]
      rw [h1]; have := h.clo j; rw [h2] at this; simpa using this
    · simp only [e, if_false]; exact h.clo j
  · intro hw k' j hk' hj
    have := hclN hw
    rw [this] at hj; cases hj
  · intro j hj
    have := h.gone j hj
    rw [hph]
    by_cases e : j = k
    · subst e; exact absurd this.1 hne
    · simp only [e, if_false]; exact ⟨this.1, by simpa using this.2⟩
  · intro hw
    obtain ⟨o, ho, hko⟩ := h.log hw
    refine ⟨o, ho, ?_⟩
    intro j; rw [hph]
    by_cases e : j = k
    · subst e; simp only [if_true]; rw [hopen]; exact hko j
    · simp only [e, if_false]; exact hko j

/-- while the id's registered connection is past its `hs` phase, no channel of a previous connection is published -/
theorem closing_none_of_active {s : St} (h : Inv s) (hw : s.waitPrev = true) (k : Nat) (hk : isActive (phase s k) = true)
    (hnh : ∀ prev, phase s k ≠ .hs prev) : s.closing = none := by
  cases hc : s.closing with
  | none => rfl
  | some j => exact absurd (h.hs hw k j ((h.act k).mp hk) hc) (hnh _)

theorem phase_eq_of_beq {s : St} {k : Nat} {p : Phase} (h : (phase s k == p) = true) : phase s k = p := by simpa using h

theorem inv_step {s s' : St} (h : Inv s) (l : Label) (hs : step s l = some s') : Inv s' := by
  cases l
  case accept => exact inv_accept h hs
  case refuse =>
    simp only [step] at hs
    split at hs
    · cases hs; exact h
    · cases hs
  case wait k =>
    simp only [step] at hs
    cases hp : phase s k <;> simp only [hp] at hs <;> try (cases hs; done)
    rename_i prev
    have hmove : Inv { s with conns := s.conns.set k .announcing } := by
      apply inv_move_active h k .announcing (by rw [hp]; rfl) rfl (by intro _ e; cases e) ?_ (by rw [hp]; rfl)
      intro hw
      cases hc : s.closing with
      | none => rfl
      | some j =>
        exfalso
        have h1 := h.hs hw k j ((h.act k).mp (by rw [hp]; rfl)) hc
        rw [hp] at h1; cases h1
        simp [hw] at hs
        exact h.ncl j hc hs.1
    cases prev with
    | none => simp at hs; cases hs; exact hmove
    | some j =>
      by_cases hpass : (!s.waitPrev || s.closed.contains j) = true
      · simp only [hpass, if_true] at hs; cases hs; exact hmove
      · simp at hs; rw [← hs.2]; exact hmove
  case announce k =>
    simp only [step] at hs
    split at hs
    · rename_i hp
      cases hs
      have hp := phase_eq_of_beq hp
      have hne : phase s k ≠ .gone := by rw [hp]; intro e; cases e
      have hph : ∀ j, phase { s with conns := s.conns.set k .live, log := s.log ++ [.new k] } j = if j = k then .live else phase s j :=
        fun j => phase_set s k j .live _ rfl hne
      have hek := (h.act k).mp (by rw [hp]; rfl)
      refine ⟨h.w, ?_, ?_, ?_, h.ncl, ?_, ?_⟩
      · intro j; rw [hph]
        by_cases e : j = k
        · subst e; simp [isActive, hek]
        · simp only [e, if_false]; exact h.act j
      · intro j; rw [hph]
        by_cases e : j = k
        · subst e; simp only [if_true, isClosing]
          have := h.clo j; rw [hp] at this; simpa [isClosing] using this
        · simp only [e, if_false]; exact h.clo j
      · intro hw k' j hk' hj
        have := closing_none_of_active h hw k (by rw [hp]; rfl) (by rw [hp]; intro _ e; cases e)
        change s.closing = some j at hj
        rw [this] at hj; cases hj
      · intro j hj
        have := h.gone j hj
        rw [hph]
        by_cases e : j = k
        · subst e; exact absurd this.1 hne
        · simp only [e, if_false]; exact ⟨this.1, by simpa using this.2⟩
      · intro hw
        obtain ⟨o, ho, hko⟩ := h.log hw
        have hcn := closing_none_of_active h hw k (by rw [hp]; rfl) (by rw [hp]; intro _ e; cases e)
        -- nobody is announced and unreported: such a connection would be the registered one (it is `k`, still
        -- announcing) or one whose channel is published (there is none)
        have hon : o = none := by
          cases o with
          | none => rfl
          | some j =>
            have hj := (hko j).mpr rfl
            exfalso
            cases hh : phase s j <;> rw [hh] at hj <;> simp [isOpen] at hj
            · have := (h.act j).mp (by rw [hh]; rfl)
              rw [hek] at this; cases this; rw [hp] at hh; cases hh
            · have := (h.act j).mp (by rw [hh]; rfl)
              rw [hek] at this; cases this; rw [hp] at hh; cases hh
            · have := (h.clo j).mp (by rw [hh]; rfl)
              rw [hcn] at this; cases this
        subst hon
        refine ⟨some k, by show openOf (s.log ++ [.new k]) = _; rw [openOf_append, ho]; rfl, ?_⟩
        intro j; rw [hph]
        by_cases e : j = k
        · subst e; simp [isOpen]
        · simp only [e, if_false]
          have := hko j
          constructor
          · intro h1; exact absurd (this.mp h1) (by simp)
          · intro h1; exact absurd (Option.some.inj h1).symm e
    · cases hs
  case drop k =>
    simp only [step] at hs
    split at hs
    · rename_i hp
      cases hs
      have hp := phase_eq_of_beq hp
      exact inv_move_active h k .closing1 (by rw [hp]; rfl) rfl (by intro _ e; cases e)
        (fun hw => closing_none_of_active h hw k (by rw [hp]; rfl) (by rw [hp]; intro _ e; cases e)) (by rw [hp]; rfl)
    · cases hs
  case release k =>
    simp only [step] at hs
    split at hs
    · rename_i hp
      cases hs
      have hp := phase_eq_of_beq hp
      have hne : phase s k ≠ .gone := by rw [hp]; intro e; cases e
      have hph : ∀ j, phase { s with conns := s.conns.set k .closing2, entry := none, closing := some k } j =
          if j = k then .closing2 else phase s j := fun j => phase_set s k j .closing2 _ rfl hne
      have hek := (h.act k).mp (by rw [hp]; rfl)
      refine ⟨h.w, ?_, ?_, ?_, ?_, ?_, ?_⟩
      · intro j; rw [hph]
        by_cases e : j = k
        · subst e; simp [isActive]
        · simp only [e, if_false]
          have := h.act j; rw [hek] at this
          constructor
          · intro h1; exact absurd (Option.some.inj (this.mp h1)).symm e
          · intro h1; cases h1
      · intro j; rw [hph]
        by_cases e : j = k
        · subst e; simp [isClosing]
        · simp only [e, if_false]
          constructor
          · intro h1
            -- another connection with a published channel: impossible while `k` is registered and past `hs`
            have hj := (h.clo j).mp h1
            have := closing_none_of_active h h.w k (by rw [hp]; rfl) (by rw [hp]; intro _ e; cases e)
            rw [this] at hj; cases hj
          · intro h1; exact absurd (Option.some.inj h1).symm e
      · intro hw k' j hk' hj; cases hk'
      · intro j hj
        change some k = some j at hj
        cases hj
        intro hm; have := (h.gone k hm).1; exact hne this
      · intro j hj
        have := h.gone j hj
        rw [hph]
        by_cases e : j = k
        · subst e; exact absurd this.1 hne
        · simp only [e, if_false]; exact ⟨this.1, by simpa using this.2⟩
      · intro hw
        obtain ⟨o, ho, hko⟩ := h.log hw
        refine ⟨o, ho, ?_⟩
        intro j; rw [hph]
        by_cases e : j = k
        · subst e; simp only [if_true]; have := hko j; rw [hp] at this; exact this
        · simp only [e, if_false]; exact hko j
    · cases hs
  case discCb k =>
    simp only [step] at hs
    split at hs
    · rename_i hp
      cases hs
      have hp := phase_eq_of_beq hp
      have hne : phase s k ≠ .gone := by rw [hp]; intro e; cases e
      have hph : ∀ j, phase { s with conns := s.conns.set k .closing3, log := s.log ++ [.disc k] } j =
          if j = k then .closing3 else phase s j := fun j => phase_set s k j .closing3 _ rfl hne
      have hck := (h.clo k).mp (by rw [hp]; rfl)
      refine ⟨h.w, ?_, ?_, ?_, h.ncl, ?_, ?_⟩
      · intro j; rw [hph]
        by_cases e : j = k
        · subst e; simp only [if_true]
          have := h.act j; rw [hp] at this; simpa [isActive] using this
        · simp only [e, if_false]; exact h.act j
      · intro j; rw [hph]
        by_cases e : j = k
        · subst e; simp [isClosing, hck]
        · simp only [e, if_false]; exact h.clo j
      · intro hw k' j hk' hj
        have h1 := h.hs hw k' j hk' hj
        rw [hph]
        by_cases e : k' = k
        · subst e; rw [hp] at h1; cases h1
        · simp only [e, if_false]; exact h1
      · intro j hj
        have := h.gone j hj
        rw [hph]
        by_cases e : j = k
        · subst e; exact absurd this.1 hne
        · simp only [e, if_false]; exact ⟨this.1, by simpa using this.2⟩
      · intro hw
        obtain ⟨o, ho, hko⟩ := h.log hw
        have hok : o = some k := (hko k).mp (by rw [hp]; rfl)
        subst hok
        refine ⟨none, by show openOf (s.log ++ [.disc k]) = _; rw [openOf_append, ho]; simp [cbStep], ?_⟩
        intro j; rw [hph]
        by_cases e : j = k
        · subst e; simp [isOpen]
        · simp only [e, if_false]
          constructor
          · intro h1; exact absurd (Option.some.inj ((hko j).mp h1)).symm e
          · intro h1; cases h1
    · cases hs
  case finish k =>
    simp only [step] at hs
    split at hs
    · rename_i hp
      cases hs
      have hp := phase_eq_of_beq hp
      have hne : phase s k ≠ .gone := by rw [hp]; intro e; cases e
      have hck := (h.clo k).mp (by rw [hp]; rfl)
      have hcl : (if s.closing == some k then none else s.closing) = none := by simp [hck]
      rw [hcl]
      have hph : ∀ j, phase { s with conns := s.conns.set k .gone, closing := none, closed := k :: s.closed } j =
          if j = k then .gone else phase s j := fun j => phase_set s k j .gone _ rfl hne
      have hlt : k < s.conns.length := by
        apply Classical.byContradiction; intro hn
        exact hne (phase_oob s k (by omega))
      refine ⟨h.w, ?_, ?_, ?_, ?_, ?_, ?_⟩
      · intro j; rw [hph]
        by_cases e : j = k
        · subst e; simp only [if_true]
          have := h.act j; rw [hp] at this; simpa [isActive] using this
        · simp only [e, if_false]; exact h.act j
      · intro j; rw [hph]
        by_cases e : j = k
        · subst e; simp [isClosing]
        · simp only [e, if_false]
          have := h.clo j; rw [hck] at this
          constructor
          · intro h1; exact absurd (Option.some.inj (this.mp h1)).symm e
          · intro h1; cases h1
      · intro _ k' j _ hj; cases hj
      · intro j hj; cases hj
      · intro j hj
        rw [hph]
        by_cases e : j = k
        · subst e; simp only [if_true]; exact ⟨trivial, by simpa using hlt⟩
        · simp only [e, if_false]
          have hj' : j ∈ s.closed := by
            rcases List.mem_cons.mp hj with h1 | h1
            · exact absurd h1 e
            · exact h1
          have := h.gone j hj'
          exact ⟨this.1, by simpa using this.2⟩
      · intro hw
        obtain ⟨o, ho, hko⟩ := h.log hw
        refine ⟨o, ho, ?_⟩
        intro j; rw [hph]
        by_cases e : j = k
        · subst e; simp only [if_true]; have := hko j; rw [hp] at this; simpa [isOpen] using this
        · simp only [e, if_false]; exact hko j
    · cases hs

theorem inv_run (ls : List Label) (s : St) (h : runL {} ls = some s) : Inv s := by
  suffices ∀ (s0 : St), Inv s0 → ∀ ls s, runL s0 ls = some s → Inv s from this _ inv_init ls s h
  intro s0 h0 ls
  induction ls generalizing s0 with
  | nil => intro s h; simp [runL] at h; subst h; exact h0
  | cons l ls ih =>
    intro s h
    simp only [runL] at h
    cases hst : step s0 l with
    | none => simp [hst] at h
    | some s1 => simp only [hst] at h; exact ih s1 (inv_step h0 l hst) s h

/-- C13 / C11: in every interleaving of any number of connection attempts for one id, the application's callbacks for
    the id alternate `new k, disconnected k, new k', disconnected k', …`: the end of a connection is reported before the
    next connection of the id is announced -/
theorem callbacks_alternate (ls : List Label) (s : St) (h : runL {} ls = some s) : (openOf s.log).isSome = true := by
  obtain ⟨o, ho, _⟩ := (inv_run ls s h).log (inv_run ls s h).w
  simp [ho]

/-- the connection announced and not yet reported as ended is the one the log says -/
theorem open_is_logged (ls : List Label) (s : St) (h : runL {} ls = some s) (k : Nat) (hk : isOpen (phase s k) = true) :
    openOf s.log = some (some k) := by
  obtain ⟨o, ho, hko⟩ := (inv_run ls s h).log (inv_run ls s h).w
  rw [ho, (hko k).mp hk]

/-- C13: at most one connection of the id is registered (between its insertion and the release of the id) -/
theorem one_registered (ls : List Label) (s : St) (h : runL {} ls = some s) (k j : Nat)
    (hk : isActive (phase s k) = true) (hj : isActive (phase s j) = true) : k = j := by
  have h1 := ((inv_run ls s h).act k).mp hk
  have h2 := ((inv_run ls s h).act j).mp hj
  rw [h1] at h2; exact Option.some.inj h2

/-- a duplicate is refused exactly while a connection of the id is registered, and a refusal changes nothing -/
theorem refused_iff_registered (s : St) : (step s .refuse).isSome = s.entry.isSome ∧ ∀ s', step s .refuse = some s' → s' = s := by
  simp only [step]
  cases s.entry <;> simp

/-- the interleaving monitor `c11_idreuse` forces on the real server: the teardown of connection 0 has released the id
    but not yet reported the end; connection 1 is accepted -/
def reuseRun : List Label := [.accept, .wait 0, .announce 0, .drop 0, .release 0, .accept, .wait 1, .announce 1]

/-- before /repo 3413323 (no wait): the new connection is announced before the end of the previous one is reported -/
theorem old_announces_before_disconnected :
    (runL { waitPrev := false } reuseRun).map (·.log) = some [.new 0, .new 1] ∧
    (runL { waitPrev := false } reuseRun).map (fun s => openOf s.log) = some none := by decide

/-- with the repair the same schedule is not possible: connection 1 has to wait -/
example : runL {} reuseRun = none := by decide
example : (runL {} [.accept, .wait 0, .announce 0, .drop 0, .release 0, .accept, .discCb 0, .finish 0, .wait 1, .announce 1]).map (·.log) =
    some [.new 0, .disc 0, .new 1] := by decide

/-- C11 / C13, about a CANDIDATE repair that is not in the code (`writeTarget true`; tried and withdrawn, DESIGN.md 13.7): whatever such a `Write` accepts would reach the connection the application currently knows as the
    id's session, or a connection that is registered while *no* session of the id is open for the application (all earlier
    ones have been reported as ended) — never a connection `k` while the callbacks still say that another connection `j`
    is the live one. In every interleaving. -/
theorem candidate_write_reaches_no_later_session (ls : List Label) (s : St) (h : runL {} ls = some s) (k : Nat)
    (hw : writeTarget true s = some k) : openOf s.log = some (some k) ∨ openOf s.log = some none := by
  have hI := inv_run ls s h
  have hcl : s.closing = none := by
    cases hc : s.closing with
    | none => rfl
    | some j => simp [writeTarget, hc] at hw
  have he : s.entry = some k := by simpa [writeTarget, hcl] using hw
  obtain ⟨o, ho, hko⟩ := hI.log hI.w
  cases o with
  | none => exact Or.inr ho
  | some j =>
    have hop : isOpen (phase s j) = true := (hko j).mpr rfl
    left
    rw [ho]
    cases hp : phase s j with
    | live =>
      have : s.entry = some j := (hI.act j).mp (by rw [hp]; rfl)
      rw [he] at this; cases this; rfl
    | closing1 =>
      have : s.entry = some j := (hI.act j).mp (by rw [hp]; rfl)
      rw [he] at this; cases this; rfl
    | closing2 =>
      have : s.closing = some j := (hI.clo j).mp (by rw [hp]; rfl)
      rw [hcl] at this; cases this
    | hs p => rw [hp] at hop; cases hop
    | announcing => rw [hp] at hop; cases hop
    | closing3 => rw [hp] at hop; cases hop
    | gone => rw [hp] at hop; cases hop

/-- the premise is satisfiable, in both ways: the announced connection, and a connection admitted but not announced yet -/
example : (runL {} [.accept, .wait 0, .announce 0]).map (fun s => (writeTarget true s, openOf s.log)) = some (some 0, some (some 0)) := by decide
example : (runL {} [.accept, .wait 0, .announce 0, .drop 0, .release 0, .accept, .discCb 0, .finish 0]).map
    (fun s => (writeTarget true s, openOf s.log)) = some (some 1, some none) := by decide

/-- the schedule rounds `c11_leak` force on the real server: connection 0 has released the id, its end is not reported
    yet, connection 1 is registered -/
def leakRun : List Label := [.accept, .wait 0, .announce 0, .drop 0, .release 0, .accept]

/-- the code as it is (`Write` consults the table only; open finding `leak/old-call-on-new-connection`): a write of the
    application, for which connection 0 is still the session of the id, reaches connection 1; with the candidate repair it would fail -/
theorem write_reaches_next_connection :
    (runL {} leakRun).map (fun s => (writeTarget false s, openOf s.log)) = some (some 1, some (some 0)) ∧
    (runL {} leakRun).map (writeTarget true) = some none := by decide

end C13Fine
