import OcppProps.C10Fine
import OcppProps.CDSim
import OcppModel.Expected
import OcppGen.Skeletons

/-!
# C10 — a client loses nothing across a disconnect / reconnect

"Disconnected" is the interval between the ws client's disconnected and reconnected callbacks. All statements
are about `Ocpp.CD` (quiescent semantics, any number of cycles — they hold in every reachable state).
-/

namespace C10
open Ocpp Ocpp.CD CDL CDS

/-- **no write while disconnected**, all histories: part of the refinement (`wrote` needs `paused = false`) -/
theorem no_write_while_paused (cap : Int) (evs : List Ev) (h : wf [] (CD.init cap) evs = true) :
    Mon.accepts {} (history (CD.init cap) evs) = true := by
  have := CDS.history_accepted evs [] (CD.init cap) (CDS.inv_init cap) h
  simpa [CDS.absM, CD.init] using this

/-- a disconnect keeps the queue and the outstanding request exactly as they are -/
theorem disconnect_retains (s : St) (hd : s.dead = false) :
    (step s .disconnect).1.q = s.q ∧ (step s .disconnect).1.pend = s.pend ∧ (step s .disconnect).2 = [] := by
  simp only [step, hd, Bool.false_eq_true, if_false]; split <;> simp

/-- requests may still be enqueued while disconnected; they are appended in order and nothing is written -/
theorem send_while_paused (used : List String) (s : St) (id : String) (hI : Inv used s) (hrun : s.running = true)
    (hpa : s.paused = true) (hfull : Gen.Guards.queuePushRejects s.q.length s.cap = false) :
    step s (.send id) = ({ s with q := s.q ++ [id] }, [.accepted id]) := by
  obtain ⟨running, connected, writeFails, paused, cap, q, pend, rdy, tok, armed, dead⟩ := s
  have ha := hI.alive
  simp only at ha hrun hpa hfull
  subst ha hrun hpa
  simp only [step, Bool.false_eq_true, if_false, Bool.not_true, hfull]
  rw [pumpTail_idle _ _ (Or.inl rfl)]

/-- after reconnection dispatching resumes with the **oldest** unsent request -/
theorem reconnect_resumes_oldest (used : List String) (s : St) (h : String) (r : List String) (hI : Inv used s)
    (hrun : s.running = true) (hp : s.pend = "") (hq : s.q = h :: r) (hw : s.writeFails = false) :
    (step s .reconnect).2 = [.wrote h] ∧ (step s .reconnect).1.pend = h ∧ (step s .reconnect).1.q = h :: r := by
  have ht : s.tok = 0 := hI.tok0 hrun
  have hh : h ≠ "" := hI.nonE h (by simp [hq])
  obtain ⟨running, connected, writeFails, paused, cap, q, pend, rdy, tok, armed, dead⟩ := s
  have ha := hI.alive
  simp only at ha hrun hp hq hw ht
  subst ha hrun hp hq hw ht
  simp [step, pumpReady, pumpTail, hh]

/-- a request outstanding when the connection dropped is still outstanding after the reconnect, with a fresh
    time-out running: the next `wait` cancels exactly it (and a late reply would conclude exactly it) -/
theorem outstanding_survives (used : List String) (s : St) (hI : Inv used s) (hrun : s.running = true)
    (hp : s.pend ≠ "") :
    let s1 := (step s .disconnect).1
    let s2 := (step s1 .reconnect).1
    s2.pend = s.pend ∧ s2.q = s.q ∧ s2.armed = true ∧ s2.paused = false ∧
    (step s1 .reconnect).2 = [] ∧ (step s2 .wait).2.head? = some (.cancel s.pend true) ∧
    (step s2 (.reply s.pend false)).2.head? = some (.resp s.pend) := by
  have hq := hI.pendHd hp
  obtain ⟨running, connected, writeFails, paused, cap, q, pend, rdy, tok, armed, dead⟩ := s
  obtain ⟨alive, tok0, pendHd, rdyIff, idle, nodup, nonE, usedQ, stop, armedP, pausedA⟩ := hI
  simp only at alive tok0 hrun hp hq
  subst alive hrun
  have ht : tok = 0 := by simpa using tok0
  subst ht
  cases q with
  | nil => simp at hq
  | cons h r =>
    simp only [List.head?_cons, Option.some.injEq] at hq
    subst hq
    simp [step, hp, pumpReady, pumpTail]

theorem skel_cdPause : Gen.Skeletons.cdPause = Ocpp.Expected.cdPause := by decide
theorem skel_cdResume : Gen.Skeletons.cdResume = Ocpp.Expected.cdResume := by decide
theorem skel_cdMessagePump : Gen.Skeletons.cdMessagePump = Ocpp.Expected.cdMessagePump := by decide
theorem skel_jcOnDisconnected : Gen.Skeletons.jcOnDisconnected = Ocpp.Expected.jcOnDisconnected := by decide
theorem skel_jcOnReconnected : Gen.Skeletons.jcOnReconnected = Ocpp.Expected.jcOnReconnected := by decide

/-! non-vacuity: two disconnect/reconnect cycles around an outstanding and two queued requests -/
example : (history (CD.init 0) [.start, .send "a", .disconnect, .send "b", .send "c", .reconnect, .disconnect,
    .reconnect, .reply "a" false, .wait]).map (·.2) =
    [[], [.accepted "a", .wrote "a"], [], [.accepted "b"], [.accepted "c"], [], [], [],
     [.resp "a", .wrote "b"], [.cancel "b" true, .wrote "c"]] := by decide

/-- the websocket client side of "disconnected": the loss of a connection is reported only after its (re)connection has
    been announced (repair 516d27f; monitor `c10_flap`) - fingerprints of the three functions involved -/
theorem skel_wsHandleReconnection : Gen.Skeletons.wsHandleReconnection = Ocpp.Expected.wsHandleReconnection := by decide
theorem skel_wsClientConnect : Gen.Skeletons.wsClientConnect = Ocpp.Expected.wsClientConnect := by decide
theorem skel_wsCleanup : Gen.Skeletons.wsCleanup = Ocpp.Expected.wsCleanup := by decide

/-! ### Below quiescence: the websocket client reports the loss of a connection only after that connection was announced
(`OcppProps/C10Fine.lean`, small-step model `Ocpp.WsCliAnn` after /repo 516d27f): ocppj.Client's `Pause` always follows the
`Resume` of the same connection -/

theorem fine_notifications_ordered (ls : List Ocpp.WsCliAnn.Label) (s : Ocpp.WsCliAnn.St) (h : Ocpp.WsCliAnn.runL {} ls = some s) :
    (Ocpp.WsCliAnn.ordOf s.log).isSome = true := C10Fine.notifications_ordered ls s h

/-- before 516d27f the loss of the new connection could be reported while its reconnected handler was still running
    (monitor `c10_flap` on the real client: dispatcher resumed while the link was down) -/
theorem fine_old_disc_overtakes :
    (Ocpp.WsCliAnn.runL { waitAnn := false } [.lose, .report, .annBegin, .lose, .report]).map (fun s => (s.log, Ocpp.WsCliAnn.ordOf s.log)) =
      some ([.disc 0, .annBegin 1, .disc 1], none) := C10Fine.old_disc_overtakes

example : (Ocpp.WsCliAnn.runL {} [.lose, .report, .annBegin, .lose, .annEnd, .report]).map (·.log) =
    some [.disc 0, .annBegin 1, .annEnd 1, .disc 1] := by decide

end C10
