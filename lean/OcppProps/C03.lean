import OcppModel.Respond
import OcppGen.Registry
import OcppModel.Expected
import OcppGen.Skeletons

/-!
# C03 — every incoming CALL gets exactly one reply with the same id

Decision logic stated outright, for every dialect, every knowledge/handler configuration, every handler outcome.
The id clause is structural: every path passes the CALL's `requestId` to `SendResponse` / `SendError` (pinned by
the T3 fingerprints below and replayed by monitor `c03_matrix`, which counts replies and compares ids on the real
endpoints for the whole feature × outcome × handler × role matrix). "The handler that runs is the one for the
CALL's action and receives the payload of that action" is the table lemma `dispatch_rows_coherent` over the
regenerated action switches (T1).
-/

namespace C03
open Ocpp Ocpp.Resp

/-- the property's table -/
def spec (d : Dialect) (cfg : Cfg) (out : Outcome) : Reply :=
  if !cfg.known || !cfg.handlerSet || !cfg.inSwitch then .error "NotSupported"
  else match out with
    | .valid => .result
    | .invalid tag =>
      if tag = "required" then .error (occurrenceCode d)
      else if tag = "max" ∨ tag = "min" ∨ tag = "gte" ∨ tag = "gt" ∨ tag = "lte" ∨ tag = "lt" then .error "PropertyConstraintViolation"
      else .error "GenericError"
    | .nilResp => .error "GenericError"
    | .plainError => .error "InternalError"
    | .ocppError code => if Gen.Guards.isErrorCodeValid code then .error code else .error "GenericError"

example : (answer { dialect := .v16, known := true, handlerSet := true, inSwitch := true } (.invalid "required")).1 =
    [.error "OccurenceConstraintViolation"] := by decide
example : (answer { dialect := .v2, known := true, handlerSet := true, inSwitch := true } (.ocppError "Bogus")).1 =
    [.error "GenericError"] := by decide

/-- the set of valid CALL_ERROR codes is exactly OCPP-J's (both dialect spellings) -/
theorem error_codes_exact (c : String) :
    Gen.Guards.isErrorCodeValid c = true ↔
      c ∈ ["NotImplemented", "NotSupported", "InternalError", "MessageTypeNotSupported", "ProtocolError", "SecurityError",
           "FormationViolation", "FormatViolation", "PropertyConstraintViolation", "OccurenceConstraintViolation",
           "OccurrenceConstraintViolation", "TypeConstraintViolation", "GenericError"] := by
  unfold Gen.Guards.isErrorCodeValid
  simp [or_assoc]

theorem vNS : Gen.Guards.isErrorCodeValid "NotSupported" = true := by decide
theorem vIE : Gen.Guards.isErrorCodeValid "InternalError" = true := by decide
theorem vGE : Gen.Guards.isErrorCodeValid "GenericError" = true := by decide
theorem vPC : Gen.Guards.isErrorCodeValid "PropertyConstraintViolation" = true := by decide
theorem vO16 : Gen.Guards.isErrorCodeValid "OccurenceConstraintViolation" = true := by decide
theorem vO2 : Gen.Guards.isErrorCodeValid "OccurrenceConstraintViolation" = true := by decide
theorem vcRequired : Gen.Guards.validationClass "required" = 1 := by decide
theorem vcErrorCode : Gen.Guards.validationClass "errorCode" = 0 := by decide

theorem vc2 (tag : String) (h : tag = "max" ∨ tag = "min" ∨ tag = "gte" ∨ tag = "gt" ∨ tag = "lte" ∨ tag = "lt") :
    Gen.Guards.validationClass tag = 2 := by
  rcases h with h | h | h | h | h | h <;> subst h <;> decide

theorem vc0 (tag : String) (h1 : tag ≠ "required")
    (h2 : ¬ (tag = "max" ∨ tag = "min" ∨ tag = "gte" ∨ tag = "gt" ∨ tag = "lte" ∨ tag = "lt")) :
    Gen.Guards.validationClass tag = 0 := by
  simp only [not_or] at h2
  simp [Gen.Guards.validationClass, h1, h2]

attribute [local irreducible] Gen.Guards.isErrorCodeValid

theorem sendError_sent (cfg : Cfg) (code : String) (hv : Gen.Guards.isErrorCodeValid code = true)
    (hw : cfg.writeOk = true) : sendError cfg code = .sent := by
  simp [sendError, hv, hw]

theorem sendError_invalid (cfg : Cfg) (code : String) (hv : Gen.Guards.isErrorCodeValid code = false) :
    sendError cfg code = .invalidCode := by
  simp [sendError, hv]

theorem codeOfTag_valid (d : Dialect) (tag : String) : Gen.Guards.isErrorCodeValid (codeOfTag d tag) = true := by
  unfold codeOfTag
  split
  · cases d <;> simp [occurrenceCode, vO16, vO2]
  · exact vPC
  · exact vGE

attribute [local irreducible] Gen.Guards.validationClass

theorem fallback_invalid (cfg : Cfg) (tag : String) (hw : cfg.writeOk = true) :
    fallback cfg .sent (some tag) = [.error (codeOfTag cfg.dialect tag)] := by
  unfold fallback
  simp only [sendError_sent cfg _ (codeOfTag_valid cfg.dialect tag) hw]

theorem codeOfTag_errorCode (d : Dialect) : codeOfTag d "errorCode" = "GenericError" := by
  unfold codeOfTag; rw [vcErrorCode]; rfl

theorem fallback_invalidCode (cfg : Cfg) (hw : cfg.writeOk = true) :
    fallback cfg .invalidCode none = [.error "GenericError"] := by
  unfold fallback
  simp only [codeOfTag_errorCode, sendError_sent cfg "GenericError" vGE hw]

theorem fallback_len (cfg : Cfg) (why : SendRes) (t : Option String) : (fallback cfg why t).length ≤ 1 := by
  unfold fallback; simp only; split <;> simp

/-- **exactly one reply, the one the table prescribes**, with a working connection — for every configuration
    and outcome (all strings `tag`, `code`) -/
theorem exactly_one_reply (cfg : Cfg) (out : Outcome) (hw : cfg.writeOk = true) :
    (answer cfg out).1 = [spec cfg.dialect cfg out] := by
  obtain ⟨d, known, hset, isw, w⟩ := cfg
  generalize hcfg : ({ dialect := d, known := known, handlerSet := hset, inSwitch := isw, writeOk := w } : Cfg) = cfg at *
  have e1 : cfg.known = known := by subst hcfg; rfl
  have e2 : cfg.handlerSet = hset := by subst hcfg; rfl
  have e3 : cfg.inSwitch = isw := by subst hcfg; rfl
  by_cases hk : (!cfg.known || !cfg.handlerSet || !cfg.inSwitch) = true
  · have hs : spec cfg.dialect cfg out = .error "NotSupported" := by simp only [spec, hk, if_true]
    rw [hs]
    unfold answer
    simp only [sendError_sent cfg "NotSupported" vNS hw]
    simp only [Bool.or_eq_true, Bool.not_eq_true'] at hk
    rw [e1, e2, e3] at hk ⊢
    cases known <;> cases hset <;> cases isw <;> simp_all
  · have hk' : cfg.known = true ∧ cfg.handlerSet = true ∧ cfg.inSwitch = true := by
      simp only [Bool.or_eq_true, Bool.not_eq_true', not_or, Bool.not_eq_false] at hk
      exact ⟨hk.1.1, hk.1.2, hk.2⟩
    unfold answer spec
    simp only [hk'.1, hk'.2.1, hk'.2.2, Bool.not_true, Bool.or_self, Bool.false_eq_true, if_false]
    cases out with
    | valid => simp [hw]
    | nilResp => simp [sendError_sent cfg "GenericError" vGE hw]
    | plainError => simp [sendError_sent cfg "InternalError" vIE hw]
    | ocppError code =>
      simp only
      by_cases hc : Gen.Guards.isErrorCodeValid code = true
      · simp only [sendError_sent cfg code hc hw, hc, if_true]
      · have hc' : Gen.Guards.isErrorCodeValid code = false := Bool.eq_false_iff.mpr hc
        simp only [sendError_invalid cfg code hc', fallback_invalidCode cfg hw, hc', Bool.false_eq_true, if_false]
    | invalid tag =>
      simp only [fallback_invalid cfg tag hw]
      by_cases h1 : tag = "required"
      · subst h1; simp [codeOfTag, vcRequired]
      · by_cases h2 : tag = "max" ∨ tag = "min" ∨ tag = "gte" ∨ tag = "gt" ∨ tag = "lte" ∨ tag = "lt"
        · simp [codeOfTag, vc2 tag h2, h1, h2]
        · simp [codeOfTag, vc0 tag h1 h2, h1, h2]

/-- the handler runs exactly when the action is known, its profile's handler is set and this role receives it -/
theorem handler_runs_iff (cfg : Cfg) (out : Outcome) :
    (answer cfg out).2 = (cfg.known && cfg.handlerSet && cfg.inSwitch) := by
  unfold answer
  cases cfg.known <;> cases cfg.handlerSet <;> cases cfg.inSwitch <;> simp <;> cases out <;> simp

/-- never more than one reply, whatever the connection does; without a working connection possibly none -/
theorem at_most_one_reply (cfg : Cfg) (out : Outcome) : (answer cfg out).1.length ≤ 1 := by
  have herr : ∀ code, (match sendError cfg code with | .sent => [Reply.error code] | _ => ([] : List Reply)).length ≤ 1 := by
    intro code; generalize sendError cfg code = r; cases r <;> simp
  have hfb : ∀ code, (match sendError cfg code with | .sent => [Reply.error code] | why => fallback cfg why none).length ≤ 1 := by
    intro code
    generalize sendError cfg code = r
    cases r with
    | sent => simp
    | invalidCode => exact fallback_len _ _ _
    | writeFailed => exact fallback_len _ _ _
  unfold answer
  simp only
  by_cases h1 : (!cfg.known) = true
  · simp only [h1, if_true]; exact herr _
  by_cases h2 : (!cfg.handlerSet) = true
  · simp only [h1, h2, if_true, if_false]; exact herr _
  by_cases h3 : (!cfg.inSwitch) = true
  · simp only [h1, h2, h3, if_true, if_false]; exact herr _
  have h1' : (!cfg.known) = false := by simpa using h1
  have h2' : (!cfg.handlerSet) = false := by simpa using h2
  have h3' : (!cfg.inSwitch) = false := by simpa using h3
  simp only [h1', h2', h3', Bool.false_eq_true, if_false]
  cases out with
  | valid => simp only; cases cfg.writeOk
             · simp only [Bool.false_eq_true, if_false]; exact fallback_len _ _ _
             · simp
  | nilResp => exact herr _
  | plainError => exact hfb _
  | ocppError code => exact hfb _
  | invalid tag => simp only; exact fallback_len _ _ _

/-- every error code the decision logic itself can choose is a valid OCPP-J error code (so the fallback of the
    fallback is never needed) -/
theorem own_codes_valid (d : Dialect) (tag : String) :
    Gen.Guards.isErrorCodeValid (codeOfTag d tag) = true ∧ Gen.Guards.isErrorCodeValid "NotSupported" = true ∧
    Gen.Guards.isErrorCodeValid "InternalError" = true ∧ Gen.Guards.isErrorCodeValid "GenericError" = true :=
  ⟨codeOfTag_valid d tag, vNS, vIE, vGE⟩

/-- the dispatch tables: for every row of every role's action switch, the asserted request type is the
    feature's request type, the handler field is the one the profile switch tested for nil, and the method
    belongs to that profile's handler interface with that parameter type; no action has two rows -/
theorem dispatch_rows_coherent : Gen.R16.reg.chkDispatch = true ∧ Gen.R201.reg.chkDispatch = true := by
  constructor <;> decide

/-- receive switch = what the peer may send (so "not in switch" is exactly "not a feature this role receives") -/
theorem recv_is_peer_send : Gen.R16.reg.chkRecvPeer = true ∧ Gen.R201.reg.chkRecvPeer = true := by
  constructor <;> decide

theorem skel_jcMessageHandler : Gen.Skeletons.jcMessageHandler = Ocpp.Expected.jcMessageHandler := by decide
theorem skel_jsMessageHandler : Gen.Skeletons.jsMessageHandler = Ocpp.Expected.jsMessageHandler := by decide
theorem skel_jcSendResponse : Gen.Skeletons.jcSendResponse = Ocpp.Expected.jcSendResponse := by decide
theorem skel_jcSendError : Gen.Skeletons.jcSendError = Ocpp.Expected.jcSendError := by decide
theorem skel_jsSendResponse : Gen.Skeletons.jsSendResponse = Ocpp.Expected.jsSendResponse := by decide
theorem skel_jsSendError : Gen.Skeletons.jsSendError = Ocpp.Expected.jsSendError := by decide
theorem skel_jcHandleFailed : Gen.Skeletons.jcHandleFailedResponse = Ocpp.Expected.jcHandleFailedResponse := by decide
theorem skel_jsHandleFailed : Gen.Skeletons.jsHandleFailedResponse = Ocpp.Expected.jsHandleFailedResponse := by decide
theorem skel_errorFromValidation : Gen.Skeletons.errorFromValidation = Ocpp.Expected.errorFromValidation := by decide
theorem skel_createCallError : Gen.Skeletons.createCallError = Ocpp.Expected.createCallError := by decide
theorem skel_createCallResult : Gen.Skeletons.createCallResult = Ocpp.Expected.createCallResult := by decide
theorem skel_cpSendResponse16 : Gen.Skeletons.cpSendResponse16 = Ocpp.Expected.cpSendResponse16 := by decide
theorem skel_csSendResponse16 : Gen.Skeletons.csSendResponse16 = Ocpp.Expected.csSendResponse16 := by decide
theorem skel_cpSendResponse201 : Gen.Skeletons.cpSendResponse201 = Ocpp.Expected.cpSendResponse201 := by decide
theorem skel_csSendResponse201 : Gen.Skeletons.csSendResponse201 = Ocpp.Expected.csSendResponse201 := by decide
theorem skel_cpHandleIncoming16 : Gen.Skeletons.cpHandleIncoming16 = Ocpp.Expected.cpHandleIncoming16 := by decide
theorem skel_csHandleIncoming16 : Gen.Skeletons.csHandleIncoming16 = Ocpp.Expected.csHandleIncoming16 := by decide
theorem skel_cpHandleIncoming201 : Gen.Skeletons.cpHandleIncoming201 = Ocpp.Expected.cpHandleIncoming201 := by decide
theorem skel_csHandleIncoming201 : Gen.Skeletons.csHandleIncoming201 = Ocpp.Expected.csHandleIncoming201 := by decide


end C03
