import OcppProps.Civil.Check
set_option maxHeartbeats 4000000 in
set_option maxRecDepth 1000000 in
theorem Civil.chunk9 : Civil.allRange 131490 14607 Civil.chkN = true := by decide +kernel
