/-!
Finite kernel check behind the civil-date lemmas of C20: for every day-of-era `doe < 146097` (one full
400-year Gregorian cycle) the year/month/day decomposition used by `civilFromDays` is in range.
The quantifier is a finite table; it is decided completely by the kernel (`decide +kernel`) in ten chunks
(`Chunk0 … Chunk9`, built in parallel) and lifted to all `doe` by `allRange_spec`.
-/
namespace Civil

def allRange : Nat → Nat → (Nat → Bool) → Bool
  | _, 0, _ => true
  | lo, n + 1, p => p (lo + n) && allRange lo n p

theorem allRange_spec (lo n : Nat) (p : Nat → Bool) (h : allRange lo n p = true) :
    ∀ i, lo ≤ i → i < lo + n → p i = true := by
  induction n with
  | zero => intro i h1 h2; omega
  | succ n ih =>
    intro i h1 h2
    simp [allRange] at h
    by_cases e : i = lo + n
    · subst e; exact h.1
    · exact ih h.2 i h1 (by omega)

def leapN (ym : Nat) : Bool := Nat.beq (ym % 4) 0 && (!(Nat.beq (ym % 100) 0) || Nat.beq (ym % 400) 0)

def daysInN (m ym : Nat) : Nat :=
  bif Nat.beq m 2 then (bif leapN ym then 29 else 28)
  else bif (Nat.beq m 4 || Nat.beq m 6 || Nat.beq m 9 || Nat.beq m 11) then 30 else 31

def chkN (doe : Nat) : Bool :=
  let yoe := (doe - doe / 1460 + doe / 36524 - doe / 146096) / 365
  let ys := 365 * yoe + yoe / 4 - yoe / 100
  let doy := doe - ys
  let mp := (5 * doy + 2) / 153
  let ms := (153 * mp + 2) / 5
  let d := doy - ms + 1
  let m := bif Nat.blt mp 10 then mp + 3 else mp - 9
  let ym := (yoe + (bif Nat.ble m 2 then 1 else 0)) % 400
  Nat.ble (doe / 146096) (doe - doe / 1460 + doe / 36524) &&
  Nat.blt yoe 400 && Nat.ble ys doe && Nat.ble (yoe / 100) (365 * yoe + yoe / 4) && Nat.ble doy 365 &&
  Nat.ble ms doy && Nat.ble d (daysInN m ym)

end Civil
