import OcppProps.Civil.Check
import OcppProps.Civil.Chunk0
import OcppProps.Civil.Chunk1
import OcppProps.Civil.Chunk2
import OcppProps.Civil.Chunk3
import OcppProps.Civil.Chunk4
import OcppProps.Civil.Chunk5
import OcppProps.Civil.Chunk6
import OcppProps.Civil.Chunk7
import OcppProps.Civil.Chunk8
import OcppProps.Civil.Chunk9

namespace Civil

/-- the finite table, completely decided: every day of the 400-year era passes the check -/
theorem chk_all (n : Nat) (h : n < 146097) : chkN n = true := by
  have h0 := allRange_spec _ _ _ chunk0 n
  have h1 := allRange_spec _ _ _ chunk1 n
  have h2 := allRange_spec _ _ _ chunk2 n
  have h3 := allRange_spec _ _ _ chunk3 n
  have h4 := allRange_spec _ _ _ chunk4 n
  have h5 := allRange_spec _ _ _ chunk5 n
  have h6 := allRange_spec _ _ _ chunk6 n
  have h7 := allRange_spec _ _ _ chunk7 n
  have h8 := allRange_spec _ _ _ chunk8 n
  have h9 := allRange_spec _ _ _ chunk9 n
  by_cases c0 : n < 14610; · exact h0 (by omega) (by omega)
  by_cases c1 : n < 29220; · exact h1 (by omega) (by omega)
  by_cases c2 : n < 43830; · exact h2 (by omega) (by omega)
  by_cases c3 : n < 58440; · exact h3 (by omega) (by omega)
  by_cases c4 : n < 73050; · exact h4 (by omega) (by omega)
  by_cases c5 : n < 87660; · exact h5 (by omega) (by omega)
  by_cases c6 : n < 102270; · exact h6 (by omega) (by omega)
  by_cases c7 : n < 116880; · exact h7 (by omega) (by omega)
  by_cases c8 : n < 131490; · exact h8 (by omega) (by omega)
  exact h9 (by omega) (by omega)

end Civil
