import OcppProps.Civil.Check
set_option maxHeartbeats 4000000 in
set_option maxRecDepth 1000000 in
theorem Civil.chunk1 : Civil.allRange 14610 14610 Civil.chkN = true := by decide +kernel
