import OcppProps.Civil.Check
set_option maxHeartbeats 4000000 in
set_option maxRecDepth 1000000 in
theorem Civil.chunk5 : Civil.allRange 73050 14610 Civil.chkN = true := by decide +kernel
