import OcppModel.L3Restart

/-!
# C16 / C01 at the protocol layer: outcomes and callbacks across Stop and Start (every interleaving)

Small-step model `Ocpp.L3Restart` of charge point / charging station after /repo eacc875 and 656d0b0.
`deliveries_match_partial`: under the two assumptions the model can switch off, every outcome is handed to the callback of
its own request, for every interleaving of sends, answers, the callback goroutines, `Stop` and `Start` — in particular
nothing of a stopped session reaches a callback of a later one. **Partial**: the assumptions are not guaranteed by the
code. `without_priority` and `without_atomic_take` are kernel-evaluated interleavings of the model in which they fail and
an outcome goes to a foreign callback; both need a goroutine to be pre-empted between two adjacent statements across a
restart and were **not** reproduced on the implementation (no gate exists between the channel receive and `Dequeue`).
`old_*` = the code before the two repairs (reproduced by monitor `c16_restart` / rounds `c16_inflight`).
-/
namespace L3Fine
open Ocpp.L3Restart

def curHeld (s : St) : List Tag :=
  match s.cur with
  | some (.holding o) => [o]
  | _ => []

structure Inv (s : St) : Prop where
  a : s.atomicTake = true
  p : s.prio = true
  d : s.drain = true
  olds : ∀ q ∈ s.olds, isHolding q.2 = false
  align : curHeld s ++ s.chan ++ s.out.map (fun r => (s.sess, r)) = s.cbs
  off : s.cur = none → s.chan = [] ∧ s.cbs = [] ∧ s.out = []
  logm : matched s = true

theorem inv_init : Inv {} := by
  refine ⟨rfl, rfl, rfl, ?_, ?_, ?_, ?_⟩ <;> simp [curHeld, matched]

theorem setO_notHolding {s : St} (h : ∀ q ∈ s.olds, isHolding q.2 = false) (k : Nat) (x : H) (hx : isHolding x = false) :
    ∀ q ∈ setO s k x, isHolding q.2 = false := by
  intro q hq
  simp only [setO, List.mem_map] at hq
  obtain ⟨p, hp, e⟩ := hq
  by_cases c : (p.1 == k) = true
  · simp only [c, if_true] at e; rw [← e]; exact hx
  · simp only [c, Bool.false_eq_true, if_false] at e; rw [← e]; exact h p hp

theorem ostate_mem {s : St} {k : Nat} {x : H} (h : ostate s k = some x) : ∃ q ∈ s.olds, q.2 = x := by
  simp only [ostate, Option.map_eq_some_iff] at h
  obtain ⟨q, hq, e⟩ := h
  exact ⟨q, List.mem_of_find?_eq_some hq, e⟩

theorem inv_step {s s' : St} (h : Inv s) (l : Label) (hs : step s l = some s') : Inv s' := by
  have ha := h.a
  have hp := h.p
  cases l <;> simp only [step] at hs
  case start =>
    split at hs
    · cases hs
    · rename_i hc
      cases hs
      have hn : s.cur = none := by cases hcur : s.cur <;> simp_all
      obtain ⟨h1, h2, h3⟩ := h.off hn
      refine ⟨ha, hp, h.d, h.olds, ?_, (by intro e; cases e), h.logm⟩
      simp [curHeld, h1, h2, h3]
  case stop =>
    cases hcur : s.cur with
    | none => simp [hcur] at hs
    | some x =>
      simp only [hcur] at hs
      split at hs
      · cases hs
      · rename_i hc
        cases hs
        have hx : isHolding x = false := by
          cases hh : isHolding x
          · rfl
          · simp [ha, hh] at hc
        refine ⟨ha, hp, h.d, ?_, (by simp [curHeld, h.d]), (by intro _; simp [h.d]), h.logm⟩
        intro q hq
        rcases List.mem_cons.mp hq with e | e
        · rw [e]; exact hx
        · exact h.olds q e
  case send =>
    split at hs
    · cases hs
    · rename_i hc
      cases hs
      refine ⟨ha, hp, h.d, h.olds, ?_, ?_, h.logm⟩
      · have := h.align
        simp only [curHeld] at this ⊢
        simp only [List.map_append, List.map_cons, List.map_nil]
        rw [← this]; simp [List.append_assoc]
      · intro e; exact absurd e (by simpa using hc)
  case answer =>
    cases ho : s.out with
    | nil => simp [ho] at hs
    | cons r rest =>
      simp only [ho] at hs
      split at hs
      · rename_i hc
        cases hs
        refine ⟨ha, hp, h.d, h.olds, ?_, ?_, h.logm⟩
        · have := h.align
          rw [ho] at this
          simp only [curHeld] at this ⊢
          rw [← this]; simp [List.append_assoc]
        · intro e; have e' : s.cur = none := e; simp [e'] at hc
      · cases hs
  case take =>
    cases hcur : s.cur with
    | none => simp [hcur] at hs
    | some x =>
      cases x <;> simp only [hcur] at hs
      case idle =>
        cases hch : s.chan with
        | nil => simp [hch] at hs
        | cons o rest =>
          simp only [hch] at hs; cases hs
          refine ⟨ha, hp, h.d, h.olds, ?_, (by intro e; cases e), h.logm⟩
          have := h.align
          simp only [curHeld, hcur, hch] at this ⊢
          simpa using this
      all_goals cases hs
  case deliver =>
    cases hcur : s.cur with
    | none => simp [hcur] at hs
    | some x =>
      cases x <;> simp only [hcur] at hs
      case holding o =>
        have hal := h.align
        simp only [curHeld, hcur] at hal
        cases hcb : s.cbs with
        | nil => rw [hcb] at hal; simp at hal
        | cons c rest =>
          simp only [hcb] at hs; cases hs
          rw [hcb] at hal
          simp only [List.singleton_append, List.cons_append, List.cons.injEq] at hal
          refine ⟨ha, hp, h.d, h.olds, ?_, (by intro e; cases e), ?_⟩
          · simp only [curHeld]; simpa using hal.2
          · have := h.logm
            simp only [matched, List.all_append, List.all_cons, List.all_nil, Bool.and_true, Bool.and_eq_true] at this ⊢
            exact ⟨this, by simp [hal.1]⟩
      all_goals cases hs
  case ret =>
    cases hcur : s.cur with
    | none => simp [hcur] at hs
    | some x =>
      cases x <;> simp only [hcur] at hs
      case busy =>
        cases hs
        refine ⟨ha, hp, h.d, h.olds, ?_, (by intro e; cases e), h.logm⟩
        have := h.align
        simpa [curHeld, hcur] using this
      all_goals cases hs
  case otake k =>
    -- with `prio` the goroutine of a stopped session takes nothing
    split at hs
    · simp [hp] at hs
    · cases hs
  case odeliver k =>
    cases hst : ostate s k with
    | none => simp [hst] at hs
    | some x =>
      cases x <;> simp only [hst] at hs
      case holding o =>
        obtain ⟨q, hq, e⟩ := ostate_mem hst
        have := h.olds q hq
        rw [e] at this; simp [isHolding] at this
      all_goals cases hs
  case oret k =>
    cases hst : ostate s k with
    | none => simp [hst] at hs
    | some x =>
      cases x <;> simp only [hst] at hs
      case busy =>
        cases hs
        exact ⟨ha, hp, h.d, setO_notHolding h.olds k .idle rfl, h.align, h.off, h.logm⟩
      all_goals cases hs
  case oexit k =>
    cases hst : ostate s k with
    | none => simp [hst] at hs
    | some x =>
      cases x <;> simp only [hst] at hs
      case idle =>
        cases hs
        exact ⟨ha, hp, h.d, fun q hq => h.olds q (List.mem_filter.mp hq).1, h.align, h.off, h.logm⟩
      all_goals cases hs

theorem inv_run (ls : List Label) (s : St) (h : runL {} ls = some s) : Inv s := by
  suffices ∀ (s0 : St), Inv s0 → ∀ ls s, runL s0 ls = some s → Inv s from this _ inv_init ls s h
  intro s0 h0 ls
  induction ls generalizing s0 with
  | nil => intro s h; simp [runL] at h; subst h; exact h0
  | cons l ls ih =>
    intro s h
    simp only [runL] at h
    cases hst : step s0 l with
    | none => simp [hst] at h
    | some s1 => simp only [hst] at h; exact ih s1 (inv_step h0 l hst) s h

/-- **partial** (two assumptions about pre-emption, see the header): every outcome is handed to the callback of its own
    request, whatever the interleaving of sends, answers, callback goroutines, `Stop` and `Start` -/
theorem deliveries_match_partial (ls : List Label) (s : St) (h : runL {} ls = some s) : matched s = true :=
  (inv_run ls s h).logm

/-- after `Stop` nothing of the session is left: no callback, no outcome, no outstanding request -/
theorem stop_leaves_nothing (ls : List Label) (s : St) (h : runL {} ls = some s) (hc : s.cur = none) :
    s.chan = [] ∧ s.cbs = [] ∧ s.out = [] := (inv_run ls s h).off hc

/-- assumption `prio` dropped (the code as it is: `select` may pick the outcome channel although the stop channel is
    closed): the goroutine of the stopped session and the new one both hold an outcome and deliver in the other order -/
theorem without_priority :
    (runL { prio := false } [.start, .send, .answer, .take, .deliver, .stop, .start, .send, .answer, .oret 1, .otake 1,
      .send, .answer, .take, .deliver, .odeliver 1]).map matched = some false := by decide

/-- assumption `atomicTake` dropped: `Stop` + `Start` + a send between the channel receive and the `Dequeue` of a goroutine -/
theorem without_atomic_take :
    (runL { atomicTake := false } [.start, .send, .answer, .take, .stop, .start, .send, .odeliver 1]).map matched = some false := by
  decide

/-- before 656d0b0 (`Stop` left the outcomes in the channel): the new session's goroutine hands the stale outcome of r1 to the
    callback of the new session's first request (rounds `c16_inflight` on the implementation) -/
theorem old_stale_outcome :
    (runL { drain := false } [.start, .send, .answer, .take, .deliver, .send, .answer, .stop, .start, .send, .take, .deliver]).map
      (fun s => (s.log, matched s)) = some ([((1, 0), (1, 0)), ((1, 1), (2, 2))], false) := by decide

/-- non-vacuity: a restart with a busy goroutine and traffic in both sessions -/
example : (runL {} [.start, .send, .send, .answer, .take, .deliver, .stop, .start, .send, .answer, .oret 1, .oexit 1, .take, .deliver]).map
    (fun s => (s.log, matched s)) = some ([((1, 0), (1, 0)), ((2, 2), (2, 2))], true) := by decide

end L3Fine
