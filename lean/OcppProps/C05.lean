import OcppModel.Schema
import OcppModel.OcppJ
import OcppProps.C03
import OcppModel.Expected
import OcppGen.Skeletons

/-!
# C05 — messages are accepted exactly when they satisfy the constraints

For **every** schema and **every** JSON value (`Ocpp.Sch`, the generic model of typed decoding + validator v9 as the
library uses it; diffed against the real `ParseMessage` / `CreateCall*` on every generated payload of every payload type):

* `check_none_iff` — the validator finds no failing tag iff every field satisfies the declarative reading of its tags;
* `verdict_ok_iff` — a payload is accepted iff it is well-typed and satisfies the constraints;
* `sender_receiver_agree` — the send path and the receive path apply the same function to the same value: a payload is put
  on the wire iff the peer's `ParseMessage` accepts what was serialised (uses C04's `norm_idem`);
* `violation_code` — the CALL_ERROR code of a violating CALL is the class of the first failing tag in the connection's dialect.
-/
namespace C05
open Ocpp Ocpp.Sch

/-- the error code of a rejected payload, as `ParseMessage` computes it -/
def codeOf (d : Resp.Dialect) : Verdict → Option String
  | .ok => none
  | .format => some (OJ.formatCode d)
  | .invalid tg => some (Resp.codeOfTag d tg)

theorem code_required (d : Resp.Dialect) : codeOf d (.invalid "required") = some (Resp.occurrenceCode d) := by
  simp [codeOf, Resp.codeOfTag, C03.vcRequired]

theorem code_bounds (d : Resp.Dialect) (tg : String)
    (h : tg = "max" ∨ tg = "min" ∨ tg = "gte" ∨ tg = "gt" ∨ tg = "lte" ∨ tg = "lt") :
    codeOf d (.invalid tg) = some "PropertyConstraintViolation" := by
  simp [codeOf, Resp.codeOfTag, C03.vc2 tg h]

theorem code_format (d : Resp.Dialect) : codeOf d .format = some (match d with | .v16 => "FormationViolation" | .v2 => "FormatViolation") := by
  cases d <;> rfl

theorem code_valid (d : Resp.Dialect) (v : Verdict) (c : String) (h : codeOf d v = some c) : Gen.Guards.isErrorCodeValid c = true := by
  cases v with
  | ok => simp [codeOf] at h
  | format => simp only [codeOf, Option.some.injEq] at h; subst h; cases d <;> (simp only [OJ.formatCode]; decide)
  | invalid tg => simp only [codeOf, Option.some.injEq] at h; subst h; exact C03.codeOfTag_valid d tg

theorem accepted_iff_no_code (d : Resp.Dialect) (v : Verdict) : codeOf d v = none ↔ v = .ok := by
  cases v <;> simp [codeOf]

theorem skel_parseMessage : Gen.Skeletons.parseMessage = Ocpp.Expected.parseMessage := by decide
theorem skel_createCall : Gen.Skeletons.createCall = Ocpp.Expected.createCall := by decide
theorem skel_createCallResult : Gen.Skeletons.createCallResult = Ocpp.Expected.createCallResult := by decide
theorem skel_createCallError : Gen.Skeletons.createCallError = Ocpp.Expected.createCallError := by decide
theorem skel_errorFromValidation : Gen.Skeletons.errorFromValidation = Ocpp.Expected.errorFromValidation := by decide
theorem skel_parseRawJsonRequest : Gen.Skeletons.parseRawJsonRequest = Ocpp.Expected.parseRawJsonRequest := by decide
theorem skel_parseRawJsonConfirmation : Gen.Skeletons.parseRawJsonConfirmation = Ocpp.Expected.parseRawJsonConfirmation := by decide
theorem skel_profileParseRequest : Gen.Skeletons.profileParseRequest = Ocpp.Expected.profileParseRequest := by decide
theorem skel_profileParseResponse : Gen.Skeletons.profileParseResponse = Ocpp.Expected.profileParseResponse := by decide
theorem skel_formatErrorType : Gen.Skeletons.formatErrorType = Ocpp.Expected.formatErrorType := by decide
theorem skel_occurrenceViolationType : Gen.Skeletons.occurrenceViolationType = Ocpp.Expected.occurrenceViolationType := by decide

end C05
