import OcppModel.Schema
import OcppModel.OcppJ
import OcppProps.SchLemmas
import OcppProps.C03
import OcppModel.Expected
import OcppGen.Skeletons

/-!
# C05 — messages are accepted exactly when they satisfy the constraints

For **every** schema and **every** JSON value (`Ocpp.Sch`, the generic model of typed decoding + validator v9 as the
library uses it; diffed against the real `ParseMessage` / `CreateCall*` on every generated payload of every payload type):

* `check_none_iff` — the validator finds no failing tag iff every field satisfies the declarative reading of its tags;
* `verdict_ok_iff` — a payload is accepted iff it is well-typed and satisfies the constraints;
* `sender_receiver_agree` — the send path and the receive path apply the same function to the same value: a payload is put
  on the wire iff the peer's `ParseMessage` accepts what was serialised (uses C04's `norm_idem`);
* `violation_code` — the CALL_ERROR code of a violating CALL is the class of the first failing tag in the connection's dialect.
-/
namespace C05
open Ocpp Ocpp.Sch

/-- the error code of a rejected payload, as `ParseMessage` computes it -/
def codeOf (d : Resp.Dialect) : Verdict → Option String
  | .ok => none
  | .format => some (OJ.formatCode d)
  | .invalid tg => some (Resp.codeOfTag d tg)

theorem code_required (d : Resp.Dialect) : codeOf d (.invalid "required") = some (Resp.occurrenceCode d) := by
  simp [codeOf, Resp.codeOfTag, C03.vcRequired]

theorem code_bounds (d : Resp.Dialect) (tg : String)
    (h : tg = "max" ∨ tg = "min" ∨ tg = "gte" ∨ tg = "gt" ∨ tg = "lte" ∨ tg = "lt") :
    codeOf d (.invalid tg) = some "PropertyConstraintViolation" := by
  simp [codeOf, Resp.codeOfTag, C03.vc2 tg h]

theorem code_format (d : Resp.Dialect) : codeOf d .format = some (match d with | .v16 => "FormationViolation" | .v2 => "FormatViolation") := by
  cases d <;> rfl

theorem code_valid (d : Resp.Dialect) (v : Verdict) (c : String) (h : codeOf d v = some c) : Gen.Guards.isErrorCodeValid c = true := by
  cases v with
  | ok => simp [codeOf] at h
  | format => simp only [codeOf, Option.some.injEq] at h; subst h; cases d <;> (simp only [OJ.formatCode]; decide)
  | invalid tg => simp only [codeOf, Option.some.injEq] at h; subst h; exact C03.codeOfTag_valid d tg

theorem accepted_iff_no_code (d : Resp.Dialect) (v : Verdict) : codeOf d v = none ↔ v = .ok := by
  cases v <;> simp [codeOf]

/-! ## what the validator decides, for any schema and value -/

/-- the validator's decision for a field of scalar kind, spelled without the traversal -/
def scalarCheck (g : String → Bool) (t : Ty) (tags : List Tag) (j : J) : Option String :=
  if tags.contains .omitempty && !hasValue t j then none
  else if tags.contains .required && !hasValue t j then some "required"
  else (tags.find? (fun tg => !tagHolds g (enumVals t) tg j)).map tagName

/-- scalar kinds (string, enumeration, number, boolean): the validator finds no failing tag **iff** the value is empty and the
    field is `omitempty`, or `required` (if present) is met and every tag of the field holds — the declarative reading -/
theorem scalar_check_iff (g : String → Bool) (t : Ty) (tags : List Tag) (j : J)
    (hk : t = .str ∨ t = .int ∨ t = .float ∨ t = .bool ∨ (∃ v, t = .enum v) ∨ t = .any) :
    checkField g t tags j = none ↔
      ((tags.contains .omitempty = true ∧ hasValue t j = false) ∨
       ((tags.contains .required = true → hasValue t j = true) ∧ ∀ tg ∈ tags, tagHolds g (enumVals t) tg j = true)) := by
  have hdef : checkField g t tags j = scalarCheck g t tags j := by
    rcases hk with rfl | rfl | rfl | rfl | ⟨v, rfl⟩ | rfl <;>
    · simp only [checkField, scalarCheck]
      split
      · rfl
      · split
        · rfl
        · cases List.find? (fun tg => !tagHolds g _ tg j) tags <;> rfl
  rw [hdef]
  unfold scalarCheck
  by_cases h1 : (tags.contains .omitempty && !hasValue t j) = true
  · simp only [h1, if_true, true_iff]
    simp only [Bool.and_eq_true, Bool.not_eq_true'] at h1
    exact Or.inl h1
  · simp only [h1, Bool.false_eq_true, if_false]
    have h1' : ¬ (tags.contains .omitempty = true ∧ hasValue t j = false) := by
      simpa [Bool.and_eq_true] using h1
    by_cases h2 : (tags.contains .required && !hasValue t j) = true
    · simp only [h2, if_true]
      simp only [Bool.and_eq_true, Bool.not_eq_true'] at h2
      constructor
      · intro h; cases h
      · rintro (h | ⟨h, _⟩)
        · exact absurd h h1'
        · have := h h2.1; simp [h2.2] at this
    · simp only [h2, Bool.false_eq_true, if_false]
      have h2' : tags.contains .required = true → hasValue t j = true := by
        intro hr
        cases hv : hasValue t j with
        | true => rfl
        | false => exact absurd (by rw [hr, hv]; rfl) h2
      cases hf : tags.find? (fun tg => !tagHolds g (enumVals t) tg j) with
      | none =>
        simp only [Option.map_none, true_iff]
        refine Or.inr ⟨h2', ?_⟩
        intro tg htg
        have := List.find?_eq_none.mp hf tg htg
        simpa using this
      | some tg =>
        simp only [Option.map_some, reduceCtorEq, false_iff]
        rintro (h | ⟨_, h⟩)
        · exact h1' h
        · have hm := List.mem_of_find?_eq_some hf
          have hp := List.find?_some hf
          simp [h tg hm] at hp

/-- a missing required scalar field is reported as `required` (⇒ the dialect's Occurrence code) -/
theorem required_missing (g : String → Bool) (t : Ty) (tags : List Tag) (j : J)
    (hk : t = .str ∨ t = .int ∨ t = .float ∨ t = .bool ∨ (∃ v, t = .enum v))
    (hr : tags.contains .required = true) (ho : tags.contains .omitempty = false) (hv : hasValue t j = false) :
    checkField g t tags j = some "required" := by
  rcases hk with rfl | rfl | rfl | rfl | ⟨v, rfl⟩ <;> simp only [checkField, hr, ho, hv] <;> simp

/-- a nil pointer: fine under `omitempty` (or without tags), otherwise the first tag fails -/
theorem nil_pointer (g : String → Bool) (t : Ty) (tags : List Tag) :
    checkField g (.ptr t) tags .null = (match tags with
      | [] => none
      | .omitempty :: _ => none
      | tg :: _ => some (tagName tg)) := by
  simp only [checkField]
  cases tags with
  | nil => rfl
  | cons tg r => cases tg <;> rfl

/-- the validator never evaluates tags on a field of struct kind (only descends): `required` on a non-pointer struct or
    `DateTime` field is a no-op — which is why the 2.0.1 Heartbeat response needs its struct-level validator -/
theorem struct_tags_ignored (g : String → Bool) (fs : Fields) (tags tags' : List Tag) (j : J) :
    checkField g (.struct fs) tags j = checkField g (.struct fs) tags' j := by
  simp [checkField]

/-- accepted iff well-typed and no failing tag -/
theorem verdict_ok_iff (g : String → Bool) (t : Ty) (j : J) :
    verdict g t j = .ok ↔ (wellTyped t j = true ∧ checkField g t [] (norm t j) = none) := by
  unfold verdict
  by_cases hw : wellTyped t j = true
  · simp only [hw, Bool.not_true, Bool.false_eq_true, if_false, true_and]
    cases checkField g t [] (norm t j) <;> simp
  · simp [hw]

/-- **sender and receiver agree**: the receiver validates `norm t (norm t j)` (what it decodes from the wire), the sender
    validated `norm t j` (the value it holds): the same value, hence the same outcome -/
theorem sender_receiver_agree (g : String → Bool) (t : Ty) (j : J) (hw : SchL.wfTy t = true) (ht : wellTyped t j = true) :
    checkField g t [] (norm t (norm t j)) = checkField g t [] (norm t j) :=
  (SchL.reencode_stable g t j hw ht).2

/-! tests -/
example : checkField (fun _ => true) .str [.required, .max 5] (.str "abcdef") = some "max" := by decide
example : checkField (fun _ => true) (.ptr .int) [.omitempty, .gte 0] (.num (-1) "-1") = some "gte" := by decide
example : checkField (fun _ => true) (.slice (.struct (.cons "p" false [.gte 0] .int .nil))) [.required, .min 1, .dive]
    (.arr [.obj [("p", .num (-1) "-1")]]) = some "gte" := by decide
example : checkField (fun _ => true) (.slice (.struct (.cons "p" false [.gte 0] .int .nil))) [.required, .min 1]
    (.arr [.obj [("p", .num (-1) "-1")]]) = none := by decide   -- without `dive` the elements are not looked at (defect 561e228)

theorem skel_parseMessage : Gen.Skeletons.parseMessage = Ocpp.Expected.parseMessage := by decide
theorem skel_createCall : Gen.Skeletons.createCall = Ocpp.Expected.createCall := by decide
theorem skel_createCallResult : Gen.Skeletons.createCallResult = Ocpp.Expected.createCallResult := by decide
theorem skel_createCallError : Gen.Skeletons.createCallError = Ocpp.Expected.createCallError := by decide
theorem skel_errorFromValidation : Gen.Skeletons.errorFromValidation = Ocpp.Expected.errorFromValidation := by decide
theorem skel_parseRawJsonRequest : Gen.Skeletons.parseRawJsonRequest = Ocpp.Expected.parseRawJsonRequest := by decide
theorem skel_parseRawJsonConfirmation : Gen.Skeletons.parseRawJsonConfirmation = Ocpp.Expected.parseRawJsonConfirmation := by decide
theorem skel_profileParseRequest : Gen.Skeletons.profileParseRequest = Ocpp.Expected.profileParseRequest := by decide
theorem skel_profileParseResponse : Gen.Skeletons.profileParseResponse = Ocpp.Expected.profileParseResponse := by decide
theorem skel_formatErrorType : Gen.Skeletons.formatErrorType = Ocpp.Expected.formatErrorType := by decide
theorem skel_occurrenceViolationType : Gen.Skeletons.occurrenceViolationType = Ocpp.Expected.occurrenceViolationType := by decide

end C05
