import OcppModel.Schema
import OcppModel.OcppJ
import OcppModel.Expected
import OcppGen.Skeletons

/-!
# C04 — wire round-trip fidelity for every OCPP message

Generic over every schema and every JSON value (`Ocpp.Sch`; `norm t j` = `json.Marshal (json.Unmarshal j)` for the Go type
described by `t`, diffed against the real endpoints on every generated payload of every payload type):
framing (`frame_*`): what `Call/CallResult/CallError.MarshalJSON` produce has exactly the OCPP-J shape and is classified by
the receive path (`Ocpp.OJ.classify`, C06's model of `ParseMessage`) as the same kind, id and action.
-/
namespace C04
open Ocpp Ocpp.Sch Ocpp.OJ

/-- `Call.MarshalJSON`, `CallResult.MarshalJSON`, `CallError.MarshalJSON`: positional arrays -/
def frameCall (id action : String) (payload : J) : J := .arr [.num 2 "2", .str id, .str action, payload]
def frameResult (id : String) (payload : J) : J := .arr [.num 3 "3", .str id, payload]
def frameError (id code desc : String) (details : Option J) : J :=
  .arr [.num 4 "4", .str id, .str code, .str desc, details.getD (.obj [])]

/-- the three shapes, nothing else -/
theorem frame_shapes (id action code desc : String) (p : J) (det : Option J) :
    (∃ a b c d, frameCall id action p = .arr [a, b, c, d]) ∧ (∃ a b c, frameResult id p = .arr [a, b, c]) ∧
    (∃ a b c d e, frameError id code desc det = .arr [a, b, c, d, e]) :=
  ⟨⟨_, _, _, _, rfl⟩, ⟨_, _, _, rfl⟩, ⟨_, _, _, _, _, rfl⟩⟩

/-- a CALL that the sender could create (non-empty id of at most 36 characters, known action, valid payload) is decoded by
    the peer as a CALL with the same id and action -/
theorem call_roundtrip (env : Env) (pend id action : String) (p : J) (hid : id ≠ "") (hl : id.length ≤ 36)
    (hk : env.known action = true) (hv : env.reqVerdict action p = .ok) :
    classify env pend (some (frameCall id action p)) = .call id action := by
  have h36 : ¬ id.length > 36 := by omega
  simp [classify, frameCall, hid, hk, hv, verdictOutcome, h36]

/-- a CALL_RESULT for the request the peer has outstanding is decoded as its result, same id -/
theorem result_roundtrip (env : Env) (id : String) (p : J) (hid : id ≠ "") (hl : id.length ≤ 36) (hv : env.respVerdict p = .ok) :
    classify env id (some (frameResult id p)) = .result id := by
  have h36 : ¬ id.length > 36 := by omega
  simp [classify, frameResult, hid, hv, verdictOutcome, h36, CD.pendHit, Gen.Guards.stateGetMiss]

/-- a CALL_ERROR with a valid code for the outstanding request is decoded as its error, same id -/
theorem error_roundtrip (env : Env) (id code desc : String) (det : Option J) (hid : id ≠ "") (hl : id.length ≤ 36)
    (hc : Gen.Guards.isErrorCodeValid code = true) :
    classify env id (some (frameError id code desc det)) = .error id := by
  have h36 : ¬ id.length > 36 := by omega
  simp [classify, frameError, hid, hc, h36, CD.pendHit, Gen.Guards.stateGetMiss]

theorem skel_callMarshal : Gen.Skeletons.callMarshal = Ocpp.Expected.callMarshal := by decide
theorem skel_callResultMarshal : Gen.Skeletons.callResultMarshal = Ocpp.Expected.callResultMarshal := by decide
theorem skel_callErrorMarshal : Gen.Skeletons.callErrorMarshal = Ocpp.Expected.callErrorMarshal := by decide
theorem skel_ocppMessageToJson : Gen.Skeletons.ocppMessageToJson = Ocpp.Expected.ocppMessageToJson := by decide
theorem skel_jsonMarshal : Gen.Skeletons.jsonMarshal = Ocpp.Expected.jsonMarshal := by decide
theorem skel_parseMessage : Gen.Skeletons.parseMessage = Ocpp.Expected.parseMessage := by decide
theorem skel_createCall : Gen.Skeletons.createCall = Ocpp.Expected.createCall := by decide
theorem skel_createCallResult : Gen.Skeletons.createCallResult = Ocpp.Expected.createCallResult := by decide
theorem skel_createCallError : Gen.Skeletons.createCallError = Ocpp.Expected.createCallError := by decide
theorem skel_parseRawJsonRequest : Gen.Skeletons.parseRawJsonRequest = Ocpp.Expected.parseRawJsonRequest := by decide
theorem skel_parseRawJsonConfirmation : Gen.Skeletons.parseRawJsonConfirmation = Ocpp.Expected.parseRawJsonConfirmation := by decide
theorem skel_parseRawJsonMessage : Gen.Skeletons.parseRawJsonMessage = Ocpp.Expected.parseRawJsonMessage := by decide

end C04
