import OcppModel.CdRestart

/-!
# C16 below quiescence: `Stop`, `Start` and concurrent senders of the client dispatcher, every interleaving

For the small-step model `Ocpp.CdRestart` of the session protocol after /repo 82b951e: no sender ever sends on a closed
channel (`never_panics`), a leaving message pump never resets the queue or the channel of a running session
(`never_wiped`), at most one message pump is alive, and a running dispatcher has exactly the pump of its own session
(`one_pump`, `running_has_own_pump`). `old_send_panics`, `old_restart_wiped`, `old_two_pumps` are kernel-evaluated
interleavings of the code before the repair (rounds `c16_stopsend` and monitor `c16_restart` on the implementation).
-/
namespace C16Fine
open Ocpp.CdRestart

structure Inv (s : St) : Prop where
  rp : s.repaired = true
  nc : s.closedCh = []
  np : s.panicked = false
  nw : s.wiped = false
  nl : s.latePush = false
  lt : ∀ k ∈ s.stopSig, k < s.next
  flt : ∀ k, s.field = some k → k < s.next
  run : ∀ k, s.field = some k → s.live = [k] ∧ k ∉ s.stopSig
  idle : s.field = none → (∀ k ∈ s.live, k ∈ s.stopSig) ∧ s.live.length ≤ 1

theorem inv_init : Inv {} := by
  refine ⟨rfl, rfl, rfl, rfl, rfl, ?_, ?_, ?_, ?_⟩ <;> simp

theorem inv_step {s s' : St} (h : Inv s) (l : Label) (hs : step s l = some s') : Inv s' := by
  have hr := h.rp
  cases l <;> simp only [step, hr, if_true] at hs
  case start =>
    split at hs
    · rename_i hc
      cases hs
      have hf : s.field = none := by simp at hc; exact hc.1
      have hl : s.live = [] := by simp at hc; exact hc.2
      refine ⟨rfl, h.nc, h.np, h.nw, h.nl, ?_, ?_, ?_, ?_⟩
      · intro k hk; have := h.lt k hk; simp; omega
      · intro k hk; simp at hk; subst hk; simp
      · intro k hk; simp at hk; subst hk
        exact ⟨rfl, fun hm => by have := h.lt _ hm; omega⟩
      · intro hn; simp at hn
    · cases hs
  case stop =>
    cases hf : s.field with
    | none => simp [hf] at hs
    | some k =>
      simp only [hf] at hs; cases hs
      obtain ⟨hl, hk⟩ := h.run k hf
      refine ⟨rfl, h.nc, h.np, h.nw, h.nl, ?_, ?_, ?_, ?_⟩
      · intro j hj; simp at hj
        rcases hj with hj | hj
        · subst hj; exact h.flt j hf
        · exact h.lt j hj
      · intro j hj; simp at hj
      · intro j hj; simp at hj
      · intro _
        refine ⟨?_, by simp [hl]⟩
        intro j hj; simp [hl] at hj; subst hj; simp
  case sendCheck =>
    split at hs
    · cases hs; exact ⟨rfl, h.nc, h.np, h.nw, h.nl, h.lt, h.flt, h.run, h.idle⟩
    · cases hs
  case sendWake =>
    split at hs
    · split at hs <;> cases hs
      · refine ⟨rfl, h.nc, ?_, h.nw, h.nl, h.lt, h.flt, h.run, h.idle⟩
        simp [h.np, h.nc]
      · refine ⟨rfl, h.nc, h.np, h.nw, ?_, h.lt, h.flt, h.run, h.idle⟩
        simp [h.nl]
    · cases hs
  case pumpLoop k => simp at hs
  case pumpExit k =>
    split at hs
    · cases hs
    · rename_i hk
      split at hs
      · rename_i hst
        cases hs
        have hkl : k ∈ s.live := by simpa using hk
        have hks : k ∈ s.stopSig := by simpa using hst
        have hfn : s.field = none := by
          cases hf : s.field with
          | none => rfl
          | some j =>
            obtain ⟨hl, hj⟩ := h.run j hf
            rw [hl] at hkl; simp at hkl; subst hkl
            exact absurd hks hj
        obtain ⟨hall, hlen⟩ := h.idle hfn
        refine ⟨rfl, h.nc, h.np, ?_, h.nl, h.lt, ?_, ?_, ?_⟩
        · simp [h.nw, hfn]
        · intro j hj; simp [hfn] at hj
        · intro j hj; simp [hfn] at hj
        · intro _
          refine ⟨fun j hj => hall j (List.mem_of_mem_erase hj), ?_⟩
          have := List.length_erase_of_mem hkl
          simp at this ⊢; omega
      · cases hs

theorem inv_run (ls : List Label) (s : St) (h : runL {} ls = some s) : Inv s := by
  suffices ∀ (s0 : St), Inv s0 → ∀ ls s, runL s0 ls = some s → Inv s from this _ inv_init ls s h
  intro s0 h0 ls
  induction ls generalizing s0 with
  | nil => intro s h; simp [runL] at h; subst h; exact h0
  | cons l ls ih =>
    intro s h
    simp only [runL] at h
    cases hst : step s0 l with
    | none => simp [hst] at h
    | some s1 => simp only [hst] at h; exact ih s1 (inv_step h0 l hst) s h

/-- no sender ever sends on a closed channel, whatever `Stop`, `Start` and the pumps do meanwhile -/
theorem never_panics (ls : List Label) (s : St) (h : runL {} ls = some s) : s.panicked = false := (inv_run ls s h).np

/-- a leaving message pump never resets the queue or the channel of a session that is running -/
theorem never_wiped (ls : List Label) (s : St) (h : runL {} ls = some s) : s.wiped = false := (inv_run ls s h).nw

/-- no request is pushed into the queue of a stopped dispatcher (it would go out in the next session) -/
theorem never_late_push (ls : List Label) (s : St) (h : runL {} ls = some s) : s.latePush = false := (inv_run ls s h).nl

/-- at most one message pump is alive -/
theorem one_pump (ls : List Label) (s : St) (h : runL {} ls = some s) : s.live.length ≤ 1 := by
  have hi := inv_run ls s h
  cases hf : s.field with
  | none => exact (hi.idle hf).2
  | some k => rw [(hi.run k hf).1]; simp

/-- a running dispatcher has the pump of its own session, and only that one -/
theorem running_has_own_pump (ls : List Label) (s : St) (h : runL {} ls = some s) (k : Nat) (hf : s.field = some k) :
    s.live = [k] := ((inv_run ls s h).run k hf).1

/-- `IsRunning` is false as soon as `Stop` has returned -/
theorem stopped_at_once (s s' : St) (hr : s.repaired = true) (h : step s .stop = some s') : s'.field = none := by
  simp only [step, hr, if_true] at h
  cases hf : s.field <;> simp [hf] at h
  rw [← h]

/-- before 82b951e: a `SendRequest` that has passed the `IsRunning` check sends on the channel `Stop` closed meanwhile -/
theorem old_send_panics :
    (runL { repaired := false } [.start, .sendCheck, .stop, .sendWake]).map (·.panicked) = some true := by decide

/-- before 82b951e: the pump of the stopped session reacts to the close after the next `Start` and resets queue and
    channel of the new session (`IsRunning` false for a started dispatcher) -/
theorem old_restart_wiped :
    (runL { repaired := false } [.start, .stop, .start, .pumpExit 0]).map (fun s => (s.wiped, s.field, s.live)) =
      some (true, none, [1]) := by decide

/-- before 82b951e: or it re-reads the channel from the struct first and keeps running next to the new pump -/
theorem old_two_pumps :
    (runL { repaired := false } [.start, .stop, .start, .pumpLoop 0]).map (fun s => (s.live, s.serving)) =
      some ([1, 0], [(0, 1), (1, 1)]) := by decide

/-- before be75cb6: a sender that passed the `IsRunning` check pushes after `Stop` -/
theorem old_late_push :
    (runL { repaired := false } [.start, .sendCheck, .stop, .pumpExit 0, .sendWake]).map (·.latePush) = some true := by decide

/-- non-vacuity: a stop and a restart with senders in between -/
example : (runL {} [.start, .sendCheck, .stop, .sendWake, .pumpExit 0, .start, .sendCheck, .sendWake]).map
    (fun s => (s.field, s.live, s.panicked, s.wiped)) = some (some 1, [1], false, false) := by decide
/-- with the repair `Start` waits for the pump of the stopped session -/
example : runL {} [.start, .stop, .start] = none := by decide

end C16Fine
