import OcppModel.WsSocket
import OcppModel.Expected
import OcppGen.Skeletons

/-!
# C15 — open connections deliver intact and in order; closed ones fail safely

Over **every interleaving** of any number of writer goroutines, the write pump and the environment (network write
succeeds / fails, close request) of the small-step model `Ocpp.WsSocket` (the code after fix 3faee00):

* `no_panic` — no send on a closed channel, ever;
* `fifo_while_open`, `delivered_prefix` — what reached the network is a prefix of what `Write` accepted, in
  acceptance order, each message once; while the connection is open nothing accepted is lost;
* `write_after_close_errors` — a `Write` that starts after `cleanup` returns an error;
* `measure_decreases` + `stuck_all_returned` — every step decreases a natural-number measure and in every
  reachable state in which some `Write` has not returned a step is enabled: every schedule is finite and ends
  with every `Write` returned ("never blocks forever", for any scheduler that runs enabled steps);
* `old_code_deadlocks` — the same model without the `closing` channel (the code before the fix) reaches a state
  with a writer inside `Write` and no enabled step: the defect that was repaired, as a theorem.

Bytes: content integrity and sizes are gorilla's and TCP's (A-NET): checked by monitor `ws_write` (hashes), not proved.
-/
namespace C15
open Ocpp.WsSocket

structure Inv (s : Sock) : Prop where
  fixed     : s.fixed = true
  noPanic   : s.panic = false
  closedIff : s.qClosed = true ↔ s.pump = .done
  connIff   : s.conn = false ↔ s.pump = .done
  closingIf : (s.pump = .waitLock ∨ s.pump = .done) → s.closing = true
  sendOpen  : ∀ w ∈ s.ws, ∀ m r, w = .sending m r → s.pump ≠ .done
  fifoOpen  : isOpen s = true → s.accepted = s.net ++ inflight s ++ s.outQ
  pre       : ∃ rest, s.accepted = s.net ++ rest
  qBound    : s.outQ.length ≤ outCap

theorem inv_init (work : List (List Nat)) : Inv (init true work) := by
  refine ⟨rfl, rfl, by simp [init], by simp [init], by simp [init], ?_, by simp [init, inflight], ⟨[], by simp [init]⟩, by simp [init, outCap]⟩
  intro w hw m r h
  simp [init] at hw
  obtain ⟨l, _, rfl⟩ := hw
  cases h

theorem mem_setW {s : Sock} {i : Nat} {x w : W} (h : w ∈ (setW s i x).ws) : w = x ∨ w ∈ s.ws := by
  simp only [setW] at h
  rcases List.mem_or_eq_of_mem_set h with h | h
  · exact Or.inr h
  · exact Or.inl h

theorem getElem?_mem {l : List W} {i : Nat} {w : W} (h : l[i]? = some w) : w ∈ l := List.mem_of_getElem? h

theorem inv_step (s s' : Sock) (l : Label) (hI : Inv s) (h : step s l = some s') : Inv s' := by
  obtain ⟨hfix, hnp, hcl, hco, hcg, hso, hfo, hpre, hqb⟩ := hI
  cases l with
  | rlock i =>
    simp only [step] at h
    split at h
    · rename_i m rest hw
      split at h
      · cases h
      · injection h with h; subst h
        refine ⟨hfix, hnp, hcl, hco, hcg, ?_, hfo, hpre, hqb⟩
        intro w hw' m' r' e
        rcases mem_setW hw' with rfl | hw'
        · cases e
        · exact hso w hw' m' r' e
    · cases h
  | check i =>
    simp only [step] at h
    split at h
    · rename_i m rest hw
      split at h
      · rename_i hc
        injection h with h; subst h
        refine ⟨hfix, hnp, hcl, hco, hcg, ?_, hfo, hpre, hqb⟩
        intro w hw' m' r' e
        rcases mem_setW hw' with rfl | hw'
        · intro hd
          have : s.conn = false := hco.mpr hd
          simp [this] at hc
        · exact hso w hw' m' r' e
      · injection h with h; subst h
        refine ⟨hfix, hnp, hcl, hco, hcg, ?_, hfo, hpre, hqb⟩
        intro w hw' m' r' e
        rcases mem_setW hw' with rfl | hw'
        · cases e
        · exact hso w hw' m' r' e
    · cases h
  | send i =>
    simp only [step] at h
    split at h
    · rename_i m rest hw
      have hopen : s.pump ≠ .done := hso _ (getElem?_mem hw) m rest rfl
      have hq : s.qClosed = false := by
        cases hqc : s.qClosed with
        | false => rfl
        | true => exact absurd (hcl.mp hqc) hopen
      simp only [hq, Bool.false_eq_true, if_false] at h
      split at h
      · rename_i hlen
        injection h with h; subst h
        refine ⟨hfix, hnp, hcl, hco, hcg, ?_, ?_, ?_, ?_⟩
        · intro w hw' m' r' e
          rcases mem_setW hw' with rfl | hw'
          · cases e
          · exact hso w hw' m' r' e
        · intro ho
          have := hfo (by simpa [isOpen, setW] using ho)
          simp only [setW, inflight] at this ⊢
          rw [this]; simp [List.append_assoc]
        · obtain ⟨rest', hr⟩ := hpre
          exact ⟨rest' ++ [m], by simp [setW, hr, List.append_assoc]⟩
        · simp only [setW, List.length_append, List.length_singleton, outCap] at hlen ⊢; omega
      · cases h
    · cases h
  | abort i =>
    simp only [step] at h
    split at h
    · split at h
      · injection h with h; subst h
        refine ⟨hfix, hnp, hcl, hco, hcg, ?_, hfo, hpre, hqb⟩
        intro w hw' m' r' e
        rcases mem_setW hw' with rfl | hw'
        · cases e
        · exact hso w hw' m' r' e
      · cases h
    · cases h
  | take =>
    simp only [step] at h
    split at h
    · rename_i m q hp hq
      split at h
      · cases h
      · injection h with h; subst h
        refine ⟨hfix, hnp, ?_, ?_, ?_, ?_, ?_, hpre, ?_⟩
        · simp only; rw [hcl, hp]; simp
        · simp only; rw [hco, hp]; simp
        · intro hh; simp at hh
        · intro w hw' m' r' _; simp
        · intro _
          have := hfo (by simp [isOpen, hp])
          simp only [inflight, hp, hq] at this ⊢
          simpa using this
        · simp only [hq, List.length_cons] at hqb ⊢; omega
    · cases h
  | writeOk =>
    simp only [step] at h
    split at h
    · rename_i m hp
      injection h with h; subst h
      refine ⟨hfix, hnp, ?_, ?_, ?_, ?_, ?_, ?_, hqb⟩
      · simp only; rw [hcl, hp]; simp
      · simp only; rw [hco, hp]; simp
      · intro hh; simp at hh
      · intro w hw' m' r' _; simp
      · intro _
        have := hfo (by simp [isOpen, hp])
        simp only [inflight, hp] at this ⊢
        simpa [List.append_assoc] using this
      · have := hfo (by simp [isOpen, hp])
        simp only [inflight, hp] at this
        exact ⟨s.outQ, by simp [this, List.append_assoc]⟩
    · cases h
  | writeFail =>
    simp only [step] at h
    split at h
    · rename_i m hp
      injection h with h; subst h
      refine ⟨hfix, hnp, ?_, ?_, ?_, ?_, ?_, hpre, hqb⟩
      · simp only; rw [hcl, hp]; simp
      · simp only; rw [hco, hp]; simp
      · intro _; rfl
      · intro w hw' m' r' _; simp
      · intro ho; simp [isOpen] at ho
    · cases h
  | closeReq =>
    simp only [step] at h
    split at h
    · rename_i hp
      injection h with h; subst h
      refine ⟨hfix, hnp, ?_, ?_, ?_, ?_, ?_, hpre, hqb⟩
      · simp only; rw [hcl, hp]; simp
      · simp only; rw [hco, hp]; simp
      · intro _; rfl
      · intro w hw' m' r' _; simp
      · intro ho; simp [isOpen] at ho
    · cases h
  | lock =>
    simp only [step] at h
    split at h
    · rename_i hp
      split at h
      · rename_i hnr
        injection h with h; subst h
        refine ⟨hfix, hnp, by simp, by simp, ?_, ?_, ?_, hpre, hqb⟩
        · intro _; exact hcg (Or.inl hp)
        · intro w hw' m' r' e
          simp only [noReaders, List.all_eq_true] at hnr
          have := hnr w hw'
          subst e; simp [isTodo] at this
        · intro ho; simp [isOpen] at ho
      · cases h
    · cases h

theorem reach_inv (ls : List Label) :
    ∀ s, Inv s → ∀ s', runL s ls = some s' → Inv s' := by
  induction ls with
  | nil => intro s hI s' h; simp [runL] at h; subst h; exact hI
  | cons l ls ih =>
    intro s hI s' h
    simp only [runL] at h
    cases hs : step s l with
    | none => simp [hs] at h
    | some s1 => simp only [hs] at h; exact ih s1 (inv_step s s1 l hI hs) s' h

/-- **no panic**: in every reachable state of every interleaving no send on a closed channel has happened -/
theorem no_panic (work : List (List Nat)) (ls : List Label) (s : Sock) (h : runL (init true work) ls = some s) :
    s.panic = false := (reach_inv ls _ (inv_init work) s h).noPanic

/-- what reached the network is a prefix of what was accepted (acceptance order, no duplicates, no reordering) -/
theorem delivered_prefix (work : List (List Nat)) (ls : List Label) (s : Sock) (h : runL (init true work) ls = some s) :
    ∃ rest, s.accepted = s.net ++ rest := (reach_inv ls _ (inv_init work) s h).pre

/-- while the connection is open nothing accepted is lost: accepted = delivered ++ in flight ++ queued -/
theorem fifo_while_open (work : List (List Nat)) (ls : List Label) (s : Sock) (h : runL (init true work) ls = some s)
    (ho : isOpen s = true) : s.accepted = s.net ++ inflight s ++ s.outQ :=
  (reach_inv ls _ (inv_init work) s h).fifoOpen ho

/-- a Write that starts after cleanup returns an error (and changes nothing else) -/
theorem write_after_close_errors (s : Sock) (hI : Inv s) (hd : s.pump = .done) (i : Nat) (m : Nat) (rest : List Nat)
    (hw : s.ws[i]? = some (.todo (m :: rest))) :
    ∃ s1 s2, step s (.rlock i) = some s1 ∧ step s1 (.check i) = some s2 ∧ s2.errors = s.errors + 1 ∧
      s2.accepted = s.accepted ∧ s2.outQ = s.outQ ∧ s2.ws[i]? = some (.todo rest) := by
  have hc : s.conn = false := hI.connIff.mpr hd
  have hi : i < s.ws.length := by
    rcases Nat.lt_or_ge i s.ws.length with h | h
    · exact h
    · simp [List.getElem?_eq_none h] at hw
  refine ⟨setW s i (.locked m rest), { setW (setW s i (.locked m rest)) i (.todo rest) with errors := s.errors + 1 }, ?_, ?_, rfl, rfl, rfl, ?_⟩
  · simp [step, hw, hd]
  · simp [step, setW, hi, hc]
  · simp [setW, hi]

/-! ## progress -/

def cost : W → Nat
  | .todo ms => 3 * ms.length
  | .locked _ r => 2 + 3 * r.length
  | .sending _ r => 1 + 3 * r.length

def total (l : List W) : Nat := (l.map cost).sum

def phase : Pump → Nat
  | .sel => 3 | .writing _ => 4 | .waitLock => 1 | .done => 0

def pbit (b : Bool) : Nat := if b then 0 else 1

def mu (s : Sock) : Nat := 4 * total s.ws + 2 * s.outQ.length + phase s.pump + pbit s.panic

theorem total_set (l : List W) : ∀ (i : Nat) (old new : W), l[i]? = some old →
    total (l.set i new) + cost old = total l + cost new := by
  induction l with
  | nil => intro i old new h; simp at h
  | cons x r ih =>
    intro i old new h
    cases i with
    | zero => simp at h; subst h; simp [total]; omega
    | succ j =>
      simp at h
      have := ih j old new h
      simp only [total, List.set_cons_succ, List.map_cons, List.sum_cons] at this ⊢
      omega

/-- every step strictly decreases the measure: no schedule is infinite -/
theorem measure_decreases (s s' : Sock) (l : Label) (hnp : s.panic = false) (h : step s l = some s') : mu s' < mu s := by
  cases l with
  | rlock i =>
    simp only [step] at h
    split at h
    · rename_i m rest hw
      split at h
      · cases h
      · injection h with h; subst h
        have := total_set s.ws i _ (.locked m rest) hw
        simp only [mu, setW, cost, List.length_cons] at this ⊢; omega
    · cases h
  | check i =>
    simp only [step] at h
    split at h
    · rename_i m rest hw
      split at h
      · injection h with h; subst h
        have := total_set s.ws i _ (.sending m rest) hw
        simp only [mu, setW, cost] at this ⊢; omega
      · injection h with h; subst h
        have := total_set s.ws i _ (.todo rest) hw
        simp only [mu, setW, cost] at this ⊢; omega
    · cases h
  | send i =>
    simp only [step] at h
    split at h
    · rename_i m rest hw
      split at h
      · injection h with h; subst h; simp [mu, hnp, pbit]
      · split at h
        · injection h with h; subst h
          have := total_set s.ws i _ (.todo rest) hw
          simp only [mu, setW, cost, List.length_append, List.length_singleton] at this ⊢; omega
        · cases h
    · cases h
  | abort i =>
    simp only [step] at h
    split at h
    · rename_i m rest hw
      split at h
      · injection h with h; subst h
        have := total_set s.ws i _ (.todo rest) hw
        simp only [mu, setW, cost] at this ⊢; omega
      · cases h
    · cases h
  | take =>
    simp only [step] at h
    split at h
    · rename_i m q hp hq
      split at h
      · cases h
      · injection h with h; subst h
        simp only [mu, hp, hq, phase, List.length_cons]; omega
    · cases h
  | writeOk =>
    simp only [step] at h
    split at h
    · rename_i m hp
      injection h with h; subst h
      simp only [mu, hp, phase]; omega
    · cases h
  | writeFail =>
    simp only [step] at h
    split at h
    · rename_i m hp
      injection h with h; subst h
      simp only [mu, hp, phase]; omega
    · cases h
  | closeReq =>
    simp only [step] at h
    split at h
    · rename_i hp
      injection h with h; subst h
      simp only [mu, hp, phase]; omega
    · cases h
  | lock =>
    simp only [step] at h
    split at h
    · rename_i hp
      split at h
      · injection h with h; subst h
        simp only [mu, hp, phase]; omega
      · cases h
    · cases h

theorem mem_labels_w (n i : Nat) (hi : i < n) :
    Label.rlock i ∈ labels n ∧ Label.check i ∈ labels n ∧ Label.send i ∈ labels n ∧ Label.abort i ∈ labels n := by
  simp only [labels, List.mem_append, List.mem_flatMap, List.mem_range]
  exact ⟨Or.inr ⟨i, hi, by simp⟩, Or.inr ⟨i, hi, by simp⟩, Or.inr ⟨i, hi, by simp⟩, Or.inr ⟨i, hi, by simp⟩⟩

theorem enabled_not_stuck (s : Sock) (l : Label) (hl : l ∈ labels s.ws.length) (s' : Sock) (h : step s l = some s') :
    stuck s = false := by
  cases hs : stuck s with
  | false => rfl
  | true =>
    simp only [stuck, List.all_eq_true] at hs
    have := hs l hl
    simp [h] at this

/-- **never blocks forever**: in a reachable state without an enabled step every `Write` has returned -/
theorem stuck_all_returned (s : Sock) (hI : Inv s) (hs : stuck s = true) : allReturned s = true := by
  simp only [allReturned, List.all_eq_true]
  intro w hw
  obtain ⟨i, hi, hget⟩ := List.getElem_of_mem hw
  have hget? : s.ws[i]? = some w := by simp [List.getElem?_eq_getElem hi, hget]
  obtain ⟨lr, lc, lse, la⟩ := mem_labels_w s.ws.length i hi
  have base : ∀ l ∈ labels s.ws.length, (step s l).isSome = true → False := by
    intro l hl h
    cases hs' : step s l with
    | none => simp [hs'] at h
    | some s' =>
      have := enabled_not_stuck s l hl s' hs'
      simp [hs] at this
  have hlock : Label.lock ∈ labels s.ws.length := by simp [labels]
  have htake : Label.take ∈ labels s.ws.length := by simp [labels]
  have hok : Label.writeOk ∈ labels s.ws.length := by simp [labels]
  -- a helper: while the pump waits for the lock somebody can move
  have waitCase : s.pump = .waitLock → False := by
    intro hp
    by_cases hnr : noReaders s.ws = true
    · exact base _ hlock (by simp [step, hp, hnr])
    · have hf : s.ws.all isTodo = false := by simpa [noReaders] using hnr
      simp only [List.all_eq_false] at hf
      obtain ⟨w', hw', hnt⟩ := hf
      obtain ⟨j, hj, hgj⟩ := List.getElem_of_mem hw'
      have hgj? : s.ws[j]? = some w' := by simp [List.getElem?_eq_getElem hj, hgj]
      obtain ⟨_, lc', _, la'⟩ := mem_labels_w s.ws.length j hj
      cases w' with
      | todo ms => simp [isTodo] at hnt
      | locked m r =>
        by_cases hc : s.conn = true
        · exact base _ lc' (by simp [step, hgj?, hc])
        · exact base _ lc' (by simp [step, hgj?, hc])
      | sending m r =>
        have hcl := hI.closingIf (Or.inl hp)
        exact base _ la' (by simp [step, hgj?, hI.fixed, hcl])
  cases w with
  | todo ms =>
    cases ms with
    | nil => rfl
    | cons m rest =>
      exfalso
      by_cases hp : s.pump = .waitLock
      · exact waitCase hp
      · have hb : (s.pump == Pump.waitLock) = false := by simpa using hp
        exact base _ lr (by simp [step, hget?, hb])
  | locked m r =>
    exfalso
    by_cases hc : s.conn = true
    · exact base _ lc (by simp [step, hget?, hc])
    · exact base _ lc (by simp [step, hget?, hc])
  | sending m r =>
    exfalso
    have hnd : s.pump ≠ .done := hI.sendOpen _ hw m r rfl
    have hq : s.qClosed = false := by
      cases hqc : s.qClosed with
      | false => rfl
      | true => exact absurd (hI.closedIff.mp hqc) hnd
    by_cases hlen : s.outQ.length < outCap
    · exact base _ lse (by simp [step, hget?, hq, hlen])
    · cases hp : s.pump with
      | done => exact hnd hp
      | waitLock => exact waitCase hp
      | writing m' => exact base _ hok (by simp [step, hp])
      | sel =>
        cases hoq : s.outQ with
        | nil => simp [hoq, outCap] at hlen
        | cons a q => exact base _ htake (by simp [step, hp, hoq, hq])

/-- … for every reachable state of every interleaving -/
theorem write_never_blocks_forever (work : List (List Nat)) (ls : List Label) (s : Sock)
    (h : runL (init true work) ls = some s) (hs : stuck s = true) : allReturned s = true :=
  stuck_all_returned s (reach_inv ls _ (inv_init work) s h) hs

/-- the code before fix 3faee00 (no `closing` channel): three writers, a close request — a reachable state with a
    writer inside `Write` and no enabled step at all -/
theorem old_code_deadlocks :
    ∃ ls s, runL (init false [[1], [2], [3]]) ls = some s ∧ stuck s = true ∧ allReturned s = false := by
  refine ⟨[.rlock 0, .check 0, .send 0, .rlock 1, .check 1, .send 1, .rlock 2, .check 2, .closeReq], ?_⟩
  decide

/-- and the same schedule on the repaired code is not stuck: the blocked writer is released with an error -/
example : ∃ s, runL (init true [[1], [2], [3]]) [.rlock 0, .check 0, .send 0, .rlock 1, .check 1, .send 1, .rlock 2, .check 2, .closeReq, .abort 2, .lock] = some s ∧
    s.errors = 1 ∧ s.accepted = [1, 2] ∧ allReturned s = true ∧ s.panic = false := by decide

example : ∃ s, runL (init true [[1, 2]]) [.rlock 0, .check 0, .send 0, .take, .writeOk, .rlock 0, .check 0, .send 0, .take, .writeOk] = some s ∧
    s.net = [1, 2] ∧ stuck s = false := by decide

theorem skel_wsWriteManual : Gen.Skeletons.wsWriteManual = Ocpp.Expected.wsWriteManual := by decide
theorem skel_wsSocketWrite : Gen.Skeletons.wsSocketWrite = Ocpp.Expected.wsSocketWrite := by decide
theorem skel_wsSocketClose : Gen.Skeletons.wsSocketClose = Ocpp.Expected.wsSocketClose := by decide
theorem skel_wsCleanup : Gen.Skeletons.wsCleanup = Ocpp.Expected.wsCleanup := by decide
theorem skel_wsWritePump : Gen.Skeletons.wsWritePump = Ocpp.Expected.wsWritePump := by decide
theorem skel_wsReadPump : Gen.Skeletons.wsReadPump = Ocpp.Expected.wsReadPump := by decide
theorem skel_wsOnPing : Gen.Skeletons.wsOnPing = Ocpp.Expected.wsOnPing := by decide
theorem skel_wsOnPong : Gen.Skeletons.wsOnPong = Ocpp.Expected.wsOnPong := by decide
theorem skel_wsNewWebSocket : Gen.Skeletons.wsNewWebSocket = Ocpp.Expected.wsNewWebSocket := by decide
theorem skel_wsIsConnected : Gen.Skeletons.wsIsConnected = Ocpp.Expected.wsIsConnected := by decide
theorem skel_wsServerWrite : Gen.Skeletons.wsServerWrite = Ocpp.Expected.wsServerWrite := by decide
theorem skel_wsClientWrite : Gen.Skeletons.wsClientWrite = Ocpp.Expected.wsClientWrite := by decide
theorem skel_wsClientIsConnected : Gen.Skeletons.wsClientIsConnected = Ocpp.Expected.wsClientIsConnected := by decide

end C15
