import OcppGen.Registry

/-!
# C18 — feature registry, role tables, validators and enumerations are coherent

Everything here is a finite table regenerated from /repo by translator T1 (reflection + go/ast). Each table
check is evaluated completely by the kernel (`decide`) and lifted to the quantified statement by the generic
`Ocpp.Reg.*_spec` lemmas (proved for any registry). Codes are interned names (gen/registry.json `names`).
-/

namespace C18
open Ocpp

/-! ## OCPP 1.6 (incl. security extension) -/

theorem v16_uniqueProfile : Gen.R16.reg.chkUniqueProfile = true := by decide
theorem v16_names : Gen.R16.reg.chkNames = true := by decide
theorem v16_profilesRegistered : Gen.R16.reg.chkProfilesRegistered = true := by decide
theorem v16_sendSpec : Gen.R16.reg.chkSendSpec = true := by decide
theorem v16_sendCover : Gen.R16.reg.chkSendCover = true := by decide
theorem v16_recvPeer : Gen.R16.reg.chkRecvPeer = true := by decide
theorem v16_helpers : Gen.R16.reg.chkHelpers = true := by decide
theorem v16_tags : Gen.R16.reg.chkTags = true := by decide
theorem v16_registrations : Gen.R16.reg.chkRegistrations = true := by decide
theorem v16_enumExported_partial : Gen.R16.reg.chkEnumExported = true := by decide
theorem v16_enumSnapshot : Gen.R16.reg.chkEnumSnapshot = true := by decide
theorem v16_dispatch : Gen.R16.reg.chkDispatch = true := by decide

/-! ## OCPP 2.0.1 -/

theorem v201_uniqueProfile : Gen.R201.reg.chkUniqueProfile = true := by decide
theorem v201_names : Gen.R201.reg.chkNames = true := by decide
theorem v201_profilesRegistered : Gen.R201.reg.chkProfilesRegistered = true := by decide
theorem v201_sendSpec : Gen.R201.reg.chkSendSpec = true := by decide
theorem v201_sendCover : Gen.R201.reg.chkSendCover = true := by decide
theorem v201_recvPeer : Gen.R201.reg.chkRecvPeer = true := by decide
theorem v201_helpers : Gen.R201.reg.chkHelpers = true := by decide
theorem v201_tags : Gen.R201.reg.chkTags = true := by decide
theorem v201_registrations : Gen.R201.reg.chkRegistrations = true := by decide
theorem v201_enumExported : Gen.R201.reg.chkEnumExported = true := by decide
theorem v201_enumSnapshot : Gen.R201.reg.chkEnumSnapshot = true := by decide
theorem v201_dispatch : Gen.R201.reg.chkDispatch = true := by decide

/-- the validator instance is shared by both versions and ocppj: across **all** registrations no tag is bound
    to two different functions (a later registration would silently replace the earlier one) -/
theorem all_registrations_functional : Ocpp.Tbl.functional Gen.allRegistrations = true := by decide +kernel

theorem no_tag_collision :
    ∀ t f g, (t, f) ∈ Gen.allRegistrations → (t, g) ∈ Gen.allRegistrations → f = g :=
  (Ocpp.Tbl.functional_spec _).mp all_registrations_functional

/-! ## the statements, for both versions (instances of the generic lemmas) -/

/-- every feature name belongs to exactly one profile -/
theorem feature_unique_profile :
    (∀ f p q, (f, p) ∈ Gen.R16.reg.featureProfile → (f, q) ∈ Gen.R16.reg.featureProfile → p = q) ∧
    (∀ f p q, (f, p) ∈ Gen.R201.reg.featureProfile → (f, q) ∈ Gen.R201.reg.featureProfile → p = q) :=
  ⟨Reg.uniqueProfile_spec _ v16_uniqueProfile, Reg.uniqueProfile_spec _ v201_uniqueProfile⟩

/-- request and response types report that same name -/
theorem names_agree :
    (∀ f n, (f, n) ∈ Gen.R16.reg.featureReqName → n = f) ∧ (∀ f n, (f, n) ∈ Gen.R16.reg.featureRespName → n = f) ∧
    (∀ f n, (f, n) ∈ Gen.R201.reg.featureReqName → n = f) ∧ (∀ f n, (f, n) ∈ Gen.R201.reg.featureRespName → n = f) :=
  ⟨(Reg.names_spec _ v16_names).1, (Reg.names_spec _ v16_names).2, (Reg.names_spec _ v201_names).1, (Reg.names_spec _ v201_names).2⟩

/-- each role can send exactly the features the protocol assigns to it (committed assignment), and together
    the two roles cover every feature -/
theorem send_tables :
    (∀ f, f ∈ Gen.R16.reg.cp.send ↔ f ∈ Gen.R16.reg.cp.specSend) ∧ (∀ f, f ∈ Gen.R16.reg.cs.send ↔ f ∈ Gen.R16.reg.cs.specSend) ∧
    (∀ f, f ∈ Gen.R201.reg.cp.send ↔ f ∈ Gen.R201.reg.cp.specSend) ∧ (∀ f, f ∈ Gen.R201.reg.cs.send ↔ f ∈ Gen.R201.reg.cs.specSend) ∧
    (∀ f, f ∈ Gen.R16.reg.features ↔ (f ∈ Gen.R16.reg.cp.send ∨ f ∈ Gen.R16.reg.cs.send)) ∧
    (∀ f, f ∈ Gen.R201.reg.features ↔ (f ∈ Gen.R201.reg.cp.send ∨ f ∈ Gen.R201.reg.cs.send)) :=
  ⟨(Reg.sendSpec_spec _ v16_sendSpec).1, (Reg.sendSpec_spec _ v16_sendSpec).2, (Reg.sendSpec_spec _ v201_sendSpec).1,
   (Reg.sendSpec_spec _ v201_sendSpec).2, Reg.sendCover_spec _ v16_sendCover, Reg.sendCover_spec _ v201_sendCover⟩

/-- each role dispatches to handlers exactly the features the opposite role can send -/
theorem receive_eq_peer_send :
    (∀ f, f ∈ Gen.R16.reg.cp.recv ↔ f ∈ Gen.R16.reg.cs.send) ∧ (∀ f, f ∈ Gen.R16.reg.cs.recv ↔ f ∈ Gen.R16.reg.cp.send) ∧
    (∀ f, f ∈ Gen.R201.reg.cp.recv ↔ f ∈ Gen.R201.reg.cs.send) ∧ (∀ f, f ∈ Gen.R201.reg.cs.recv ↔ f ∈ Gen.R201.reg.cp.send) :=
  ⟨(Reg.recvPeer_spec _ v16_recvPeer).1, (Reg.recvPeer_spec _ v16_recvPeer).2, (Reg.recvPeer_spec _ v201_recvPeer).1, (Reg.recvPeer_spec _ v201_recvPeer).2⟩

/-- the typed helper methods of each role build exactly the features that role may send -/
theorem helpers_respect_roles :
    (∀ f, f ∈ Gen.R16.reg.cp.helperFeatures ↔ f ∈ Gen.R16.reg.cp.send) ∧ (∀ f, f ∈ Gen.R16.reg.cs.helperFeatures ↔ f ∈ Gen.R16.reg.cs.send) ∧
    (∀ f, f ∈ Gen.R201.reg.cp.helperFeatures ↔ f ∈ Gen.R201.reg.cp.send) ∧ (∀ f, f ∈ Gen.R201.reg.cs.helperFeatures ↔ f ∈ Gen.R201.reg.cs.send) :=
  ⟨(Reg.helpers_spec _ v16_helpers).1, (Reg.helpers_spec _ v16_helpers).2, (Reg.helpers_spec _ v201_helpers).1, (Reg.helpers_spec _ v201_helpers).2⟩

/-- every validation rule referenced by a reachable message field is resolved by the validator, and no tag
    is registered with two different functions (the validator instance is shared by both versions) -/
theorem tags_registered :
    (∀ t, t ∈ Gen.R16.reg.fieldTags → t ∈ Gen.R16.reg.knownTags) ∧ (∀ t, t ∈ Gen.R201.reg.fieldTags → t ∈ Gen.R201.reg.knownTags) ∧
    (∀ t f g, (t, f) ∈ Gen.R16.reg.registrations → (t, g) ∈ Gen.R16.reg.registrations → f = g) ∧
    (∀ t f g, (t, f) ∈ Gen.R201.reg.registrations → (t, g) ∈ Gen.R201.reg.registrations → f = g) :=
  ⟨Reg.tags_spec _ v16_tags, Reg.tags_spec _ v201_tags, Reg.registrations_spec _ v16_registrations, Reg.registrations_spec _ v201_registrations⟩

/-- every exported enumeration constant is accepted by its validator. **Partial for 1.6**: up to the three
    listed known findings (`enumExceptions`, securefirmware.FirmwareStatus); full strength for 2.0.1 where
    the exception list is empty (`v201_no_exceptions`). -/
theorem enum_accepts_declared_partial :
    (∀ t acc exp v, (t, acc, exp) ∈ Gen.R16.reg.enums → v ∈ exp → v ∈ acc ∨ (t, v) ∈ Gen.R16.reg.enumExceptions) ∧
    (∀ t acc exp v, (t, acc, exp) ∈ Gen.R201.reg.enums → v ∈ exp → v ∈ acc ∨ (t, v) ∈ Gen.R201.reg.enumExceptions) :=
  ⟨Reg.enumExported_spec _ v16_enumExported_partial, Reg.enumExported_spec _ v201_enumExported⟩

theorem v201_no_exceptions : Gen.R201.reg.enumExceptions = [] := by decide
theorem v16_exceptions_count : Gen.R16.reg.enumExceptions.length ≤ 3 := by decide

/-- undeclared values are rejected: each validator accepts exactly the committed enumeration -/
theorem enum_rejects_others :
    (∀ t acc exp, (t, acc, exp) ∈ Gen.R16.reg.enums → ∃ s, Tbl.lookupL Gen.R16.reg.enumSnapshot t = some s ∧ ∀ v, v ∈ acc ↔ v ∈ s) ∧
    (∀ t acc exp, (t, acc, exp) ∈ Gen.R201.reg.enums → ∃ s, Tbl.lookupL Gen.R201.reg.enumSnapshot t = some s ∧ ∀ v, v ∈ acc ↔ v ∈ s) :=
  ⟨Reg.enumSnapshot_spec _ v16_enumSnapshot, Reg.enumSnapshot_spec _ v201_enumSnapshot⟩

/-! ## non-vacuity: the tables are not empty -/
example : Gen.R16.reg.features.length = 39 ∧ Gen.R201.reg.features.length = 64 := by decide
example : Gen.R16.reg.cp.send.length = 14 ∧ Gen.R16.reg.cs.send.length = 26 ∧ Gen.R201.reg.cp.send.length = 25 ∧ Gen.R201.reg.cs.send.length = 40 := by decide
example : Gen.R16.reg.enums.length ≥ 40 ∧ Gen.R201.reg.enums.length ≥ 80 := by decide

end C18
