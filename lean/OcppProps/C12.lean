import OcppModel.Containers
import OcppModel.Expected
import OcppGen.Skeletons

/-!
# C12 — bounded queues apply back-pressure without side effects; containers are sequential FIFO / maps

All statements quantify over every capacity (`Int`, ≤ 0 = unbounded), every element type and every
(unbounded) operation sequence. Guards are the regenerated `Gen.Guards.*`, so the theorems are
re-proved against the conditions in the current source text on every run.
-/

namespace C12
open Ocpp

/-! ### guard facts (these pin the regenerated conditions) -/

theorem guard_push (len : Nat) (cap : Int) :
    Gen.Guards.queuePushRejects len cap = true ↔ (0 < cap ∧ cap ≤ len) := by
  simp [Gen.Guards.queuePushRejects]; omega

theorem guard_isFull (len : Nat) (cap : Int) :
    Gen.Guards.queueIsFull len cap = Gen.Guards.queuePushRejects len cap := by
  simp [Gen.Guards.queueIsFull, Gen.Guards.queuePushRejects]

theorem guard_empty (len : Nat) :
    (Gen.Guards.queueIsEmpty len = true ↔ len = 0) ∧ (Gen.Guards.queuePeekNil len = true ↔ len = 0) ∧
    (Gen.Guards.queuePopNil len = true ↔ len = 0) := by
  simp [Gen.Guards.queueIsEmpty, Gen.Guards.queuePeekNil, Gen.Guards.queuePopNil]

/-! ### operations -/

inductive Op (α : Type) where
  | push (x : α) | pop | peek | init | size | isFull | isEmpty

def apply {α} (q : FQ α) : Op α → FQ α
  | .push x => (q.push x).1
  | .pop => q.pop.1
  | .init => q.init
  | _ => q

def Bounded {α} (q : FQ α) : Prop := 0 < q.cap → (q.elems.length : Int) ≤ q.cap

/-- push is rejected exactly when the queue is bounded and full; otherwise it appends -/
theorem push_spec {α} (q : FQ α) (x : α) :
    q.push x = if 0 < q.cap ∧ q.cap ≤ q.elems.length then (q, false)
               else ({ q with elems := q.elems ++ [x] }, true) := by
  unfold FQ.push
  by_cases g : Gen.Guards.queuePushRejects q.elems.length q.cap = true
  · have := (guard_push _ _).mp g; simp [g, this]
  · have := (not_congr (guard_push q.elems.length q.cap)).mp g; simp [g, this]

theorem pop_spec {α} (q : FQ α) :
    q.pop = match q.elems with
            | [] => (q, none)
            | x :: xs => ({ q with elems := xs }, some x) := by
  unfold FQ.pop
  cases h : q.elems with
  | nil => simp [Gen.Guards.queuePopNil]
  | cons x xs => simp [Gen.Guards.queuePopNil]; omega

theorem peek_spec {α} (q : FQ α) : q.peek = q.elems.head? := by
  unfold FQ.peek
  cases h : q.elems with
  | nil => simp [Gen.Guards.queuePeekNil]
  | cons x xs => simp [Gen.Guards.queuePeekNil]; omega

theorem apply_cap {α} (q : FQ α) (o : Op α) : (apply q o).cap = q.cap := by
  cases o with
  | push x => simp only [apply, push_spec]; split <;> rfl
  | pop => simp only [apply, pop_spec]; split <;> rfl
  | init => rfl
  | _ => rfl

theorem apply_bounded {α} (q : FQ α) (o : Op α) (h : Bounded q) : Bounded (apply q o) := by
  unfold Bounded at *
  cases o with
  | push x =>
    simp only [apply, push_spec]
    split
    · exact h
    · rename_i hn; intro hc; simp at hc ⊢; simp at hn; have := hn hc; omega
  | pop =>
    simp only [apply, pop_spec]
    split
    · exact h
    · rename_i x xs hq; intro hc; simp at hc ⊢; have := h hc; rw [hq] at this; simp at this; omega
  | init => intro hc; simp [apply, FQ.init] at hc ⊢; omega
  | _ => exact h

/-- **never more than its capacity**, for every capacity, element type and operation sequence -/
theorem size_le_cap {α} (cap : Int) (ops : List (Op α)) (hc : 0 < cap) :
    (((ops.foldl apply (FQ.new cap)).size : Nat) : Int) ≤ cap := by
  have key : ∀ (ops : List (Op α)) (q : FQ α), Bounded q → Bounded (ops.foldl apply q) ∧ (ops.foldl apply q).cap = q.cap := by
    intro ops
    induction ops with
    | nil => intro q h; exact ⟨h, rfl⟩
    | cons o os ih =>
      intro q h
      have := ih (apply q o) (apply_bounded q o h)
      simp only [List.foldl_cons]
      exact ⟨this.1, by rw [this.2, apply_cap]⟩
  have h0 : Bounded (FQ.new cap : FQ α) := by intro _; simp [FQ.new]; omega
  have ⟨hb, hcap⟩ := key ops (FQ.new cap) h0
  have : (ops.foldl apply (FQ.new cap)).cap = cap := by simpa [FQ.new] using hcap
  unfold Bounded at hb
  rw [this] at hb
  exact hb hc

/-- **a rejected push has no effect at all** (the queue is *equal* to the one before) -/
theorem push_reject_no_effect {α} (q : FQ α) (x : α) (h : (q.push x).2 = false) : (q.push x).1 = q := by
  unfold FQ.push at *; split <;> simp_all

/-- `IsFull` predicts exactly whether the next `Push` is rejected -/
theorem isFull_iff_push_rejected {α} (q : FQ α) (x : α) : q.isFull = !(q.push x).2 := by
  unfold FQ.isFull FQ.push; rw [guard_isFull]; split <;> simp_all

/-- **it succeeds again as soon as a slot frees up** -/
theorem push_after_pop {α} (q : FQ α) (x : α) (hb : Bounded q) (hne : q.elems ≠ []) :
    ((q.pop.1).push x).2 = true := by
  rw [push_spec, pop_spec]
  unfold Bounded at hb
  cases hq : q.elems with
  | nil => exact absurd hq hne
  | cons y ys =>
    simp only
    have : ¬ (0 < q.cap ∧ q.cap ≤ ((ys.length : Nat) : Int)) := by
      intro ⟨h1, h2⟩; have := hb h1; rw [hq] at this; simp at this; omega
    simp [this]

theorem size_isEmpty_spec {α} (q : FQ α) : (q.isEmpty = true ↔ q.elems = []) := by
  unfold FQ.isEmpty; rw [(guard_empty _).1]; exact List.length_eq_zero_iff

/-! ### FIFO refinement: what comes out is what was accepted, in order -/

/-- ghost run: returns the final queue, the values popped, and the values whose push was accepted -/
def run {α} : FQ α → List (Op α) → FQ α × List α × List α
  | q, [] => (q, [], [])
  | q, .push x :: os =>
    let (q', ok) := q.push x
    let (qf, p, a) := run q' os
    (qf, p, if ok then x :: a else a)
  | q, .pop :: os =>
    let (q', r) := q.pop
    let (qf, p, a) := run q' os
    (qf, (match r with | some v => v :: p | none => p), a)
  | q, _ :: os => run q os

def noInit {α} : List (Op α) → Bool
  | [] => true
  | .init :: _ => false
  | _ :: os => noInit os

/-- **FIFO**: for every op sequence without `Init`, popped values followed by what is still queued is
    exactly the initial content followed by the accepted pushes, in order. (`Init` empties: `init_spec`.) -/
theorem fifo {α} (ops : List (Op α)) (q : FQ α) (h : noInit ops = true) :
    (run q ops).2.1 ++ (run q ops).1.elems = q.elems ++ (run q ops).2.2 := by
  induction ops generalizing q with
  | nil => simp [run]
  | cons o os ih =>
    cases o with
    | push x =>
      have hh : noInit os = true := by simpa [noInit] using h
      simp only [run]
      rw [push_spec]
      split
      · simpa using ih q hh
      · have := ih { q with elems := q.elems ++ [x] } hh
        simp at this ⊢; exact this
    | pop =>
      have hh : noInit os = true := by simpa [noInit] using h
      simp only [run]
      rw [pop_spec]
      cases hq : q.elems with
      | nil => have := ih q hh; simp [hq] at this ⊢; exact this
      | cons y ys => have := ih { q with elems := ys } hh; simp at this ⊢; exact this
    | init => simp [noInit] at h
    | peek => exact ih q (by simpa [noInit] using h)
    | size => exact ih q (by simpa [noInit] using h)
    | isFull => exact ih q (by simpa [noInit] using h)
    | isEmpty => exact ih q (by simpa [noInit] using h)

theorem init_spec {α} (q : FQ α) : q.init.elems = [] ∧ q.init.cap = q.cap := ⟨rfl, rfl⟩

/-! ### maps behave like `String → Option _` -/

theorem find_insert {β} (m : AMap β) (k k' : String) (v : β) :
    AMap.find (AMap.insert m k v) k' = if k' = k then some v else AMap.find m k' := by
  induction m with
  | nil => simp [AMap.insert, AMap.find]; split <;> simp_all [eq_comm]
  | cons p rest ih =>
    obtain ⟨a, b⟩ := p
    simp only [AMap.insert]
    by_cases h : a = k
    · subst h; simp [AMap.find]; split <;> simp_all [eq_comm]
    · simp [h, AMap.find, ih]
      by_cases h2 : a = k'
      · subst h2; simp [h]
      · simp [h2]

theorem find_erase {β} (m : AMap β) (k k' : String) :
    AMap.find (AMap.erase m k) k' = if k' = k then none else AMap.find m k' := by
  induction m with
  | nil => simp [AMap.erase, AMap.find]
  | cons p rest ih =>
    obtain ⟨a, b⟩ := p
    have ih' : AMap.find (List.filter (fun p => p.1 != k) rest) k' = if k' = k then none else AMap.find rest k' := ih
    by_cases h : a = k
    · subst h
      have : AMap.erase ((a, b) :: rest) a = List.filter (fun p => p.1 != a) rest := by
        simp [AMap.erase, List.filter_cons]
      rw [this, ih']; simp [AMap.find]; split <;> simp_all [eq_comm]
    · have : AMap.erase ((a, b) :: rest) k = (a, b) :: List.filter (fun p => p.1 != k) rest := by
        have hb : (a != k) = true := by simp [h]
        simp [AMap.erase, List.filter_cons, hb]
      rw [this]; simp only [AMap.find]; rw [ih']
      by_cases h2 : a = k'
      · subst h2; simp [h]
      · simp [h2]

/-- queue map: `Get` after each operation, for every pair of client ids -/
theorem qmap_spec {α} (m : QMap α) (c c' : String) (q : FQ α) :
    (m.remove c).get c' = (if c' = c then none else m.get c') ∧
    (m.add c q).get c' = (if c' = c then some q else m.get c') ∧
    ((m.getOrCreate c).1.get c' = (if c' = c then some ((m.get c).getD (FQ.new m.cap)) else m.get c')) ∧
    ((m.getOrCreate c).2 = (m.get c).getD (FQ.new m.cap)) ∧
    (m.init.get c' = none) := by
  refine ⟨?_, ?_, ?_, ?_, ?_⟩
  · simp [QMap.remove, QMap.get, find_erase]
  · simp [QMap.add, QMap.get, find_insert]
  · unfold QMap.getOrCreate QMap.get
    cases h : AMap.find m.data c with
    | none => simp [find_insert]
    | some v => simp; intro e; subst e; exact h
  · unfold QMap.getOrCreate QMap.get
    cases h : AMap.find m.data c <;> simp
  · simp [QMap.init, QMap.get, AMap.find]

/-! ### pending state: a single slot -/

theorem cstate_spec (s : CState) (id id' req : String) :
    -- a new request is taken iff the id is non-empty and the slot is free; otherwise nothing changes
    (s.add id req = if id ≠ "" ∧ s.reqId = "" then { reqId := id, req := req } else s) ∧
    -- lookup hits exactly the stored id
    ((s.get id').isSome = true ↔ s.reqId = id') ∧
    -- delete frees the slot only for the stored id
    (s.delete id' = if s.reqId = id' then { s with reqId := "" } else s) ∧
    (s.has = true ↔ s.reqId ≠ "") ∧ (s.clear.has = false) := by
  refine ⟨?_, ?_, ?_, ?_, ?_⟩
  · simp [CState.add, Gen.Guards.stateAddAccepts]
  · simp [CState.get, Gen.Guards.stateGetMiss]
  · simp [CState.delete, Gen.Guards.stateDeleteMiss]
  · simp [CState.has, Gen.Guards.stateHas]
  · simp [CState.has, CState.clear, Gen.Guards.stateHas]

/-- at most one pending id: once a request is pending, further adds are ignored until it is deleted -/
theorem cstate_single_slot (s : CState) (id req : String) (h : s.has = true) : s.add id req = s := by
  have := (cstate_spec s id id req).1
  have hh := (cstate_spec s id id req).2.2.2.1.mp h
  rw [this]; simp [hh]

/-- server state: per-client slots are independent -/
theorem sstate_independent (m : SState) (c c' id req : String) (h : c' ≠ c) :
    (SState.add m c id req).has c' = m.has c' ∧ (SState.delete m c id).has c' = m.has c' ∧
    (SState.clearClient m c).has c' = m.has c' := by
  refine ⟨?_, ?_, ?_⟩
  · unfold SState.add SState.getOrCreate SState.has
    cases hf : AMap.find m c <;> simp [find_insert, h]
  · unfold SState.delete SState.has
    cases hf : AMap.find m c <;> simp [find_insert, h]
  · unfold SState.clearClient SState.has; simp [find_erase, h]

theorem sstate_clear (m : SState) (c : String) : (SState.clearClient m c).has c = false := by
  unfold SState.clearClient SState.has; simp [find_erase]

/-! ### callback queue -/

def NoEmpty (m : CbQ) : Prop := ∀ k l, AMap.find m k = some l → l ≠ []

theorem insert_insert {β} (m : AMap β) (k : String) (v w : β) :
    AMap.insert (AMap.insert m k v) k w = AMap.insert m k w := by
  induction m with
  | nil => simp [AMap.insert]
  | cons p rest ih =>
    obtain ⟨a, b⟩ := p
    by_cases h : a = k
    · subst h; simp [AMap.insert]
    · simp [AMap.insert, h, ih]

theorem insert_self {β} (m : AMap β) (k : String) (v : β) (h : AMap.find m k = some v) :
    AMap.insert m k v = m := by
  induction m with
  | nil => simp [AMap.find] at h
  | cons p rest ih =>
    obtain ⟨a, b⟩ := p
    by_cases hk : a = k
    · subst hk; simp [AMap.find] at h; simp [AMap.insert, h]
    · simp [AMap.find, hk] at h; simp [AMap.insert, hk, ih h]

theorem erase_insert_absent {β} (m : AMap β) (k : String) (v : β) (h : AMap.find m k = none) :
    AMap.erase (AMap.insert m k v) k = m := by
  induction m with
  | nil => simp [AMap.insert, AMap.erase]
  | cons p rest ih =>
    obtain ⟨a, b⟩ := p
    by_cases hk : a = k
    · subst hk; simp [AMap.find] at h
    · simp [AMap.find, hk] at h
      have := ih h
      unfold AMap.erase at *
      simp [AMap.insert, hk, List.filter, this]

/-- **rollback**: when `try` fails the callback map is *equal* to the one before — key present or absent.
    Together with C01(c) this is "no callback is retained" for a rejected send. -/
theorem tryQueue_rollback (m : CbQ) (id cb : String) (h : NoEmpty m) :
    (CbQ.tryQueue m id false cb).1 = m ∧ (CbQ.tryQueue m id false cb).2 = false := by
  unfold CbQ.tryQueue
  cases hf : AMap.find m id with
  | none =>
    simp [find_insert, erase_insert_absent m id _ hf]
  | some l =>
    have hl := h id l hf
    simp [find_insert]
    have : ¬ (l.length = 0) := by
      intro h0; exact hl (List.length_eq_zero_iff.mp h0)
    have h2 : ¬ (l = []) := hl
    simp [h2, insert_insert, insert_self m id l hf]

theorem tryQueue_ok (m : CbQ) (id cb : String) :
    AMap.find (CbQ.tryQueue m id true cb).1 id = some ((AMap.find m id).getD [] ++ [cb]) ∧
    (∀ k, k ≠ id → AMap.find (CbQ.tryQueue m id true cb).1 k = AMap.find m k) := by
  unfold CbQ.tryQueue; simp [find_insert]; intro k hk; simp [hk]

theorem tryQueue_noEmpty (m : CbQ) (id cb : String) (ok : Bool) (h : NoEmpty m) :
    NoEmpty (CbQ.tryQueue m id ok cb).1 := by
  cases ok with
  | false => rw [(tryQueue_rollback m id cb h).1]; exact h
  | true =>
    intro k l hk
    by_cases e : k = id
    · subst e; rw [(tryQueue_ok m k cb).1] at hk; simp at hk; subst hk; simp
    · rw [(tryQueue_ok m id cb).2 k e] at hk; exact h k l hk

/-- `Dequeue` returns the *oldest* callback of that id (FIFO per key), leaves other keys alone,
    keeps the invariant, and never reaches its `panic`. -/
theorem dequeue_spec (m : CbQ) (id : String) (h : NoEmpty m) :
    (CbQ.dequeue m id).2 ≠ .panic ∧ NoEmpty (CbQ.dequeue m id).1 ∧
    (∀ k, k ≠ id → AMap.find (CbQ.dequeue m id).1 k = AMap.find m k) ∧
    (match AMap.find m id with
     | none => (CbQ.dequeue m id).2 = .none
     | some l => (CbQ.dequeue m id).2 = .cb (l.headD "") ∧
                 AMap.find (CbQ.dequeue m id).1 id = (if l.tail = [] then none else some l.tail)) := by
  unfold CbQ.dequeue
  cases hf : AMap.find m id with
  | none => simp; exact h
  | some l =>
    match l, hf with
    | [], hf => exact absurd rfl (h id [] hf)
    | [c], hf =>
      refine ⟨by simp, ?_, ?_, ?_⟩
      · intro k l' hk; simp [find_erase] at hk; exact h k l' hk.2
      · intro k hk; simp [find_erase, hk]
      · simp [find_erase]
    | c :: d :: rest, hf =>
      refine ⟨by simp, ?_, ?_, ?_⟩
      · intro k l' hk
        simp [find_insert] at hk
        by_cases e : k = id
        · simp [e] at hk; subst hk; simp
        · simp [e] at hk; exact h k l' hk
      · intro k hk; simp [find_insert, hk]
      · simp [find_insert]

/-- every reachable callback queue satisfies the invariant (any sequence of TryQueue / Dequeue) -/
inductive CbOp where
  | tryQ (id : String) (ok : Bool) (cb : String)
  | deq (id : String)

def cbApply (m : CbQ) : CbOp → CbQ
  | .tryQ id ok cb => (CbQ.tryQueue m id ok cb).1
  | .deq id => (CbQ.dequeue m id).1

theorem cbq_reachable_noEmpty (ops : List CbOp) : NoEmpty (ops.foldl cbApply []) := by
  have : ∀ (ops : List CbOp) (m : CbQ), NoEmpty m → NoEmpty (ops.foldl cbApply m) := by
    intro ops
    induction ops with
    | nil => intro m h; exact h
    | cons o os ih =>
      intro m h
      apply ih
      cases o with
      | tryQ id ok cb => exact tryQueue_noEmpty m id cb ok h
      | deq id => exact (dequeue_spec m id h).2.1
  exact this ops [] (by intro k l hk; simp [AMap.find] at hk)

/-- hence `Dequeue`'s panic branch is unreachable from any history -/
theorem cbq_never_panics (ops : List CbOp) (id : String) :
    (CbQ.dequeue (ops.foldl cbApply []) id).2 ≠ .panic :=
  (dequeue_spec _ id (cbq_reachable_noEmpty ops)).1

/-! ### T3 tie: the method bodies the container models were written from are unchanged
(each body is `Lock; defer Unlock; …` over the structure's own fields — the atomicity assumption) -/

theorem skel_queueInit : Gen.Skeletons.queueInit = Ocpp.Expected.queueInit := by decide
theorem skel_queuePush : Gen.Skeletons.queuePush = Ocpp.Expected.queuePush := by decide
theorem skel_queuePeek : Gen.Skeletons.queuePeek = Ocpp.Expected.queuePeek := by decide
theorem skel_queuePop : Gen.Skeletons.queuePop = Ocpp.Expected.queuePop := by decide
theorem skel_queueSize : Gen.Skeletons.queueSize = Ocpp.Expected.queueSize := by decide
theorem skel_queueIsFull : Gen.Skeletons.queueIsFull = Ocpp.Expected.queueIsFull := by decide
theorem skel_queueIsEmpty : Gen.Skeletons.queueIsEmpty = Ocpp.Expected.queueIsEmpty := by decide
theorem skel_qmapInit : Gen.Skeletons.qmapInit = Ocpp.Expected.qmapInit := by decide
theorem skel_qmapGet : Gen.Skeletons.qmapGet = Ocpp.Expected.qmapGet := by decide
theorem skel_qmapGetOrCreate : Gen.Skeletons.qmapGetOrCreate = Ocpp.Expected.qmapGetOrCreate := by decide
theorem skel_qmapRemove : Gen.Skeletons.qmapRemove = Ocpp.Expected.qmapRemove := by decide
theorem skel_qmapAdd : Gen.Skeletons.qmapAdd = Ocpp.Expected.qmapAdd := by decide
theorem skel_csAdd : Gen.Skeletons.csAdd = Ocpp.Expected.csAdd := by decide
theorem skel_csGet : Gen.Skeletons.csGet = Ocpp.Expected.csGet := by decide
theorem skel_csDelete : Gen.Skeletons.csDelete = Ocpp.Expected.csDelete := by decide
theorem skel_csClear : Gen.Skeletons.csClear = Ocpp.Expected.csClear := by decide
theorem skel_csHas : Gen.Skeletons.csHas = Ocpp.Expected.csHas := by decide
theorem skel_ssAdd : Gen.Skeletons.ssAdd = Ocpp.Expected.ssAdd := by decide
theorem skel_ssDelete : Gen.Skeletons.ssDelete = Ocpp.Expected.ssDelete := by decide
theorem skel_ssGetClientState : Gen.Skeletons.ssGetClientState = Ocpp.Expected.ssGetClientState := by decide
theorem skel_ssHas : Gen.Skeletons.ssHas = Ocpp.Expected.ssHas := by decide
theorem skel_ssHasAny : Gen.Skeletons.ssHasAny = Ocpp.Expected.ssHasAny := by decide
theorem skel_ssClearClient : Gen.Skeletons.ssClearClient = Ocpp.Expected.ssClearClient := by decide
theorem skel_ssClearAll : Gen.Skeletons.ssClearAll = Ocpp.Expected.ssClearAll := by decide
theorem skel_ssGetOrCreate : Gen.Skeletons.ssGetOrCreate = Ocpp.Expected.ssGetOrCreate := by decide
theorem skel_cqTryQueue : Gen.Skeletons.cqTryQueue = Ocpp.Expected.cqTryQueue := by decide
theorem skel_cqDequeue : Gen.Skeletons.cqDequeue = Ocpp.Expected.cqDequeue := by decide

/-! ### non-vacuity -/

example : ((([.push 1, .push 2, .push 3, .pop, .push 4] : List (Op Nat)).foldl apply (FQ.new 2)).elems = [2, 4]) := by decide
example : ((FQ.new 2 : FQ Nat).push 1).1.elems = [1] := by decide
example : ((({ cap := 1, elems := [7] } : FQ Nat).push 8).2 = false) := by decide
example : Bounded ({ cap := 1, elems := [7] } : FQ Nat) ∧ ({ cap := 1, elems := [7] } : FQ Nat).elems ≠ [] := by
  constructor
  · intro _; decide
  · decide
example : NoEmpty [("a", ["x"])] := by
  intro k l h; simp [AMap.find] at h; obtain ⟨_, h2⟩ := h; subst h2; simp

end C12
