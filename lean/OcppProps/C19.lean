import OcppModel.Lockset
import OcppModel.LockPolicy
import OcppModel.Expected
import OcppGen.Skeletons

/-!
# C19 — concurrent use of the thread-safe APIs is free of data races

Two parts.

1. `no_race` — the classical lock-set argument, machine-checked: on the abstract machine `Ocpp.LS` (threads, sync.RWMutex
   semantics, two-phase accesses) every schedule that respects the discipline "an access to a location happens inside a
   critical section of the location's guard, in write mode for writes" never reaches a state with two overlapping
   conflicting accesses.
2. `discipline_holds` — the discipline, decided by the kernel over the access table that T4 regenerates from the source on
   every run (which receiver field every method of the concurrency-relevant files touches, how, and under which lock):
   every row obeys the field's policy (`Ocpp.LockPolicy`), every call site of a "caller holds the lock" helper holds it.

What this does **not** give: the table is syntactic (receiver fields, lock-set by statement order) and the policy names a
few accepted exceptions and unguarded structures (ws.client): there the race detector on the concurrent workloads of
C01–C17 is the judge (search, `race_workloads`), and its reports on the unchanged tree are the known findings.
-/
namespace C19
open Ocpp.LS

structure Inv (guard : Loc → Lock) (s : St) : Prop where
  excl : ∀ l t t' w', (l, t, true) ∈ s.held → (l, t', w') ∈ s.held → t' = t
  inside : ∀ a ∈ s.inAcc, holds s a.t (guard a.loc) a.write = true

theorem holds_iff (s : St) (t : Thread) (l : Lock) (nw : Bool) :
    holds s t l nw = true ↔ ∃ w, (l, t, w) ∈ s.held ∧ (w = true ∨ nw = false) := by
  simp only [holds, List.any_eq_true]
  constructor
  · rintro ⟨⟨l', t', w⟩, hm, h⟩
    simp only [Bool.and_eq_true, beq_iff_eq, Bool.or_eq_true, Bool.not_eq_true'] at h
    obtain ⟨⟨rfl, rfl⟩, h3⟩ := h
    exact ⟨w, hm, h3⟩
  · rintro ⟨w, hm, h⟩
    exact ⟨(l, t, w), hm, by simpa using h⟩

theorem inv_step (guard : Loc → Lock) (s s' : St) (e : Ev) (hI : Inv guard s) (h : step guard s e = some s') : Inv guard s' := by
  obtain ⟨hE, hA⟩ := hI
  cases e with
  | acquire t l w =>
    simp only [step] at h
    split at h
    · rename_i hc
      injection h with h; subst h
      refine ⟨?_, ?_⟩
      · intro l1 t1 t2 w2 h1 h2
        simp only [List.mem_cons, Prod.mk.injEq] at h1 h2
        rcases h1 with ⟨rfl, rfl, hw⟩ | h1
        · -- the new entry is a write lock: nobody else holds l
          rcases h2 with ⟨_, rfl, _⟩ | h2
          · rfl
          · subst hw
            simp only [canAcquire, if_true, List.all_eq_true] at hc
            have := hc _ h2
            simp at this
        · rcases h2 with ⟨rfl, rfl, rfl⟩ | h2
          · -- an old write holder of the lock that is now acquired: impossible
            cases w2 with
            | true =>
              simp only [canAcquire, if_true, List.all_eq_true] at hc
              have := hc _ h1
              simp at this
            | false =>
              simp only [canAcquire, Bool.false_eq_true, if_false, List.all_eq_true] at hc
              have := hc _ h1
              simp at this
          · exact hE l1 t1 t2 w2 h1 h2
      · intro a ha
        have := hA a ha
        rw [holds_iff] at this ⊢
        obtain ⟨w', hm, hw'⟩ := this
        exact ⟨w', List.mem_cons_of_mem _ hm, hw'⟩
    · cases h
  | release t l =>
    simp only [step] at h
    split at h
    · cases h
    · rename_i hn
      injection h with h; subst h
      refine ⟨?_, ?_⟩
      · intro l1 t1 t2 w2 h1 h2
        exact hE l1 t1 t2 w2 (List.mem_filter.mp h1).1 (List.mem_filter.mp h2).1
      · intro a ha
        have := hA a ha
        rw [holds_iff] at this ⊢
        obtain ⟨w', hm, hw'⟩ := this
        refine ⟨w', List.mem_filter.mpr ⟨hm, ?_⟩, hw'⟩
        have hna : ¬ (a.t = t ∧ guard a.loc = l) := by
          intro hh
          apply hn
          simp only [List.any_eq_true]
          exact ⟨a, ha, by simp [hh.1, hh.2]⟩
        simp only [Bool.not_eq_true', Bool.and_eq_false_iff, beq_eq_false_iff_ne, ne_eq]
        by_cases h1 : guard a.loc = l
        · exact Or.inr (fun h2 => hna ⟨h2, h1⟩)
        · exact Or.inl h1
    | begin a =>
    simp only [step] at h
    split at h
    · rename_i hh
      injection h with h; subst h
      refine ⟨hE, ?_⟩
      intro b hb
      simp only [List.mem_cons] at hb
      rcases hb with rfl | hb
      · exact hh
      · exact hA b hb
    · cases h
  | finish a =>
    simp only [step, Option.some.injEq] at h; subst h
    exact ⟨hE, fun b hb => hA b (List.mem_of_mem_erase hb)⟩

theorem inv_init (guard : Loc → Lock) : Inv guard { held := [], inAcc := [] } :=
  ⟨by intro l t t' w' h; simp at h, by intro a h; simp at h⟩

theorem reach_inv (guard : Loc → Lock) (evs : List Ev) : ∀ s s', Inv guard s → run guard s evs = some s' → Inv guard s' := by
  induction evs with
  | nil => intro s s' hI h; simp [run] at h; subst h; exact hI
  | cons e es ih =>
    intro s s' hI h
    simp only [run] at h
    cases hs : step guard s e with
    | none => simp [hs] at h
    | some s1 => simp only [hs] at h; exact ih s1 s' (inv_step guard s s1 e hI hs) h

/-- **lock discipline ⇒ no data race**, for every guard assignment, any number of threads and locks, every schedule -/
theorem no_race (guard : Loc → Lock) (evs : List Ev) (s : St)
    (h : run guard { held := [], inAcc := [] } evs = some s) : ¬ race s := by
  have hI := reach_inv guard evs _ s (inv_init guard) h
  rintro ⟨a, ha, b, hb, hne, hloc, hw⟩
  have h1 := (holds_iff s a.t (guard a.loc) a.write).mp (hI.inside a ha)
  have h2 := (holds_iff s b.t (guard b.loc) b.write).mp (hI.inside b hb)
  obtain ⟨w1, hm1, hw1⟩ := h1
  obtain ⟨w2, hm2, hw2⟩ := h2
  rw [← hloc] at hm2
  rcases hw with hwa | hwb
  · have : w1 = true := by rcases hw1 with h | h <;> simp_all
    subst this
    exact hne (hI.excl _ _ _ _ hm1 hm2).symm
  · have : w2 = true := by rcases hw2 with h | h <;> simp_all
    subst this
    exact hne (hI.excl _ _ _ _ hm2 hm1)

/-- without the discipline the machine does race: the hypothesis is not vacuous -/
example : ∃ s, s.inAcc = [⟨2, 0, true⟩, ⟨1, 0, false⟩] ∧ race s :=
  ⟨{ held := [], inAcc := [⟨2, 0, true⟩, ⟨1, 0, false⟩] }, rfl, ⟨2, 0, true⟩, by simp, ⟨1, 0, false⟩, by simp, by decide, rfl, Or.inl rfl⟩
example : (run (fun _ => 7) { held := [], inAcc := [] }
    [.acquire 1 7 false, .acquire 2 7 false, .begin ⟨1, 0, false⟩, .begin ⟨2, 0, false⟩, .finish ⟨1, 0, false⟩, .release 1 7]).isSome = true := by decide
example : (run (fun _ => 7) { held := [], inAcc := [] } [.acquire 1 7 false, .acquire 2 7 true]).isSome = false := by decide

/-- **the discipline holds on the tree as it is now**: every row of the regenerated access table obeys its field's policy and
    every call site of a caller-holds helper holds the lock in the required mode (kernel-decided) -/
theorem discipline_holds : Ocpp.LockPolicy.chk = true := by decide +kernel

theorem no_failing_rows : Ocpp.LockPolicy.failing = [] := by decide +kernel

end C19
