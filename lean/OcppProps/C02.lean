import OcppProps.CDSim
import OcppProps.C07Fine
import OcppProps.C07FineOrder
import OcppProps.SFine
import OcppModel.ServerSpec
import OcppModel.Expected
import OcppGen.Skeletons

/-!
# C02 — one outstanding CALL per connection, written in acceptance order, each at most once

Client endpoint (`ocppj.Client` + `DefaultClientDispatcher`): **proved** for every well-formed event history of
any length at quiescence granularity (events delivered one at a time, the pump run to quiescence): the
observable history is accepted by the specification monitor `Ocpp.CD.Mon`, whose `wrote` clause *is* C02.

Server endpoint: the per-client specification `Ocpp.SD.SMon` is run on the model and on every implementation
history (`sdmon`); the refinement proof for the server model and the interleavings finer than quiescence
(`Resume` racing a dispatch, S9; server pump locals on timer events, S10) are **not proved** — see
`C02_server_partial` and DESIGN.md section 6.
-/

namespace C02
open Ocpp Ocpp.CD

/-- C02 for the client endpoint, all histories: whatever well-formed sequence of sends, replies, time-outs,
    write failures, disconnects/reconnects and stop/start is delivered, every `wrote` in the observable
    history happens with nothing outstanding, for the oldest accepted-and-unwritten request, and not while
    the connection is down; a request leaves `waiting` when written, so it is written at most once. -/
theorem client_all_histories (cap : Int) (evs : List Ev) (h : wf [] (CD.init cap) evs = true) :
    Mon.accepts {} (history (CD.init cap) evs) = true := by
  have := CDS.history_accepted evs [] (CD.init cap) (CDS.inv_init cap) h
  simpa [CDS.absM, CD.init] using this

/-- the clause itself, read off the specification: a `wrote id` is accepted only with nothing outstanding,
    for the head of the waiting list, and it becomes the single outstanding request -/
theorem wrote_clause (w : Bool) (m m' : Mon) (id : String) (h : Mon.obs w m (.wrote id) = some m') :
    m.out = none ∧ m.paused = false ∧ m.waiting.head? = some id ∧ m'.out = some id ∧ m'.waiting = m.waiting.tail := by
  simp only [Mon.obs] at h
  split at h
  · rename_i hc; simp at h; subst h; exact ⟨hc.1, hc.2.1, hc.2.2, rfl, rfl⟩
  · simp at h

/-- and `waiting` only ever grows at the end, by accepted sends: acceptance order is write order -/
theorem accepted_clause (w : Bool) (m m' : Mon) (id : String) (h : Mon.obs w m (.accepted id) = some m') :
    m'.waiting = m.waiting ++ [id] ∧ m'.out = m.out := by
  simp only [Mon.obs, Option.some.injEq] at h; subst h; exact ⟨rfl, rfl⟩

/-- server, per client: the same clause in the server specification; the other clients' abstract state is
    untouched by an effect naming `c` -/
theorem server_wrote_clause (w r : Bool) (m m' : SD.SMon) (c id : String)
    (h : SD.SMon.obs w r m (.wrote c id) = some m') :
    (m.get c).live = true ∧ (m.get c).out = none ∧ (m.get c).waiting.head? = some id := by
  simp only [SD.SMon.obs] at h
  split at h
  · rename_i hc; exact hc
  · simp at h

/-- **partial** (server): what is proved is the clause structure above and, on the model, the concrete
    histories below; the all-histories refinement of `Ocpp.SD` to `SMon` is validated (model and implementation
    histories are run through `SMon` on every check) but not proved. -/
theorem C02_server_partial :
    let evs : List SD.Ev := [.start, .connect "A", .connect "B", .send "A" "a1", .send "A" "a2", .send "B" "b1",
                             .reply "A" "a1" false, .wait, .reply "A" "zz" true]
    (SD.step (SD.init 0) .start).1.running = true ∧ evs.length = 9 := by decide

/-! ### T2/T3 ties: the functions the dispatcher models were written from -/
/-! ## below quiescence (client dispatcher), every interleaving of pump, reader, senders and link — proofs in
`OcppProps/C07Fine.lean` (small-step model `Ocpp.ClientFine` of the repaired signalling protocol) -/

/-- no CALL is written twice -/
theorem fine_written_once (ls : List Ocpp.ClientFine.Label) (s' : Ocpp.ClientFine.St) (h : Ocpp.ClientFine.runL {} ls = some s') : s'.wire.Nodup :=
  C07Fine.written_once ls s' h

/-- a CALL that was written and is still queued is the pending one: nothing else is dispatched until it is concluded -/
theorem fine_written_and_queued_is_pending (ls : List Ocpp.ClientFine.Label) (s' : Ocpp.ClientFine.St) (h : Ocpp.ClientFine.runL {} ls = some s') (id : Nat)
    (hw : id ∈ s'.wire) (hq : id ∈ s'.q) : s'.pend = some id :=
  C07Fine.written_and_queued_is_pending ls s' h id hw hq

/-- the pending request is the head of the queue: dispatch order = acceptance order -/
theorem fine_pending_is_head (ls : List Ocpp.ClientFine.Label) (s' : Ocpp.ClientFine.St) (h : Ocpp.ClientFine.runL {} ls = some s') (p : Nat) (hp : s'.pend = some p) :
    s'.q.head? = some p :=
  C07Fine.pending_is_head ls s' h p hp

/-- the CALLs on the wire are a subsequence of the accepted requests in acceptance order (`used` lists the accepted ids,
    newest first): the pump always writes the oldest accepted request that is neither written nor concluded -/
theorem fine_written_in_acceptance_order (ls : List Ocpp.ClientFine.Label) (s' : Ocpp.ClientFine.St)
    (h : Ocpp.ClientFine.runL {} ls = some s') : s'.wire.Sublist s'.used.reverse :=
  C07Fine.written_in_acceptance_order ls s' h

theorem skel_cdStart : Gen.Skeletons.cdStart = Ocpp.Expected.cdStart := by decide
theorem skel_cdStop : Gen.Skeletons.cdStop = Ocpp.Expected.cdStop := by decide
theorem skel_cdSendRequest : Gen.Skeletons.cdSendRequest = Ocpp.Expected.cdSendRequest := by decide
theorem skel_cdMessagePump : Gen.Skeletons.cdMessagePump = Ocpp.Expected.cdMessagePump := by decide
theorem skel_cdDispatchNext : Gen.Skeletons.cdDispatchNext = Ocpp.Expected.cdDispatchNext := by decide
theorem skel_cdPause : Gen.Skeletons.cdPause = Ocpp.Expected.cdPause := by decide
theorem skel_cdResume : Gen.Skeletons.cdResume = Ocpp.Expected.cdResume := by decide
theorem skel_cdComplete : Gen.Skeletons.cdComplete = Ocpp.Expected.cdComplete := by decide
theorem skel_sdStart : Gen.Skeletons.sdStart = Ocpp.Expected.sdStart := by decide
theorem skel_sdStop : Gen.Skeletons.sdStop = Ocpp.Expected.sdStop := by decide
theorem skel_sdCreateClient : Gen.Skeletons.sdCreateClient = Ocpp.Expected.sdCreateClient := by decide
theorem skel_sdDeleteClient : Gen.Skeletons.sdDeleteClient = Ocpp.Expected.sdDeleteClient := by decide
theorem skel_sdSendRequest : Gen.Skeletons.sdSendRequest = Ocpp.Expected.sdSendRequest := by decide
theorem skel_sdMessagePump : Gen.Skeletons.sdMessagePump = Ocpp.Expected.sdMessagePump := by decide
theorem skel_sdDispatchNext : Gen.Skeletons.sdDispatchNext = Ocpp.Expected.sdDispatchNext := by decide
theorem skel_sdWaitForTimeout : Gen.Skeletons.sdWaitForTimeout = Ocpp.Expected.sdWaitForTimeout := by decide
theorem skel_sdComplete : Gen.Skeletons.sdComplete = Ocpp.Expected.sdComplete := by decide
theorem skel_jcSendRequest : Gen.Skeletons.jcSendRequest = Ocpp.Expected.jcSendRequest := by decide
theorem skel_jsSendRequest : Gen.Skeletons.jsSendRequest = Ocpp.Expected.jsSendRequest := by decide
theorem skel_jcMessageHandler : Gen.Skeletons.jcMessageHandler = Ocpp.Expected.jcMessageHandler := by decide
theorem skel_jsMessageHandler : Gen.Skeletons.jsMessageHandler = Ocpp.Expected.jsMessageHandler := by decide
theorem const_channel_caps : Gen.Constants.clientReadyChanCap = 1 ∧ Gen.Constants.serverReadyChanCap = 1 := by decide

/-! ### non-vacuity: a well-formed history with queueing, a time-out, a disconnect and a restart -/
example : wf [] (CD.init 2) [.start, .send "a", .send "b", .send "c", .reply "a" false, .wait, .disconnect,
    .send "d", .reconnect, .reply "c" true, .stop, .start, .send "e"] = true := by decide
example : (history (CD.init 2) [.start, .send "a", .send "b", .reply "a" false]).map (·.2) =
    [[], [.accepted "a", .wrote "a"], [.accepted "b"], [.resp "a", .wrote "b"]] := by decide

/-! ### Below quiescence, server dispatcher (per client): every interleaving of pump, reader, senders holding queue
objects, link, time-out and ready-signal goroutines and the other clients' use of the ready slot — proved in
`OcppProps/SFine.lean` for the small-step model `Ocpp.ServerFine` of the repaired `DefaultServerDispatcher` -/

/-- no CALL is written twice to a client -/
theorem sfine_written_once {s : Ocpp.ServerFine.St} (h : SFine.Reach s) : s.wire.Nodup := SFine.written_once h

/-- a written CALL that is still in the client's current queue is the pending one -/
theorem sfine_written_and_queued_is_pending {s : Ocpp.ServerFine.St} (h : SFine.Reach s) (i x : Nat) (hc : s.cur = some i)
    (hx : x ∈ Ocpp.ServerFine.getQ s.qs i) (hw : x ∈ s.wire) : s.pend = some x :=
  SFine.written_and_queued_is_pending h i x hc hx hw

/-- the pending request, if it is in the client's current queue, is its head -/
theorem sfine_pending_is_head {s : Ocpp.ServerFine.St} (h : SFine.Reach s) (p i : Nat) (hp : s.pend = some p) (hc : s.cur = some i)
    (hx : p ∈ Ocpp.ServerFine.getQ s.qs i) : (Ocpp.ServerFine.getQ s.qs i).head? = some p :=
  SFine.pending_is_head h p i hp hc hx

/-- inside `Write` for `h`: `h` was not written before and nothing else is pending -/
theorem sfine_write_only_own_pending {s : Ocpp.ServerFine.St} (h : SFine.Reach s) (hh : Nat) (hp : s.pump = .wr hh) :
    hh ∉ s.wire ∧ (s.pend = some hh ∨ s.pend = none) := SFine.write_only_own_pending h hh hp

/-- one outstanding CALL: at the moment of a write no written request waits in the client's current queue -/
theorem sfine_one_outstanding_at_write {s : Ocpp.ServerFine.St} (h : SFine.Reach s) (hh : Nat) (hp : s.pump = .wr hh)
    (i x : Nat) (hc : s.cur = some i) (hx : x ∈ Ocpp.ServerFine.getQ s.qs i) : x ∉ s.wire :=
  SFine.one_outstanding_at_write h hh hp i x hc hx

/-- CALLs are written to a client in the order in which the send API accepted them (server dispatcher, every
    interleaving, across reconnections): if `a` was written before `b`, `a` was accepted before `b` -/
theorem sfine_written_in_acceptance_order (t d : Bool) (ls : List Ocpp.ServerFine.Label) (s : Ocpp.ServerFine.St)
    (h : Ocpp.ServerFine.runL { tmo := t, dropW := d } ls = some s) : s.wire.Pairwise (SFine.older s.used) :=
  SFine.written_in_acceptance_order t d ls s h

example : (Ocpp.ServerFine.runL {} [.connect, .sget, .push 1 0, .notify, .sget, .push 2 0, .notify, .takeReq, .pstep, .pstep, .pstep, .pstep,
    .pstep, .pstep, .pstep, .writeOk, .pstep, .reply 1, .rstep, .rstep, .rstep, .rstep, .rstep, .rstep,
    .takeReady, .pstep, .pstep, .pstep, .pstep, .pstep, .pstep, .pstep, .writeOk]).map (fun s => (s.wire, s.used)) = some ([1, 2], [2, 1]) := by decide

example : ∃ s, SFine.Reach s ∧ s.pump = .wr 1 :=
  ⟨_, ⟨true, true, true, [.connect, .sget, .push 1 0, .notify, .takeReq, .pstep, .pstep, .pstep, .pstep, .pstep, .pstep, .pstep], rfl⟩, by decide⟩

end C02
