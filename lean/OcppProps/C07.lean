import OcppProps.CDSim
import OcppProps.C16
import OcppModel.Expected
import OcppGen.Skeletons

/-!
# C07 — request dispatchers never deadlock

**Full statement (false of the code as it is):** for every interleaving of send calls, replies, time-outs,
write failures and connection events every API call returns and every accepted request is eventually written
or cancelled; a problem on one connection never stops the others.

The schedule monitors reproduce deadlocks on the unchanged implementation (known findings, DESIGN.md
section 6, S11): the pump goroutine sends to its own capacity-1 `readyForDispatch` (two near-simultaneous
completions), senders blocked on a full request channel while holding the dispatcher read lock against a
pending writer, `Pause` draining an already consumed timer channel.

**Proved (`C07_partial`)**: at quiescence granularity — events delivered one at a time, any history, any
length, any mix of faults — the client endpoint never wedges and never panics (`always_alive`), the internal
activity after each event terminates (the model functions are total, with fuel bounded by the queue length),
every quiescent state satisfies "head written ∨ queue empty ∨ paused ∨ stopped" (`quiescent_progress`), and
the ready channel is empty whenever the pump is parked (`Inv.tok0`), which is exactly the condition whose
violation the monitors exhibit below quiescence.
-/

namespace C07
open Ocpp Ocpp.CD CDL CDS

/-- no reachable quiescent state is wedged or crashed, for every well-formed history -/
theorem C07_partial (cap : Int) (evs : List Ev) (h : wf [] (CD.init cap) evs = true) :
    (run (CD.init cap) evs).1.dead = false :=
  C16.always_alive evs [] (CD.init cap) (CDS.inv_init cap) h

/-- the invariant holds in every reachable state (so do all its clauses, e.g. `tok0`) -/
theorem reachable_inv (evs : List Ev) :
    ∀ (used : List String) (s : St), Inv used s → wf used s evs = true → ∃ used', Inv used' (run s evs).1 := by
  induction evs with
  | nil => intro used s hI _; exact ⟨used, hI⟩
  | cons e es ih =>
    intro used s hI hw
    simp only [wf, Bool.and_eq_true] at hw
    have h2 := (step_sim used s e hI hw.1).2
    simp only [run]
    exact ih _ _ h2 hw.2

/-- **progress at quiescence**: in every reachable state of a running endpoint either the head of the queue is
    on the wire (pending), or the queue is empty, or the dispatcher is paused -/
theorem quiescent_progress (cap : Int) (evs : List Ev) (h : wf [] (CD.init cap) evs = true) :
    let s := (run (CD.init cap) evs).1
    s.running = true → (s.pend ≠ "" ∧ s.q.head? = some s.pend) ∨ s.q = [] ∨ s.paused = true := by
  obtain ⟨used', hI⟩ := reachable_inv evs [] (CD.init cap) (CDS.inv_init cap) h
  intro s hrun
  by_cases hp : s.pend = ""
  · cases hpa : s.paused with
    | true => exact Or.inr (Or.inr rfl)
    | false => exact Or.inr (Or.inl (hI.idle hrun hpa hp))
  · exact Or.inl ⟨hp, hI.pendHd hp⟩

/-- the ready channel is drained whenever the pump is parked: the state in which a completion can block never
    persists at quiescence -/
theorem ready_channel_empty (cap : Int) (evs : List Ev) (h : wf [] (CD.init cap) evs = true) :
    (run (CD.init cap) evs).1.running = true → (run (CD.init cap) evs).1.tok = 0 := by
  obtain ⟨used', hI⟩ := reachable_inv evs [] (CD.init cap) (CDS.inv_init cap) h
  exact hI.tok0

theorem const_caps : Gen.Constants.clientRequestChanCap = 1 ∧ Gen.Constants.clientReadyChanCap = 1 ∧
    Gen.Constants.serverRequestChanCap = 20 ∧ Gen.Constants.serverReadyChanCap = 1 ∧
    Gen.Constants.serverTimerChanCap = 10 := by decide
theorem skel_cdSendRequest : Gen.Skeletons.cdSendRequest = Ocpp.Expected.cdSendRequest := by decide
theorem skel_cdMessagePump : Gen.Skeletons.cdMessagePump = Ocpp.Expected.cdMessagePump := by decide
theorem skel_cdComplete : Gen.Skeletons.cdComplete = Ocpp.Expected.cdComplete := by decide
theorem skel_cdPause : Gen.Skeletons.cdPause = Ocpp.Expected.cdPause := by decide
theorem skel_cdResume : Gen.Skeletons.cdResume = Ocpp.Expected.cdResume := by decide
theorem skel_cdIsPaused : Gen.Skeletons.cdIsPaused = Ocpp.Expected.cdIsPaused := by decide
theorem skel_cdIsRunning : Gen.Skeletons.cdIsRunning = Ocpp.Expected.cdIsRunning := by decide
theorem skel_sdSendRequest : Gen.Skeletons.sdSendRequest = Ocpp.Expected.sdSendRequest := by decide
theorem skel_sdMessagePump : Gen.Skeletons.sdMessagePump = Ocpp.Expected.sdMessagePump := by decide
theorem skel_sdComplete : Gen.Skeletons.sdComplete = Ocpp.Expected.sdComplete := by decide
theorem skel_sdWaitForTimeout : Gen.Skeletons.sdWaitForTimeout = Ocpp.Expected.sdWaitForTimeout := by decide
theorem skel_sdDeleteClient : Gen.Skeletons.sdDeleteClient = Ocpp.Expected.sdDeleteClient := by decide
theorem skel_sdIsRunning : Gen.Skeletons.sdIsRunning = Ocpp.Expected.sdIsRunning := by decide
theorem skel_cqTryQueue : Gen.Skeletons.cqTryQueue = Ocpp.Expected.cqTryQueue := by decide

example : wf [] (CD.init 1) [.start, .writeFail true, .send "a", .send "b", .writeFail false, .send "c",
    .send "d", .disconnect, .reconnect, .wait] = true := by decide

end C07
