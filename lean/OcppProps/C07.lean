import OcppProps.CDSim
import OcppProps.C16
import OcppProps.C07Fine
import OcppProps.SFine
import OcppModel.Expected
import OcppGen.Skeletons

/-!
# C07 — request dispatchers never deadlock

**Full statement:** for every interleaving of send calls, replies, time-outs, write failures and connection events
every API call returns and every accepted request is eventually written or cancelled; a problem on one connection never
stops the others.

On the pinned tree the schedule monitors reproduced deadlocks (DESIGN.md section 6, S11 and the `Pause` timer drain); each
got a deterministic directed scenario and a small repair in /repo (DESIGN.md 13.3), and no finding is open.

**Proved at quiescence granularity (`C07_partial`)** — events delivered one at a time, any history, any length, any mix of
faults — the client endpoint never wedges and never panics (`always_alive`), the internal activity after each event
terminates (the model functions are total, with fuel bounded by the queue length), every quiescent state satisfies "head
written ∨ queue empty ∨ paused ∨ stopped" (`quiescent_progress`), and the ready channel is empty whenever the pump is
parked (`Inv.tok0`).

**Proved below quiescence, for every interleaving** of the pump, the reader, any number of senders and the link in the
small-step model `Ocpp.ClientFine` of the repaired client dispatcher's signalling protocol (`OcppProps/C07Fine.lean`):
no operation of a sender, the reader or the link ever blocks (`fine_no_thread_blocks`), the pump never crashes
(`fine_no_crash`), and there is no lost wake-up (`fine_no_lost_wakeup`): whenever the pump is parked and no token is
waiting or about to be posted, there is nothing it could dispatch. `fine_old_guard_order_crashes` is the interleaving that
showed the first version of fix d6325cc to be wrong (queue tested before the pending request); the stress monitor then
reproduced that crash on the real code and the order was corrected (23ce802). Tie of this model: T3 fingerprints of
`messagePump`, `dispatchNextRequest`, `SendRequest`, `Pause`, `Resume`, `CompleteRequest` + the directed scenarios and the
stress monitors; the server dispatcher has no such model (searched only).
-/

namespace C07
open Ocpp Ocpp.CD CDL CDS

/-- no reachable quiescent state is wedged or crashed, for every well-formed history -/
theorem C07_partial (cap : Int) (evs : List Ev) (h : wf [] (CD.init cap) evs = true) :
    (run (CD.init cap) evs).1.dead = false :=
  C16.always_alive evs [] (CD.init cap) (CDS.inv_init cap) h

/-- the invariant holds in every reachable state (so do all its clauses, e.g. `tok0`) -/
theorem reachable_inv (evs : List Ev) :
    ∀ (used : List String) (s : St), Inv used s → wf used s evs = true → ∃ used', Inv used' (run s evs).1 := by
  induction evs with
  | nil => intro used s hI _; exact ⟨used, hI⟩
  | cons e es ih =>
    intro used s hI hw
    simp only [wf, Bool.and_eq_true] at hw
    have h2 := (step_sim used s e hI hw.1).2
    simp only [run]
    exact ih _ _ h2 hw.2

/-- **progress at quiescence**: in every reachable state of a running endpoint either the head of the queue is
    on the wire (pending), or the queue is empty, or the dispatcher is paused -/
theorem quiescent_progress (cap : Int) (evs : List Ev) (h : wf [] (CD.init cap) evs = true) :
    let s := (run (CD.init cap) evs).1
    s.running = true → (s.pend ≠ "" ∧ s.q.head? = some s.pend) ∨ s.q = [] ∨ s.paused = true := by
  obtain ⟨used', hI⟩ := reachable_inv evs [] (CD.init cap) (CDS.inv_init cap) h
  intro s hrun
  by_cases hp : s.pend = ""
  · cases hpa : s.paused with
    | true => exact Or.inr (Or.inr rfl)
    | false => exact Or.inr (Or.inl (hI.idle hrun hpa hp))
  · exact Or.inl ⟨hp, hI.pendHd hp⟩

/-- the ready channel is drained whenever the pump is parked: the state in which a completion can block never
    persists at quiescence -/
theorem ready_channel_empty (cap : Int) (evs : List Ev) (h : wf [] (CD.init cap) evs = true) :
    (run (CD.init cap) evs).1.running = true → (run (CD.init cap) evs).1.tok = 0 := by
  obtain ⟨used', hI⟩ := reachable_inv evs [] (CD.init cap) (CDS.inv_init cap) h
  exact hI.tok0

theorem const_caps : Gen.Constants.clientRequestChanCap = 1 ∧ Gen.Constants.clientReadyChanCap = 1 ∧
    Gen.Constants.serverRequestChanCap = 20 ∧ Gen.Constants.serverReadyChanCap = 1 ∧
    Gen.Constants.serverTimerChanCap = 10 := by decide
/-! ## below quiescence (client dispatcher), every interleaving — proofs in `OcppProps/C07Fine.lean` -/

/-- nothing to deadlock on: every operation of a sender, the reader and the link is enabled whenever its thread is at it;
    the pump waits only at its select or inside `network.Write` -/
theorem fine_no_thread_blocks (s : Ocpp.ClientFine.St) :
    (s.mid > 0 → (Ocpp.ClientFine.step s .wakeup).isSome) ∧
    (s.reader ≠ Ocpp.ClientFine.Reader.idle → (Ocpp.ClientFine.step s .rstep).isSome) ∧
    (s.link = Ocpp.ClientFine.Link.resuming → (Ocpp.ClientFine.step s .lstep).isSome) ∧
    ((∀ r, s.pump ≠ Ocpp.ClientFine.Pump.sel r) → (∀ id, s.pump ≠ Ocpp.ClientFine.Pump.writing id) → (Ocpp.ClientFine.step s .pstep).isSome) ∧
    (∀ id, s.pump = Ocpp.ClientFine.Pump.writing id → (Ocpp.ClientFine.step s .writeOk).isSome ∧ (Ocpp.ClientFine.step s .writeFail).isSome) :=
  C07Fine.no_thread_blocks s

/-- the pump never dereferences a nil bundle, for every interleaving -/
theorem fine_no_crash (ls : List Ocpp.ClientFine.Label) (s' : Ocpp.ClientFine.St) (h : Ocpp.ClientFine.runL {} ls = some s') : s'.crash = false :=
  C07Fine.no_crash ls s' h

/-- **no lost wake-up, every interleaving**: pump parked, no token waiting or about to be posted ⇒ nothing to dispatch -/
theorem fine_no_lost_wakeup (ls : List Ocpp.ClientFine.Label) (s' : Ocpp.ClientFine.St) (h : Ocpp.ClientFine.runL {} ls = some s')
    (hp : C07Fine.parked s' = true) (hq : C07Fine.quiet s' = true) : C07Fine.work s' = false :=
  C07Fine.no_lost_wakeup ls s' h hp hq

/-- the guard order of the first version of fix d6325cc reaches the nil dereference -/
theorem fine_old_guard_order_crashes :
    (Ocpp.ClientFine.runL { pendFirst := false } [.push 1, .wakeup, .takeWake, .pstep, .pstep, .pstep, .resume, .lstep, .pstep, .writeOk,
       .takeReady, .pstep, .pstep, .reply 1, .rstep, .rstep, .pstep, .pstep]).map (·.crash) = some true :=
  C07Fine.old_guard_order_crashes

/-- non-vacuity: a concrete interleaving reaches a parked, quiet state with nothing left to do -/
theorem fine_demo_run : (Ocpp.ClientFine.runL {} C07Fine.demoSched).map C07Fine.demoOk = some true := C07Fine.demo_run

theorem skel_cdSendRequest : Gen.Skeletons.cdSendRequest = Ocpp.Expected.cdSendRequest := by decide
theorem skel_cdMessagePump : Gen.Skeletons.cdMessagePump = Ocpp.Expected.cdMessagePump := by decide
theorem skel_cdComplete : Gen.Skeletons.cdComplete = Ocpp.Expected.cdComplete := by decide
theorem skel_cdPause : Gen.Skeletons.cdPause = Ocpp.Expected.cdPause := by decide
theorem skel_cdResume : Gen.Skeletons.cdResume = Ocpp.Expected.cdResume := by decide
theorem skel_cdIsPaused : Gen.Skeletons.cdIsPaused = Ocpp.Expected.cdIsPaused := by decide
theorem skel_cdIsRunning : Gen.Skeletons.cdIsRunning = Ocpp.Expected.cdIsRunning := by decide
theorem skel_sdSendRequest : Gen.Skeletons.sdSendRequest = Ocpp.Expected.sdSendRequest := by decide
theorem skel_sdMessagePump : Gen.Skeletons.sdMessagePump = Ocpp.Expected.sdMessagePump := by decide
theorem skel_sdComplete : Gen.Skeletons.sdComplete = Ocpp.Expected.sdComplete := by decide
theorem skel_sdWaitForTimeout : Gen.Skeletons.sdWaitForTimeout = Ocpp.Expected.sdWaitForTimeout := by decide
theorem skel_sdDeleteClient : Gen.Skeletons.sdDeleteClient = Ocpp.Expected.sdDeleteClient := by decide
theorem skel_sdIsRunning : Gen.Skeletons.sdIsRunning = Ocpp.Expected.sdIsRunning := by decide
theorem skel_cqTryQueue : Gen.Skeletons.cqTryQueue = Ocpp.Expected.cqTryQueue := by decide

example : wf [] (CD.init 1) [.start, .writeFail true, .send "a", .send "b", .writeFail false, .send "c",
    .send "d", .disconnect, .reconnect, .wait] = true := by decide

/-! ### Below quiescence, server dispatcher (per client): who can wait for whom — true in every state of the small-step
model `Ocpp.ServerFine` (`OcppProps/SFine.lean`) -/

/-- the server pump has a step everywhere except at its select, inside `network.Write`, and in front of the outcome mutex
    while the reader holds it -/
theorem sfine_pump_waits_only_at (s : Ocpp.ServerFine.St) (h : Ocpp.ServerFine.pumpStep s = none) :
    s.pump = .sel ∨ (∃ hh, s.pump = .wr hh) ∨ (∃ w hh, s.pump = .cb w hh ∧ Ocpp.ServerFine.readerHolds s = true) :=
  SFine.pump_waits_only_at s h

/-- the reader (which holds the outcome mutex only over such steps) never waits -/
theorem sfine_reader_never_blocks (s : Ocpp.ServerFine.St) (h : s.reader ≠ .idle) : (Ocpp.ServerFine.readerStep s).isSome = true :=
  SFine.reader_never_blocks s h

/-- `DeleteClient` / `ClearClientPendingRequest` never wait -/
theorem sfine_link_never_blocks (s : Ocpp.ServerFine.St) (h : s.link ≠ .idle) : (Ocpp.ServerFine.step s .lstep).isSome = true :=
  SFine.link_never_blocks s h

/-- a sender posts its wake-up without waiting for the pump -/
theorem sfine_sender_never_blocks (s : Ocpp.ServerFine.St) (h : s.mid > 0) : (Ocpp.ServerFine.step s .notify).isSome = true :=
  SFine.sender_never_blocks s h

/-- a taken ready slot is always freed by the pump at its select -/
theorem sfine_slot_is_freed (s : Ocpp.ServerFine.St) (hs : s.pump = .sel) (hr : s.ready ≠ .empty) :
    (Ocpp.ServerFine.step s .takeReady).isSome = true ∨ (Ocpp.ServerFine.step s .takeOther).isSome = true :=
  SFine.slot_is_freed s hs hr

/-- progress clause, server dispatcher, every interleaving: whenever the pump is parked at its select and nothing is on
    its way to it (no wake-up in the request channel, the client's ready token neither in the slot nor with a goroutine
    waiting for the slot, no sender between push and wake-up, no disconnection before its wake-up, the reader not about to
    post the ready signal), there is nothing the pump could dispatch for this client: no wake-up is ever lost -/
theorem sfine_no_lost_wakeup {s : Ocpp.ServerFine.St} (h : SFine.Reach s) (hp : s.pump = .sel) (h1 : s.reqs = 0) (h2 : s.ready ≠ .me)
    (h3 : s.sigw = 0) (h4 : s.mid = 0) (h5 : s.link ≠ .dl2) (h6 : ∀ id, s.reader ≠ .c3 id) : ¬ SFine.Dispatchable s :=
  SFine.no_lost_wakeup h hp h1 h2 h3 h4 h5 h6

example : ∃ s, SFine.Reach s ∧ s.pump = .sel ∧ SFine.Dispatchable s :=
  ⟨_, ⟨true, true, true, [.connect, .sget, .push 1 0, .notify], rfl⟩, rfl, ⟨0, rfl, by decide, rfl⟩⟩

/-- both outcomes of `network.Write` return the pump -/
theorem sfine_write_returns (s : Ocpp.ServerFine.St) (hh : Nat) (hp : s.pump = .wr hh) :
    (Ocpp.ServerFine.step s .writeOk).isSome = true ∧ (Ocpp.ServerFine.step s .writeFail).isSome = true :=
  SFine.write_returns s hh hp

end C07
