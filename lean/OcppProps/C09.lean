import OcppProps.CDSim
import OcppModel.ServerSpec
import OcppModel.Expected
import OcppGen.Skeletons

/-!
# C09 — replies that do not match the outstanding request are ignored

For every state of the client and of the server model (not only reachable ones) and every reply frame whose
unique id is not the id pending on **that** connection — never used, already concluded, queued but unsent,
or pending on another client — the step returns the state unchanged and produces no observable effect.
The guard is the regenerated `GetPendingRequest` test (`Gen.Guards.stateGetMiss`, T2).
-/

namespace C09
open Ocpp Ocpp.CD

/-- client endpoint: a foreign reply changes nothing and fires no handler -/
theorem client_foreign_reply_ignored (s : St) (id : String) (isErr : Bool) (hd : s.dead = false)
    (hf : s.pend ≠ id) : step s (.reply id isErr) = (s, []) := by
  simp [step, hd, hf]

/-- hence everything that follows — in particular the genuine reply — is processed exactly as if the foreign
    frame had not arrived -/
theorem client_foreign_reply_transparent (s : St) (id : String) (isErr : Bool) (evs : List Ev)
    (hd : s.dead = false) (hf : s.pend ≠ id) : run s (.reply id isErr :: evs) = run s evs := by
  simp [run, client_foreign_reply_ignored s id isErr hd hf]

/-- server endpoint: the lookup is per client, so an id pending on *another* client is foreign too -/
theorem server_foreign_reply_ignored (s : SD.St) (c id : String) (isErr : Bool) (hd : s.dead = false)
    (hf : (SD.get s c).pend ≠ id) : SD.step s (.reply c id isErr) = (s, []) := by
  simp [SD.step, hd, CDL.pendHit_eq, hf]

/-- the outstanding request stays pending and the queue untouched (restating the equality field-wise) -/
theorem client_outstanding_stays (s : St) (id : String) (isErr : Bool) (hd : s.dead = false) (hf : s.pend ≠ id) :
    (step s (.reply id isErr)).1.pend = s.pend ∧ (step s (.reply id isErr)).1.q = s.q := by
  rw [client_foreign_reply_ignored s id isErr hd hf]; exact ⟨rfl, rfl⟩

/-- in the specification: a response / error handler may fire only for the outstanding request -/
theorem handler_only_for_outstanding (w : Bool) (m m' : Mon) (id : String)
    (h : Mon.obs w m (.resp id) = some m' ∨ Mon.obs w m (.errResp id) = some m') : m.out = some id := by
  rcases h with h | h <;> (simp only [Mon.obs] at h; split at h <;> simp_all)

/-- the pending-state lookup hits exactly the stored id (regenerated guard) -/
theorem lookup_exact (cur id : String) : pendHit cur id = true ↔ cur = id := by simp

theorem skel_parseMessage : Gen.Skeletons.parseMessage = Ocpp.Expected.parseMessage := by decide
theorem skel_csGet : Gen.Skeletons.csGet = Ocpp.Expected.csGet := by decide
theorem skel_ssGetClientState : Gen.Skeletons.ssGetClientState = Ocpp.Expected.ssGetClientState := by decide
theorem skel_jcMessageHandler : Gen.Skeletons.jcMessageHandler = Ocpp.Expected.jcMessageHandler := by decide
theorem skel_jsMessageHandler : Gen.Skeletons.jsMessageHandler = Ocpp.Expected.jsMessageHandler := by decide
theorem skel_cdComplete : Gen.Skeletons.cdComplete = Ocpp.Expected.cdComplete := by decide
theorem skel_sdComplete : Gen.Skeletons.sdComplete = Ocpp.Expected.sdComplete := by decide

/-! non-vacuity: the four classes of foreign id at a concrete point of a conversation -/
example :
    let s := (run (CD.init 0) [.start, .send "a", .send "b", .reply "a" false, .send "c"]).1
    s.pend = "b" ∧ s.q = ["b", "c"] ∧
    step s (.reply "never-used" false) = (s, []) ∧ step s (.reply "a" false) = (s, []) ∧   -- unsolicited, already concluded
    step s (.reply "c" true) = (s, []) ∧                                                   -- queued but not yet sent
    (step s (.reply "b" false)).2 = [.resp "b", .wrote "c"] := by decide                   -- the genuine reply

end C09
