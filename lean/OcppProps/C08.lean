import OcppProps.CDSim
import OcppModel.ServerSpec
import OcppModel.Expected
import OcppGen.Skeletons

/-!
# C08 — unanswered requests time out once, never early, and unblock the queue

Logical time: `wait` = "more than the configured timeout elapses". In the model a time-out can only be
produced by a `wait` event (never early by construction — that Go timers do not fire early is assumption
A-TIME); what is proved is *which* request it hits, that it hits it once, and that the queue moves on.
Client endpoint: all histories (refinement). Server endpoint and sub-quiescence interleavings: partial
(the stale-expiry windows S7/S8 are known findings reproduced by the schedule monitors).
-/

namespace C08
open Ocpp Ocpp.CD CDL CDS

/-- all histories: a `cancel _ timeout` is accepted by the specification only inside a `wait`, only for the
    single outstanding request, and never while paused; afterwards nothing is outstanding, so it cannot be
    reported again nor after the reply (the reply clause needs `out = some id` too) -/
theorem client_all_histories (cap : Int) (evs : List Ev) (h : wf [] (CD.init cap) evs = true) :
    Mon.accepts {} (history (CD.init cap) evs) = true := by
  have := CDS.history_accepted evs [] (CD.init cap) (CDS.inv_init cap) h
  simpa [CDS.absM, CD.init] using this

theorem timeout_clause (w : Bool) (m m' : Mon) (id : String) (h : Mon.obs w m (.cancel id true) = some m') :
    w = true ∧ m.out = some id ∧ m.paused = false ∧ m'.out = none ∧ m'.waiting = m.waiting := by
  simp only [Mon.obs] at h
  split at h
  · rename_i hc; simp at h; subst h; exact ⟨hc.2.1, hc.1, hc.2.2, rfl, rfl⟩
  · simp at h

/-- **unblocks the queue**: in every reachable state with an outstanding request and the connection up, when
    the timeout elapses exactly that request is cancelled and the next queued CALL (if any) is written -/
theorem timeout_unblocks (used : List String) (s : St) (hI : Inv used s) (hrun : s.running = true)
    (hpa : s.paused = false) (hp : s.pend ≠ "") (hw : canWrite s = true) :
    (step s .wait).2 = .cancel s.pend true :: (match s.q.tail with | [] => [] | n :: _ => [.wrote n]) ∧
    (step s .wait).1.pend = (s.q.tail.head?.getD "") := by
  have hq := hI.pendHd hp
  have harm := hI.armedP hrun hpa hp
  obtain ⟨running, connected, writeFails, paused, cap, q, pend, rdy, tok, armed, dead⟩ := s
  obtain ⟨alive, tok0, pendHd, rdyIff, idle, nodup, nonE, usedQ, stop, armedP, pausedA⟩ := hI
  simp only at alive tok0 hrun hpa hp hq harm hw nonE
  subst alive hrun hpa harm
  have ht : tok = 0 := by simpa using tok0
  subst ht
  cases q with
  | nil => simp at hq
  | cons h r =>
    simp only [List.head?_cons, Option.some.injEq] at hq
    subst hq
    simp only [canWrite] at hw
    cases r with
    | nil => simp [step, hp, pumpReady, pumpTail]
    | cons n r2 =>
      have hn : n ≠ "" := nonE n (by simp)
      simp [step, hp, pumpReady, pumpTail, hn, hw]

/-- nothing pending ⇒ an expiring (stale) timer is a no-op -/
theorem stale_timer_harmless (s : St) (hd : s.dead = false) (hp : s.pend = "") : (step s .wait).2 = [] := by
  simp only [step, hd, Bool.false_eq_true, if_false, pendHas_eq, hp]
  split <;> simp

/-- while paused the timer is parked: `wait` does nothing (the time-out restarts at reconnection, C10) -/
theorem no_timeout_while_paused (used : List String) (s : St) (hI : Inv used s) (hpa : s.paused = true) :
    step s .wait = (s, []) := by
  have := hI.pausedA hpa
  simp [step, hI.alive, this]

/-- server, per client (specification clause) -/
theorem server_timeout_clause (w r : Bool) (m m' : SD.SMon) (c id : String)
    (h : SD.SMon.obs w r m (.cancel c id true) = some m') : w = true ∧ (m.get c).out = some id := by
  simp only [SD.SMon.obs] at h
  split at h
  · rename_i hc; exact ⟨hc.2, hc.1⟩
  · simp at h

theorem skel_cdMessagePump : Gen.Skeletons.cdMessagePump = Ocpp.Expected.cdMessagePump := by decide
theorem skel_cdDispatchNext : Gen.Skeletons.cdDispatchNext = Ocpp.Expected.cdDispatchNext := by decide
theorem skel_cdPause : Gen.Skeletons.cdPause = Ocpp.Expected.cdPause := by decide
theorem skel_cdResume : Gen.Skeletons.cdResume = Ocpp.Expected.cdResume := by decide
theorem skel_sdMessagePump : Gen.Skeletons.sdMessagePump = Ocpp.Expected.sdMessagePump := by decide
theorem skel_sdDispatchNext : Gen.Skeletons.sdDispatchNext = Ocpp.Expected.sdDispatchNext := by decide
theorem skel_sdWaitForTimeout : Gen.Skeletons.sdWaitForTimeout = Ocpp.Expected.sdWaitForTimeout := by decide
theorem skel_jcMessageHandler : Gen.Skeletons.jcMessageHandler = Ocpp.Expected.jcMessageHandler := by decide
theorem skel_jsMessageHandler : Gen.Skeletons.jsMessageHandler = Ocpp.Expected.jsMessageHandler := by decide
theorem const_timer_chan : Gen.Constants.serverTimerChanCap = 10 ∧ Gen.Constants.goMinor < 23 := by decide

example : (history (CD.init 0) [.start, .send "a", .send "b", .wait, .wait, .wait]).map (·.2) =
    [[], [.accepted "a", .wrote "a"], [.accepted "b"], [.cancel "a" true, .wrote "b"], [.cancel "b" true], []] := by decide
example : (SD.step (SD.step (SD.step (SD.step (SD.step (SD.init 0) .start).1 (.connect "A")).1 (.send "A" "a1")).1
    (.send "A" "a2")).1 .wait).2 = [.cancel "A" "a1" true, .wrote "A" "a2"] := by decide

end C08
