import OcppProps.C13Fine
import OcppModel.WsServer
import OcppModel.Expected
import OcppGen.Skeletons

/-!
# C13 — one live websocket per client id; lifecycle callbacks exactly once

Invariant proof over every history of `Ocpp.WsServer` (any length, any mix of connects, duplicate connects,
client closes, TCP drops, `StopConnection`, writes, `Stop`) with fresh raw-client handles:
at most one live connection per id; per id the callbacks alternate new, disconnected, new, … starting with new
(so: exactly one new-client callback per accepted connection, exactly one disconnected callback when it ends, in
that order); what the server reports as connected is exactly the set of live connections; a duplicate is refused
and leaves the table equal.

Granularity: quiescent (one event handled to completion). Below it — the check-and-insert under `connMutex`, the
single caller of `cleanup`, the position of the new-client callback after `run()` — the tie is the T3 fingerprints
and monitor `ws_burst` (search); see DESIGN.md for the ordering race found there.
-/
namespace C13
open Ocpp.WsServer

/-- per-id callback protocol: `b` = "a connection with this id is live" -/
def alt (id : String) : Bool → List Obs → Option Bool
  | b, [] => some b
  | b, .newCb i :: r => if i == id then (if b then none else alt id true r) else alt id b r
  | b, .discCb i :: r => if i == id then (if b then alt id false r else none) else alt id b r
  | b, .admitted :: r | b, .refused _ :: r | b, .ok :: r | b, .error :: r | b, .msgCb _ _ :: r
  | b, .delivered _ _ :: r | b, .closeSeen _ _ :: r | b, .live _ :: r | b, .stopped :: r => alt id b r

theorem alt_append (id : String) (o1 o2 : List Obs) : ∀ b, alt id b (o1 ++ o2) = (alt id b o1).bind (fun b' => alt id b' o2) := by
  induction o1 with
  | nil => intro b; rfl
  | cons o r ih =>
    intro b
    cases o <;> simp only [List.cons_append, alt, ih] <;> (repeat' split) <;> simp_all

structure Inv (s : St) : Prop where
  handles : ∀ c1 ∈ s.conns, ∀ c2 ∈ s.conns, c1.k = c2.k → c1 = c2
  onePer  : ∀ c1 ∈ s.conns, ∀ c2 ∈ s.conns, c1.live = true → c2.live = true → c1.id = c2.id → c1 = c2
  nodup   : (liveIds s).Nodup
  stopped : s.running = false → liveIds s = []

theorem mem_liveIds (s : St) (m : String) : m ∈ liveIds s ↔ ∃ c ∈ s.conns, c.live = true ∧ c.id = m := by
  simp [liveIds, List.mem_map, List.mem_filter, and_assoc]

theorem isLive_iff (s : St) (m : String) : isLive s m = true ↔ m ∈ liveIds s := by
  rw [mem_liveIds]; simp [isLive, List.any_eq_true]

theorem findK_some (s : St) (k : String) (c : Conn) (h : findK s k = some c) : c ∈ s.conns ∧ c.k = k := by
  unfold findK at h
  exact ⟨List.mem_of_find?_eq_some h, by simpa using List.find?_some h⟩

theorem liveConn_some (s : St) (id : String) (c : Conn) (h : liveConn s id = some c) :
    c ∈ s.conns ∧ c.live = true ∧ c.id = id := by
  unfold liveConn at h
  have := List.find?_some h
  simp at this
  exact ⟨List.mem_of_find?_eq_some h, this.1, this.2⟩

theorem liveConn_none (s : St) (id : String) (h : liveConn s id = none) : isLive s id = false := by
  unfold liveConn at h
  simp only [List.find?_eq_none] at h
  simp only [isLive, List.any_eq_false]
  intro c hc; simpa using h c hc

theorem liveIds_endK_sublist (cs : List Conn) (k : String) :
    List.Sublist (((endK cs k).filter (·.live)).map (·.id)) ((cs.filter (·.live)).map (·.id)) := by
  induction cs with
  | nil => simp [endK]
  | cons c r ih =>
    simp only [endK, List.map_cons] at ih ⊢
    by_cases hk : (c.k == k) = true
    · simp only [hk, if_true]
      by_cases hl : c.live = true
      · simp only [List.filter_cons, hl, if_true, List.map_cons]
        simp only [Bool.false_eq_true, if_false]
        exact List.Sublist.cons _ ih
      · simp only [List.filter_cons]
        simp only [Bool.false_eq_true, if_false, hl]
        exact ih
    · simp only [hk, Bool.false_eq_true, if_false]
      by_cases hl : c.live = true
      · simp only [List.filter_cons, hl, if_true, List.map_cons]
        exact List.Sublist.cons₂ _ ih
      · simp only [List.filter_cons, hl, Bool.false_eq_true, if_false]
        exact ih

theorem mem_endK (cs : List Conn) (k : String) (c' : Conn) :
    c' ∈ endK cs k ↔ ∃ c ∈ cs, c' = (if c.k == k then { c with live := false } else c) := by
  simp only [endK, List.mem_map]
  constructor
  · rintro ⟨c, hc, h⟩; exact ⟨c, hc, h.symm⟩
  · rintro ⟨c, hc, h⟩; exact ⟨c, hc, h.symm⟩

/-- ending the (live) connection with handle `k`: exactly its id leaves the live set -/
theorem liveIds_endK (s : St) (hI : Inv s) (c0 : Conn) (hc0 : c0 ∈ s.conns) (hl0 : c0.live = true) (m : String) :
    m ∈ liveIds { s with conns := endK s.conns c0.k } ↔ (m ∈ liveIds s ∧ m ≠ c0.id) := by
  rw [mem_liveIds, mem_liveIds]
  constructor
  · rintro ⟨c', hc', hl', hid'⟩
    obtain ⟨c, hc, rfl⟩ := (mem_endK _ _ _).mp hc'
    by_cases hk : (c.k == c0.k) = true
    · simp [hk] at hl'
    · simp only [hk, Bool.false_eq_true, if_false] at hl' hid'
      refine ⟨⟨c, hc, hl', hid'⟩, ?_⟩
      intro hm
      have := hI.onePer c hc c0 hc0 hl' hl0 (hid'.trans hm)
      subst this
      simp at hk
  · rintro ⟨⟨c, hc, hl, hid⟩, hne⟩
    have hk : (c.k == c0.k) = false := by
      cases h : (c.k == c0.k) with
      | false => rfl
      | true =>
        have := hI.handles c hc c0 hc0 (by simpa using h)
        subst this
        exact absurd hid.symm hne
    exact ⟨c, (mem_endK _ _ _).mpr ⟨c, hc, by simp [hk]⟩, hl, hid⟩

theorem inv_endK (s : St) (hI : Inv s) (k : String) : Inv { s with conns := endK s.conns k } := by
  refine ⟨?_, ?_, ?_, ?_⟩
  · intro c1 h1 c2 h2 hk
    obtain ⟨d1, hd1, rfl⟩ := (mem_endK _ _ _).mp h1
    obtain ⟨d2, hd2, rfl⟩ := (mem_endK _ _ _).mp h2
    have : d1.k = d2.k := by
      by_cases a : (d1.k == k) = true <;> by_cases b : (d2.k == k) = true <;> simp_all
    have := hI.handles d1 hd1 d2 hd2 this
    subst this; rfl
  · intro c1 h1 c2 h2 hl1 hl2 hid
    obtain ⟨d1, hd1, rfl⟩ := (mem_endK _ _ _).mp h1
    obtain ⟨d2, hd2, rfl⟩ := (mem_endK _ _ _).mp h2
    by_cases a : (d1.k == k) = true
    · simp [a] at hl1
    · by_cases b : (d2.k == k) = true
      · simp [b] at hl2
      · simp only [a, b, Bool.false_eq_true, if_false] at hl1 hl2 hid ⊢
        exact hI.onePer d1 hd1 d2 hd2 hl1 hl2 hid
  · exact List.Nodup.sublist (liveIds_endK_sublist s.conns k) hI.nodup
  · intro hr
    have h0 := hI.stopped hr
    have hs := liveIds_endK_sublist s.conns k
    simp only [liveIds] at h0 ⊢
    rw [h0] at hs
    exact List.eq_nil_of_sublist_nil hs

/-- environment assumption: raw-client handles are fresh -/
def evOK (s : St) : Ev → Bool
  | .connect k _ => !s.conns.any (·.k == k)
  | _ => true

def wf (s : St) : List Ev → Bool
  | [] => true
  | e :: es => evOK s e && wf (step s e).1 es

theorem alt_others (id : String) (b : Bool) (l : List Obs)
    (h : ∀ o ∈ l, o ≠ .newCb id ∧ o ≠ .discCb id) : alt id b l = some b := by
  induction l with
  | nil => rfl
  | cons o r ih =>
    have hr := ih (fun o ho => h o (List.mem_cons_of_mem _ ho))
    have ho := h o List.mem_cons_self
    cases o <;> simp only [alt, hr]
    · rename_i i; have : (i == id) = false := by simpa using fun e => ho.1 (by rw [e])
      simp [this]
    · rename_i i; have : (i == id) = false := by simpa using fun e => ho.2 (by rw [e])
      simp [this]

theorem alt_stop (id : String) (l : List String) (hn : l.Nodup) :
    alt id (decide (id ∈ l)) (l.map .discCb) = some false := by
  induction l with
  | nil => simp [alt]
  | cons x r ih =>
    have hx : x ∉ r := (List.nodup_cons.mp hn).1
    have hr := ih (List.nodup_cons.mp hn).2
    simp only [List.map_cons, alt]
    by_cases hxi : x = id
    · subst hxi
      simp only [beq_self_eq_true, if_true, List.mem_cons, true_or, decide_true]
      simpa [hx] using hr
    · have : (x == id) = false := by simpa using hxi
      simp only [this, Bool.false_eq_true, if_false]
      have : decide (id ∈ x :: r) = decide (id ∈ r) := by
        simp [List.mem_cons, Ne.symm hxi]
      rw [this]; exact hr

/-- one event: the invariant is kept and, for every id, the callbacks it causes follow the protocol and end in a
    state that agrees with the table -/
theorem step_ok (s : St) (e : Ev) (hI : Inv s) (hok : evOK s e = true) (id : String) :
    Inv (step s e).1 ∧ alt id (isLive s id) (step s e).2 = some (isLive (step s e).1 id) := by
  have endCase : ∀ (c : Conn), c ∈ s.conns → c.live = true → ∀ (pre : List Obs),
      (∀ o ∈ pre, o ≠ .newCb id ∧ o ≠ .discCb id) →
      Inv { s with conns := endK s.conns c.k } ∧
      alt id (isLive s id) (pre ++ [.discCb c.id]) = some (isLive { s with conns := endK s.conns c.k } id) := by
    intro c hc hl pre hpre
    refine ⟨inv_endK s hI c.k, ?_⟩
    rw [alt_append, alt_others id _ pre hpre]
    simp only [Option.bind_some, alt]
    have key := liveIds_endK s hI c hc hl id
    by_cases hid : c.id = id
    · have h1 : isLive s id = true := (isLive_iff s id).mpr ((mem_liveIds s id).mpr ⟨c, hc, hl, hid⟩)
      have h2 : isLive { s with conns := endK s.conns c.k } id = false := by
        cases h : isLive { s with conns := endK s.conns c.k } id with
        | false => rfl
        | true => exact absurd hid.symm (key.mp ((isLive_iff _ _).mp h)).2
      simp [hid, h1, h2]
    · have hb : (c.id == id) = false := by simpa using hid
      simp only [hb, Bool.false_eq_true, if_false]
      congr 1
      have : isLive s id = true ↔ isLive { s with conns := endK s.conns c.k } id = true := by
        rw [isLive_iff, isLive_iff, key]
        exact ⟨fun h => ⟨h, Ne.symm hid⟩, fun h => h.1⟩
      cases h1 : isLive s id <;> cases h2 : isLive { s with conns := endK s.conns c.k } id <;> simp_all
  cases e with
  | connect k id' =>
    simp only [evOK, Bool.not_eq_true', List.any_eq_false] at hok
    have hfresh : ∀ c ∈ s.conns, c.k ≠ k := fun c hc => by simpa using hok c hc
    unfold step
    by_cases hr : s.running = true
    · simp only [hr, Bool.not_true, Bool.false_eq_true, if_false]
      by_cases hl : isLive s id' = true
      · -- refused
        simp only [hl, if_true]
        have hlive : ∀ r, liveIds { running := r, conns := s.conns ++ [{ k := k, id := id', live := false }] } = liveIds s := by
          intro r; simp [liveIds, List.filter_append]
        refine ⟨⟨?_, ?_, ?_, ?_⟩, ?_⟩
        · intro c1 h1 c2 h2 hk
          simp only [List.mem_append, List.mem_singleton] at h1 h2
          rcases h1 with h1 | rfl <;> rcases h2 with h2 | rfl
          · exact hI.handles c1 h1 c2 h2 hk
          · exact absurd hk (hfresh c1 h1)
          · exact absurd hk.symm (hfresh c2 h2)
          · rfl
        · intro c1 h1 c2 h2 hl1 hl2 hid
          simp only [List.mem_append, List.mem_singleton] at h1 h2
          rcases h1 with h1 | rfl <;> rcases h2 with h2 | rfl
          · exact hI.onePer c1 h1 c2 h2 hl1 hl2 hid
          · simp at hl2
          · simp at hl1
          · rfl
        · rw [hlive]; exact hI.nodup
        · intro h; rw [hlive]; exact hI.stopped (by simpa [hr] using h)
        · have : ∀ r, isLive { running := r, conns := s.conns ++ [{ k := k, id := id', live := false }] } id = isLive s id := by
            intro r
            have a := isLive_iff { running := r, conns := s.conns ++ [{ k := k, id := id', live := false }] } id
            have b := isLive_iff s id
            rw [hlive] at a
            cases h1 : isLive s id <;> cases h2 : isLive { running := r, conns := s.conns ++ [{ k := k, id := id', live := false }] } id <;> simp_all
          rw [this]; simp [alt]
      · -- admitted
        have hl' : isLive s id' = false := by simpa using hl
        simp only [hl', Bool.false_eq_true, if_false]
        have hnot : id' ∉ liveIds s := fun h => by simp [(isLive_iff s id').mpr h] at hl'
        have hlive : ∀ r, liveIds { running := r, conns := s.conns ++ [{ k := k, id := id', live := true }] } = liveIds s ++ [id'] := by
          intro r; simp [liveIds, List.filter_append]
        refine ⟨⟨?_, ?_, ?_, ?_⟩, ?_⟩
        · intro c1 h1 c2 h2 hk
          simp only [List.mem_append, List.mem_singleton] at h1 h2
          rcases h1 with h1 | rfl <;> rcases h2 with h2 | rfl
          · exact hI.handles c1 h1 c2 h2 hk
          · exact absurd hk (hfresh c1 h1)
          · exact absurd hk.symm (hfresh c2 h2)
          · rfl
        · intro c1 h1 c2 h2 hl1 hl2 hid
          simp only [List.mem_append, List.mem_singleton] at h1 h2
          rcases h1 with h1 | rfl <;> rcases h2 with h2 | rfl
          · exact hI.onePer c1 h1 c2 h2 hl1 hl2 hid
          · exact absurd ((mem_liveIds s id').mpr ⟨c1, h1, hl1, hid⟩) hnot
          · exact absurd ((mem_liveIds s id').mpr ⟨c2, h2, hl2, hid.symm⟩) hnot
          · rfl
        · rw [hlive]
          exact List.nodup_append.mpr ⟨hI.nodup, (by simp), by
            intro a ha b hb; simp only [List.mem_singleton] at hb; subst hb; intro e; subst e; exact hnot ha⟩
        · intro h; simp at h
        · simp only [alt]
          have a : ∀ r, isLive { running := r, conns := s.conns ++ [{ k := k, id := id', live := true }] } id = true ↔ id ∈ liveIds s ++ [id'] := by
            intro r
            have := isLive_iff { running := r, conns := s.conns ++ [{ k := k, id := id', live := true }] } id
            rw [hlive] at this; exact this
          by_cases hid : id' = id
          · subst hid
            simp only [beq_self_eq_true, if_true, hl', Bool.false_eq_true, if_false]
            congr 1; symm; rw [a]; simp
          · have hb : (id' == id) = false := by simpa using hid
            simp only [hb, Bool.false_eq_true, if_false]
            congr 1
            have b := isLive_iff s id
            have a' := a s.running
            cases h1 : isLive s id <;> cases h2 : isLive { running := s.running, conns := s.conns ++ [{ k := k, id := id', live := true }] } id <;>
              simp_all [Ne.symm hid]
    · have hr' : s.running = false := by simpa using hr
      simp [hr', alt, hI]
  | close k =>
    cases hf : findK s k with
    | none => simp [step, hf, alt, hI]
    | some c =>
      obtain ⟨hc, hk⟩ := findK_some s k c hf
      by_cases hl : c.live = true
      · have := endCase c hc hl [.ok] (by simp)
        rw [hk] at this
        simpa [step, hf, hl] using this
      · simp [step, hf, hl, alt, hI]
  | drop k =>
    cases hf : findK s k with
    | none => simp [step, hf, alt, hI]
    | some c =>
      obtain ⟨hc, hk⟩ := findK_some s k c hf
      by_cases hl : c.live = true
      · have := endCase c hc hl [.ok] (by simp)
        rw [hk] at this
        simpa [step, hf, hl] using this
      · simp [step, hf, hl, alt, hI]
  | stopConn id' =>
    cases hf : liveConn s id' with
    | none => simp [step, hf, alt, hI]
    | some c =>
      obtain ⟨hc, hl, hid⟩ := liveConn_some s id' c hf
      have := endCase c hc hl [.ok, .closeSeen c.k 1011] (by simp)
      rw [hid] at this
      simpa [step, hf] using this
  | swrite id' n =>
    cases hf : liveConn s id' <;> simp [step, hf, alt, hI]
  | cwrite k n =>
    cases hf : findK s k with
    | none => simp [step, hf, alt, hI]
    | some c => by_cases hl : c.live = true <;> simp [step, hf, hl, alt, hI]
  | list => simp [step, alt, hI]
  | stop =>
    unfold step
    have hdead : liveIds { running := false, conns := s.conns.map (fun c => { c with live := false }) } = [] := by
      simp [liveIds, List.filter_map, Function.comp_def]
    refine ⟨⟨?_, ?_, ?_, ?_⟩, ?_⟩
    · intro c1 h1 c2 h2 hk
      simp only [List.mem_map] at h1 h2
      obtain ⟨d1, hd1, rfl⟩ := h1
      obtain ⟨d2, hd2, rfl⟩ := h2
      have := hI.handles d1 hd1 d2 hd2 hk
      subst this; rfl
    · intro c1 h1 c2 h2 hl1
      simp only [List.mem_map] at h1
      obtain ⟨d1, _, rfl⟩ := h1
      simp at hl1
    · rw [hdead]; exact List.nodup_nil
    · intro _; exact hdead
    · simp only [alt]
      have h2 : isLive { running := false, conns := s.conns.map (fun c => { c with live := false }) } id = false := by
        cases h : isLive { running := false, conns := s.conns.map (fun c => { c with live := false }) } id with
        | false => rfl
        | true => have := (isLive_iff _ _).mp h; rw [hdead] at this; simp at this
      rw [h2]
      have h1 : isLive s id = decide (id ∈ liveIds s) := by
        have := isLive_iff s id
        cases h : isLive s id <;> simp_all
      rw [h1]
      exact alt_stop id (liveIds s) hI.nodup

theorem inv_init : Inv {} := ⟨by simp, by simp, by simp [liveIds], by simp [liveIds]⟩

/-- **C13, all histories**: from a fresh server, for every well-formed history of any length and every id, the
    callbacks follow new, disconnected, new, … and the final table agrees; the invariant holds throughout -/
theorem lifecycle (evs : List Ev) :
    ∀ (s : St), Inv s → wf s evs = true → ∀ id,
      Inv (run s evs).1 ∧ alt id (isLive s id) (run s evs).2 = some (isLive (run s evs).1 id) := by
  induction evs with
  | nil => intro s hI _ id; exact ⟨hI, rfl⟩
  | cons e es ih =>
    intro s hI hw id
    simp only [wf, Bool.and_eq_true] at hw
    obtain ⟨h1, h2⟩ := step_ok s e hI hw.1 id
    obtain ⟨h3, h4⟩ := ih _ h1 hw.2 id
    simp only [run]
    refine ⟨h3, ?_⟩
    rw [alt_append, h2]
    exact h4

/-- at most one live connection per id, in every reachable state -/
theorem one_per_id (evs : List Ev) (h : wf {} evs = true) : (liveIds (run {} evs).1).Nodup :=
  ((lifecycle evs {} inv_init h "").1).nodup

/-- a duplicate is refused with a policy-violation close; the existing connection and every other entry are untouched -/
theorem duplicate_refused (s : St) (k id : String) (hr : s.running = true) (h : isLive s id = true) :
    (step s (.connect k id)).2 = [.refused 1008] ∧ liveIds (step s (.connect k id)).1 = liveIds s ∧
    ∀ c ∈ s.conns, c ∈ (step s (.connect k id)).1.conns := by
  simp [step, hr, h, liveIds, List.filter_append]
  intro c hc; exact Or.inl hc

/-- what the server reports as connected is exactly the live set -/
theorem reported_eq_live (s : St) : (step s .list).2 = [.live (liveIds s)] ∧ ∀ id, id ∈ liveIds s ↔ isLive s id = true :=
  ⟨rfl, fun id => (isLive_iff s id).symm⟩

/-- after `Stop` nothing is live and every live connection got its disconnected callback -/
theorem stop_ends_all (s : St) : liveIds (step s .stop).1 = [] ∧ (step s .stop).2 = .stopped :: (liveIds s).map .discCb := by
  simp [step, liveIds, List.filter_map, Function.comp_def]

/-! non-vacuity / tests -/
example : wf {} [.connect "1" "a", .connect "2" "a", .close "1", .connect "3" "a", .stopConn "a", .drop "3", .stop] = true := by decide
example : (run {} [.connect "1" "a", .connect "2" "a", .close "1", .connect "3" "a", .stopConn "a"]).2 =
    [.admitted, .newCb "a", .refused 1008, .ok, .discCb "a", .admitted, .newCb "a", .ok, .closeSeen "3" 1011, .discCb "a"] := by decide
example : alt "a" false [.newCb "a", .newCb "a"] = none := by decide
example : alt "a" false [.discCb "a"] = none := by decide

theorem skel_wsHandler : Gen.Skeletons.wsHandler = Ocpp.Expected.wsHandler := by decide
theorem skel_wsServerHandleDisconnect : Gen.Skeletons.wsServerHandleDisconnect = Ocpp.Expected.wsServerHandleDisconnect := by decide
theorem skel_wsStopConnection : Gen.Skeletons.wsStopConnection = Ocpp.Expected.wsStopConnection := by decide
theorem skel_wsGetChannel : Gen.Skeletons.wsGetChannel = Ocpp.Expected.wsGetChannel := by decide
theorem skel_wsStopConnections : Gen.Skeletons.wsStopConnections = Ocpp.Expected.wsStopConnections := by decide
theorem skel_wsServerStart : Gen.Skeletons.wsServerStart = Ocpp.Expected.wsServerStart := by decide
theorem skel_wsServerStop : Gen.Skeletons.wsServerStop = Ocpp.Expected.wsServerStop := by decide
theorem skel_wsServerWrite : Gen.Skeletons.wsServerWrite = Ocpp.Expected.wsServerWrite := by decide
theorem skel_wsCleanup : Gen.Skeletons.wsCleanup = Ocpp.Expected.wsCleanup := by decide
theorem skel_wsRun : Gen.Skeletons.wsRun = Ocpp.Expected.wsRun := by decide
theorem skel_wsReadPump : Gen.Skeletons.wsReadPump = Ocpp.Expected.wsReadPump := by decide
theorem skel_wsWritePump : Gen.Skeletons.wsWritePump = Ocpp.Expected.wsWritePump := by decide
theorem skel_wsSocketClose : Gen.Skeletons.wsSocketClose = Ocpp.Expected.wsSocketClose := by decide
theorem skel_wsIsConnected : Gen.Skeletons.wsIsConnected = Ocpp.Expected.wsIsConnected := by decide

/-! ### Below quiescence: the life of one client id in every interleaving of handler and teardown goroutines
(`OcppProps/C13Fine.lean`, small-step model `Ocpp.WsIdFine` of `ws.server` after /repo 3413323) -/

/-- the application's callbacks for one id alternate new k, disconnected k, new k', … in every interleaving -/
theorem fine_callbacks_alternate (ls : List Ocpp.WsIdFine.Label) (s : Ocpp.WsIdFine.St) (h : Ocpp.WsIdFine.runL {} ls = some s) :
    (C13Fine.openOf s.log).isSome = true := C13Fine.callbacks_alternate ls s h

/-- the connection announced and not yet reported as ended is the one the callback log says -/
theorem fine_open_is_logged (ls : List Ocpp.WsIdFine.Label) (s : Ocpp.WsIdFine.St) (h : Ocpp.WsIdFine.runL {} ls = some s) (k : Nat)
    (hk : C13Fine.isOpen (Ocpp.WsIdFine.phase s k) = true) : C13Fine.openOf s.log = some (some k) := C13Fine.open_is_logged ls s h k hk

/-- at most one connection of an id is registered -/
theorem fine_one_registered (ls : List Ocpp.WsIdFine.Label) (s : Ocpp.WsIdFine.St) (h : Ocpp.WsIdFine.runL {} ls = some s) (k j : Nat)
    (hk : C13Fine.isActive (Ocpp.WsIdFine.phase s k) = true) (hj : C13Fine.isActive (Ocpp.WsIdFine.phase s j) = true) : k = j :=
  C13Fine.one_registered ls s h k j hk hj

/-- a duplicate is refused exactly while a connection of the id is registered; the refusal changes nothing -/
theorem fine_refused_iff_registered (s : Ocpp.WsIdFine.St) :
    (Ocpp.WsIdFine.step s .refuse).isSome = s.entry.isSome ∧ ∀ s', Ocpp.WsIdFine.step s .refuse = some s' → s' = s :=
  C13Fine.refused_iff_registered s

/-- before /repo 3413323 the next connection of an id could be announced before the end of the previous one was reported
    (the history monitor `c11_idreuse` forced on the real server) -/
theorem fine_old_announces_before_disconnected :
    (Ocpp.WsIdFine.runL { waitPrev := false } C13Fine.reuseRun).map (·.log) = some [.new 0, .new 1] ∧
    (Ocpp.WsIdFine.runL { waitPrev := false } C13Fine.reuseRun).map (fun s => C13Fine.openOf s.log) = some none :=
  C13Fine.old_announces_before_disconnected

example : (Ocpp.WsIdFine.runL {} [.accept, .wait 0, .announce 0, .drop 0, .release 0, .accept, .discCb 0, .finish 0, .wait 1, .announce 1]).map (·.log) =
    some [.new 0, .disc 0, .new 1] := by decide

/-- OPEN FINDING `leak/old-call-on-new-connection` (rounds `c11_leak` on the real server), stated on the model: in this
    interleaving a write of the application, for which connection 0 is still the session of the id, reaches connection 1 -/
theorem fine_write_reaches_next_connection :
    (Ocpp.WsIdFine.runL {} C13Fine.leakRun).map (fun s => (Ocpp.WsIdFine.writeTarget false s, C13Fine.openOf s.log)) = some (some 1, some (some 0)) ∧
    (Ocpp.WsIdFine.runL {} C13Fine.leakRun).map (Ocpp.WsIdFine.writeTarget true) = some none :=
  C13Fine.write_reaches_next_connection
