import OcppModel.ServerSpec
import OcppProps.CDLemmas
import OcppProps.SFine
import OcppProps.C13Fine
import OcppModel.Expected
import OcppGen.Skeletons

/-!
# C11 — server clients are isolated; a session leaves nothing behind (ocppj layer)

On the quiescent server model `Ocpp.SD`, for **every** state (reachable or not) and every client id:
* `reject_unknown`: a send to an id without a queue-map entry (no live session) is rejected, state equal;
* `session_clean` / `no_leak`: after `disconnect c` the record of `c` is the initial record (no queue, no
  pending id, no context, no timer) and a later `connect c` starts from the initial per-client state;
* `frame`: an event naming client `c` (connect, disconnect, send, reply, write-failure toggle) leaves the record
  of every other client **equal** — queues, pending ids, contexts.
The observable-history projection (other clients' effects unchanged) is validated by running the per-client
specification `SMon` over model and implementation histories; the coupling through the pump-local `rdy` /
`clientQueue` on timer events (S10) and the shared capacity-1 channels (S11) are known findings below
quiescence. What the property calls "concluded with an error on disconnect" happens only in the protocol
layer and only with an application disconnect handler registered (S6, known finding).
-/

namespace C11
open Ocpp Ocpp.SD

theorem get_setCl (l : List (String × Cl)) (c c' : String) (v : Cl) :
    ((setCl l c v).find? (fun p => p.1 == c')) =
      if c = c' then some (c, v) else l.find? (fun p => p.1 == c') := by
  induction l with
  | nil =>
    by_cases h : c = c'
    · simp [setCl, h]
    · have : (c == c') = false := by simp [h]
      simp [setCl, h, List.find?_cons, this]
  | cons p rest ih =>
    obtain ⟨k, w⟩ := p
    simp only [setCl]
    by_cases hk : k = c
    · subst hk
      by_cases h : k = c'
      · subst h; simp [List.find?_cons]
      · have : (k == c') = false := by simp [h]
        simp [List.find?_cons, this, h]
    · have hkc : (k == c) = false := by simp [hk]
      simp only [hkc, Bool.false_eq_true, if_false, List.find?_cons, ih]
      by_cases h : k = c'
      · subst h
        have : ¬ c = k := fun e => hk e.symm
        simp [this]
      · have : (k == c') = false := by simp [h]
        simp [this]

@[simp] theorem get_set_same (s : St) (c : String) (v : Cl) : SD.get (SD.set s c v) c = v := by
  simp [SD.get, SD.set, get_setCl]

@[simp] theorem get_set_other (s : St) (c c' : String) (v : Cl) (h : c' ≠ c) : SD.get (SD.set s c v) c' = SD.get s c' := by
  simp [SD.get, SD.set, get_setCl, Ne.symm h]

/-- **requests addressed to a client that is not connected are rejected immediately**, with no effect -/
theorem reject_unknown (s : St) (c id : String) (hd : s.dead = false) (h : (SD.get s c).hasQ = false) :
    step s (.send c id) = (s, [.rejected c id]) := by
  simp only [step, hd, Bool.false_eq_true, if_false, h, Bool.not_false, if_true]
  split <;> rfl

/-- **a session leaves nothing behind**: after the disconnect the client's record is the initial one (up to
    the environment's write-failure flag), and it has no armed timer -/
theorem session_clean (s : St) (c : String) (hd : s.dead = false) (hrun : s.running = true)
    (hc : (SD.get s c).connected = true) :
    SD.get (step s (.disconnect c)).1 c = { writeFails := (SD.get s c).writeFails } ∧
    c ∉ (step s (.disconnect c)).1.timers ∧ (step s (.disconnect c)).2 = [] := by
  simp only [step, hd, Bool.false_eq_true, if_false, hc, Bool.not_true, hrun, if_true]
  refine ⟨?_, ?_, trivial⟩
  · show SD.get (SD.set s c _) c = _
    simp
  · simp [cancelTimer, SD.set]

/-- **nothing leaks into a later session with the same id**: the record after `disconnect; connect` is that of
    a first connection -/
theorem no_leak (s : St) (c : String) (hd : s.dead = false) (hrun : s.running = true)
    (hc : (SD.get s c).connected = true) :
    SD.get (step (step s (.disconnect c)).1 (.connect c)).1 c =
      { connected := true, hasQ := true, writeFails := (SD.get s c).writeFails } := by
  have h1 := (session_clean s c hd hrun hc).1
  have hd1 : (step s (.disconnect c)).1.dead = false := by
    simp [step, hd, hc, hrun, cancelTimer, SD.set]
  have hr1 : (step s (.disconnect c)).1.running = true := by
    simp [step, hd, hc, hrun, cancelTimer, SD.set]
  generalize (step s (.disconnect c)).1 = s1 at *
  simp [step, hd1, hr1, h1]

/-! ### frame: events of one client do not touch the records of the others -/

def Frame (c : String) (s s' : St) : Prop := ∀ c', c' ≠ c → SD.get s' c' = SD.get s c'

theorem frame_refl (c : String) (s : St) : Frame c s s := fun _ _ => rfl
theorem frame_trans {c : String} {s1 s2 s3 : St} (h1 : Frame c s1 s2) (h2 : Frame c s2 s3) : Frame c s1 s3 :=
  fun c' hc => (h2 c' hc).trans (h1 c' hc)

theorem frame_set (c : String) (s : St) (v : Cl) : Frame c s (SD.set s c v) := fun c' hc => get_set_other s c c' v hc

theorem frame_fields (c : String) (s : St) (r : Bool) (q : Option String) (t : List String) (d : Bool) :
    Frame c s { s with rdy := r, cq := q, timers := t, dead := d } := fun _ _ => rfl

theorem cls_complete (s : St) (c id c' : String) (hc : c' ≠ c) :
    SD.get (complete s c id).1 c' = SD.get s c' := by
  unfold complete
  simp only
  by_cases h1 : (!(SD.get s c).hasQ) = true
  · simp [h1]
  · simp only [h1, Bool.false_eq_true, if_false]
    cases hq : (SD.get s c).q with
    | nil => rfl
    | cons h rest =>
      simp only
      by_cases h2 : Gen.Guards.serverCompleteMismatch h id = true
      · simp [h2]
      · simp only [h2, Bool.false_eq_true, if_false]
        exact get_set_other s c c' _ hc

theorem frame_complete (s : St) (c id : String) : Frame c s (complete s c id).1 :=
  fun c' hc => cls_complete s c id c' hc

theorem cls_dispatch (s : St) (c c' : String) (hc : c' ≠ c) : SD.get (dispatch s c).1 c' = SD.get s c' := by
  unfold dispatch
  simp only
  by_cases h1 : (!(SD.get s c).hasQ) = true
  · simp only [h1, if_true]
    show SD.get (SD.set s c _) c' = _
    exact get_set_other s c c' _ hc
  · simp only [h1, Bool.false_eq_true, if_false]
    cases hq : (SD.get s c).q with
    | nil => rfl
    | cons h rest =>
      simp only
      by_cases h2 : ((SD.get s c).connected && !(SD.get s c).writeFails) = true
      · simp only [h2, if_true]
        show SD.get (SD.set (SD.set s c _) c _) c' = _
        rw [get_set_other _ c c' _ hc, get_set_other _ c c' _ hc]
      · simp only [h2, Bool.false_eq_true, if_false]
        show SD.get (SD.set (complete (SD.set s c _) c h).1 c _) c' = _
        rw [get_set_other _ c c' _ hc, cls_complete _ c h c' hc, get_set_other _ c c' _ hc]

theorem frame_dispatch (s : St) (c : String) : Frame c s (dispatch s c).1 :=
  fun c' hc => cls_dispatch s c c' hc

/-- the bookkeeping of the `readyForDispatch` case touches only `c` -/
def readyPrep (s : St) (c : String) : St :=
  let cl := SD.get s c
  let s1 := if cl.ctx == 2 then cancelTimer (SD.set s c { cl with ctx := 1 }) c else s
  if (SD.get s1 c).hasQ then { s1 with cq := some c, rdy := true } else { s1 with cq := none }

theorem cls_readyPrep (s : St) (c c' : String) (hc : c' ≠ c) : SD.get (readyPrep s c) c' = SD.get s c' := by
  unfold readyPrep
  simp only
  by_cases h1 : ((SD.get s c).ctx == 2) = true
  · simp only [h1, if_true]
    split
    · show SD.get (SD.set s c _) c' = _; exact get_set_other s c c' _ hc
    · show SD.get (SD.set s c _) c' = _; exact get_set_other s c c' _ hc
  · simp only [h1, Bool.false_eq_true, if_false]
    split <;> rfl

theorem pumpTail_succ (n : Nat) (s : St) (c : String) :
    pumpTail (n + 1) s c =
      if (s.rdy && (match s.cq with | none => false | some x => !(SD.get s x).q.isEmpty)) = true then
        if (dispatch s c).1.dead = true then ((dispatch s c).1, (dispatch s c).2.1)
        else if (dispatch s c).2.2 = true then
          ((pumpTail n (readyPrep (dispatch s c).1 c) c).1, (dispatch s c).2.1 ++ (pumpTail n (readyPrep (dispatch s c).1 c) c).2)
        else ((dispatch s c).1, (dispatch s c).2.1)
      else (s, []) := by
  rfl

theorem frame_pumpTail (fuel : Nat) : ∀ (s : St) (c : String), Frame c s (pumpTail fuel s c).1 := by
  induction fuel with
  | zero => intro s c; exact frame_refl c s
  | succ n ih =>
    intro s c c' hc
    rw [pumpTail_succ]
    by_cases h0 : (s.rdy && (match s.cq with | none => false | some x => !(SD.get s x).q.isEmpty)) = true
    · rw [if_pos h0]
      by_cases h1 : (dispatch s c).1.dead = true
      · rw [if_pos h1]; exact cls_dispatch s c c' hc
      · rw [if_neg h1]
        by_cases h2 : (dispatch s c).2.2 = true
        · rw [if_pos h2]
          show SD.get (pumpTail n (readyPrep (dispatch s c).1 c) c).1 c' = _
          rw [ih _ c c' hc, cls_readyPrep _ c c' hc, cls_dispatch s c c' hc]
        · rw [if_neg h2]; exact cls_dispatch s c c' hc
    · rw [if_neg h0]

theorem onReady_eq (s : St) (c : String) :
    onReady s c = pumpTail ((SD.get (readyPrep s c) c).q.length + 1) (readyPrep s c) c := rfl

theorem frame_onReady (s : St) (c : String) : Frame c s (onReady s c).1 := by
  intro c' hc
  rw [onReady_eq, frame_pumpTail _ _ c c' hc, cls_readyPrep s c c' hc]

/-- **isolation**: for every state, an event that names client `c` — connect, disconnect, send, reply, write
    failure — leaves the record (queue, pending id, context) of every other client equal -/
theorem frame (s : St) (c : String) (e : Ev)
    (he : (∃ id, e = .send c id) ∨ (∃ id b, e = .reply c id b) ∨ e = .connect c ∨ e = .disconnect c ∨ (∃ b, e = .writeFail c b)) :
    Frame c s (step s e).1 := by
  intro c' hc
  unfold step
  by_cases hd : s.dead = true
  · simp [hd]
  · simp only [hd, Bool.false_eq_true, if_false]
    rcases he with ⟨id, rfl⟩ | ⟨id, b, rfl⟩ | rfl | rfl | ⟨b, rfl⟩
    · simp only
      split
      · rfl
      · split
        · rfl
        · split
          · rfl
          · simp only
            rw [frame_pumpTail _ _ c c' hc]
            show SD.get (SD.set s c _) c' = _
            exact get_set_other s c c' _ hc
    · simp only
      split
      · rfl
      · split
        · simp only
          rw [frame_onReady _ c c' hc, cls_complete s c id c' hc]
        · exact cls_complete s c id c' hc
    · simp only
      split <;> exact get_set_other s c c' _ hc
    · simp only
      split
      · rfl
      · split
        · show SD.get (SD.set s c _) c' = _
          exact get_set_other s c c' _ hc
        · exact get_set_other s c c' _ hc
    · exact get_set_other s c c' _ hc

/-- in the specification, an effect naming `c` leaves every other client's abstract state equal -/
theorem spec_isolated (w r : Bool) (m m' : SMon) (c c' id : String) (hc : c' ≠ c)
    (h : SMon.obs w r m (.wrote c id) = some m' ∨ SMon.obs w r m (.resp c id) = some m' ∨
         SMon.obs w r m (.cancel c id true) = some m') : m'.get c' = m.get c' := by
  have key : ∀ (m : SMon) (v : CMon), (m.set c v).get c' = m.get c' := by
    intro m v
    unfold SMon.get
    induction m with
    | nil =>
      have : (c == c') = false := by simp [Ne.symm hc]
      simp [SMon.set, List.find?_cons, this]
    | cons p rest ih =>
      obtain ⟨k, w⟩ := p
      simp only [SMon.set]
      by_cases hk : k = c
      · subst hk
        have : (k == c') = false := by simp [Ne.symm hc]
        simp [List.find?_cons, this]
      · have hkc : (k == c) = false := by simp [hk]
        simp only [hkc, Bool.false_eq_true, if_false, List.find?_cons]
        cases hkc' : (k == c')
        · simpa using ih
        · rfl
  rcases h with h | h | h <;> (simp only [SMon.obs] at h; split at h <;> simp at h; subst h; exact key m _)

theorem skel_sdDeleteClient : Gen.Skeletons.sdDeleteClient = Ocpp.Expected.sdDeleteClient := by decide
theorem skel_sdCreateClient : Gen.Skeletons.sdCreateClient = Ocpp.Expected.sdCreateClient := by decide
theorem skel_sdSendRequest : Gen.Skeletons.sdSendRequest = Ocpp.Expected.sdSendRequest := by decide
theorem skel_sdMessagePump : Gen.Skeletons.sdMessagePump = Ocpp.Expected.sdMessagePump := by decide
theorem skel_jsOnClientConnected : Gen.Skeletons.jsOnClientConnected = Ocpp.Expected.jsOnClientConnected := by decide
theorem skel_jsOnClientDisconnected : Gen.Skeletons.jsOnClientDisconnected = Ocpp.Expected.jsOnClientDisconnected := by decide
theorem skel_ssClearClient : Gen.Skeletons.ssClearClient = Ocpp.Expected.ssClearClient := by decide
theorem skel_qmapRemove : Gen.Skeletons.qmapRemove = Ocpp.Expected.qmapRemove := by decide
theorem skel_wsServerWrite : Gen.Skeletons.wsServerWrite = Ocpp.Expected.wsServerWrite := by decide

/-! non-vacuity: A has an outstanding and a queued request, B an outstanding one; A's session ends and restarts -/
example :
    let s := (SD.step (SD.step (SD.step (SD.step (SD.step (SD.step (SD.init 0) .start).1 (.connect "A")).1
      (.connect "B")).1 (.send "A" "a1")).1 (.send "A" "a2")).1 (.send "B" "b1")).1
    (SD.get s "A").pend = "a1" ∧ (SD.get s "A").q = ["a1", "a2"] ∧ (SD.get s "B").pend = "b1" ∧
    SD.get (step s (.disconnect "A")).1 "B" = SD.get s "B" ∧
    (step (step (step s (.disconnect "A")).1 (.connect "A")).1 (.send "A" "a3")).2 = [.accepted "A" "a3", .wrote "A" "a3"] ∧
    (step (step s (.disconnect "A")).1 (.send "A" "a3")).2 = [.rejected "A" "a3"] := by decide

/-! ### Below quiescence (server dispatcher, per client, every interleaving; `OcppProps/SFine.lean`): what a session can
leave behind -/

/-- queue objects of successive connections are disjoint: a request lives in the queue of the connection it was accepted on -/
theorem sfine_queues_disjoint {s : Ocpp.ServerFine.St} (h : SFine.Reach s) (i j x : Nat) (hij : i ≠ j)
    (hx : x ∈ Ocpp.ServerFine.getQ s.qs i) : x ∉ Ocpp.ServerFine.getQ s.qs j := SFine.queues_disjoint h i j x hij hx

/-- the two places that clear the pending mark without a completion (timer branch, failed write) only ever drop a request
    that is not in the client's current queue: a request of an earlier connection -/
theorem sfine_dropped_is_orphan {s : Ocpp.ServerFine.St} (h : SFine.Reach s) :
    (s.pump = .tmO → ∀ p, s.pend = some p → SFine.NotInCur s.cur s.qs p) ∧
    (∀ hh, s.pump = .wfO hh → s.pend = some hh → SFine.NotInCur s.cur s.qs hh) := SFine.dropped_is_orphan h

/-- before /repo 6d71525: a request of an earlier connection whose write failed stayed pending for ever and nothing was
    sent to the client any more (kernel-evaluated interleaving; scenario `s-orphan-write-fails` on the code) -/
theorem sfine_old_orphan_stays_pending :
    ((Ocpp.ServerFine.runL { dropW := false } (SFine.orphanRun ++ [.takeReq, .pstep, .pstep, .pstep])).map (fun s =>
      decide (s.pump = .sel ∧ s.pend = some 1 ∧ s.cur = some 1 ∧ Ocpp.ServerFine.getQ s.qs 1 = [] ∧ s.ctx = .zero ∧ s.live = [] ∧
        s.tc = [] ∧ s.reqs = 0 ∧ s.ready = .empty ∧ s.sigw = 0 ∧ s.reader = .idle ∧ s.link = .idle))) = some true :=
  SFine.old_orphan_stays_pending

/-- since /repo 602795e a request is only ever pushed into the queue registered for the client at that moment: nothing is
    accepted into the queue of a connection that is gone (every interleaving of senders, link and pump) -/
theorem sfine_pushed_into_current {s s' : Ocpp.ServerFine.St} (h : SFine.Reach s) (hk : s.sendLock = true) (id qi : Nat)
    (hs : Ocpp.ServerFine.step s (.push id qi) = some s') : s.cur = some qi := SFine.pushed_into_current h hk id qi hs

/-- with the repair the same interleaving drops the orphan and posts a ready signal -/
example : (Ocpp.ServerFine.runL {} SFine.orphanRun).map (fun s => (s.pump, s.pend, s.cur)) = some (.wfOS 1, none, some 1) := by decide

/-- OPEN FINDING `leak/old-call-on-new-connection` (rounds `c11_leak` on the real server), stated on the model: in this
    interleaving a write of the application, for which connection 0 is still the session of the id, reaches connection 1 -/
theorem fine_write_reaches_next_connection :
    (Ocpp.WsIdFine.runL {} C13Fine.leakRun).map (fun s => (Ocpp.WsIdFine.writeTarget false s, C13Fine.openOf s.log)) = some (some 1, some (some 0)) ∧
    (Ocpp.WsIdFine.runL {} C13Fine.leakRun).map (Ocpp.WsIdFine.writeTarget true) = some none :=
  C13Fine.write_reaches_next_connection

end C11
