import OcppProps.C07Fine

/-!
# C02 below quiescence: CALLs are written in the order in which the requests were accepted

`pushSeq s = s.used.reverse` is the acceptance order. Invariant: the queue is a suffix of it (what has not been popped yet),
everything written lies in the popped part or is the head of the queue, in acceptance order; while the pump is inside
`Write` for `id`, everything written lies before `id`.
-/
namespace C07Fine
open Ocpp.ClientFine

def pushSeq (s : St) : List Nat := s.used.reverse

structure InvO (s : St) : Prop where
  nd : s.used.Nodup
  /-- the queue is the not-yet-popped suffix of the acceptance order -/
  suffix : ∃ popped, pushSeq s = popped ++ s.q
  /-- everything written is in the popped part or is the head of the queue, in acceptance order -/
  ordered : ∀ popped, pushSeq s = popped ++ s.q → s.wire.Sublist (popped ++ s.q.take 1)
  /-- while the pump is writing `id`, everything written so far was accepted before `id` -/
  wr : ∀ id, s.pump = .writing id → ∃ pre post, pushSeq s = pre ++ id :: post ∧ s.wire.Sublist pre

theorem invO_init : InvO {} := by
  refine ⟨by simp, ⟨[], by simp [pushSeq]⟩, ?_, by simp⟩
  intro p hp; simp

/-- fields the order invariant reads are untouched -/
theorem invO_same (s s' : St) (h : InvO s) (hu : s'.used = s.used) (hq : s'.q = s.q) (hw : s'.wire = s.wire)
    (hp : ∀ id, s'.pump = .writing id → s.pump = .writing id) : InvO s' := by
  have hps : pushSeq s' = pushSeq s := by simp [pushSeq, hu]
  refine ⟨hu ▸ h.nd, by rw [hps, hq]; exact h.suffix, by rw [hps, hq, hw]; exact h.ordered, ?_⟩
  intro id e
  rw [hps, hw]; exact h.wr id (hp id e)

theorem sublist_take_one (P q : List Nat) : (P ++ q.take 1).Sublist (P ++ q) :=
  List.Sublist.append (List.Sublist.refl P) (List.take_sublist 1 q)

/-- an effective completion: the head moves into the popped part -/
theorem invO_pop (s s' : St) (h : InvO s) (id : Nat) (t : List Nat) (hq : s.q = id :: t) (hu : s'.used = s.used)
    (hq' : s'.q = t) (hw : s'.wire = s.wire) (hp : ∀ j, s'.pump = .writing j → s.pump = .writing j) : InvO s' := by
  have hps : pushSeq s' = pushSeq s := by simp [pushSeq, hu]
  obtain ⟨P, hP⟩ := h.suffix
  refine ⟨hu ▸ h.nd, ⟨P ++ [id], by rw [hps, hq', hP, hq]; simp⟩, ?_, ?_⟩
  · intro P' hP'
    rw [hps, hq'] at hP'
    have e : P' = P ++ [id] := by
      have : P' ++ t = (P ++ [id]) ++ t := by rw [← hP', hP, hq]; simp
      exact List.append_cancel_right this
    subst e
    rw [hw]
    have := h.ordered P hP
    rw [hq] at this
    simp only [List.take_succ_cons, List.take_zero] at this
    exact this.trans (List.sublist_append_left _ _)
  · intro j e
    rw [hps, hw]; exact h.wr j (hp j e)

theorem nodup_reverse' : ∀ l : List Nat, l.Nodup → l.reverse.Nodup
  | [], _ => by simp
  | a :: l, h => by
    have h' := List.nodup_cons.mp h
    simp only [List.reverse_cons]
    rw [List.nodup_append]
    refine ⟨nodup_reverse' l h'.2, by simp, ?_⟩
    intro x hx y hy
    simp only [List.mem_singleton] at hy
    subst hy
    intro e
    subst e
    exact h'.1 (by simpa using hx)

theorem sublist_drop_last {l P : List Nat} {h : Nat} (hs : l.Sublist (P ++ [h])) (hn : h ∉ l) : l.Sublist P := by
  obtain ⟨l1, l2, rfl, h1, h2⟩ := List.sublist_append_iff.mp hs
  cases l2 with
  | nil => simpa using h1
  | cons a t =>
    exfalso
    have : a = h := by
      have := h2.subset (List.mem_cons_self)
      simpa using this
    subst this
    exact hn (by simp)

/-- in a list without duplicates the split at an element is unique -/
theorem split_unique : ∀ (a c b d : List Nat) (x : Nat), (a ++ x :: b).Nodup → a ++ x :: b = c ++ x :: d → a = c ∧ b = d
  | [], [], b, d, x, _, h => by simpa using h
  | [], y :: c, b, d, x, hn, h => by
    exfalso
    simp only [List.nil_append, List.cons_append, List.cons.injEq] at h
    obtain ⟨rfl, rfl⟩ := h
    simp at hn
  | y :: a, [], b, d, x, hn, h => by
    exfalso
    simp only [List.nil_append, List.cons_append, List.cons.injEq] at h
    obtain ⟨rfl, rfl⟩ := h
    simp at hn
  | y :: a, z :: c, b, d, x, hn, h => by
    simp only [List.cons_append, List.cons.injEq] at h
    obtain ⟨rfl, h⟩ := h
    have hn' : (a ++ x :: b).Nodup := (List.nodup_cons.mp (by simpa using hn)).2
    obtain ⟨rfl, rfl⟩ := split_unique a c b d x hn' h
    exact ⟨rfl, rfl⟩

theorem complete_used (s : St) (id : Nat) : (complete s id).1.used = s.used := (complete_wu s id).2

theorem invO_complete (s : St) (h : InvO s) (id : Nat) (s' : St) (hu : s'.used = s.used) (hw : s'.wire = s.wire)
    (hq : s'.q = (complete s id).1.q) (hp : ∀ j, s'.pump = .writing j → s.pump = .writing j) : InvO s' := by
  cases he : (complete s id).2 with
  | true =>
    obtain ⟨t, hqq, hcs⟩ := complete_eff s id he
    exact invO_pop s s' h id t hqq hu (by rw [hq, hcs]) hw hp
  | false =>
    exact invO_same s s' h hu (by rw [hq, complete_noeff s id he]) hw hp

theorem invO_step (s s' : St) (l : Label) (hf : s.pendFirst = true) (hi : Inv s) (h3 : Inv3 s) (ho : InvO s)
    (h : step s l = some s') : InvO s' := by
  cases l with
  | push id =>
    simp only [step] at h
    split at h
    · cases h
    · rename_i hfresh
      cases h
      obtain ⟨P, hP⟩ := ho.suffix
      have hps : pushSeq { s with q := s.q ++ [id], used := id :: s.used, mid := s.mid + 1 } = pushSeq s ++ [id] := by
        simp [pushSeq]
      refine ⟨List.nodup_cons.mpr ⟨hfresh, ho.nd⟩, ⟨P, by rw [hps, hP]; simp⟩, ?_, ?_⟩
      · intro P' hP'
        rw [hps, hP] at hP'
        have e : P' = P := by
          have : P' ++ (s.q ++ [id]) = P ++ (s.q ++ [id]) := by rw [← hP']; simp
          exact List.append_cancel_right this
        subst e
        have := ho.ordered P' hP
        cases hq : s.q with
        | nil => rw [hq] at this; simp at this ⊢; exact this.trans (List.sublist_append_left _ _)
        | cons a t => rw [hq] at this; simpa using this
      · intro j e
        obtain ⟨pre, post, h1, h2⟩ := ho.wr j e
        exact ⟨pre, post ++ [id], by rw [hps, h1]; simp, h2⟩
  | wakeup =>
    simp only [step] at h
    split at h
    · cases h; exact invO_same s _ ho rfl rfl rfl (fun _ e => e)
    · cases h
  | takeWake =>
    simp only [step] at h
    split at h
    · split at h
      · cases h; exact invO_same s _ ho rfl rfl rfl (fun _ e => by simp at e)
      · cases h
    · cases h
  | takeReady =>
    simp only [step] at h
    split at h
    · split at h
      · cases h; exact invO_same s _ ho rfl rfl rfl (fun _ e => by simp at e)
      · cases h
    · cases h
  | expire =>
    simp only [step] at h
    split at h
    · cases h; exact invO_same s _ ho rfl rfl rfl (fun _ e => by simp at e)
    · cases h
  | writeOk =>
    simp only [step] at h
    split at h
    · rename_i id hpu
      cases h
      obtain ⟨pre, post, h1, h2⟩ := ho.wr id hpu
      have hps : pushSeq { s with wire := s.wire ++ [id], pump := Pump.sel false } = pushSeq s := rfl
      have hnd : (pushSeq s).Nodup := by simp only [pushSeq]; exact nodup_reverse' _ ho.nd
      have hsafe : id ∈ s.used ∧ safeId s id := by
        have := hi.pump; unfold pumpSafe at this; simpa only [hpu] using this
      refine ⟨ho.nd, ho.suffix, ?_, by simp⟩
      intro P' hP'
      rw [hps] at hP'
      have hw1 : (s.wire ++ [id]).Sublist (pre ++ [id]) := List.Sublist.append h2 (List.Sublist.refl _)
      by_cases hq : id ∈ s.q
      · -- still queued: it is the pending head
        have hpend : s.pend = some id := by
          rcases hsafe.2 with e | e
          · exact e
          · exact absurd hq e
        have hh := hi.head id hpend
        cases hqq : s.q with
        | nil => simp [hqq] at hq
        | cons a t =>
          simp only [hqq, List.head?_cons, Option.some.injEq] at hh
          subst hh
          rw [hqq] at hP'
          have := split_unique P' pre t post a (by rw [← hP']; exact hnd) (by rw [← hP', h1])
          rw [this.1]
          simpa using hw1
      · -- already popped (the response overtook the return of Write)
        have hmem : id ∈ P' := by
          have : id ∈ pushSeq s := by rw [h1]; simp
          rw [hP'] at this
          rcases List.mem_append.mp this with e | e
          · exact e
          · exact absurd e hq
        obtain ⟨a, b, rfl⟩ := List.append_of_mem hmem
        have e1 : pushSeq s = a ++ id :: (b ++ s.q) := by rw [hP']; simp
        have := split_unique a pre (b ++ s.q) post id (by rw [← e1]; exact hnd) (by rw [← e1, h1])
        rw [this.1]
        have : (pre ++ [id]).Sublist (pre ++ id :: b) := by
          exact List.Sublist.append (List.Sublist.refl _) (by simp)
        exact (hw1.trans this).trans (List.sublist_append_left _ _)
    · cases h
  | writeFail =>
    simp only [step] at h
    split at h
    · cases h; exact invO_same s _ ho rfl rfl rfl (fun _ e => by simp at e)
    · cases h
  | reply id =>
    simp only [step] at h
    split at h
    · cases h; exact invO_same s _ ho rfl rfl rfl (fun _ e => e)
    · cases h
  | pause =>
    simp only [step] at h
    split at h
    · cases h; exact invO_same s _ ho rfl rfl rfl (fun _ e => e)
    · cases h
  | resume =>
    simp only [step] at h
    split at h
    · cases h; exact invO_same s _ ho rfl rfl rfl (fun _ e => e)
    · cases h
  | lstep =>
    simp only [step] at h
    split at h
    · cases h
    · cases h; exact invO_same s _ ho rfl rfl rfl (fun _ e => e)
  | rstep =>
    simp only [step] at h
    split at h
    · cases h
    · cases h; exact invO_same s _ ho rfl rfl rfl (fun _ e => e)
    · rename_i id hre
      cases h
      obtain ⟨f1, f2, f3, f4, f5, f6, f7⟩ := complete_fields s id
      obtain ⟨g1, g2⟩ := complete_wu s id
      exact invO_complete s ho id _ g2 g1 rfl (fun j e => by simpa [f7] using e)
    · cases h; exact invO_same s _ ho rfl rfl rfl (fun _ e => e)
    · cases h; exact invO_same s _ ho rfl rfl rfl (fun _ e => e)
  | pstep =>
    simp only [step] at h
    split at h
    · cases h
    · cases h
      exact invO_same s _ ho rfl rfl rfl (fun j e => by (repeat' (split at e)) <;> cases e)
    · split at h
      · cases h; exact invO_same s _ ho rfl rfl rfl (fun _ e => by simp at e)
      · split at h
        · cases h
          exact invO_same s _ ho rfl rfl rfl (fun j e => by (repeat' (split at e)) <;> cases e)
        · cases h
          exact invO_same s _ ho rfl rfl rfl (fun j e => by (repeat' (split at e)) <;> cases e)
    · split at h
      · cases h
        exact invO_same s _ ho rfl rfl rfl (fun j e => by (repeat' (split at e)) <;> cases e)
      · cases h
        exact invO_same s _ ho rfl rfl rfl (fun j e => by (repeat' (split at e)) <;> cases e)
    · -- disp
      rename_i hpu
      have hpd : s.pend = none ∧ s.q ≠ [] := by
        have := hi.pump; unfold pumpSafe at this; simp only [hpu] at this; exact this hf
      split at h
      · rename_i hd tl hq
        cases h
        obtain ⟨P, hP⟩ := ho.suffix
        refine ⟨ho.nd, ho.suffix, ho.ordered, ?_⟩
        intro j e
        simp only [Pump.writing.injEq] at e
        subst e
        have hnw : hd ∉ s.wire := by
          intro hj
          have := h3.wq hd hj (by rw [hq]; exact List.mem_cons_self)
          simp [hpd.1] at this
        have hord := ho.ordered P hP
        rw [hq] at hord
        simp only [List.take_succ_cons, List.take_zero] at hord
        refine ⟨P, tl, ?_, sublist_drop_last hord hnw⟩
        show pushSeq s = P ++ hd :: tl
        rw [hP, hq]
      · cases h
        exact invO_same s _ ho rfl rfl rfl (fun j e => by simp [hpu] at e)
    · cases h
    · -- wfail
      rename_i id hpu
      cases h
      obtain ⟨g1, g2⟩ := complete_wu s id
      exact invO_complete s ho id _ g2 g1 rfl (fun j e => by simp at e)
    · cases h; exact invO_same s _ ho rfl rfl rfl (fun _ e => by simp at e)
    · cases h
      exact invO_same s _ ho rfl rfl rfl (fun j e => by (repeat' (split at e)) <;> cases e)
    · split at h
      · cases h
        exact invO_same s _ ho rfl rfl rfl (fun j e => by (repeat' (split at e)) <;> cases e)
      · cases h; exact invO_same s _ ho rfl rfl rfl (fun _ e => by simp at e)
    · -- tmo3
      rename_i r id hpu
      cases h
      obtain ⟨g1, g2⟩ := complete_wu s id
      exact invO_complete s ho id _ g2 g1 rfl (fun j e => by simp at e)
    · cases h; exact invO_same s _ ho rfl rfl rfl (fun _ e => by simp at e)

theorem invO_run : ∀ (ls : List Label) (s s' : St), s.pendFirst = true → Inv s → Inv3 s → InvO s → runL s ls = some s' → InvO s'
  | [], s, s', _, _, _, ho, h => by simp only [runL, Option.some.injEq] at h; exact h ▸ ho
  | l :: ls, s, s', hf, hi, h3, ho, h => by
    simp only [runL] at h
    cases hs : step s l with
    | none => simp [hs] at h
    | some s1 =>
      simp only [hs] at h
      exact invO_run ls s1 s' (by rw [step_pendFirst s s1 l hs]; exact hf) (inv_step s s1 l hi hs)
        (inv3_step s s1 l hf hi h3 hs) (invO_step s s1 l hf hi h3 ho hs) h

/-- **C02 below quiescence, every interleaving**: the CALLs on the wire are a subsequence of the accepted requests in
    acceptance order — the pump always writes the oldest accepted request that has not been written or concluded -/
theorem written_in_acceptance_order (ls : List Label) (s' : St) (h : runL {} ls = some s') :
    s'.wire.Sublist (pushSeq s') := by
  have ho := invO_run ls {} s' rfl inv_init inv3_init invO_init h
  obtain ⟨P, hP⟩ := ho.suffix
  rw [hP]
  exact (ho.ordered P hP).trans (sublist_take_one P s'.q)

end C07Fine
