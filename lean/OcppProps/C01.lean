import OcppProps.CDSim
import OcppProps.SFine
import OcppModel.Endpoint
import OcppModel.Expected
import OcppGen.Skeletons

/-!
# C01 — every sent request is concluded exactly once, at its own caller

Layering (IronFleet style):

* **ocppj layer, client endpoint** — proved for all histories (`C02.client_all_histories`, the same refinement):
  the observable history satisfies `Mon`, whose clauses say: a conclusion (response, error, cancellation) is
  produced only for the outstanding request / the oldest waiting request, after which that request is gone
  (at most once); a rejected request never enters `waiting` (never written, never concluded); after `stopped`
  nothing is outstanding or waiting (nothing can be concluded any more).
* **protocol layer** (this file) — assumes of the ocppj layer **only** that specification and proves that the
  by-arrival-order callback matching delivers every conclusion to the callback that was passed with that very
  request (`client_own_callback`, `server_own_callback`), for every history accepted by `Mon` / `SMon`, of any
  length, any number of clients, with connects, disconnects (drain) and stop.

Not covered by a theorem: the server ocppj model's refinement to `SMon` (validated, not proved) and the
interleavings below quiescence — in particular the response handler running *after* `CompleteRequest` (S5) and
the two result channels of the client roles (S4), where the real code can deliver a conclusion to the wrong
callback (known finding `overtake`, monitor `c01_overtake`).
-/

namespace C01
open Ocpp Ocpp.CD Ocpp.L3

/-- a delivery goes to the request's own callback (callbacks are tagged with the id they were passed with);
    a conclusion without a queued callback (`orphan`) is a violation -/
def ownDel : Del → Bool
  | .deliv cb kind id => kind == "disc" || cb == id
  | .orphan _ _ => false
  | _ => true

def pend (m : Mon) : List String := m.out.toList ++ m.waiting

/-- shape of what the send API reports: first `accepted id` or only `rejected id`, and no other accept/reject -/
def noAR : List CD.Obs → Bool
  | [] => true
  | .accepted _ :: _ => false
  | .rejected _ :: _ => false
  | _ :: os => noAR os

def sendShape (e : CD.Ev) (obs : List CD.Obs) : Bool :=
  match e with
  | .send id => (match obs with
      | [.rejected id'] => id' == id
      | .accepted id' :: rest => id' == id && noAR rest
      | _ => false)
  | _ => noAR obs

/-! ### client roles -/

theorem foldC_own (w : Bool) : ∀ (obs : List CD.Obs) (mon mon' : Mon) (extra : List String),
    Mon.obsList w mon obs = some mon' → noAR obs = true →
    (foldC (pend mon ++ extra) obs).1 = pend mon' ++ (if (obs.any fun o => o == .stopped) then [] else extra) ∧
    (foldC (pend mon ++ extra) obs).2.all ownDel = true := by
  intro obs
  induction obs with
  | nil => intro mon mon' extra h _; simp [Mon.obsList] at h; subst h; simp [foldC]
  | cons o os ih =>
    intro mon mon' extra h hs
    simp only [Mon.obsList] at h
    cases hm : Mon.obs w mon o with
    | none => simp [hm] at h
    | some m1 =>
      simp only [hm] at h
      cases o with
      | accepted id => simp [noAR] at hs
      | rejected id => simp [noAR] at hs
      | wrote id =>
        simp only [Mon.obs] at hm
        split at hm
        · rename_i hc
          simp at hm; subst hm
          have hp : pend mon = pend { mon with out := some id, waiting := mon.waiting.tail } := by
            obtain ⟨h1, _, h3⟩ := hc
            simp only [pend, h1]
            cases hw : mon.waiting with
            | nil => simp [hw] at h3
            | cons a t => simp [hw] at h3; subst h3; simp
          have := ih _ mon' extra h (by simpa [noAR] using hs)
          simp only [foldC, onCObs, hp]
          simpa [ownDel] using this
        · simp at hm
      | resp id =>
        simp only [Mon.obs] at hm
        split at hm
        · rename_i hc
          simp at hm; subst hm
          have := ih { mon with out := none } mon' extra h (by simpa [noAR] using hs)
          simp only [foldC, onCObs, pend, hc, Option.toList_some, List.singleton_append, List.cons_append]
          simp only [pend, Option.toList_none, List.nil_append] at this
          simpa [ownDel] using this
        · simp at hm
      | errResp id =>
        simp only [Mon.obs] at hm
        split at hm
        · rename_i hc
          simp at hm; subst hm
          have := ih { mon with out := none } mon' extra h (by simpa [noAR] using hs)
          simp only [foldC, onCObs, pend, hc, Option.toList_some, List.singleton_append, List.cons_append]
          simp only [pend, Option.toList_none, List.nil_append] at this
          simpa [ownDel] using this
        · simp at hm
      | cancel id t =>
        cases t with
        | true =>
          simp only [Mon.obs] at hm
          split at hm
          · rename_i hc
            simp at hm; subst hm
            have := ih { mon with out := none } mon' extra h (by simpa [noAR] using hs)
            simp only [foldC, onCObs, pend, hc.1, Option.toList_some, List.singleton_append, List.cons_append]
            simp only [pend, Option.toList_none, List.nil_append] at this
            simpa [ownDel] using this
          · simp at hm
        | false =>
          simp only [Mon.obs] at hm
          split at hm
          · rename_i hc
            simp at hm; subst hm
            obtain ⟨h1, _, h3⟩ := hc
            cases hw : mon.waiting with
            | nil => simp [hw] at h3
            | cons a t =>
              simp [hw] at h3; subst h3
              simp only [hw, List.tail_cons] at h
              have := ih { mon with waiting := t } mon' extra h (by simpa [noAR] using hs)
              simp only [foldC, onCObs, pend, h1, hw, Option.toList_none, List.nil_append, List.cons_append]
              simp only [pend, h1, Option.toList_none, List.nil_append] at this
              simpa [ownDel] using this
          · simp at hm
      | stopped =>
        simp only [Mon.obs, Option.some.injEq] at hm; subst hm
        have := ih { mon with out := none, waiting := [] } mon' [] h (by simpa [noAR] using hs)
        simp only [foldC, onCObs]
        simp only [pend, Option.toList_none, List.nil_append, List.append_nil] at this
        simp only [List.any_cons, beq_self_eq_true, Bool.true_or, if_true, List.append_nil]
        split at this <;> simpa [ownDel, pend] using this
      | panic => simp [Mon.obs] at hm
      | blocked => simp [Mon.obs] at hm
      | dead => simp [Mon.obs] at hm

/-- **own callback, client roles, one event**: if the ocppj-level effects of an event are allowed by the
    specification, every callback invoked by the protocol layer is the one passed with the concluded request,
    and the callback list again mirrors outstanding ++ waiting -/
theorem client_event_own (mon mon' : Mon) (e : CD.Ev) (obs : List CD.Obs)
    (h0 : Mon.event mon e obs = some mon') (hs : sendShape e obs = true) (hns : ∀ id, e = .send id → True) :
    (clientLayer (pend mon) e obs).1 = pend mon' ∧ (clientLayer (pend mon) e obs).2.all ownDel = true := by
  have h : Mon.eventCore mon e obs = some mon' := by
    unfold Mon.event at h0
    cases hc : Mon.eventCore mon e obs with
    | none => simp [hc] at h0
    | some m1 => simp only [hc] at h0; split at h0 <;> simp_all
  unfold clientLayer
  cases e with
  | send id =>
    simp only [Mon.eventCore] at h
    simp only [sendShape] at hs
    match obs, hs with
    | [.rejected id'], hs =>
      simp only [beq_iff_eq] at hs; subst hs
      simp [Mon.obsList, Mon.obs] at h; subst h
      simp [foldC, onCObs, ownDel]
    | .accepted id' :: rest, hs =>
      simp only [Bool.and_eq_true, beq_iff_eq] at hs
      obtain ⟨e1, hr⟩ := hs; subst e1
      simp only [Mon.obsList, Mon.obs] at h
      have := foldC_own _ rest { mon with waiting := mon.waiting ++ [id'] } mon' [] h hr
      simp only [pend, List.append_nil] at this
      simp only [foldC, onCObs, pend, List.append_assoc]
      constructor
      · have h1 := this.1; split at h1 <;> simpa [pend] using h1
      · simpa [ownDel] using this.2
  | reply id b =>
    have := foldC_own _ obs mon mon' [] (by simpa [Mon.eventCore] using h) (by simpa [sendShape] using hs)
    simp only [List.append_nil] at this; constructor
    · have h1 := this.1; split at h1 <;> simpa using h1
    · exact this.2
  | wait =>
    have := foldC_own _ obs mon mon' [] (by simpa [Mon.eventCore] using h) (by simpa [sendShape] using hs)
    simp only [List.append_nil] at this; constructor
    · have h1 := this.1; split at h1 <;> simpa using h1
    · exact this.2
  | disconnect =>
    have := foldC_own _ obs { mon with paused := true } mon' [] (by simpa [Mon.eventCore] using h) (by simpa [sendShape] using hs)
    simp only [List.append_nil, pend] at this ⊢; constructor
    · have h1 := this.1; split at h1 <;> simpa using h1
    · exact this.2
  | reconnect =>
    have := foldC_own _ obs { mon with paused := false } mon' [] (by simpa [Mon.eventCore] using h) (by simpa [sendShape] using hs)
    simp only [List.append_nil, pend] at this ⊢; constructor
    · have h1 := this.1; split at h1 <;> simpa using h1
    · exact this.2
  | writeFail b =>
    have := foldC_own _ obs mon mon' [] (by simpa [Mon.eventCore] using h) (by simpa [sendShape] using hs)
    simp only [List.append_nil] at this; constructor
    · have h1 := this.1; split at h1 <;> simpa using h1
    · exact this.2
  | stop =>
    have := foldC_own _ obs mon mon' [] (by simpa [Mon.eventCore] using h) (by simpa [sendShape] using hs)
    simp only [List.append_nil] at this; constructor
    · have h1 := this.1; split at h1 <;> simpa using h1
    · exact this.2
  | start =>
    have := foldC_own _ obs { mon with paused := false } mon' [] (by simpa [Mon.eventCore] using h) (by simpa [sendShape] using hs)
    simp only [List.append_nil, pend] at this ⊢; constructor
    · have h1 := this.1; split at h1 <;> simpa using h1
    · exact this.2

/-- run the protocol layer over a whole ocppj-level history -/
def clientRun (m : List String) : List (CD.Ev × List CD.Obs) → List Del
  | [] => []
  | (e, obs) :: rest => (clientLayer m e obs).2 ++ clientRun (clientLayer m e obs).1 rest

def shapes : List (CD.Ev × List CD.Obs) → Bool
  | [] => true
  | (e, obs) :: rest => sendShape e obs && shapes rest

/-- **own callback, client roles, all histories**: for every ocppj-level history accepted by the dispatcher
    specification, every delivery of the protocol layer is to the request's own callback, exactly as many
    deliveries as conclusions (one dequeue per conclusion), and none without a queued callback -/
theorem client_own_callback (hist : List (CD.Ev × List CD.Obs)) :
    ∀ (mon : Mon), Mon.accepts mon hist = true → shapes hist = true → (clientRun (pend mon) hist).all ownDel = true := by
  induction hist with
  | nil => intro _ _ _; rfl
  | cons p rest ih =>
    obtain ⟨e, obs⟩ := p
    intro mon ha hs
    simp only [Mon.accepts] at ha
    simp only [shapes, Bool.and_eq_true] at hs
    cases hm : Mon.event mon e obs with
    | none => simp [hm] at ha
    | some m1 =>
      simp only [hm] at ha
      have ⟨h1, h2⟩ := client_event_own mon m1 e obs hm hs.1 (fun _ _ => trivial)
      simp only [clientRun, List.all_append, Bool.and_eq_true, h2, true_and, h1]
      exact ih m1 ha hs.2


/-! ### server roles -/

namespace Srv
open Ocpp.SD

def pendS (cm : CMon) : List String := cm.out.toList ++ cm.waiting

/-- no accept / reject / stopped among the observations -/
def noARS : List SD.Obs → Bool
  | [] => true
  | .accepted _ _ :: _ => false
  | .rejected _ _ :: _ => false
  | .stopped :: _ => false
  | _ :: os => noARS os

/-- shape of what the send API reports and of the events that produce no ocppj-level observation in the model and in the
    implementation (disconnect: none; stop: `stopped` if it was running) -/
def shapeS (e : SD.Ev) (obs : List SD.Obs) : Bool :=
  match e with
  | .send c id => (match obs with
      | [.rejected c' id'] => c' == c && id' == id
      | .accepted c' id' :: rest => c' == c && id' == id && noARS rest
      | _ => false)
  | .disconnect _ => obs.isEmpty
  | .stop => (match obs with
      | [] => true
      | [.stopped] => true
      | _ => false)
  | _ => noARS obs

theorem cbGet_cbSet (m : Cbq) (c c' : String) (v : List String) :
    cbGet (cbSet m c v) c' = if c = c' then v else cbGet m c' := by
  induction m with
  | nil =>
    by_cases h : c = c'
    · simp [cbSet, cbGet, h]
    · have : (c == c') = false := by simp [h]
      simp [cbSet, cbGet, h, List.find?_cons, this]
  | cons p rest ih =>
    obtain ⟨k, w⟩ := p
    simp only [cbSet]
    by_cases hk : k = c
    · subst hk
      by_cases h : k = c'
      · subst h; simp [cbGet, List.find?_cons]
      · have : (k == c') = false := by simp [h]
        simp [cbGet, List.find?_cons, this, h]
    · have hkc : (k == c) = false := by simp [hk]
      simp only [hkc, Bool.false_eq_true, if_false]
      by_cases h : k = c'
      · subst h
        have : ¬ c = k := fun e => hk e.symm
        simp [cbGet, List.find?_cons, this]
      · have hb : (k == c') = false := by simp [h]
        have := ih
        simp only [cbGet, List.find?_cons, hb] at this ⊢
        exact this

theorem smon_get_set (m : SMon) (c c' : String) (v : CMon) :
    (m.set c v).get c' = if c = c' then v else m.get c' := by
  induction m with
  | nil =>
    by_cases h : c = c'
    · simp [SMon.set, SMon.get, h]
    · have : (c == c') = false := by simp [h]
      simp [SMon.set, SMon.get, h, List.find?_cons, this]
  | cons p rest ih =>
    obtain ⟨k, w⟩ := p
    simp only [SMon.set]
    by_cases hk : k = c
    · subst hk
      by_cases h : k = c'
      · subst h; simp [SMon.get, List.find?_cons]
      · have : (k == c') = false := by simp [h]
        simp [SMon.get, List.find?_cons, this, h]
    · have hkc : (k == c) = false := by simp [hk]
      simp only [hkc, Bool.false_eq_true, if_false]
      by_cases h : k = c'
      · subst h
        have : ¬ c = k := fun e => hk e.symm
        simp [SMon.get, List.find?_cons, this]
      · have hb : (k == c') = false := by simp [h]
        have := ih
        simp only [SMon.get, List.find?_cons, hb] at this ⊢
        exact this

/-- the callback lists mirror, client by client, outstanding ++ waiting of the specification state -/
def Rel (m : Cbq) (mon : SMon) : Prop := ∀ c, cbGet m c = pendS (mon.get c)

theorem conclude_own (m : Cbq) (mon : SMon) (c kind id : String) (rest : List String) (hR : Rel m mon)
    (hp : pendS (mon.get c) = id :: rest) (cm' : CMon) (hp' : pendS cm' = rest) :
    Rel (conclude m c kind id).1 (mon.set c cm') ∧ (conclude m c kind id).2.all ownDel = true := by
  have hg : cbGet m c = id :: rest := by rw [hR c, hp]
  simp only [conclude, hg]
  refine ⟨?_, by simp [ownDel]⟩
  intro c'
  rw [cbGet_cbSet, smon_get_set]
  by_cases h : c = c'
  · simp [h, hp']
  · simp [h, hR c']

theorem foldS_own (w r : Bool) : ∀ (obs : List SD.Obs) (m : Cbq) (mon mon' : SMon),
    Rel m mon → SMon.obsList w r mon obs = some mon' → noARS obs = true →
    Rel (foldS m obs).1 mon' ∧ (foldS m obs).2.all ownDel = true := by
  intro obs
  induction obs with
  | nil =>
    intro m mon mon' hR h _
    simp only [SMon.obsList, Option.some.injEq] at h; subst h
    exact ⟨hR, rfl⟩
  | cons o os ih =>
    intro m mon mon' hR h hs
    simp only [SMon.obsList] at h
    cases hm : SMon.obs w r mon o with
    | none => simp [hm] at h
    | some m1 =>
      simp only [hm] at h
      have step : ∀ (m2 : Cbq) (d : List Del), onSObs m o = (m2, d) → Rel m2 m1 → d.all ownDel = true → noARS os = true →
          Rel (foldS m (o :: os)).1 mon' ∧ (foldS m (o :: os)).2.all ownDel = true := by
        intro m2 d ho hR2 hd hs'
        have := ih m2 m1 mon' hR2 h hs'
        simp only [foldS, ho, List.all_append, Bool.and_eq_true]
        exact ⟨this.1, hd, this.2⟩
      cases o with
      | accepted c id => simp [noARS] at hs
      | rejected c id => simp [noARS] at hs
      | stopped => simp [noARS] at hs
      | panic => simp [SMon.obs] at hm
      | blocked => simp [SMon.obs] at hm
      | dead => simp [SMon.obs] at hm
      | wrote c id =>
        simp only [SMon.obs] at hm
        split at hm
        · rename_i hc
          simp only [Option.some.injEq] at hm; subst hm
          refine step m [.wrote c id] rfl ?_ (by simp [ownDel]) (by simpa [noARS] using hs)
          intro c'
          rw [smon_get_set]
          by_cases h' : c = c'
          · subst h'
            obtain ⟨_, ho, hh⟩ := hc
            cases hw : (mon.get c).waiting with
            | nil => simp [hw] at hh
            | cons a t =>
              simp [hw] at hh; subst hh
              simp [hR c, pendS, ho, hw]
          · simp [h', hR c']
        · cases hm
      | resp c id =>
        simp only [SMon.obs] at hm
        split at hm
        · rename_i hc
          simp only [Option.some.injEq] at hm; subst hm
          have := conclude_own m mon c "resp" id (mon.get c).waiting hR (by simp [pendS, hc]) { (mon.get c) with out := none } (by simp [pendS])
          exact step _ _ rfl this.1 this.2 (by simpa [noARS] using hs)
        · cases hm
      | errResp c id =>
        simp only [SMon.obs] at hm
        split at hm
        · rename_i hc
          simp only [Option.some.injEq] at hm; subst hm
          have := conclude_own m mon c "err" id (mon.get c).waiting hR (by simp [pendS, hc]) { (mon.get c) with out := none } (by simp [pendS])
          exact step _ _ rfl this.1 this.2 (by simpa [noARS] using hs)
        · cases hm
      | cancel c id t =>
        cases t with
        | true =>
          simp only [SMon.obs] at hm
          split at hm
          · rename_i hc
            simp only [Option.some.injEq] at hm; subst hm
            have := conclude_own m mon c "timeout" id (mon.get c).waiting hR (by simp [pendS, hc.1]) { (mon.get c) with out := none } (by simp [pendS])
            exact step _ _ rfl this.1 this.2 (by simpa [noARS] using hs)
          · cases hm
        | false =>
          simp only [SMon.obs] at hm
          split at hm
          · rename_i hc
            simp only [Option.some.injEq] at hm; subst hm
            obtain ⟨ho, hh⟩ := hc
            cases hw : (mon.get c).waiting with
            | nil => simp [hw] at hh
            | cons a t =>
              simp [hw] at hh; subst hh
              have := conclude_own m mon c "write" a t hR (by simp [pendS, ho, hw]) { (mon.get c) with waiting := (mon.get c).waiting.tail } (by simp [pendS, ho, hw])
              exact step _ _ rfl this.1 this.2 (by simpa [noARS] using hs)
          · cases hm

/-- with nothing outstanding or waiting anywhere the specification allows no observation at all (besides accept / reject / stopped) -/
theorem no_obs_when_idle (w r : Bool) (mon mon' : SMon) (obs : List SD.Obs) (hs : noARS obs = true)
    (hidle : ∀ c, pendS (mon.get c) = []) (h : SMon.obsList w r mon obs = some mon') : obs = [] := by
  cases obs with
  | nil => rfl
  | cons o os =>
    exfalso
    simp only [SMon.obsList] at h
    have hnone : SMon.obs w r mon o = none := by
      cases o with
      | accepted c id => simp [noARS] at hs
      | rejected c id => simp [noARS] at hs
      | stopped => simp [noARS] at hs
      | panic => rfl
      | blocked => rfl
      | dead => rfl
      | wrote c id =>
        have := hidle c
        simp only [pendS, List.append_eq_nil_iff] at this
        simp [SMon.obs, this.2]
      | resp c id =>
        have := hidle c
        simp only [pendS, List.append_eq_nil_iff] at this
        cases ho : (mon.get c).out with
        | none => simp [SMon.obs, ho]
        | some x => simp [ho] at this
      | errResp c id =>
        have := hidle c
        simp only [pendS, List.append_eq_nil_iff] at this
        cases ho : (mon.get c).out with
        | none => simp [SMon.obs, ho]
        | some x => simp [ho] at this
      | cancel c id t =>
        have := hidle c
        simp only [pendS, List.append_eq_nil_iff] at this
        cases t with
        | true =>
          cases ho : (mon.get c).out with
          | none => simp [SMon.obs, ho]
          | some x => simp [ho] at this
        | false => simp [SMon.obs, this.2]
    simp [hnone] at h

/-- the relation between the callback lists and the specification state of a server endpoint -/
def RelS (m : Cbq) (ms : SMonSt) : Prop :=
  Rel m ms.m ∧ (ms.running = false → ∀ c, pendS (ms.m.get c) = [])

/-- what `SMonSt.event` judged: the observations against the pre-processed state -/
def pre (ms : SMonSt) (e : SD.Ev) : SMonSt :=
  match e with
  | .connect c => { ms with m := ms.m.set c { (ms.m.get c) with live := ms.running } }
  | .disconnect c => { ms with m := ms.m.set c {} }
  | .start => { ms with running := true }
  | .stop => { ms with running := false }
  | _ => ms

theorem event_core (ms ms' : SMonSt) (e : SD.Ev) (obs : List SD.Obs) (h : SMonSt.event ms e obs = some ms') :
    ∃ m', SMon.obsList (decide (e = .wait)) (ms.running || decide (e = .stop)) (pre ms e).m obs = some m' ∧
      ms' = { pre ms e with m := m' } := by
  cases e <;> simp only [SMonSt.event, pre, Bool.not_true, Bool.false_eq_true, if_false] at h ⊢ <;>
    (repeat' (split at h)) <;>
    first
      | (cases h; exact ⟨_, by assumption, rfl⟩)
      | cases h

theorem drain_own (m : Cbq) (c : String) : (drain m c).2.all ownDel = true := by
  simp [drain, List.all_map, ownDel, Function.comp_def]

theorem drainAll_own : ∀ (ks : List String) (m : Cbq), (drainAll m ks).2.all ownDel = true
  | [], _ => rfl
  | c :: cs, m => by
    simp only [drainAll, List.all_append, Bool.and_eq_true]
    exact ⟨drain_own m c, drainAll_own cs _⟩

theorem drainAll_empty : ∀ (ks : List String) (m : Cbq) (c : String), (c ∈ ks ∨ cbGet m c = []) → cbGet (drainAll m ks).1 c = []
  | [], m, c, h => by
    rcases h with h | h
    · simp at h
    · simpa [drainAll] using h
  | k :: ks, m, c, h => by
    simp only [drainAll]
    apply drainAll_empty ks
    by_cases hk : k = c
    · right; simp [drain, cbGet_cbSet, hk]
    · rcases h with h | h
      · simp only [List.mem_cons] at h
        rcases h with h | h
        · exact absurd h.symm hk
        · exact Or.inl h
      · right; simp [drain, cbGet_cbSet, hk, h]

theorem cbGet_notin (m : Cbq) (c : String) (h : c ∉ m.map (·.1)) : cbGet m c = [] := by
  simp only [cbGet]
  have : m.find? (fun p => p.1 == c) = none := by
    simp only [List.find?_eq_none]
    intro p hp
    simp only [List.mem_map, not_exists, not_and] at h
    simpa using fun e => h p hp e
  simp [this]

theorem smon_reset_get (m : SMon) (c : String) : (SMon.get (m.map (fun p => (p.1, ({} : CMon)))) c) = {} := by
  simp only [SMon.get]
  cases h : (m.map (fun p => (p.1, ({} : CMon)))).find? (fun p => p.1 == c) with
  | none => rfl
  | some p =>
    have := List.mem_of_find?_eq_some h
    simp only [List.mem_map] at this
    obtain ⟨q, _, rfl⟩ := this
    rfl

/-- shape, given whether the endpoint was running (Stop of a running endpoint reports `stopped`) -/
def shapeR (running : Bool) (e : SD.Ev) (obs : List SD.Obs) : Bool :=
  match e with
  | .stop => if running then obs == [.stopped] else obs.isEmpty
  | _ => shapeS e obs

/-- **own callback, server roles, one event** -/
theorem server_event_own (m : Cbq) (ms ms' : SMonSt) (e : SD.Ev) (obs : List SD.Obs) (hR : RelS m ms)
    (h0 : SMonSt.event ms e obs = some ms') (hs : shapeR ms.running e obs = true) :
    RelS (serverLayer m e obs).1 ms' ∧ (serverLayer m e obs).2.all ownDel = true := by
  obtain ⟨m', hm, rfl⟩ := event_core ms ms' e obs h0
  obtain ⟨hrel, hidle⟩ := hR
  -- the generic case: observations without accept / reject / stopped folded from a related state
  have generic : ∀ (m0 : Cbq) (ms0 : SMonSt) (w r : Bool), Rel m0 ms0.m → (ms0.running = false → ∀ c, pendS (ms0.m.get c) = []) →
      SMon.obsList w r ms0.m obs = some m' → noARS obs = true →
      RelS (foldS m0 obs).1 { ms0 with m := m' } ∧ (foldS m0 obs).2.all ownDel = true := by
    intro m0 ms0 w r h1 h2 h3 h4
    have := foldS_own w r obs m0 ms0.m m' h1 h3 h4
    refine ⟨⟨this.1, ?_⟩, this.2⟩
    intro hr
    have hobs := no_obs_when_idle w r ms0.m m' obs h4 (h2 hr) h3
    subst hobs
    simp only [SMon.obsList, Option.some.injEq] at h3
    subst h3
    exact h2 hr
  cases e with
  | send c id =>
    simp only [shapeR, shapeS] at hs
    simp only [pre] at hm ⊢
    match obs, hs with
    | [.rejected c' id'], hs =>
      simp only [Bool.and_eq_true, beq_iff_eq] at hs
      obtain ⟨rfl, rfl⟩ := hs
      simp only [SMon.obsList, SMon.obs, Option.some.injEq] at hm; subst hm
      simp only [serverLayer, foldS, onSObs, List.append_nil]
      refine ⟨⟨?_, hidle⟩, by simp [ownDel]⟩
      intro c''
      rw [cbGet_cbSet, cbGet_cbSet]
      by_cases hc : c' = c''
      · subst hc; simp [cbGet_cbSet, hrel c']
      · simp [hc, cbGet_cbSet, hrel c'']
    | .accepted c' id' :: rest, hs =>
      simp only [Bool.and_eq_true, beq_iff_eq] at hs
      obtain ⟨⟨rfl, rfl⟩, hr⟩ := hs
      simp only [SMon.obsList, SMon.obs] at hm
      by_cases hc : (ms.m.get c').live = true ∧ (ms.running || decide (SD.Ev.send c' id' = SD.Ev.stop)) = true
      · rw [if_pos hc] at hm
        have hrun : ms.running = true := by
          have := hc.2; simpa using this
        have := foldS_own _ _ rest (cbSet m c' (cbGet m c' ++ [id'])) (ms.m.set c' { (ms.m.get c') with waiting := (ms.m.get c').waiting ++ [id'] }) m'
          (by
            intro c''
            rw [cbGet_cbSet, smon_get_set]
            by_cases h' : c' = c''
            · subst h'; simp [hrel c', pendS, List.append_assoc]
            · simp [h', hrel c''])
          hm hr
        simp only [serverLayer, foldS, onSObs]
        refine ⟨⟨this.1, ?_⟩, by simpa [ownDel] using this.2⟩
        intro hf; simp [hrun] at hf
      · rw [if_neg hc] at hm
        cases hm
  | connect c =>
    have := generic m (pre ms (.connect c)) _ _ (by
        intro c'
        simp only [pre]
        rw [smon_get_set]
        by_cases h' : c = c'
        · subst h'; simp [hrel c, pendS]
        · simp [h', hrel c']) (by
        intro hr c'
        simp only [pre] at hr ⊢
        rw [smon_get_set]
        by_cases h' : c = c'
        · subst h'; simpa [pendS] using hidle hr c
        · simpa [h'] using hidle hr c') hm (by simpa [shapeR, shapeS] using hs)
    simpa [serverLayer] using this
  | disconnect c =>
    simp only [shapeR, shapeS, List.isEmpty_iff] at hs
    subst hs
    simp only [SMon.obsList, Option.some.injEq] at hm; subst hm
    simp only [serverLayer, foldS, List.nil_append]
    refine ⟨⟨?_, ?_⟩, drain_own m c⟩
    · intro c'
      simp only [drain, pre]
      rw [cbGet_cbSet, smon_get_set]
      by_cases h' : c = c'
      · simp [h', pendS]
      · simp [h', hrel c']
    · intro hr c'
      simp only [pre] at hr ⊢
      rw [smon_get_set]
      by_cases h' : c = c'
      · simp [h', pendS]
      · simpa [h'] using hidle hr c'
  | stop =>
    simp only [shapeR] at hs
    have hall : ∀ c, cbGet (drainAll m (m.map (·.1))).1 c = [] := by
      intro c
      apply drainAll_empty
      by_cases hc : c ∈ m.map (·.1)
      · exact Or.inl hc
      · exact Or.inr (cbGet_notin m c hc)
    by_cases hrun : ms.running = true
    · simp only [hrun, if_true, beq_iff_eq] at hs
      subst hs
      simp only [pre, SMon.obsList, SMon.obs, Option.some.injEq] at hm; subst hm
      simp only [serverLayer, foldS, onSObs, List.append_nil]
      refine ⟨⟨?_, ?_⟩, by simpa [ownDel] using drainAll_own _ m⟩
      · intro c; rw [hall c, smon_reset_get]; rfl
      · intro _ c; rw [smon_reset_get]; rfl
    · have hrun' : ms.running = false := by simpa using hrun
      simp only [hrun', Bool.false_eq_true, if_false, List.isEmpty_iff] at hs
      subst hs
      simp only [pre, SMon.obsList, Option.some.injEq] at hm; subst hm
      simp only [serverLayer, foldS, List.nil_append]
      refine ⟨⟨?_, ?_⟩, drainAll_own _ m⟩
      · intro c; rw [hall c, hidle hrun' c]
      · intro _ c; exact hidle hrun' c
  | reply c id b =>
    have := generic m ms _ _ hrel hidle (by simpa [pre] using hm) (by simpa [shapeR, shapeS] using hs)
    simpa [serverLayer, pre] using this
  | wait =>
    have := generic m ms _ _ hrel hidle (by simpa [pre] using hm) (by simpa [shapeR, shapeS] using hs)
    simpa [serverLayer, pre] using this
  | writeFail c b =>
    have := generic m ms _ _ hrel hidle (by simpa [pre] using hm) (by simpa [shapeR, shapeS] using hs)
    simpa [serverLayer, pre] using this
  | start =>
    have := generic m (pre ms .start) _ _ (by simpa [pre] using hrel) (by intro hr; simp [pre] at hr) hm (by simpa [shapeR, shapeS] using hs)
    simpa [serverLayer] using this

/-- run the protocol layer of a server role over a whole ocppj-level history -/
def serverRun (m : Cbq) : List (SD.Ev × List SD.Obs) → List Del
  | [] => []
  | (e, obs) :: rest => (serverLayer m e obs).2 ++ serverRun (serverLayer m e obs).1 rest

def acceptsS : SMonSt → List (SD.Ev × List SD.Obs) → Bool
  | _, [] => true
  | ms, (e, obs) :: rest => match SMonSt.event ms e obs with
    | none => false
    | some ms' => shapeR ms.running e obs && acceptsS ms' rest

/-- **own callback, server roles, all histories**: for every ocppj-level history of a central system / CSMS that the
    per-client dispatcher specification accepts — any length, any number of clients, connects, disconnects, stop and
    restart — every delivery of the protocol layer goes to the callback that was passed with that very request (or is the
    disconnect notification of a drained callback), and no conclusion finds the callback list of its client empty -/
theorem server_own_callback (hist : List (SD.Ev × List SD.Obs)) :
    ∀ (m : Cbq) (ms : SMonSt), RelS m ms → acceptsS ms hist = true → (serverRun m hist).all ownDel = true := by
  induction hist with
  | nil => intro _ _ _ _; rfl
  | cons p rest ih =>
    obtain ⟨e, obs⟩ := p
    intro m ms hR ha
    simp only [acceptsS] at ha
    cases hm : SMonSt.event ms e obs with
    | none => simp [hm] at ha
    | some ms' =>
      simp only [hm, Bool.and_eq_true] at ha
      have ⟨h1, h2⟩ := server_event_own m ms ms' e obs hR hm ha.1
      simp only [serverRun, List.all_append, Bool.and_eq_true, h2, true_and]
      exact ih _ ms' h1 ha.2

theorem relS_init : RelS [] {} := by
  refine ⟨?_, ?_⟩
  · intro c; simp [cbGet, SMon.get, pendS]
  · intro _ c; simp [SMon.get, pendS]


/-- the event-by-event history of a run of the server dispatcher model -/
def historyS (s : SD.St) : List SD.Ev → List (SD.Ev × List SD.Obs)
  | [] => []
  | e :: es => (e, (SD.step s e).2) :: historyS (SD.step s e).1 es

/-- non-vacuity: a run of the server dispatcher model with two clients, a time-out, a write failure, a disconnect with
    requests waiting and a stop with requests waiting is accepted by the specification with the required shapes, the
    theorem applies, and the deliveries are the expected ones -/
theorem server_own_callback_instance :
    let evs : List SD.Ev := [.start, .connect "x", .connect "y", .send "x" "a", .send "y" "b", .send "x" "c",
                             .reply "x" "a" false, .wait, .writeFail "y" true, .send "y" "d", .reply "y" "b" true,
                             .send "x" "e", .send "x" "f", .disconnect "x", .writeFail "y" false, .send "y" "g", .send "y" "h", .stop]
    acceptsS {} (historyS (SD.init 0) evs) = true ∧ (serverRun [] (historyS (SD.init 0) evs)).all ownDel = true ∧
    (serverRun [] (historyS (SD.init 0) evs)).filter (fun d => match d with | .deliv _ _ _ => true | _ => false) =
      [.deliv "a" "resp" "a", .deliv "b" "timeout" "b", .deliv "c" "timeout" "c", .deliv "d" "write" "d",
       .deliv "e" "disc" "", .deliv "f" "disc" "", .deliv "g" "disc" "", .deliv "h" "disc" ""] := by
  decide

end Srv

/-- the model's own histories have the send shape and are accepted (refinement), so the theorem applies to every
    well-formed run of the client endpoint model: composition of the two layers -/
theorem client_endpoint_own_callback_instance :
    let evs : List CD.Ev := [.start, .send "a", .send "b", .writeFail true, .reply "a" false, .send "c", .writeFail false,
                             .send "d", .wait, .stop, .start, .send "e", .reply "e" true]
    shapes (history (CD.init 0) evs) = true ∧ (clientRun [] (history (CD.init 0) evs)).all ownDel = true ∧
    (clientRun [] (history (CD.init 0) evs)).filter (fun d => match d with | .deliv _ _ _ => true | _ => false) =
      [.deliv "a" "resp" "a", .deliv "b" "write" "b", .deliv "c" "write" "c", .deliv "d" "timeout" "d", .deliv "e" "err" "e"] := by
  decide

theorem skel_cqTryQueue : Gen.Skeletons.cqTryQueue = Ocpp.Expected.cqTryQueue := by decide
theorem skel_cqDequeue : Gen.Skeletons.cqDequeue = Ocpp.Expected.cqDequeue := by decide
theorem skel_jcMessageHandler : Gen.Skeletons.jcMessageHandler = Ocpp.Expected.jcMessageHandler := by decide
theorem skel_jsMessageHandler : Gen.Skeletons.jsMessageHandler = Ocpp.Expected.jsMessageHandler := by decide
theorem skel_cdComplete : Gen.Skeletons.cdComplete = Ocpp.Expected.cdComplete := by decide
theorem skel_sdComplete : Gen.Skeletons.sdComplete = Ocpp.Expected.sdComplete := by decide
theorem skel_cdDispatchNext : Gen.Skeletons.cdDispatchNext = Ocpp.Expected.cdDispatchNext := by decide
theorem skel_sdDispatchNext : Gen.Skeletons.sdDispatchNext = Ocpp.Expected.sdDispatchNext := by decide
theorem skel_sdDeleteClient : Gen.Skeletons.sdDeleteClient = Ocpp.Expected.sdDeleteClient := by decide

/-! ### Below quiescence, server dispatcher: an accepted request is in the queue of the live connection
(`OcppProps/SFine.lean`, every interleaving) -/

/-- a request is only ever pushed into the queue registered for the client at that moment (since /repo 602795e) -/
theorem sfine_pushed_into_current {s s' : Ocpp.ServerFine.St} (h : SFine.Reach s) (hk : s.sendLock = true) (id qi : Nat)
    (hs : Ocpp.ServerFine.step s (.push id qi) = some s') : s.cur = some qi := SFine.pushed_into_current h hk id qi hs

/-- before: a sender racing a disconnection + reconnection pushed into the old connection's queue - accepted, never
    written, never concluded (kernel-evaluated interleaving; replay `s-send-during-reconnect` on the code) -/
theorem sfine_old_push_into_old_queue :
    ((Ocpp.ServerFine.runL { sendLock := false } [.connect, .sget, .disc, .lstep, .lstep, .connect, .push 1 0, .notify,
        .takeReq, .pstep, .pstep, .pstep, .pstep, .takeReq, .pstep, .pstep, .pstep, .pstep]).map (fun s =>
      decide (s.pump = .sel ∧ s.cur = some 1 ∧ Ocpp.ServerFine.getQ s.qs 0 = [1] ∧ Ocpp.ServerFine.getQ s.qs 1 = [] ∧ s.wire = [] ∧
        s.pend = none ∧ s.reqs = 0 ∧ s.mid = 0 ∧ s.hold = [] ∧ s.ready = .empty ∧ s.sigw = 0 ∧ s.reader = .idle ∧ s.link = .idle))) =
      some true := SFine.old_push_into_old_queue

example : Ocpp.ServerFine.runL {} [.connect, .sget, .disc] = none := by decide
