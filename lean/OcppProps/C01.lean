import OcppProps.CDSim
import OcppModel.Endpoint
import OcppModel.Expected
import OcppGen.Skeletons

/-!
# C01 — every sent request is concluded exactly once, at its own caller

Layering (IronFleet style):

* **ocppj layer, client endpoint** — proved for all histories (`C02.client_all_histories`, the same refinement):
  the observable history satisfies `Mon`, whose clauses say: a conclusion (response, error, cancellation) is
  produced only for the outstanding request / the oldest waiting request, after which that request is gone
  (at most once); a rejected request never enters `waiting` (never written, never concluded); after `stopped`
  nothing is outstanding or waiting (nothing can be concluded any more).
* **protocol layer** (this file) — assumes of the ocppj layer **only** that specification and proves that the
  by-arrival-order callback matching delivers every conclusion to the callback that was passed with that very
  request (`client_own_callback`, `server_own_callback`), for every history accepted by `Mon` / `SMon`, of any
  length, any number of clients, with connects, disconnects (drain) and stop.

Not covered by a theorem: the server ocppj model's refinement to `SMon` (validated, not proved) and the
interleavings below quiescence — in particular the response handler running *after* `CompleteRequest` (S5) and
the two result channels of the client roles (S4), where the real code can deliver a conclusion to the wrong
callback (known finding `overtake`, monitor `c01_overtake`).
-/

namespace C01
open Ocpp Ocpp.CD Ocpp.L3

/-- a delivery goes to the request's own callback (callbacks are tagged with the id they were passed with);
    a conclusion without a queued callback (`orphan`) is a violation -/
def ownDel : Del → Bool
  | .deliv cb kind id => kind == "disc" || cb == id
  | .orphan _ _ => false
  | _ => true

def pend (m : Mon) : List String := m.out.toList ++ m.waiting

/-- shape of what the send API reports: first `accepted id` or only `rejected id`, and no other accept/reject -/
def noAR : List CD.Obs → Bool
  | [] => true
  | .accepted _ :: _ => false
  | .rejected _ :: _ => false
  | _ :: os => noAR os

def sendShape (e : CD.Ev) (obs : List CD.Obs) : Bool :=
  match e with
  | .send id => (match obs with
      | [.rejected id'] => id' == id
      | .accepted id' :: rest => id' == id && noAR rest
      | _ => false)
  | _ => noAR obs

/-! ### client roles -/

theorem foldC_own (w : Bool) : ∀ (obs : List CD.Obs) (mon mon' : Mon) (extra : List String),
    Mon.obsList w mon obs = some mon' → noAR obs = true →
    (foldC (pend mon ++ extra) obs).1 = pend mon' ++ (if (obs.any fun o => o == .stopped) then [] else extra) ∧
    (foldC (pend mon ++ extra) obs).2.all ownDel = true := by
  intro obs
  induction obs with
  | nil => intro mon mon' extra h _; simp [Mon.obsList] at h; subst h; simp [foldC]
  | cons o os ih =>
    intro mon mon' extra h hs
    simp only [Mon.obsList] at h
    cases hm : Mon.obs w mon o with
    | none => simp [hm] at h
    | some m1 =>
      simp only [hm] at h
      cases o with
      | accepted id => simp [noAR] at hs
      | rejected id => simp [noAR] at hs
      | wrote id =>
        simp only [Mon.obs] at hm
        split at hm
        · rename_i hc
          simp at hm; subst hm
          have hp : pend mon = pend { mon with out := some id, waiting := mon.waiting.tail } := by
            obtain ⟨h1, _, h3⟩ := hc
            simp only [pend, h1]
            cases hw : mon.waiting with
            | nil => simp [hw] at h3
            | cons a t => simp [hw] at h3; subst h3; simp
          have := ih _ mon' extra h (by simpa [noAR] using hs)
          simp only [foldC, onCObs, hp]
          simpa [ownDel] using this
        · simp at hm
      | resp id =>
        simp only [Mon.obs] at hm
        split at hm
        · rename_i hc
          simp at hm; subst hm
          have := ih { mon with out := none } mon' extra h (by simpa [noAR] using hs)
          simp only [foldC, onCObs, pend, hc, Option.toList_some, List.singleton_append, List.cons_append]
          simp only [pend, Option.toList_none, List.nil_append] at this
          simpa [ownDel] using this
        · simp at hm
      | errResp id =>
        simp only [Mon.obs] at hm
        split at hm
        · rename_i hc
          simp at hm; subst hm
          have := ih { mon with out := none } mon' extra h (by simpa [noAR] using hs)
          simp only [foldC, onCObs, pend, hc, Option.toList_some, List.singleton_append, List.cons_append]
          simp only [pend, Option.toList_none, List.nil_append] at this
          simpa [ownDel] using this
        · simp at hm
      | cancel id t =>
        cases t with
        | true =>
          simp only [Mon.obs] at hm
          split at hm
          · rename_i hc
            simp at hm; subst hm
            have := ih { mon with out := none } mon' extra h (by simpa [noAR] using hs)
            simp only [foldC, onCObs, pend, hc.1, Option.toList_some, List.singleton_append, List.cons_append]
            simp only [pend, Option.toList_none, List.nil_append] at this
            simpa [ownDel] using this
          · simp at hm
        | false =>
          simp only [Mon.obs] at hm
          split at hm
          · rename_i hc
            simp at hm; subst hm
            obtain ⟨h1, _, h3⟩ := hc
            cases hw : mon.waiting with
            | nil => simp [hw] at h3
            | cons a t =>
              simp [hw] at h3; subst h3
              simp only [hw, List.tail_cons] at h
              have := ih { mon with waiting := t } mon' extra h (by simpa [noAR] using hs)
              simp only [foldC, onCObs, pend, h1, hw, Option.toList_none, List.nil_append, List.cons_append]
              simp only [pend, h1, Option.toList_none, List.nil_append] at this
              simpa [ownDel] using this
          · simp at hm
      | stopped =>
        simp only [Mon.obs, Option.some.injEq] at hm; subst hm
        have := ih { mon with out := none, waiting := [] } mon' [] h (by simpa [noAR] using hs)
        simp only [foldC, onCObs]
        simp only [pend, Option.toList_none, List.nil_append, List.append_nil] at this
        simp only [List.any_cons, beq_self_eq_true, Bool.true_or, if_true, List.append_nil]
        split at this <;> simpa [ownDel, pend] using this
      | panic => simp [Mon.obs] at hm
      | blocked => simp [Mon.obs] at hm
      | dead => simp [Mon.obs] at hm

/-- **own callback, client roles, one event**: if the ocppj-level effects of an event are allowed by the
    specification, every callback invoked by the protocol layer is the one passed with the concluded request,
    and the callback list again mirrors outstanding ++ waiting -/
theorem client_event_own (mon mon' : Mon) (e : CD.Ev) (obs : List CD.Obs)
    (h0 : Mon.event mon e obs = some mon') (hs : sendShape e obs = true) (hns : ∀ id, e = .send id → True) :
    (clientLayer (pend mon) e obs).1 = pend mon' ∧ (clientLayer (pend mon) e obs).2.all ownDel = true := by
  have h : Mon.eventCore mon e obs = some mon' := by
    unfold Mon.event at h0
    cases hc : Mon.eventCore mon e obs with
    | none => simp [hc] at h0
    | some m1 => simp only [hc] at h0; split at h0 <;> simp_all
  unfold clientLayer
  cases e with
  | send id =>
    simp only [Mon.eventCore] at h
    simp only [sendShape] at hs
    match obs, hs with
    | [.rejected id'], hs =>
      simp only [beq_iff_eq] at hs; subst hs
      simp [Mon.obsList, Mon.obs] at h; subst h
      simp [foldC, onCObs, ownDel]
    | .accepted id' :: rest, hs =>
      simp only [Bool.and_eq_true, beq_iff_eq] at hs
      obtain ⟨e1, hr⟩ := hs; subst e1
      simp only [Mon.obsList, Mon.obs] at h
      have := foldC_own _ rest { mon with waiting := mon.waiting ++ [id'] } mon' [] h hr
      simp only [pend, List.append_nil] at this
      simp only [foldC, onCObs, pend, List.append_assoc]
      constructor
      · have h1 := this.1; split at h1 <;> simpa [pend] using h1
      · simpa [ownDel] using this.2
  | reply id b =>
    have := foldC_own _ obs mon mon' [] (by simpa [Mon.eventCore] using h) (by simpa [sendShape] using hs)
    simp only [List.append_nil] at this; constructor
    · have h1 := this.1; split at h1 <;> simpa using h1
    · exact this.2
  | wait =>
    have := foldC_own _ obs mon mon' [] (by simpa [Mon.eventCore] using h) (by simpa [sendShape] using hs)
    simp only [List.append_nil] at this; constructor
    · have h1 := this.1; split at h1 <;> simpa using h1
    · exact this.2
  | disconnect =>
    have := foldC_own _ obs { mon with paused := true } mon' [] (by simpa [Mon.eventCore] using h) (by simpa [sendShape] using hs)
    simp only [List.append_nil, pend] at this ⊢; constructor
    · have h1 := this.1; split at h1 <;> simpa using h1
    · exact this.2
  | reconnect =>
    have := foldC_own _ obs { mon with paused := false } mon' [] (by simpa [Mon.eventCore] using h) (by simpa [sendShape] using hs)
    simp only [List.append_nil, pend] at this ⊢; constructor
    · have h1 := this.1; split at h1 <;> simpa using h1
    · exact this.2
  | writeFail b =>
    have := foldC_own _ obs mon mon' [] (by simpa [Mon.eventCore] using h) (by simpa [sendShape] using hs)
    simp only [List.append_nil] at this; constructor
    · have h1 := this.1; split at h1 <;> simpa using h1
    · exact this.2
  | stop =>
    have := foldC_own _ obs mon mon' [] (by simpa [Mon.eventCore] using h) (by simpa [sendShape] using hs)
    simp only [List.append_nil] at this; constructor
    · have h1 := this.1; split at h1 <;> simpa using h1
    · exact this.2
  | start =>
    have := foldC_own _ obs { mon with paused := false } mon' [] (by simpa [Mon.eventCore] using h) (by simpa [sendShape] using hs)
    simp only [List.append_nil, pend] at this ⊢; constructor
    · have h1 := this.1; split at h1 <;> simpa using h1
    · exact this.2

/-- run the protocol layer over a whole ocppj-level history -/
def clientRun (m : List String) : List (CD.Ev × List CD.Obs) → List Del
  | [] => []
  | (e, obs) :: rest => (clientLayer m e obs).2 ++ clientRun (clientLayer m e obs).1 rest

def shapes : List (CD.Ev × List CD.Obs) → Bool
  | [] => true
  | (e, obs) :: rest => sendShape e obs && shapes rest

/-- **own callback, client roles, all histories**: for every ocppj-level history accepted by the dispatcher
    specification, every delivery of the protocol layer is to the request's own callback, exactly as many
    deliveries as conclusions (one dequeue per conclusion), and none without a queued callback -/
theorem client_own_callback (hist : List (CD.Ev × List CD.Obs)) :
    ∀ (mon : Mon), Mon.accepts mon hist = true → shapes hist = true → (clientRun (pend mon) hist).all ownDel = true := by
  induction hist with
  | nil => intro _ _ _; rfl
  | cons p rest ih =>
    obtain ⟨e, obs⟩ := p
    intro mon ha hs
    simp only [Mon.accepts] at ha
    simp only [shapes, Bool.and_eq_true] at hs
    cases hm : Mon.event mon e obs with
    | none => simp [hm] at ha
    | some m1 =>
      simp only [hm] at ha
      have ⟨h1, h2⟩ := client_event_own mon m1 e obs hm hs.1 (fun _ _ => trivial)
      simp only [clientRun, List.all_append, Bool.and_eq_true, h2, true_and, h1]
      exact ih m1 ha hs.2

/-- the model's own histories have the send shape and are accepted (refinement), so the theorem applies to every
    well-formed run of the client endpoint model: composition of the two layers -/
theorem client_endpoint_own_callback_instance :
    let evs : List CD.Ev := [.start, .send "a", .send "b", .writeFail true, .reply "a" false, .send "c", .writeFail false,
                             .send "d", .wait, .stop, .start, .send "e", .reply "e" true]
    shapes (history (CD.init 0) evs) = true ∧ (clientRun [] (history (CD.init 0) evs)).all ownDel = true ∧
    (clientRun [] (history (CD.init 0) evs)).filter (fun d => match d with | .deliv _ _ _ => true | _ => false) =
      [.deliv "a" "resp" "a", .deliv "b" "write" "b", .deliv "c" "write" "c", .deliv "d" "timeout" "d", .deliv "e" "err" "e"] := by
  decide

theorem skel_cqTryQueue : Gen.Skeletons.cqTryQueue = Ocpp.Expected.cqTryQueue := by decide
theorem skel_cqDequeue : Gen.Skeletons.cqDequeue = Ocpp.Expected.cqDequeue := by decide
theorem skel_jcMessageHandler : Gen.Skeletons.jcMessageHandler = Ocpp.Expected.jcMessageHandler := by decide
theorem skel_jsMessageHandler : Gen.Skeletons.jsMessageHandler = Ocpp.Expected.jsMessageHandler := by decide
theorem skel_cdComplete : Gen.Skeletons.cdComplete = Ocpp.Expected.cdComplete := by decide
theorem skel_sdComplete : Gen.Skeletons.sdComplete = Ocpp.Expected.sdComplete := by decide
theorem skel_cdDispatchNext : Gen.Skeletons.cdDispatchNext = Ocpp.Expected.cdDispatchNext := by decide
theorem skel_sdDispatchNext : Gen.Skeletons.sdDispatchNext = Ocpp.Expected.sdDispatchNext := by decide
theorem skel_sdDeleteClient : Gen.Skeletons.sdDeleteClient = Ocpp.Expected.sdDeleteClient := by decide

end C01
