import OcppModel.WsCliAnn

/-!
# C10 / C17 below quiescence: the application hears of the loss of a connection only after that connection was announced

Small-step model `Ocpp.WsCliAnn` of the websocket client after /repo 516d27f: for every interleaving of losses with the
reconnected handler, the notifications come in the order `… annBegin k, annEnd k, disc k, annBegin (k+1) …`
(`notifications_ordered`) — so ocppj.Client's `Pause` (in the disconnected handler) always follows the `Resume` of the
same connection. `old_disc_overtakes` is the interleaving of the code before, which monitor `c10_flap` forced on the
real client (the dispatcher ended up resumed while the link was down).
-/
namespace C10Fine
open Ocpp.WsCliAnn

def code (s : St) : Nat :=
  match s.phase with
  | .up => 2
  | .announcing => if s.began then 1 else 0

structure Inv (s : St) : Prop where
  w : s.waitAnn = true
  ord : ordOf s.log = some (s.k, code s)

theorem ordOf_append (log : List Ev) (e : Ev) : ordOf (log ++ [e]) = ordStep (ordOf log) e := by
  simp [ordOf, List.foldl_append]

theorem inv_init : Inv {} := ⟨rfl, rfl⟩

theorem inv_step {s s' : St} (h : Inv s) (l : Label) (hs : step s l = some s') : Inv s' := by
  have hw := h.w
  cases l <;> simp only [step] at hs
  case annBegin =>
    split at hs
    · rename_i hc
      cases hs
      have hp : s.phase = .announcing := by simp at hc; exact hc.1
      have hb : s.began = false := by simp at hc; exact hc.2
      refine ⟨hw, ?_⟩
      show ordOf (s.log ++ [.annBegin s.k]) = some (s.k, _)
      rw [ordOf_append, h.ord]
      simp [code, hp, hb, ordStep]
    · cases hs
  case annEnd =>
    split at hs
    · rename_i hc
      cases hs
      have hp : s.phase = .announcing := by simp at hc; exact hc.1
      have hb : s.began = true := by simp at hc; exact hc.2
      refine ⟨hw, ?_⟩
      show ordOf (s.log ++ [.annEnd s.k]) = some (s.k, _)
      rw [ordOf_append, h.ord]
      simp [code, hp, hb, ordStep]
    · cases hs
  case lose =>
    split at hs
    · cases hs; exact ⟨hw, h.ord⟩
    · cases hs
  case report =>
    split at hs
    · rename_i hc
      cases hs
      have hp : s.phase = .up := by
        simp [hw] at hc; exact hc.2
      refine ⟨hw, ?_⟩
      show ordOf (s.log ++ [.disc s.k]) = some (s.k + 1, _)
      rw [ordOf_append, h.ord]
      simp [code, hp, ordStep]
    · cases hs

theorem inv_run (ls : List Label) (s : St) (h : runL {} ls = some s) : Inv s := by
  suffices ∀ (s0 : St), Inv s0 → ∀ ls s, runL s0 ls = some s → Inv s from this _ inv_init ls s h
  intro s0 h0 ls
  induction ls generalizing s0 with
  | nil => intro s h; simp [runL] at h; subst h; exact h0
  | cons l ls ih =>
    intro s h
    simp only [runL] at h
    cases hst : step s0 l with
    | none => simp [hst] at h
    | some s1 => simp only [hst] at h; exact ih s1 (inv_step h0 l hst) s h

/-- for every interleaving the notifications are accepted by the order automaton: the loss of a connection is reported only
    after its announcement has finished, the next connection is announced only after that report -/
theorem notifications_ordered (ls : List Label) (s : St) (h : runL {} ls = some s) : (ordOf s.log).isSome = true := by
  rw [(inv_run ls s h).ord]; rfl

/-- before 516d27f: the loss of the new connection is reported while its reconnected handler is still running -/
theorem old_disc_overtakes :
    (runL { waitAnn := false } [.lose, .report, .annBegin, .lose, .report]).map (fun s => (s.log, ordOf s.log)) =
      some ([.disc 0, .annBegin 1, .disc 1], none) := by decide

/-- with the repair the report waits -/
example : runL {} [.lose, .report, .annBegin, .lose, .report] = none := by decide
example : (runL {} [.lose, .report, .annBegin, .lose, .annEnd, .report]).map (·.log) =
    some [.disc 0, .annBegin 1, .annEnd 1, .disc 1] := by decide

end C10Fine
