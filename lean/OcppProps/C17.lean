import OcppModel.WsClient
import OcppModel.Expected
import OcppGen.Skeletons

/-!
# C17 — websocket client reconnects until stopped; dead peers are detected

Over every history of `Ocpp.WsClient` (any number of stop / start cycles, any pattern of server availability):
a connection lost without `Stop` notifies the disconnected handler and ends in `reconnected` (server up) or in the
retry loop, which is left only by a successful connect (then the reconnected handler fires) or by `Stop`; after
`Stop` nothing reconnects until a new `Start`; a client that was stopped and started again reconnects like a fresh
one (the abort token never survives a `Start`: three defects around that token and the error channel were found by
this check and repaired — ac0ba11, cd70867, 58ca140). Back-off: pure arithmetic over the delay recursion of
`handleReconnection`. Keep-alive: read-deadline arithmetic and the preference chain of `getReadTimeout`.

Modelled, not verified: the OS honours read deadlines, `time.After` fires, TCP (A-TIME, A-NET).
-/
namespace C17
open Ocpp.WsClient

structure Inv (s : St) : Prop where
  noTokC : s.connected = true → s.token = false
  noTokL : s.looping = true → s.token = false
  excl   : ¬ (s.connected = true ∧ s.looping = true)
  loopDn : s.looping = true → s.up = false

theorem inv_init : Inv {} := ⟨by simp, by simp, by simp, by simp⟩

theorem inv_step (s : St) (e : Ev) (hI : Inv s) : Inv (step s e).1 := by
  obtain ⟨h1, h2, h3, h4⟩ := hI
  obtain ⟨up, hanging, connected, looping, attempts, token, conns⟩ := s
  simp only at h1 h2 h3 h4
  cases e <;> simp only [step, enterLoop] <;>
    cases up <;> cases connected <;> cases looping <;> cases token <;>
    simp_all <;> constructor <;> simp_all

theorem reach_inv (evs : List Ev) : ∀ s, Inv s → Inv (run s evs).1 := by
  induction evs with
  | nil => intro s h; exact h
  | cons e es ih => intro s h; simp only [run]; exact ih _ (inv_step s e h)

/-- **connection loss without Stop**: the disconnected handler is told (forced), and then either the client is
    connected again and the reconnected handler fired after it, or the retry loop runs -/
theorem lose_notifies_and_retries (s : St) (hI : Inv s) (hc : s.connected = true) :
    (s.up = true → (step s .lose).2 = [.reconnectedR, .discCb true, .recCb] ∧ (step s .lose).1.connected = true ∧
        (step s .lose).1.conns = s.conns + 1) ∧
    (s.up = false → (step s .lose).2 = [.loopingR, .discCb true] ∧ (step s .lose).1.looping = true ∧
        (step s .lose).1.connected = false) := by
  have ht := hI.noTokC hc
  constructor <;> intro hu <;> simp [step, enterLoop, hc, ht, hu]

/-- in particular for a client that went through any number of earlier stop / start cycles -/
theorem restarted_client_reconnects (evs : List Ev) :
    let s := (run {} evs).1
    s.connected = true → s.up = true → (step s .lose).1.connected = true ∧ Obs.recCb ∈ (step s .lose).2 := by
  intro s hc hu
  have := (lose_notifies_and_retries s (reach_inv evs {} inv_init) hc).1 hu
  exact ⟨this.2.1, by rw [this.1]; simp⟩

/-- **keeps retrying**: the loop is left only by a successful connect — then the reconnected handler fires — or by Stop -/
theorem loop_left_only_by_connect_or_stop (s : St) (hI : Inv s) (hl : s.looping = true) (e : Ev) (he : e ≠ .stop) :
    (step s e).1.looping = true ∨ ((step s e).1.connected = true ∧ Obs.recCb ∈ (step s e).2) := by
  have hnc : s.connected = false := by
    cases h : s.connected with
    | false => rfl
    | true => exact absurd ⟨h, hl⟩ hI.excl
  have hd := hI.loopDn hl
  cases e <;> simp_all [step, enterLoop]

/-- while the server stays down every further attempt fails and the loop goes on (any number of them) -/
theorem keeps_failing (s : St) (hl : s.looping = true) (hd : s.up = false) (n : Nat) :
    (step s (.fails n)).1.looping = true ∧ (step s (.fails n)).1.attempts = s.attempts + n := by
  simp [step, hl, hd]

/-- the server comes back: the loop connects, the reconnected handler fires once -/
theorem server_back (s : St) (hl : s.looping = true) :
    (step s .up).1.connected = true ∧ (step s .up).1.looping = false ∧ (step s .up).2 = [.ok, .recCb] := by
  simp [step, hl]

def isStart : Ev → Bool
  | .start => true
  | .startRetry => true
  | _ => false

/-- **after Stop it never reconnects**: from the state after a `stop`, whatever happens except a new Start — the
    server going down and up, time passing — the client stays disconnected and no handler fires -/
theorem no_reconnect_after_stop (evs : List Ev) (hns : evs.all (fun e => !isStart e) = true) :
    ∀ s, s.connected = false → s.looping = false →
      (run s evs).1.connected = false ∧ (run s evs).1.looping = false ∧ (run s evs).1.conns = s.conns ∧
      Obs.recCb ∉ (run s evs).2 ∧ (∀ b, Obs.discCb b ∉ (run s evs).2) := by
  induction evs with
  | nil => intro s hc hl; simp [run, hc, hl]
  | cons e es ih =>
    intro s hc hl
    simp only [List.all_cons, Bool.and_eq_true] at hns
    have h1 : (step s e).1.connected = false ∧ (step s e).1.looping = false ∧ (step s e).1.conns = s.conns ∧
        Obs.recCb ∉ (step s e).2 ∧ (∀ b, Obs.discCb b ∉ (step s e).2) := by
      cases e <;> simp_all [step, isStart]
    obtain ⟨a, b, c, d, f⟩ := h1
    obtain ⟨a', b', c', d', f'⟩ := ih hns.2 _ a b
    simp only [run]
    refine ⟨a', b', by rw [c', c], ?_, ?_⟩
    · simp [d, d']
    · intro b0; simp [f b0, f' b0]

theorem stop_disconnects (s : St) : (step s .stop).1.connected = false ∧ (step s .stop).1.looping = false := by
  cases h : s.looping <;> simp [step, h]

/-- Stop is idempotent up to the abort token, which a repeated Stop can only leave set (no toggling), and which the
    next Start drops -/
theorem stop_idempotent (s : St) : (step (step s .stop).1 .stop).1 = { (step s .stop).1 with token := true } := by
  obtain ⟨up, hanging, connected, looping, attempts, token, conns⟩ := s
  cases looping <;> simp [step]

/-! ## back-off arithmetic -/

theorem delay_mono (m rt : Nat) (r : Nat → Nat) (k : Nat) : delay m rt r k ≤ delay m rt r (k + 1) := by
  simp only [delay]; split <;> omega

theorem delay_const (m rt : Nat) (r : Nat → Nat) (k : Nat) (h : rt ≤ k + 1) : delay m rt r (k + 1) = delay m rt r k := by
  simp only [delay]; split <;> omega

/-- doubling phase: `min·2^k ≤ delay k ≤ (min + 2·range)·2^k − range` when every random addition is within the range -/
theorem delay_bounds (m rt range : Nat) (r : Nat → Nat) (hr : ∀ i, r i ≤ range) :
    ∀ k, k < rt → m * 2 ^ k ≤ delay m rt r k ∧ delay m rt r k + range ≤ (m + 2 * range) * 2 ^ k := by
  intro k
  induction k with
  | zero => intro _; have := hr 0; simp [delay]; omega
  | succ k ih =>
    intro hk
    have ⟨lo, hi⟩ := ih (by omega)
    have := hr (k + 1)
    simp only [delay, hk, if_true, Nat.pow_succ]
    have e1 : m * (2 ^ k * 2) = (m * 2 ^ k) * 2 := (Nat.mul_assoc _ _ _).symm
    have e2 : (m + 2 * range) * (2 ^ k * 2) = ((m + 2 * range) * 2 ^ k) * 2 := (Nat.mul_assoc _ _ _).symm
    constructor <;> omega

/-- with range 0 (the harness configuration) the sequence is exactly min, 2·min, 4·min, …, then constant -/
example : (List.range 6).map (delay 20 3 (fun _ => 0)) = [20, 40, 80, 80, 80, 80] := by decide

/-! ## keep-alive -/

/-- the preference chain of `getReadTimeout` -/
theorem readWait_chain (c : KCfg) :
    (c.pingPeriod > 0 ∧ c.pongWait > 0 → readWait c = some c.pongWait) ∧
    (¬(c.pingPeriod > 0 ∧ c.pongWait > 0) → c.readWait > 0 → readWait c = some c.readWait) ∧
    (¬(c.pingPeriod > 0 ∧ c.pongWait > 0) → c.readWait = 0 → readWait c = none) := by
  unfold readWait
  refine ⟨fun h => by simp [h], fun h1 h2 => by simp [h1, h2], fun h1 h2 => by simp [h1, h2]⟩

/-- consecutive frames are at most `w` apart -/
def gapsLe (w : Nat) : List Nat → Prop
  | [] => True
  | [_] => True
  | a :: b :: r => b ≤ a + w ∧ gapsLe w (b :: r)

/-- frames at most `w` apart (the first within the initial deadline) never let the read time out -/
theorem keepalive_holds (w : Nat) : ∀ (arrivals : List Nat) (deadline : Nat),
    (∀ t ∈ arrivals.head?, t ≤ deadline) → gapsLe w arrivals → firstTimeout w deadline arrivals = none := by
  intro arrivals
  induction arrivals with
  | nil => intro _ _ _; rfl
  | cons t rest ih =>
    intro deadline h0 hc
    have ht : t ≤ deadline := h0 t (by simp)
    simp only [firstTimeout, ht, if_true]
    cases rest with
    | nil => rfl
    | cons a r =>
      apply ih
      · intro t' ht'; simp at ht'; subst ht'; exact hc.1
      · exact hc.2

/-- the pongs of a peer that answers the i-th ping (sent at `(i+1)·p`) after `lat i ≤ l` -/
def pongs (p : Nat) (lat : Nat → Nat) : Nat → Nat → List Nat
  | _, 0 => []
  | i, n + 1 => ((i + 1) * p + lat i) :: pongs p lat (i + 1) n

/-- **healthy idle connections are kept open**: ping period `p`, answers within `l`, `p + l ≤ w`: no time-out, for any
    number of pings -/
theorem pongs_in_time (p l w : Nat) (lat : Nat → Nat) (hl : ∀ i, lat i ≤ l) (hw : p + l ≤ w) :
    ∀ (n i d : Nat), (i + 1) * p + l ≤ d → firstTimeout w d (pongs p lat i n) = none := by
  intro n
  induction n with
  | zero => intro i d _; rfl
  | succ n ih =>
    intro i d hd
    have h1 := hl i
    have ht : (i + 1) * p + lat i ≤ d := by omega
    simp only [pongs, firstTimeout, ht, if_true]
    apply ih
    have : (i + 1 + 1) * p = (i + 1) * p + p := Nat.succ_mul _ _
    omega

/-- **dead peer**: when the read times out it does so exactly `w` after the last frame that arrived in time (or at the
    initial deadline): detection within the configured wait -/
theorem dead_peer_detected (w : Nat) : ∀ (arrivals : List Nat) (deadline t : Nat),
    firstTimeout w deadline arrivals = some t →
    t = deadline ∨ ∃ a ∈ arrivals, t = a + w := by
  intro arrivals
  induction arrivals with
  | nil => intro d t h; simp [firstTimeout] at h
  | cons a rest ih =>
    intro d t h
    simp only [firstTimeout] at h
    split at h
    · rcases ih (a + w) t h with h1 | ⟨b, hb, h2⟩
      · exact Or.inr ⟨a, by simp, h1⟩
      · exact Or.inr ⟨b, by simp [hb], h2⟩
    · simp at h; exact Or.inl h.symm

/-- silence after the last frame: the next expected frame never comes (modelled as a frame far beyond the deadline) -/
example : firstTimeout 70 70 [25, 50, 75, 1000] = some 145 := by decide
example : firstTimeout 70 70 [25, 50, 75, 100, 125] = none := by decide

/-- who keeps a healthy idle connection alive, for the library's two socket configurations: the client side survives
    iff it has no deadline or its own pings come back in time; server pings do not help the client (it installs no
    ping handler: `ReadWait = 0`) -/
theorem client_side_alive (cp cw : Nat) (s : KCfg) :
    sideAlive (clientCfg cp cw) s = true ↔ (cp = 0 ∨ cw = 0 ∨ cp < cw) := by
  unfold sideAlive readWait extensions clientCfg
  by_cases h1 : cp = 0 <;> by_cases h2 : cw = 0 <;> simp [h1, h2, Nat.pos_iff_ne_zero]

/-- the server side survives iff it has no deadline, or its own pings come back within PongWait, or — without server
    pings — the client's pings arrive within PingWait -/
theorem server_side_alive (pw sp sw : Nat) (c : KCfg) :
    sideAlive (serverCfg pw sp sw) c = true ↔
      ((sp > 0 ∧ sw > 0 ∧ (sp < sw ∨ (c.pingPeriod > 0 ∧ pw > 0 ∧ c.pingPeriod < sw))) ∨
       (¬(sp > 0 ∧ sw > 0) ∧ (pw = 0 ∨ (sp > 0 ∧ sp < pw) ∨ (c.pingPeriod > 0 ∧ c.pingPeriod < pw)))) := by
  unfold sideAlive readWait extensions serverCfg
  by_cases h1 : sp = 0 <;> by_cases h2 : sw = 0 <;> by_cases h3 : pw = 0 <;> by_cases h4 : c.pingPeriod = 0 <;>
    simp [h1, h2, h3, h4, Nat.pos_iff_ne_zero] <;> omega

/-- the default configurations (client pings every 54 s / pong wait 60 s; server ping wait 60 s, no server pings) keep
    a healthy idle connection open on both sides -/
example : bothAlive (clientCfg 54 60) (serverCfg 60 0 0) = true := by decide

theorem skel_wsHandleReconnection : Gen.Skeletons.wsHandleReconnection = Ocpp.Expected.wsHandleReconnection := by decide
theorem skel_wsClientStart : Gen.Skeletons.wsClientStart = Ocpp.Expected.wsClientStart := by decide
theorem skel_wsClientConnect : Gen.Skeletons.wsClientConnect = Ocpp.Expected.wsClientConnect := by decide
theorem skel_wsClientStop : Gen.Skeletons.wsClientStop = Ocpp.Expected.wsClientStop := by decide
theorem skel_wsStartWithRetries : Gen.Skeletons.wsStartWithRetries = Ocpp.Expected.wsStartWithRetries := by decide
theorem skel_wsClientHandleDisconnect : Gen.Skeletons.wsClientHandleDisconnect = Ocpp.Expected.wsClientHandleDisconnect := by decide
theorem skel_wsClientError : Gen.Skeletons.wsClientError = Ocpp.Expected.wsClientError := by decide
theorem skel_wsGetReadTimeout : Gen.Skeletons.wsGetReadTimeout = Ocpp.Expected.wsGetReadTimeout := by decide
theorem skel_wsInitPingPong : Gen.Skeletons.wsInitPingPong = Ocpp.Expected.wsInitPingPong := by decide
theorem skel_wsOnPing : Gen.Skeletons.wsOnPing = Ocpp.Expected.wsOnPing := by decide
theorem skel_wsOnPong : Gen.Skeletons.wsOnPong = Ocpp.Expected.wsOnPong := by decide
theorem skel_wsNewDefaultConfig : Gen.Skeletons.wsNewDefaultConfig = Ocpp.Expected.wsNewDefaultConfig := by decide
theorem skel_wsNewOptTicker : Gen.Skeletons.wsNewOptTicker = Ocpp.Expected.wsNewOptTicker := by decide
theorem skel_wsWritePump : Gen.Skeletons.wsWritePump = Ocpp.Expected.wsWritePump := by decide
theorem skel_wsReadPump : Gen.Skeletons.wsReadPump = Ocpp.Expected.wsReadPump := by decide
theorem skel_wsCleanup : Gen.Skeletons.wsCleanup = Ocpp.Expected.wsCleanup := by decide

end C17
