import OcppProps.L3Fine
import OcppProps.C16Fine
import OcppProps.CDSim
import OcppModel.ServerDisp
import OcppModel.Expected
import OcppGen.Skeletons

/-!
# C16 — Stop terminates cleanly at any moment and a restart starts fresh (ocppj layer)

Proved on the quiescent models: `Stop` is enabled and returns in every reachable state (it is a total step that
produces `stopped`), drops queue and outstanding request silently, silences the endpoint, and
`Stop; Start` yields a state **equal** to a freshly started endpoint — no stale outstanding request, queued
call, paused flag, timer or ready token. (Before fix 094ff1f the last statement was false: the pending
request, the paused flag and the ready token survived; see known_findings.txt.)
The websocket layer (reconnect token, goroutine accounting) and the protocol layer (callback queue, `stopC`)
are covered by the monitors `c16_*`; Stop racing sends/incoming traffic below quiescence is partial.
-/

namespace C16
open Ocpp Ocpp.CD CDL CDS

/-- **restart is fresh**: for every reachable state, `Stop` then `Start` gives exactly a freshly started
    endpoint with the same queue capacity (the environment's write-failure flag is not the endpoint's) -/
theorem restart_fresh (used : List String) (s : St) (hI : Inv used s) (hrun : s.running = true) :
    (step (step s .stop).1 .start).1 =
      { (step (CD.init s.cap) .start).1 with writeFails := s.writeFails } := by
  have ha := hI.alive
  obtain ⟨running, connected, writeFails, paused, cap, q, pend, rdy, tok, armed, dead⟩ := s
  simp only at ha hrun
  subst ha hrun
  simp [step, CD.init]

/-- `Stop` drops everything silently: no cancel callback, no handler -/
theorem stop_is_silent (s : St) (hd : s.dead = false) (hrun : s.running = true) :
    (step s .stop).2 = [.stopped] ∧ (step s .stop).1.q = [] ∧ (step s .stop).1.pend = "" ∧
    (step s .stop).1.running = false := by
  simp [step, hd, hrun]

/-- after `Stop` nothing is delivered any more: sends are refused, replies are discarded, timers are dead -/
theorem stopped_is_silent (used : List String) (s : St) (hI : Inv used s) (hrun : s.running = false) (id : String)
    (isErr : Bool) (hid : id ≠ "") :
    step s (.send id) = (s, [.rejected id]) ∧ step s (.reply id isErr) = (s, []) ∧ step s .wait = (s, []) := by
  have hp := (hI.stop hrun).2
  refine ⟨by simp [step, hI.alive, hrun], ?_, by simp [step, hI.alive, hrun]⟩
  simp [step, hI.alive, hp, Ne.symm hid]

/-- every reachable state of a well-formed history is alive: `Stop` (and every other API call) returns — no
    panic, no goroutine wedged, at quiescence granularity -/
theorem always_alive (evs : List Ev) :
    ∀ (used : List String) (s : St), Inv used s → wf used s evs = true → (run s evs).1.dead = false := by
  induction evs with
  | nil => intro _ s hI _; exact hI.alive
  | cons e es ih =>
    intro used s hI hw
    simp only [wf, Bool.and_eq_true] at hw
    have h2 := (step_sim used s e hI hw.1).2
    simp only [run]
    exact ih _ _ h2 hw.2

/-- server: `Stop` resets every client record (queues, pending ids, contexts, timers) -/
theorem server_stop_clears (s : SD.St) (hd : s.dead = false) (hrun : s.running = true) (c : String) :
    ((SD.step s .stop).1.cls.find? (fun p => p.1 == c)).all
      (fun p => p.2.q = [] ∧ p.2.pend = "" ∧ p.2.hasQ = false ∧ p.2.ctx = 0) = true ∧
    (SD.step s .stop).1.timers = [] := by
  simp only [SD.step, hd, Bool.false_eq_true, if_false, hrun, Bool.not_true, and_true]
  induction s.cls with
  | nil => simp
  | cons p rest ih =>
    simp only [List.map_cons, List.find?_cons]
    split
    · simp
    · exact ih

theorem skel_cpStop16 : Gen.Skeletons.cpStop16 = Ocpp.Expected.cpStop16 := by decide
theorem skel_cpStop201 : Gen.Skeletons.cpStop201 = Ocpp.Expected.cpStop201 := by decide
theorem skel_cpAsyncHandler16 : Gen.Skeletons.cpAsyncHandler16 = Ocpp.Expected.cpAsyncHandler16 := by decide
theorem skel_cpAsyncHandler201 : Gen.Skeletons.cpAsyncHandler201 = Ocpp.Expected.cpAsyncHandler201 := by decide
theorem skel_cdStart : Gen.Skeletons.cdStart = Ocpp.Expected.cdStart := by decide
theorem skel_cdStop : Gen.Skeletons.cdStop = Ocpp.Expected.cdStop := by decide
theorem skel_jcStart : Gen.Skeletons.jcStart = Ocpp.Expected.jcStart := by decide
theorem skel_jcStop : Gen.Skeletons.jcStop = Ocpp.Expected.jcStop := by decide
theorem skel_jsStart : Gen.Skeletons.jsStart = Ocpp.Expected.jsStart := by decide
theorem skel_jsStop : Gen.Skeletons.jsStop = Ocpp.Expected.jsStop := by decide
theorem skel_sdStart : Gen.Skeletons.sdStart = Ocpp.Expected.sdStart := by decide
theorem skel_sdStop : Gen.Skeletons.sdStop = Ocpp.Expected.sdStop := by decide
theorem skel_sdDeleteClient : Gen.Skeletons.sdDeleteClient = Ocpp.Expected.sdDeleteClient := by decide
theorem skel_sdCreateClient : Gen.Skeletons.sdCreateClient = Ocpp.Expected.sdCreateClient := by decide
theorem skel_wsClientStop : Gen.Skeletons.wsClientStop = Ocpp.Expected.wsClientStop := by decide
theorem skel_wsClientStart : Gen.Skeletons.wsClientStart = Ocpp.Expected.wsClientStart := by decide
theorem skel_wsClientConnect : Gen.Skeletons.wsClientConnect = Ocpp.Expected.wsClientConnect := by decide
theorem skel_wsHandleReconnection : Gen.Skeletons.wsHandleReconnection = Ocpp.Expected.wsHandleReconnection := by decide
theorem skel_wsServerStop : Gen.Skeletons.wsServerStop = Ocpp.Expected.wsServerStop := by decide
theorem skel_wsStopConnections : Gen.Skeletons.wsStopConnections = Ocpp.Expected.wsStopConnections := by decide
theorem skel_wsServerStart : Gen.Skeletons.wsServerStart = Ocpp.Expected.wsServerStart := by decide

/-! non-vacuity: stop with one outstanding and one queued request while disconnected, then restart -/
example :
    let s := (run (CD.init 3) [.start, .send "a", .send "b", .disconnect]).1
    s.pend = "a" ∧ s.q = ["a", "b"] ∧ s.paused = true ∧
    (step (step s .stop).1 .start).1 = (step (CD.init 3) .start).1 ∧
    (run (step (step s .stop).1 .start).1 [.send "c", .reply "c" false]).2 = [.accepted "c", .wrote "c", .resp "c"] := by
  decide

/-! ### Below quiescence: Stop, Start and concurrent senders of the client dispatcher, every interleaving
(`OcppProps/C16Fine.lean`, small-step model `Ocpp.CdRestart` of the session protocol after /repo 82b951e) -/

/-- no sender ever sends on a closed channel, whatever Stop, Start and the message pumps do meanwhile -/
theorem fine_never_panics (ls : List Ocpp.CdRestart.Label) (s : Ocpp.CdRestart.St) (h : Ocpp.CdRestart.runL {} ls = some s) :
    s.panicked = false := C16Fine.never_panics ls s h

/-- a leaving message pump never resets the queue or the channel of a session that is running -/
theorem fine_never_wiped (ls : List Ocpp.CdRestart.Label) (s : Ocpp.CdRestart.St) (h : Ocpp.CdRestart.runL {} ls = some s) :
    s.wiped = false := C16Fine.never_wiped ls s h

/-- no request is pushed into the queue of a stopped dispatcher -/
theorem fine_never_late_push (ls : List Ocpp.CdRestart.Label) (s : Ocpp.CdRestart.St) (h : Ocpp.CdRestart.runL {} ls = some s) :
    s.latePush = false := C16Fine.never_late_push ls s h

/-- at most one message pump is alive; a running dispatcher has the pump of its own session -/
theorem fine_one_pump (ls : List Ocpp.CdRestart.Label) (s : Ocpp.CdRestart.St) (h : Ocpp.CdRestart.runL {} ls = some s) :
    s.live.length ≤ 1 ∧ ∀ k, s.field = some k → s.live = [k] :=
  ⟨C16Fine.one_pump ls s h, C16Fine.running_has_own_pump ls s h⟩

/-- IsRunning is false as soon as Stop has returned -/
theorem fine_stopped_at_once (s s' : Ocpp.CdRestart.St) (hr : s.repaired = true) (h : Ocpp.CdRestart.step s .stop = some s') :
    s'.field = none := C16Fine.stopped_at_once s s' hr h

/-- before 82b951e: send on a closed channel; the stopped session's pump resets the restarted one; or runs next to its pump -/
theorem fine_old_send_panics :
    (Ocpp.CdRestart.runL { repaired := false } [.start, .sendCheck, .stop, .sendWake]).map (·.panicked) = some true :=
  C16Fine.old_send_panics
theorem fine_old_late_push :
    (Ocpp.CdRestart.runL { repaired := false } [.start, .sendCheck, .stop, .pumpExit 0, .sendWake]).map (·.latePush) = some true :=
  C16Fine.old_late_push
theorem fine_old_restart_wiped :
    (Ocpp.CdRestart.runL { repaired := false } [.start, .stop, .start, .pumpExit 0]).map (fun s => (s.wiped, s.field, s.live)) =
      some (true, none, [1]) := C16Fine.old_restart_wiped
theorem fine_old_two_pumps :
    (Ocpp.CdRestart.runL { repaired := false } [.start, .stop, .start, .pumpLoop 0]).map (fun s => (s.live, s.serving)) =
      some ([1, 0], [(0, 1), (1, 1)]) := C16Fine.old_two_pumps

example : (Ocpp.CdRestart.runL {} [.start, .sendCheck, .stop, .sendWake, .pumpExit 0, .start, .sendCheck, .sendWake]).map
    (fun s => (s.field, s.live, s.panicked, s.wiped)) = some (some 1, [1], false, false) := by decide

/-! ### Protocol layer: outcomes and callbacks across Stop and Start (`OcppProps/L3Fine.lean`, small-step model
`Ocpp.L3Restart` of charge point / charging station after /repo eacc875 and 656d0b0) -/

/-- **partial** (assumes that no goroutine is pre-empted between two adjacent statements across a restart: the goroutine of
    a stopped session takes no further outcome, and `Stop` does not fall between a goroutine's channel receive and its
    `Dequeue`): every outcome is handed to the callback of its own request - nothing of a stopped session reaches a
    callback of a later one - for every interleaving of sends, answers, callback goroutines, `Stop` and `Start` -/
theorem l3_deliveries_match_partial (ls : List Ocpp.L3Restart.Label) (s : Ocpp.L3Restart.St) (h : Ocpp.L3Restart.runL {} ls = some s) :
    Ocpp.L3Restart.matched s = true := L3Fine.deliveries_match_partial ls s h

/-- after `Stop` nothing of the session is left: no callback, no outcome, no outstanding request -/
theorem l3_stop_leaves_nothing (ls : List Ocpp.L3Restart.Label) (s : Ocpp.L3Restart.St) (h : Ocpp.L3Restart.runL {} ls = some s)
    (hc : s.cur = none) : s.chan = [] ∧ s.cbs = [] ∧ s.out = [] := L3Fine.stop_leaves_nothing ls s h hc

/-- what is missing from the full statement: the two assumptions dropped one at a time (model-level interleavings, not
    reproduced on the implementation) -/
theorem l3_without_priority :
    (Ocpp.L3Restart.runL { prio := false } [.start, .send, .answer, .take, .deliver, .stop, .start, .send, .answer, .oret 1, .otake 1,
      .send, .answer, .take, .deliver, .odeliver 1]).map Ocpp.L3Restart.matched = some false := L3Fine.without_priority
theorem l3_without_atomic_take :
    (Ocpp.L3Restart.runL { atomicTake := false } [.start, .send, .answer, .take, .stop, .start, .send, .odeliver 1]).map
      Ocpp.L3Restart.matched = some false := L3Fine.without_atomic_take

/-- before 656d0b0: a stale outcome of the stopped session reaches the first callback of the next one (rounds `c16_inflight`) -/
theorem l3_old_stale_outcome :
    (Ocpp.L3Restart.runL { drain := false } [.start, .send, .answer, .take, .deliver, .send, .answer, .stop, .start, .send, .take, .deliver]).map
      (fun s => (s.log, Ocpp.L3Restart.matched s)) = some ([((1, 0), (1, 0)), ((1, 1), (2, 2))], false) := L3Fine.old_stale_outcome

example : (Ocpp.L3Restart.runL {} [.start, .send, .send, .answer, .take, .deliver, .stop, .start, .send, .answer, .oret 1, .oexit 1, .take, .deliver]).map
    (fun s => (s.log, Ocpp.L3Restart.matched s)) = some ([((1, 0), (1, 0)), ((2, 2), (2, 2))], true) := by decide

end C16
