import OcppModel.WsAdmit
import OcppModel.Expected
import OcppGen.Skeletons

/-!
# C14 — websocket connections are admitted iff all configured checks pass

Decision logic stated outright over `Ocpp.WsAdmit.decide`, for every configuration (any supported list, any
auth / check-client / origin handler as arbitrary functions) and every handshake (any requested list, any
credentials, id, origin).
-/
namespace C14
open Ocpp.WsAdmit

/-- the property's negotiation clause: a sub-protocol the client requested and, if the server lists any, one it supports -/
def Negotiable (supported requested : List String) : Prop :=
  ∃ p ∈ requested, p ≠ "" ∧ (supported = [] ∨ p ∈ supported)

theorem inSupported_iff (supported : List String) (p : String) : inSupported supported p = true ↔ p ∈ supported := by
  simp [inSupported, List.any_eq_true]

/-- the loop picks something iff the clause holds; what it picks is a requested, non-empty, supported protocol, and
    the first such in the client's preference order -/
theorem negotiate_ne_iff (supported requested : List String) :
    negotiate supported requested ≠ "" ↔ Negotiable supported requested := by
  induction requested with
  | nil => simp [negotiate, Negotiable]
  | cons p rest ih =>
    unfold negotiate
    by_cases hp : p = ""
    · subst hp
      simp only [beq_self_eq_true, if_true, ih]
      constructor
      · rintro ⟨q, hq, h⟩; exact ⟨q, List.mem_cons_of_mem _ hq, h⟩
      · rintro ⟨q, hq, hne, h⟩
        rcases List.mem_cons.mp hq with rfl | hq
        · exact absurd rfl hne
        · exact ⟨q, hq, hne, h⟩
    · have hb : (p == "") = false := by simpa using hp
      simp only [hb, Bool.false_eq_true, if_false]
      by_cases he : supported = []
      · subst he
        simp only [List.isEmpty_nil, if_true]
        exact ⟨fun _ => ⟨p, List.mem_cons_self, hp, Or.inl rfl⟩, fun _ => hp⟩
      · have hi : supported.isEmpty = false := by
          cases supported with
          | nil => exact absurd rfl he
          | cons _ _ => rfl
        simp only [hi, Bool.false_eq_true, if_false]
        by_cases hs : inSupported supported p = true
        · simp only [hs, if_true]
          exact ⟨fun _ => ⟨p, List.mem_cons_self, hp, Or.inr ((inSupported_iff _ _).mp hs)⟩, fun _ => hp⟩
        · have hs' : inSupported supported p = false := by simpa using hs
          simp only [hs', Bool.false_eq_true, if_false, ih]
          constructor
          · rintro ⟨q, hq, h⟩; exact ⟨q, List.mem_cons_of_mem _ hq, h⟩
          · rintro ⟨q, hq, hne, h⟩
            rcases List.mem_cons.mp hq with rfl | hq
            · rcases h with h | h
              · exact absurd h he
              · exact absurd ((inSupported_iff _ _).mpr h) hs
            · exact ⟨q, hq, hne, h⟩

theorem negotiate_sound (supported requested : List String) (h : negotiate supported requested ≠ "") :
    negotiate supported requested ∈ requested ∧ (supported = [] ∨ negotiate supported requested ∈ supported) := by
  induction requested with
  | nil => simp [negotiate] at h
  | cons p rest ih =>
    unfold negotiate at h ⊢
    by_cases hp : (p == "") = true
    · simp only [hp, if_true] at h ⊢
      exact ⟨List.mem_cons_of_mem _ (ih h).1, (ih h).2⟩
    · simp only [hp, Bool.false_eq_true, if_false] at h ⊢
      by_cases he : supported.isEmpty = true
      · simp only [he, if_true]
        exact ⟨List.mem_cons_self, Or.inl (by simpa using he)⟩
      · simp only [he, Bool.false_eq_true, if_false] at h ⊢
        by_cases hs : inSupported supported p = true
        · simp only [hs, if_true]
          exact ⟨List.mem_cons_self, Or.inr ((inSupported_iff _ _).mp hs)⟩
        · simp only [hs, Bool.false_eq_true, if_false] at h ⊢
          exact ⟨List.mem_cons_of_mem _ (ih h).1, (ih h).2⟩

/-- **C14**: admitted iff every configured check passes (and the id is not already connected — C13) -/
theorem admitted_iff (cfg : Cfg) (hs : Hs) :
    (∃ p, admission cfg hs = .admitted p) ↔
      authOk cfg hs = true ∧ checkOk cfg hs = true ∧ hs.wsUpgrade = true ∧ originOk cfg hs = true ∧
      Negotiable cfg.supported hs.requested ∧ hs.duplicate = false := by
  rw [← negotiate_ne_iff]
  unfold admission
  by_cases h1 : authOk cfg hs = true <;> by_cases h2 : checkOk cfg hs = true <;> by_cases h3 : hs.wsUpgrade = true <;>
    by_cases h4 : originOk cfg hs = true <;> by_cases h5 : negotiate cfg.supported hs.requested = "" <;>
    by_cases h6 : hs.duplicate = true <;> simp_all

/-- the clauses of the conjunction, spelled out per configured handler -/
theorem auth_clause (cfg : Cfg) (hs : Hs) :
    authOk cfg hs = true ↔ (cfg.auth = none ∨ ∃ h u p, cfg.auth = some h ∧ hs.creds = some (u, p) ∧ h u p = true) := by
  unfold authOk
  cases ha : cfg.auth with
  | none => simp
  | some h =>
    cases hc : hs.creds with
    | none => simp
    | some up =>
      obtain ⟨u, p⟩ := up
      simp only [false_or, reduceCtorEq, Option.some.injEq, Prod.mk.injEq]
      constructor
      · intro hh; exact ⟨h, u, p, rfl, ⟨rfl, rfl⟩, hh⟩
      · rintro ⟨h', x, y, rfl, ⟨rfl, rfl⟩, hh⟩; exact hh

theorem check_clause (cfg : Cfg) (hs : Hs) :
    checkOk cfg hs = true ↔ (cfg.check = none ∨ ∃ h, cfg.check = some h ∧ h hs.id = true) := by
  unfold checkOk
  cases cfg.check <;> simp

theorem origin_clause (cfg : Cfg) (hs : Hs) :
    originOk cfg hs = true ↔ (cfg.origin = some true ∨ (cfg.origin = none ∧ hs.originSame ≠ some false)) := by
  unfold originOk
  cases cfg.origin with
  | none => cases hs.originSame with
    | none => simp
    | some b => cases b <;> simp
  | some b => cases b <;> simp

theorem admission_http (cfg : Cfg) (hs : Hs) (st : Nat) (h : admission cfg hs = .http st) : st = 401 ∨ st = 400 ∨ st = 403 := by
  unfold admission at h
  by_cases h1 : authOk cfg hs = true <;> by_cases h2 : checkOk cfg hs = true <;> by_cases h3 : hs.wsUpgrade = true <;>
    by_cases h4 : originOk cfg hs = true <;> by_cases h5 : negotiate cfg.supported hs.requested = "" <;>
    by_cases h6 : hs.duplicate = true <;> simp_all <;> omega

theorem admission_admitted (cfg : Cfg) (hs : Hs) (p : String) (h : admission cfg hs = .admitted p) :
    p = negotiate cfg.supported hs.requested ∧ p ≠ "" := by
  unfold admission at h
  by_cases h1 : authOk cfg hs = true <;> by_cases h2 : checkOk cfg hs = true <;> by_cases h3 : hs.wsUpgrade = true <;>
    by_cases h4 : originOk cfg hs = true <;> by_cases h5 : negotiate cfg.supported hs.requested = "" <;>
    by_cases h6 : hs.duplicate = true <;> simp_all

/-- a refused client never triggers the new-client or message callbacks and gets an HTTP error or a close frame -/
theorem refused_silent (cfg : Cfg) (hs : Hs) (h : ¬ ∃ p, admission cfg hs = .admitted p) :
    newClientCalls (admission cfg hs) = 0 ∧ mayDeliver (admission cfg hs) = false ∧
    ((∃ st, admission cfg hs = .http st ∧ 400 ≤ st) ∨ ∃ c, admission cfg hs = .closeFrame c) := by
  generalize hd : admission cfg hs = o at h
  cases o with
  | admitted p => exact absurd ⟨p, rfl⟩ h
  | closeFrame c => exact ⟨rfl, rfl, Or.inr ⟨c, rfl⟩⟩
  | http st =>
    refine ⟨rfl, rfl, Or.inl ⟨st, rfl, ?_⟩⟩
    rcases admission_http cfg hs st hd with h | h | h <;> omega

/-- the admitted connection speaks a protocol the client asked for (and the server supports, if it lists any) -/
theorem admitted_proto (cfg : Cfg) (hs : Hs) (p : String) (h : admission cfg hs = .admitted p) :
    p ≠ "" ∧ p ∈ hs.requested ∧ (cfg.supported = [] ∨ p ∈ cfg.supported) := by
  obtain ⟨h1, h2⟩ := admission_admitted cfg hs p h
  subst h1
  exact ⟨h2, negotiate_sound _ _ h2⟩

/-- exactly one new-client callback per admitted connection -/
theorem admitted_once (cfg : Cfg) (hs : Hs) (p : String) (h : admission cfg hs = .admitted p) :
    newClientCalls (admission cfg hs) = 1 := by rw [h]; rfl

/-! non-vacuity / tests -/
def cfgT : Cfg := { supported := ["ocpp1.6", "ocpp2.0.1"], auth := some (fun u p => u == "u" && p == "p"), check := some (fun i => i == "cp1"), origin := none }
example : admission cfgT { requested := ["x", "ocpp2.0.1", "ocpp1.6"], creds := some ("u", "p"), id := "cp1", originSame := none, wsUpgrade := true, duplicate := false }
    = .admitted "ocpp2.0.1" := by decide
example : admission cfgT { requested := ["x"], creds := some ("u", "p"), id := "cp1", originSame := none, wsUpgrade := true, duplicate := false }
    = .closeFrame 1002 := by decide
example : admission cfgT { requested := ["ocpp1.6"], creds := none, id := "cp1", originSame := none, wsUpgrade := true, duplicate := false }
    = .http 401 := by decide
example : admission { cfgT with supported := [] } { requested := ["", "zzz"], creds := some ("u", "p"), id := "cp1", originSame := some true, wsUpgrade := true, duplicate := false }
    = .admitted "zzz" := by decide

theorem skel_wsHandler : Gen.Skeletons.wsHandler = Ocpp.Expected.wsHandler := by decide
theorem skel_wsAddSupportedSubprotocol : Gen.Skeletons.wsAddSupportedSubprotocol = Ocpp.Expected.wsAddSupportedSubprotocol := by decide
theorem skel_wsNewServer : Gen.Skeletons.wsNewServer = Ocpp.Expected.wsNewServer := by decide
theorem skel_wsSetCheckOriginHandler : Gen.Skeletons.wsSetCheckOriginHandler = Ocpp.Expected.wsSetCheckOriginHandler := by decide
theorem skel_wsSetBasicAuthHandler : Gen.Skeletons.wsSetBasicAuthHandler = Ocpp.Expected.wsSetBasicAuthHandler := by decide
theorem skel_wsSetCheckClientHandler : Gen.Skeletons.wsSetCheckClientHandler = Ocpp.Expected.wsSetCheckClientHandler := by decide

end C14
