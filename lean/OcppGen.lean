import OcppGen.Guards
import OcppGen.Constants
import OcppGen.Skeletons
