#!/bin/bash
# usage: clean_sweep.sh <out> <seed>...  -- every claimed check, quick tier, on the unchanged tree, sequentially, for other VERIF_SEEDs
out=$1; shift
: > $out
cd /verif
ids=$(python3 -c "import json; print(' '.join(c['property_id'] for c in json.load(open('MANIFEST.json'))['checks']))")
for seed in "$@"; do
  for id in $ids; do
    VERIF_SEED=$seed ./check $id quick > /tmp/.sweep.$$.log 2>&1; rc=$?
    echo "seed=$seed $id exit=$rc $(tail -1 /tmp/.sweep.$$.log | cut -c1-140)" >> $out
    grep -E "^VIOLATION|OBLIGATION FAILED" /tmp/.sweep.$$.log | cut -c1-300 >> $out
    python3 - $id $seed >> $out <<'PY'
import json,glob,sys
for f in sorted(glob.glob(f'/verif/replays/{sys.argv[1]}-{sys.argv[2]}-*.json')):
    r=json.load(open(f)); print('    >>',r['sig'],'|',r['what'][:300])
PY
  done
done
rm -f /tmp/.sweep.$$.log
git -C /verif checkout -- evidence 2>/dev/null
echo SWEEP-DONE >> $out
