#!/bin/bash
# usage: confirm_seed.sh <worktree> <patch.diff> <demo command (run in worktree)>
# confirms: patch applies; baseline OK with patch; demo fails with patch; demo passes without
export GOFLAGS=-mod=mod GOPROXY=off GOSUMDB=off GOTOOLCHAIN=local
wt=$1; patch=$2; shift 2
cd "$wt" || exit 2
git checkout -q -- . 2>/dev/null
git apply "$patch" || { echo "CONFIRM: patch does not apply"; exit 1; }
/tmp/wt/baseline.sh "$wt" | tail -1
( timeout 300 bash -c "$*" ) > /tmp/wt/.demo_patched.$$ 2>&1; rc1=$?
git checkout -q -- .
( timeout 300 bash -c "$*" ) > /tmp/wt/.demo_clean.$$ 2>&1; rc2=$?
echo "CONFIRM: demo with patch rc=$rc1 ; clean rc=$rc2"
tail -3 /tmp/wt/.demo_patched.$$ | cut -c1-200
rm -f /tmp/wt/.demo_patched.$$ /tmp/wt/.demo_clean.$$
[ $rc1 -ne 0 ] && [ $rc2 -eq 0 ] && echo "CONFIRM: OK" || echo "CONFIRM: NOT CONFIRMED"
