#!/bin/bash
# usage: try_seed.sh <seed dir with patch.diff> <prop> [tier]  -- apply to /repo, run the check, undo
set -u
d=$1; p=$2; tier=${3:-quick}
cd /repo && git apply "$d/patch.diff" || { echo "PATCH DOES NOT APPLY"; exit 2; }
cd /verif && ./check $p $tier 2>&1 | grep -E "VIOLATION|KNOWN-FINDING|OBLIGATION FAILED|tier=" | cut -c1-300 | head -20
cd /repo && git checkout -- . && git status --short | head -3
# regenerate the OcppGen modules for the restored tree (they were regenerated from the patched tree above)
/verif/bin/extract > /dev/null 2>&1; [ -x /verif/bin/reggen ] && /verif/bin/reggen > /dev/null 2>&1
