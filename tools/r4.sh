#!/bin/bash
# usage: r4.sh <worktree> <seeddir> <demo-file-dest-dir (relative to worktree)> <demo command>
# confirm a round-4 seed in its worktree: patch applies, baseline OK with patch, demo fails with / passes without
export GOFLAGS=-mod=mod GOPROXY=off GOSUMDB=off GOTOOLCHAIN=local
wt=$1; sd=$2; dest=$3; shift 3
cd "$wt" || exit 2
git checkout -q -- . ; git clean -fdq -e _seed
mkdir -p "$wt/$dest"
for f in "$sd"/*_test.go "$sd"/*.go; do [ -f "$f" ] && cp "$f" "$wt/$dest/"; done
( timeout 600 bash -c "$*" ) > /tmp/wt/.demo_clean.$$ 2>&1; rc2=$?
git apply "$sd/patch.diff" || { echo "CONFIRM: patch does not apply"; exit 1; }
( timeout 600 bash -c "$*" ) > /tmp/wt/.demo_patched.$$ 2>&1; rc1=$?
for f in "$sd"/*_test.go "$sd"/*.go; do [ -f "$f" ] && rm -f "$wt/$dest/$(basename $f)"; done
/tmp/wt/baseline.sh "$wt" | tail -1
git checkout -q -- . ; git clean -fdq -e _seed
echo "CONFIRM: demo with patch rc=$rc1 ; clean rc=$rc2"
grep -E "^\s+.*(Error|FAIL|fail|---)" /tmp/wt/.demo_patched.$$ | head -4 | cut -c1-220
rm -f /tmp/wt/.demo_patched.$$ /tmp/wt/.demo_clean.$$
[ $rc1 -ne 0 ] && [ $rc2 -eq 0 ] && echo "CONFIRM: OK" || echo "CONFIRM: NOT CONFIRMED"
