#!/bin/bash
# usage: seed_sweep.sh <out> <seed-id>...   -- runs each seed against its property's quick check, sequentially
out=$1; shift
: > $out
for sid in "$@"; do
  prop=${sid%%-*}
  echo "=== $sid" >> $out
  /verif/tools/try_seed.sh /verif/seeded/$sid $prop 2>&1 | grep -v "KNOWN-FINDING" | grep -vE "OBLIGATION FAILED: (theorem|non-vac)" | cut -c1-300 >> $out
  python3 - $prop >> $out <<'PY'
import json,glob,sys
for f in sorted(glob.glob(f'/verif/replays/{sys.argv[1]}-1-*.json')):
    r=json.load(open(f)); print('    >>',r['sig'],'| concrete=',r['concrete_failing_input'],'|',r['what'][:260])
PY
done
echo SWEEP-DONE >> $out
# the checks above ran against a patched /repo and rewrote evidence / replays: put the committed evidence back
git -C /verif checkout -- evidence 2>/dev/null
rm -f /verif/replays/C*-1-*.json
