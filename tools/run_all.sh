#!/bin/bash
# run every claimed check (quick by default) on /repo as it is, validate manifest + evidence
cd /verif
tier=${1:-quick}
ids=$(python3 -c "import json; print(' '.join(c['property_id'] for c in json.load(open('MANIFEST.json'))['checks']))")
rc=0
for id in $ids; do
  ( ./check $id $tier > /tmp/.runall.$id.log 2>&1; echo "$id exit=$? $(tail -1 /tmp/.runall.$id.log | cut -c1-150)" ) &
done
wait
python3-vt - <<'PY'
import json, jsonschema, glob
m=json.load(open('/verif/MANIFEST.json')); jsonschema.validate(m,json.load(open('/root/.vp/MANIFEST.schema.json')))
es=json.load(open('/root/.vp/EVIDENCE.schema.json'))
for c in m['checks']:
    e=json.load(open(c['evidence_file'])); jsonschema.validate(e,es)
    cov=e['coverage']
    ok = cov['obligations']==cov['discharged'] and e['violations']==0
    print(c['property_id'], 'evidence ok' if ok else 'EVIDENCE NOT CLEAN', cov['obligations'], cov['discharged'], e['violations'], e['wall_s'])
PY
grep -l "VIOLATION" /tmp/.runall.*.log 2>/dev/null
rm -f /tmp/.runall.*.log
