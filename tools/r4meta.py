#!/usr/bin/env python3
# usage: r4meta.py <seed id> <what> <needs> <detected_by>
import json,sys,subprocess
sid,what,needs,det=sys.argv[1:5]
head=subprocess.run(["git","-C","/repo","rev-parse","--short","HEAD"],capture_output=True,text=True).stdout.strip()
m=dict(id=sid,property=sid.split("-")[0],round=int(sys.argv[5]) if len(sys.argv)>5 else 4,
 source="independent sub-agent (" + {"5":"fifth","6":"sixth"}.get(sys.argv[5] if len(sys.argv)>5 else "4","fourth") + " round), own scratch worktree of /repo, given only the property text",
 what=what,needs=needs,
 confirmed=f"patch applies on /repo HEAD ({head}); baseline 386/386 with the patch; the demo fails with the patch and passes without (tools/r4.sh)",
 detected_by=det)
json.dump(m,open(f"/verif/seeded/{sid}/meta.json","w"),indent=1)
