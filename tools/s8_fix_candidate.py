import sys
root=sys.argv[1]
# ---------------- dispatcher.go
p=root+'/ocppj/dispatcher.go'; s=open(p).read()
# client: split CompleteRequest into a locked core + wrappers
old='''func (d *DefaultClientDispatcher) CompleteRequest(requestId string) {
	// The reader (a response) and the message pump (a timeout, a failed write) may complete the same request at the
	// same time: looking at the head of the queue and popping it must be one step, or the second pop takes the next request
	d.completionMutex.Lock()
	el := d.requestQueue.Peek()
	if el == nil {
		d.completionMutex.Unlock()
		log.Errorf("attempting to pop front of queue, but queue is empty")
		return
	}
	bundle, _ := el.(RequestBundle)
	if bundle.Call.UniqueId != requestId {
		d.completionMutex.Unlock()
		log.Errorf("internal state mismatch: received response for %v but expected response for %v", requestId, bundle.Call.UniqueId)
		return
	}
	d.requestQueue.Pop()
	d.pendingRequestState.DeletePendingRequest(requestId)
	d.completionMutex.Unlock()
	log.Debugf("removed request %v from front of queue", bundle.Call.UniqueId)
	// Signal that next message in queue may be sent
	d.signalReadyForDispatch()
}'''
new='''func (d *DefaultClientDispatcher) CompleteRequest(requestId string) {
	// The reader (a response) and the message pump (a timeout, a failed write) may complete the same request at the
	// same time: looking at the head of the queue and popping it must be one step, or the second pop takes the next request
	d.completionMutex.Lock()
	completed := d.completeLocked(requestId)
	d.completionMutex.Unlock()
	if completed {
		// Signal that next message in queue may be sent
		d.signalReadyForDispatch()
	}
}

// completeLocked pops the request off the queue if it is at its head. The caller holds completionMutex.
func (d *DefaultClientDispatcher) completeLocked(requestId string) bool {
	el := d.requestQueue.Peek()
	if el == nil {
		log.Errorf("attempting to pop front of queue, but queue is empty")
		return false
	}
	bundle, _ := el.(RequestBundle)
	if bundle.Call.UniqueId != requestId {
		log.Errorf("internal state mismatch: received response for %v but expected response for %v", requestId, bundle.Call.UniqueId)
		return false
	}
	d.requestQueue.Pop()
	d.pendingRequestState.DeletePendingRequest(requestId)
	log.Debugf("removed request %v from front of queue", bundle.Call.UniqueId)
	return true
}

// concludeRequest completes the request if, and only if, it is still the pending one - in one step with respect to
// every other completion - and reports whether it did. A request can be concluded by its reply (reader), by its
// timeout or by a failed write (message pump): whoever gets true reports the outcome, the others must not.
func (d *DefaultClientDispatcher) concludeRequest(requestId string) bool {
	d.completionMutex.Lock()
	if _, pending := d.pendingRequestState.GetPendingRequest(requestId); !pending {
		d.completionMutex.Unlock()
		return false
	}
	if !d.completeLocked(requestId) {
		// Pending, but not at the head of the queue: nothing to pop, the request is concluded all the same
		d.pendingRequestState.DeletePendingRequest(requestId)
	}
	d.completionMutex.Unlock()
	d.signalReadyForDispatch()
	return true
}'''
assert old in s; s=s.replace(old,new)
# client pump: timer branch
old='''				if ok {
					d.CompleteRequest(bundle.Call.UniqueId)
					if d.onRequestCancel != nil {
						d.onRequestCancel(bundle.Call.UniqueId, bundle.Call.Payload,
							ocpp.NewError(GenericError, "Request timed out", bundle.Call.UniqueId))
					}
				}'''
new='''				// (only if the timeout is the one to conclude the request: its reply may be doing so at this very moment)
				if ok && d.concludeRequest(bundle.Call.UniqueId) {
					if d.onRequestCancel != nil {
						d.onRequestCancel(bundle.Call.UniqueId, bundle.Call.Payload,
							ocpp.NewError(GenericError, "Request timed out", bundle.Call.UniqueId))
					}
				}'''
assert old in s; s=s.replace(old,new)
# client dispatch: failed write
old='''		// TODO: handle retransmission instead of skipping request altogether
		d.CompleteRequest(bundle.Call.GetUniqueId())
		if d.onRequestCancel != nil {'''
new='''		// TODO: handle retransmission instead of skipping request altogether
		if d.concludeRequest(bundle.Call.GetUniqueId()) && d.onRequestCancel != nil {'''
assert old in s; s=s.replace(old,new)
# server
old='''	// The reader (a response) and the message pump (a timeout, a failed write) may complete the same request at the
	// same time: looking at the head of the queue and popping it must be one step, or the second pop takes the next request
	d.completionMutex.Lock()
	el := q.Peek()
	if el == nil {
		d.completionMutex.Unlock()
		log.Errorf("attempting to pop front of queue, but queue is empty")
		return
	}
	bundle, _ := el.(RequestBundle)
	callID := bundle.Call.GetUniqueId()
	if callID != requestID {
		d.completionMutex.Unlock()
		log.Errorf("internal state mismatch: processing response for %v but expected response for %v", requestID, callID)
		return
	}
	q.Pop()
	d.pendingRequestState.DeletePendingRequest(clientID, requestID)
	d.completionMutex.Unlock()
	log.Debugf("completed request %s for %s", callID, clientID)
	// Signal that next message in queue may be sent
	d.signalReadyForDispatch(clientID)
}'''
new='''	// The reader (a response) and the message pump (a timeout, a failed write) may complete the same request at the
	// same time: looking at the head of the queue and popping it must be one step, or the second pop takes the next request
	d.completionMutex.Lock()
	completed := d.completeLocked(q, clientID, requestID)
	d.completionMutex.Unlock()
	if completed {
		// Signal that next message in queue may be sent
		d.signalReadyForDispatch(clientID)
	}
}

// completeLocked pops the request off the client's queue if it is at its head. The caller holds completionMutex.
func (d *DefaultServerDispatcher) completeLocked(q RequestQueue, clientID string, requestID string) bool {
	el := q.Peek()
	if el == nil {
		log.Errorf("attempting to pop front of queue, but queue is empty")
		return false
	}
	bundle, _ := el.(RequestBundle)
	callID := bundle.Call.GetUniqueId()
	if callID != requestID {
		log.Errorf("internal state mismatch: processing response for %v but expected response for %v", requestID, callID)
		return false
	}
	q.Pop()
	d.pendingRequestState.DeletePendingRequest(clientID, requestID)
	log.Debugf("completed request %s for %s", callID, clientID)
	return true
}

// concludeRequest completes the request if, and only if, it is still the pending one of the client - in one step with
// respect to every other completion - and reports whether it did. A request can be concluded by its reply (reader), by
// its timeout or by a failed write (message pump): whoever gets true reports the outcome, the others must not.
func (d *DefaultServerDispatcher) concludeRequest(clientID string, requestID string) bool {
	q, hasQueue := d.queueMap.Get(clientID)
	d.completionMutex.Lock()
	if _, pending := d.pendingRequestState.GetClientState(clientID).GetPendingRequest(requestID); !pending {
		d.completionMutex.Unlock()
		return false
	}
	if !hasQueue || !d.completeLocked(q, clientID, requestID) {
		// Pending, but not at the head of the client's queue (e.g. a request of an earlier connection of this client,
		// which reconnected while it was being dispatched): nothing to pop, the request is concluded all the same
		d.pendingRequestState.DeletePendingRequest(clientID, requestID)
	}
	d.completionMutex.Unlock()
	d.signalReadyForDispatch(clientID)
	return true
}'''
assert old in s; s=s.replace(old,new)
# server timer branch
old='''				d.CompleteRequest(clientID, bundle.Call.UniqueId)
				log.Infof("request %v for %v timed out", bundle.Call.UniqueId, clientID)
				if d.onRequestCancel != nil {'''
new='''				if !d.concludeRequest(clientID, bundle.Call.UniqueId) {
					// Its reply is concluding the request at this very moment
					continue
				}
				log.Infof("request %v for %v timed out", bundle.Call.UniqueId, clientID)
				if d.onRequestCancel != nil {'''
assert old in s; s=s.replace(old,new)
# server failed write: concludeRequest subsumes the orphan drop of 6d71525
i=s.index('''		// TODO: handle retransmission instead of removing pending request
		d.CompleteRequest(clientID, callID)''')
j=s.index('''		if d.onRequestCancel != nil {
			d.onRequestCancel(clientID, bundle.Call.UniqueId, bundle.Call.Payload,
				ocpp.NewError(InternalError, err.Error(), bundle.Call.UniqueId))''')
s=s[:i]+'''		// TODO: handle retransmission instead of removing pending request
		// (a request taken from the queue of an earlier connection of this client, which reconnected while the request
		// was being dispatched, is not in the client's queue: it is concluded, i.e. no longer pending, all the same)
		if !d.concludeRequest(clientID, callID) {
			return
		}
'''+s[j:]
open(p,'w').write(s)
# ---------------- client.go / server.go readers
p=root+'/ocppj/client.go'; s=open(p).read()
old='''			c.outcomeMutex.Lock()
			c.dispatcher.CompleteRequest(callResult.GetUniqueId()) // Remove current request from queue and send next one
			if c.responseHandler != nil {
				c.responseHandler(callResult.Payload, callResult.UniqueId)
			}
			c.outcomeMutex.Unlock()'''
new='''			c.outcomeMutex.Lock()
			// Remove current request from queue and send next one
			if c.concludeRequest(callResult.GetUniqueId()) && c.responseHandler != nil {
				c.responseHandler(callResult.Payload, callResult.UniqueId)
			}
			c.outcomeMutex.Unlock()'''
assert old in s; s=s.replace(old,new)
old='''			c.outcomeMutex.Lock()
			c.dispatcher.CompleteRequest(callError.GetUniqueId()) // Remove current request from queue and send next one
			if c.errorHandler != nil {
				c.errorHandler(ocpp.NewError(callError.ErrorCode, callError.ErrorDescription, callError.UniqueId), callError.ErrorDetails)
			}
			c.outcomeMutex.Unlock()'''
new='''			c.outcomeMutex.Lock()
			// Remove current request from queue and send next one
			if c.concludeRequest(callError.GetUniqueId()) && c.errorHandler != nil {
				c.errorHandler(ocpp.NewError(callError.ErrorCode, callError.ErrorDescription, callError.UniqueId), callError.ErrorDetails)
			}
			c.outcomeMutex.Unlock()'''
assert old in s; s=s.replace(old,new)
s=s.replace('''func (c *Client) ocppMessageHandler(data []byte) error {''','''// concludeRequest completes the request a reply was received for and tells whether the reply is to be reported. With the
// default dispatcher a reply that arrives while the timeout of its request is being handled loses against it (the request
// was reported as timed out, once); other dispatchers only offer CompleteRequest, and the reply is always reported.
func (c *Client) concludeRequest(requestId string) bool {
	if d, ok := c.dispatcher.(interface{ concludeRequest(string) bool }); ok {
		return d.concludeRequest(requestId)
	}
	c.dispatcher.CompleteRequest(requestId)
	return true
}

func (c *Client) ocppMessageHandler(data []byte) error {''',1)
open(p,'w').write(s)
p=root+'/ocppj/server.go'; s=open(p).read()
old='''			mutex.Lock()
			s.dispatcher.CompleteRequest(wsChannel.ID(), callResult.GetUniqueId())
			if s.responseHandler != nil {
				s.responseHandler(wsChannel, callResult.Payload, callResult.UniqueId)
			}
			mutex.Unlock()'''
new='''			mutex.Lock()
			if s.concludeRequest(wsChannel.ID(), callResult.GetUniqueId()) && s.responseHandler != nil {
				s.responseHandler(wsChannel, callResult.Payload, callResult.UniqueId)
			}
			mutex.Unlock()'''
assert old in s; s=s.replace(old,new)
old='''			mutex.Lock()
			s.dispatcher.CompleteRequest(wsChannel.ID(), callError.GetUniqueId())
			if s.errorHandler != nil {
				s.errorHandler(wsChannel, ocpp.NewError(callError.ErrorCode, callError.ErrorDescription, callError.UniqueId), callError.ErrorDetails)
			}
			mutex.Unlock()'''
new='''			mutex.Lock()
			if s.concludeRequest(wsChannel.ID(), callError.GetUniqueId()) && s.errorHandler != nil {
				s.errorHandler(wsChannel, ocpp.NewError(callError.ErrorCode, callError.ErrorDescription, callError.UniqueId), callError.ErrorDetails)
			}
			mutex.Unlock()'''
assert old in s; s=s.replace(old,new)
s=s.replace('''func (s *Server) ocppMessageHandler(wsChannel ws.Channel, data []byte) error {''','''// concludeRequest completes the request a reply was received for and tells whether the reply is to be reported. With the
// default dispatcher a reply that arrives while the timeout of its request is being handled loses against it (the request
// was reported as timed out, once); other dispatchers only offer CompleteRequest, and the reply is always reported.
func (s *Server) concludeRequest(clientID string, requestID string) bool {
	if d, ok := s.dispatcher.(interface{ concludeRequest(string, string) bool }); ok {
		return d.concludeRequest(clientID, requestID)
	}
	s.dispatcher.CompleteRequest(clientID, requestID)
	return true
}

func (s *Server) ocppMessageHandler(wsChannel ws.Channel, data []byte) error {''',1)
open(p,'w').write(s)
print("patched")
