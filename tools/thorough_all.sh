#!/bin/bash
# usage: thorough_all.sh <out> [ids...]  -- thorough tier of every claimed check on the unchanged tree, sequentially
out=$1; shift
: > $out
cd /verif
ids="$@"
[ -z "$ids" ] && ids=$(python3 -c "import json; print(' '.join(c['property_id'] for c in json.load(open('MANIFEST.json'))['checks']))")
for id in $ids; do
  s=$(date +%s)
  ./check $id thorough > /tmp/.thor.$$.log 2>&1; rc=$?
  echo "$id exit=$rc $(( $(date +%s) - s ))s $(tail -1 /tmp/.thor.$$.log | cut -c1-140)" >> $out
  grep -E "^VIOLATION|OBLIGATION FAILED" /tmp/.thor.$$.log | cut -c1-300 >> $out
  python3 - $id >> $out <<'PY'
import json,glob,sys
for f in sorted(glob.glob(f'/verif/replays/{sys.argv[1]}-1-*.json')):
    r=json.load(open(f)); print('    >>',r['sig'],'|',r['what'][:300])
PY
done
rm -f /tmp/.thor.$$.log
git -C /verif checkout -- evidence 2>/dev/null
echo THOROUGH-DONE >> $out
