package main

import (
	"encoding/base64"
	"fmt"
	"math/rand"
	"net/http"
	"strings"
	"time"
)

// suite wsadmit (C14): one handshake against a freshly configured real ws.Server on loopback.
//   h <supported csv|-> <auth none|handler> <check none|true|false|id> <origin default|allow|deny> | <requested csv|-> <creds none|good|bad|nobasic> <originhdr none|same|cross> <id> <dup 0|1> <mode ws|plain>
// requested tokens: `_` stands for an empty list element
// output: <http status | close:<code> | admitted> new=<n> msg=<n> [first=<ok|broken> for dup]

type wsadmit struct{}

func init() {
	suites["wsadmit"] = wsadmit{}
	childSuites["wsadmit"] = func(ops []string, emit func(string)) {
		for _, l := range ops {
			emit(guard(func() string { return wsAdmitOne(fields(l)) }))
		}
	}
}

func csv(s string) []string {
	if s == "-" {
		return nil
	}
	var out []string
	for _, t := range strings.Split(s, ",") {
		if t == "_" {
			t = ""
		}
		out = append(out, t)
	}
	return out
}

func (wsadmit) Gen(r *rand.Rand, n int) []string {
	protos := []string{"ocpp1.6", "ocpp2.0.1", "x"}
	sub := func(max int, empty bool) string {
		k := r.Intn(max + 1)
		if k == 0 {
			return "-"
		}
		var l []string
		for i := 0; i < k; i++ {
			if empty && r.Intn(8) == 0 {
				l = append(l, "_")
			} else {
				l = append(l, protos[r.Intn(len(protos))])
			}
		}
		return strings.Join(l, ",")
	}
	var out []string
	for i := 0; i < n; i++ {
		mode := "ws"
		if r.Intn(15) == 0 {
			mode = "plain"
		}
		dup := "0"
		if r.Intn(6) == 0 {
			dup = "1"
		}
		out = append(out, fmt.Sprintf("h %s %s %s %s | %s %s %s %s %s %s",
			sub(3, false), pick(r, "none", "handler"), pick(r, "none", "true", "true", "false", "id", "id"), pick(r, "default", "default", "default", "allow", "deny"),
			sub(3, true), pick(r, "none", "good", "good", "good", "bad", "nobasic"), pick(r, "none", "none", "same", "same", "cross"), pick(r, "ok1", "ok1", "ok1", "bad1"), dup, mode))
	}
	return out
}

func (wsadmit) Run(ops []string, emit func(string)) { runIsolated("wsadmit", ops, emit) }

func wsAdmitOne(f []string) string {
	if len(f) != 12 || f[0] != "h" || f[5] != "|" {
		return "bad-op"
	}
	c := startWsServer(srvOpts{supported: csv(f[1]), auth: f[2], check: f[3], origin: f[4]})
	defer c.s.Stop()
	hdr := http.Header{}
	switch f[7] {
	case "good":
		hdr.Set("Authorization", "Basic "+base64.StdEncoding.EncodeToString([]byte("u:p")))
	case "bad":
		hdr.Set("Authorization", "Basic "+base64.StdEncoding.EncodeToString([]byte("u:wrong")))
	case "nobasic":
		hdr.Set("Authorization", "Bearer abc")
	}
	switch f[8] {
	case "same":
		hdr.Set("Origin", fmt.Sprintf("http://127.0.0.1:%d", c.port))
	case "cross":
		hdr.Set("Origin", "http://evil.example")
	}
	id := f[9]
	requested := csv(f[6])
	first := ""
	if f[10] == "1" {
		// an earlier, fully admitted connection with the same id (it satisfies every configured check)
		h1 := http.Header{}
		h1.Set("Authorization", "Basic "+base64.StdEncoding.EncodeToString([]byte("u:p")))
		p1 := []string{"ocpp1.6"}
		if s := csv(f[1]); len(s) > 0 {
			p1 = []string{s[0]}
		}
		d1 := rawDial(c.url(id), p1, h1)
		if d1.err != nil || !waitCond(2*time.Second, func() bool { return c.size() >= 1 }) {
			// the configuration admits nobody with this id: the duplicate case does not arise
			first = " first=none"
			if d1.conn != nil {
				_ = d1.conn.Close()
			}
		} else {
			defer d1.conn.Close()
			c.take()
			// after the second handshake: the first connection must still work
			firstConn := d1.conn
			res := wsAdmitDial(c, f, id, requested, hdr)
			ok := firstConn.WriteMessage(1, []byte("still-there")) == nil &&
				waitCond(2*time.Second, func() bool {
					for _, e := range c.snapshot() {
						if e.kind == "msg" && e.data == "still-there" {
							return true
						}
					}
					return false
				})
			ev := c.take()
			nn, nm, nd := 0, 0, 0
			for _, e := range ev {
				switch {
				case e.kind == "new":
					nn++
				case e.kind == "msg" && e.data != "still-there":
					nm++
				case e.kind == "disc":
					nd++
				}
			}
			return fmt.Sprintf("%s new=%d msg=%d disc=%d first=%s", res, nn, nm, nd, map[bool]string{true: "ok", false: "broken"}[ok])
		}
	}
	res := wsAdmitDial(c, f, id, requested, hdr)
	ev := c.take()
	nn, nm := 0, 0
	for _, e := range ev {
		switch e.kind {
		case "new":
			nn++
		case "msg":
			nm++
		}
	}
	return fmt.Sprintf("%s new=%d msg=%d%s", res, nn, nm, first)
}

func (c *srvCtx) snapshot() []wsEvent {
	c.mu.Lock()
	defer c.mu.Unlock()
	return append([]wsEvent{}, c.log...)
}

func wsAdmitDial(c *srvCtx, f []string, id string, requested []string, hdr http.Header) string {
	if f[11] == "plain" {
		req, _ := http.NewRequest("GET", fmt.Sprintf("http://127.0.0.1:%d/%s", c.port, id), nil)
		for k, v := range hdr {
			req.Header[k] = v
		}
		if len(requested) > 0 {
			req.Header.Set("Sec-WebSocket-Protocol", strings.Join(requested, ", "))
		}
		resp, err := (&http.Client{Timeout: 3 * time.Second}).Do(req)
		if err != nil {
			return "http-error"
		}
		resp.Body.Close()
		c.settle(3*time.Millisecond, 100*time.Millisecond)
		return fmt.Sprint(resp.StatusCode)
	}
	d := rawDial(c.url(id), requested, hdr)
	if d.err != nil {
		c.settle(3*time.Millisecond, 100*time.Millisecond)
		if d.status != 0 {
			return fmt.Sprint(d.status)
		}
		return "dial-error"
	}
	defer d.conn.Close()
	// admitted connections stay open and deliver a message; refused ones get a close frame
	_ = d.conn.WriteMessage(1, []byte("hello"))
	st := readClose(d.conn, 60*time.Millisecond)
	if st == "open" {
		waitCond(2*time.Second, func() bool {
			n := 0
			for _, e := range c.snapshot() {
				if e.kind == "new" || (e.kind == "msg" && e.data == "hello") {
					n++
				}
			}
			return n >= 2
		})
		return "admitted"
	}
	c.settle(3*time.Millisecond, 100*time.Millisecond)
	return st
}
