package main

import (
	"encoding/hex"
	"fmt"
	"math/rand"
	"strconv"
	"strings"
	"time"

	t16 "github.com/lorenzodonini/ocpp-go/ocpp1.6/types"
	t201 "github.com/lorenzodonini/ocpp-go/ocpp2.0.1/types"
)

// H2/datetime: DateTime.UnmarshalJSON / MarshalJSON of both protocol versions vs the Lean model.

type datetime struct{}

func init() { suites["datetime"] = datetime{} }

var sentinelLoc = time.FixedZone("sentinel", 12345)
var sentinel = time.Date(1999, 9, 9, 9, 9, 9, 999, sentinelLoc)

func randInstant(r *rand.Rand) (int64, int64) {
	// years 0000..9999: [-62167219200, 253402300799]
	var sec int64
	switch r.Intn(6) {
	case 0:
		sec = []int64{-62167219200, 253402300799, 0, -1, 951782400, 951868799, 951868800, 4107542400, 1709164800, 1582934400, -2203891200}[r.Intn(11)]
	case 1:
		sec = time.Date(1600+r.Intn(900), time.Month(1+r.Intn(12)), 1, 0, 0, 0, 0, time.UTC).Unix() - int64(r.Intn(3))
	default:
		sec = -62167219200 + r.Int63n(253402300799+62167219200+1)
	}
	// keep the wall clock inside years 0000..9999 in every zone offset used by the generators (|off| <= 14 h)
	if sec < -62167219200+50400 {
		sec = -62167219200 + 50400
	}
	if sec > 253402300799-50400 {
		sec = 253402300799 - 50400
	}
	var nano int64
	switch r.Intn(5) {
	case 0:
		nano = 0
	case 1:
		nano = int64(r.Intn(1000)) * 1000000
	case 2:
		nano = int64(r.Intn(10)) * 100000000
	case 3:
		nano = []int64{1, 999999999, 10, 123456789, 500000000}[r.Intn(5)]
	default:
		nano = r.Int63n(1000000000)
	}
	return sec, nano
}

// spellX returns a spelling and the nanoseconds it denotes (fraction digits may truncate)
func spellX(r *rand.Rand, sec, nano int64) (string, int64) {
	s := spell(r, sec, nano)
	// recover the fraction actually written
	i := strings.IndexByte(s, '.')
	if i < 0 {
		return s, 0
	}
	j := i + 1
	for j < len(s) && s[j] >= '0' && s[j] <= '9' {
		j++
	}
	frac := s[i+1 : j]
	v, _ := strconv.ParseInt((frac + "000000000")[:9], 10, 64)
	return s, v
}

func spell(r *rand.Rand, sec, nano int64) string {
	offs := []int{0, 3600, -3600, 19800, -16200, 50400, -43200, 60, 5400}
	off := offs[r.Intn(len(offs))]
	t := time.Unix(sec, nano).In(time.FixedZone("", off))
	s := t.Format("2006-01-02T15:04:05")
	switch r.Intn(4) {
	case 0:
	case 1:
		s += "." + fmt.Sprintf("%09d", nano)[:1+r.Intn(9)]
	case 2:
		if nano != 0 {
			s += "." + strings.TrimRight(fmt.Sprintf("%09d", nano), "0")
		}
	case 3:
		s += "." + fmt.Sprintf("%09d", nano)
	}
	if off == 0 && r.Intn(2) == 0 {
		return s + "Z"
	}
	sign := "+"
	a := off
	if a < 0 {
		sign = "-"
		a = -a
	}
	hh, mm := a/3600, a%3600/60
	if off == 0 {
		sign = "+"
	}
	switch r.Intn(3) {
	case 0:
		return s + fmt.Sprintf("%s%02d:%02d", sign, hh, mm)
	case 1:
		return s + fmt.Sprintf("%s%02d%02d", sign, hh, mm)
	default:
		if mm == 0 {
			return s + fmt.Sprintf("%s%02d", sign, hh)
		}
		return s + fmt.Sprintf("%s%02d:%02d", sign, hh, mm)
	}
}

func mutate(r *rand.Rand, s string) string {
	b := []byte(s)
	if len(b) == 0 {
		return "x"
	}
	alpha := "0123456789-+:.TZz \"nulXe/\\"
	switch r.Intn(5) {
	case 0:
		b[r.Intn(len(b))] = alpha[r.Intn(len(alpha))]
	case 1:
		i := r.Intn(len(b))
		b = append(b[:i], b[i+1:]...)
	case 2:
		i := r.Intn(len(b) + 1)
		b = append(b[:i], append([]byte{alpha[r.Intn(len(alpha))]}, b[i:]...)...)
	case 3:
		b = b[:r.Intn(len(b))]
	case 4:
		i := r.Intn(len(b))
		b[i] = byte('0' + r.Intn(10))
	}
	return string(b)
}

func (datetime) Gen(r *rand.Rand, sessions int) []string {
	var out []string
	tokens := []string{"null", "true", "false", "0", "123", "1.5e3", "{}", "[]", "\"\"", "\"null\"", "nul", "nulll", " null", "NULL",
		"\"ul\"", "\"xl\"", "nuxx", "xull", "n\"l\"", "\"u\"\"", "nXll", "nuXl", "nulX", "\"ull", "n   ", "    ", "\"5\"", "\"2020\"", "\"2020-02\"",
		"\"2020-1-1T1:1:1Z\"", "\"2020-02-30T00:00:00Z\"", "\"2021-02-29T00:00:00Z\"", "\"2020-02-29T00:00:00Z\"", "\"2020-13-01T00:00:00Z\"",
		"\"2020-01-01T24:00:00Z\"", "\"2020-01-01T23:60:00Z\"", "\"2020-01-01T23:59:60Z\"", "\"2020-01-01T00:00:00-00:00\"", "\"2020-01-01T00:00:00+00:00\"",
		"\"2020-01-01T00:00:00\"", "\"2020-01-01\"", "\"2020-01-01T00:00:00.0000000001Z\"", "\"2020-01-01T00:00:00.1234567891Z\"", "\"+2020-01-01T00:00:00Z\"",
		"\"2020-01-01T00:00:00Zjunk\"", "\"2020-01-01T00:00:00+1:00\"", "\"2020-01-01T00:00:00+0100\"", "\"2020-01-01T00:00:00+01\"", "\"2020-01-01T10:20:30:40\"",
		"\"2020-01-01 00:00:00Z\"", "\"20200101T000000Z\"", "2020-01-01T00:00:00Z", "\"2020-01-01T00:00:00Z", "2020-01-01T00:00:00Z\"", "\"2020-01-01T00:00:00.Z\"",
		"\"99999-01-01T00:00:00Z\"", "\"0000-01-01T00:00:00Z\"", "\"9999-12-31T23:59:59.999999999Z\"", "\"2020-01-01T00:00:00+14:00\"", "\"2020-01-01T00:00:00-12:00\"", "\"T\"", "\"Z\"", "\"-\"", "\"--\"", "\":\"",
		"\"2020-01-01T00:00:00+99:99\"", "\"2020-01-01T00:00:00.99999999999999999999Z\""}
	for s := 0; s < sessions; s++ {
		out = append(out, "reset")
		v := pick(r, "16", "201")
		for i := 0; i < 12; i++ {
			sec, nano := randInstant(r)
			switch k := r.Intn(10); {
			case k < 4:
				sp, en := spellX(r, sec, nano)
				out = append(out, fmt.Sprintf("dtx%s %s %d %d", v, hex.EncodeToString([]byte("\""+sp+"\"")), sec, en))
			case k < 6:
				out = append(out, "dt"+v+" "+hex.EncodeToString([]byte(mutate(r, "\""+spell(r, sec, nano)+"\""))))
			case k == 6:
				out = append(out, "dt"+v+" "+hex.EncodeToString([]byte(tokens[r.Intn(len(tokens))])))
			case k == 7:
				out = append(out, "dt"+v+" "+hex.EncodeToString([]byte(mutate(r, tokens[r.Intn(len(tokens))]))))
			case k == 8:
				out = append(out, fmt.Sprintf("fmt%s %d %d", v, sec, nano))
			default:
				out = append(out, fmt.Sprintf("fmtnano%s %d %d", v, sec, nano))
			}
		}
	}
	return out
}

func (datetime) Run(ops []string, emit func(string)) {
	for _, l := range ops {
		f := fields(l)
		emit(guard(func() string {
			switch f[0] {
			case "reset":
				return "ok"
			case "dt16", "dt201", "dtx16", "dtx201":
				f[0] = strings.Replace(f[0], "dtx", "dt", 1)
				var b []byte
				if len(f) > 1 {
					b, _ = hex.DecodeString(f[1])
				}
				var tt time.Time
				var err error
				if f[0] == "dt16" {
					d := t16.DateTime{Time: sentinel}
					err = d.UnmarshalJSON(b)
					tt = d.Time
				} else {
					d := t201.DateTime{Time: sentinel}
					err = d.UnmarshalJSON(b)
					tt = d.Time
				}
				if err != nil {
					return "error"
				}
				if tt == sentinel {
					return "unset"
				}
				return fmt.Sprintf("ok %d %d", tt.Unix(), tt.Nanosecond())
			case "fmt16", "fmt201", "fmtnano16", "fmtnano201":
				sec, _ := strconv.ParseInt(f[1], 10, 64)
				nano, _ := strconv.ParseInt(f[2], 10, 64)
				layout := time.RFC3339
				if strings.HasPrefix(f[0], "fmtnano") {
					layout = time.RFC3339Nano
				}
				// observe in a non-UTC zone: the library must convert to UTC itself
				tm := time.Unix(sec, nano).In(time.FixedZone("x", 7200))
				var b []byte
				var err error
				if strings.HasSuffix(f[0], "16") {
					old := t16.DateTimeFormat
					t16.DateTimeFormat = layout
					b, err = t16.NewDateTime(tm).MarshalJSON()
					t16.DateTimeFormat = old
				} else {
					old := t201.DateTimeFormat
					t201.DateTimeFormat = layout
					b, err = t201.NewDateTime(tm).MarshalJSON()
					t201.DateTimeFormat = old
				}
				if err != nil {
					return "error"
				}
				return hex.EncodeToString(b)
			}
			return "bad-op"
		}))
	}
}
