package main

import (
	"bytes"
	"encoding/hex"
	"encoding/json"
	"fmt"
	"math/rand"
	"strings"
	"time"

	"github.com/lorenzodonini/ocpp-go/ocpp"
	core16 "github.com/lorenzodonini/ocpp-go/ocpp1.6/core"
	"github.com/lorenzodonini/ocpp-go/ocpp2.0.1/authorization"
	"github.com/lorenzodonini/ocpp-go/ocpp2.0.1/availability"
	"github.com/lorenzodonini/ocpp-go/ocppj"
	"github.com/lorenzodonini/ocpp-go/ws"
)

// H2/c06: arbitrary frames into the real ocppMessageHandler of ocppj client / server endpoints (both dialects),
// optionally with a request outstanding and one queued; vs the Lean model Ocpp.OJ.classify.
//   f <ver> <role> <pend:0|1> <hex bytes> | <tokens of the decoded JSON, X if not JSON>
// output: <what happened> then `state=<ok|...>` (outstanding and queued request intact) and `follow=<ok|bad>`
// (a following valid exchange is processed normally)

type c06suite struct{}

func init() {
	suites["c06"] = c06suite{}
	childSuites["c06"] = func(ops []string, emit func(string)) {
		for _, l := range ops {
			emit(guard(func() string { return c06Frame(fields(l)) }))
		}
	}
}

func tokensOf(v interface{}, sb *strings.Builder) {
	switch x := v.(type) {
	case nil:
		sb.WriteString(" Z")
	case bool:
		if x {
			sb.WriteString(" T")
		} else {
			sb.WriteString(" F")
		}
	case float64:
		fmt.Fprintf(sb, " N%d:%v", int(x), strings.ReplaceAll(fmt.Sprint(x), " ", ""))
	case json.Number:
		fl, _ := x.Float64()
		fmt.Fprintf(sb, " N%d:%s", int(fl), string(x))
	case int:
		fmt.Fprintf(sb, " N%d:%d", x, x)
	case string:
		sb.WriteString(" S" + hex.EncodeToString([]byte(x)))
	case []interface{}:
		fmt.Fprintf(sb, " A%d", len(x))
		for _, e := range x {
			tokensOf(e, sb)
		}
	case map[string]interface{}:
		fmt.Fprintf(sb, " O%d", len(x))
		// deterministic order
		keys := make([]string, 0, len(x))
		for k := range x {
			keys = append(keys, k)
		}
		sortStrings(keys)
		for _, k := range keys {
			sb.WriteString(" K" + hex.EncodeToString([]byte(k)))
			tokensOf(x[k], sb)
		}
	}
}

func sortStrings(s []string) {
	for i := 1; i < len(s); i++ {
		for j := i; j > 0 && s[j] < s[j-1]; j-- {
			s[j], s[j-1] = s[j-1], s[j]
		}
	}
}

var frameLineN int

func frameLine(ver, role string, pend bool, raw []byte) string {
	var v interface{}
	tok := " X"
	dec := json.NewDecoder(bytes.NewReader(raw))
	if err := dec.Decode(&v); err == nil && !dec.More() {
		// encoding/json.Unmarshal also rejects trailing garbage
		var probe interface{}
		if json.Unmarshal(raw, &probe) == nil {
			var sb strings.Builder
			tokensOf(v, &sb)
			tok = sb.String()
		}
	}
	p := "0"
	if pend {
		p = "1"
	}
	// every fourth frame: an invalid-message hook is installed that returns a fresh error (same code and description, no
	// message id): the endpoint must still address its CALL_ERROR to the frame's id
	frameLineN++
	if frameLineN%4 == 0 {
		p += "h"
	}
	return fmt.Sprintf("f %s %s %s h%s |%s", ver, role, p, hex.EncodeToString(raw), tok)
}

func (c06suite) Gen(r *rand.Rand, sessions int) []string {
	var out []string
	ids := []string{`"pid"`, `"pid"`, `"other"`, `""`, `5`, `null`, `"` + strings.Repeat("x", 36) + `"`, `"` + strings.Repeat("y", 37) + `"`, `"qid"`, `true`, `"péd"`}
	types := []string{"2", "3", "4", "2", "3", "4", "2.9", "3.5", "1e30", "-1", "0", "5", `"2"`, "null", "[2]", "2.0", "4e0"}
	codes := []string{`"GenericError"`, `"NotSupported"`, `"Bogus"`, `7`, `""`, `"FormationViolation"`, `"genericerror"`, `null`}
	payloads := []string{`{}`, `null`, `{"x":1}`, `5`, `"str"`, `[]`, `{"currentTime":"2020-01-01T00:00:00Z"}`, `{"currentTime":5}`, `{"currentTime":null}`, `{"currentTime":"garbage"}`, `true`,
		`{"a":{"b":{"c":{"d":{"e":[1,[2,[3,[4]]]]}}}}}`, `{"currentTime":"2020-01-01T00:00:00Z","extra":[1,2,3]}`, `1e400`,
		`{"status":"Accepted"}`, `{"status":"Rejected","x":null}`, `{"status":"Bogus"}`, `{"status":5}`, `{"status":null}`}
	junk := []string{``, `{`, `[`, `]`, `[2,"pid"`, `{"a":1}`, `"just a string"`, `42`, `null`, `[]`, `[2]`, `[2,"pid"]`, `nul`, `[2,"pid","Heartbeat",{}] trailing`, `[2,"pid","Heartbeat",{}]]`, "\x00\x01\x02", `[2,,]`, `[1e999,"pid","Heartbeat",{}]`,
		strings.Repeat("[", 200) + strings.Repeat("]", 200), `[3,"pid",{"currentTime":"2020-01-01T00:00:00Z"}]`, `[4,"pid","GenericError","d",{}]`}
	for s := 0; s < sessions; s++ {
		ver := pick(r, "R16", "R201")
		role := pick(r, "cp", "cs")
		pend := r.Intn(3) != 0
		action := map[string]string{"cp": "ClearCache", "cs": "Heartbeat"}[role]
		actions := []string{`"` + action + `"`, `"` + action + `"`, `"Bogus"`, `"` + map[string]string{"cp": "Heartbeat", "cs": "ClearCache"}[role] + `"`, `7`, `null`, `""`, `"` + strings.Repeat("A", 40) + `"`}
		var raw string
		switch k := r.Intn(10); {
		case k < 1:
			raw = junk[r.Intn(len(junk))]
		case k < 9:
			t := types[r.Intn(len(types))]
			if r.Intn(2) == 0 {
				t = pick(r, "2", "3", "4")
			}
			id := ids[r.Intn(len(ids))]
			if r.Intn(2) == 0 {
				id = pick(r, `"pid"`, `"pid"`, `"other"`, `"qid"`)
			}
			var rest []string
			switch {
			case strings.HasPrefix(t, "2"):
				rest = []string{actions[r.Intn(len(actions))], payloads[r.Intn(len(payloads))]}
			case strings.HasPrefix(t, "3"):
				rest = []string{payloads[r.Intn(len(payloads))]}
			case strings.HasPrefix(t, "4"):
				rest = []string{codes[r.Intn(len(codes))], pick(r, `"desc"`, `5`, `null`), pick(r, `{}`, `null`, `[1]`)}
			default:
				rest = []string{actions[r.Intn(len(actions))], payloads[r.Intn(len(payloads))]}
			}
			// vary the length
			switch r.Intn(8) {
			case 0:
				if len(rest) > 0 {
					rest = rest[:len(rest)-1]
				}
			case 1:
				rest = append(rest, pick(r, `{}`, `1`, `"x"`))
			case 2:
				rest = nil
			}
			raw = "[" + strings.Join(append([]string{t, id}, rest...), ",") + "]"
		default:
			raw = mutate(r, `[2,"pid","`+action+`",{}]`)
		}
		out = append(out, frameLine(ver, role, pend, []byte(raw)))
	}
	return out
}

func (c06suite) Run(ops []string, emit func(string)) { runIsolated("c06", ops, emit) }

func c06Frame(f []string) string {
	if len(f) < 5 || f[0] != "f" {
		return "bad-op"
	}
	ver, role, pend := f[1], f[2], strings.HasPrefix(f[3], "1")
	hook := strings.HasSuffix(f[3], "h")
	raw, _ := hex.DecodeString(strings.TrimPrefix(f[4], "h"))
	var lg []string
	note := func(s string) { lg = append(lg, s) }
	nextID := "pid"
	ocppj.SetMessageIdGenerator(func() string { return nextID })
	dialect := ocpp.V16
	if ver == "R201" {
		dialect = ocpp.V2
	}
	var deliver func([]byte) error
	var takeWrites func() [][]byte
	var send func() error
	var hasPending func() bool
	var queueLen func() int
	var stop func()
	var hbReq, ccReq ocpp.Request
	var profile *ocpp.Profile
	if ver == "R16" {
		hbReq, ccReq, profile = core16.NewHeartbeatRequest(), core16.NewClearCacheRequest(), core16.Profile
	} else {
		hbReq, ccReq = availability.NewHeartbeatRequest(), authorization.NewClearCacheRequest()
		profile = ocpp.NewProfile("mix", availability.HeartbeatFeature{}, authorization.ClearCacheFeature{})
	}
	if role == "cp" {
		fc := &fakeClient{}
		q := ocppj.NewFIFOClientQueue(0)
		d := ocppj.NewDefaultClientDispatcher(q)
		d.SetTimeout(5 * time.Second)
		c := ocppj.NewClient("cp1", fc, d, nil, profile)
		c.SetDialect(dialect)
		c.SetRequestHandler(func(r ocpp.Request, id, action string) { note("call:" + id + ":" + action) })
		c.SetResponseHandler(func(r ocpp.Response, id string) { note("result:" + id) })
		c.SetErrorHandler(func(e *ocpp.Error, det interface{}) { note("error:" + e.MessageId) })
		if hook {
			c.SetInvalidMessageHook(func(err *ocpp.Error, rawMessage string, parsedFields []interface{}) *ocpp.Error {
				return ocpp.NewError(err.Code, err.Description, "")
			})
		}
		_ = c.Start("ws://fake")
		deliver = fc.deliver
		takeWrites = fc.takeWrites
		send = func() error { return c.SendRequest(hbReq) }
		hasPending = c.RequestState.HasPendingRequest
		queueLen = q.Size
		stop = c.Stop
	} else {
		fs := newFakeServer()
		qm := ocppj.NewFIFOQueueMap(0)
		d := ocppj.NewDefaultServerDispatcher(qm)
		d.SetTimeout(5 * time.Second)
		s := ocppj.NewServer(fs, d, nil, profile)
		s.SetDialect(dialect)
		s.SetRequestHandler(func(ch ws.Channel, r ocpp.Request, id, action string) { note("call:" + id + ":" + action) })
		s.SetResponseHandler(func(ch ws.Channel, r ocpp.Response, id string) { note("result:" + id) })
		s.SetErrorHandler(func(ch ws.Channel, e *ocpp.Error, det interface{}) { note("error:" + e.MessageId) })
		if hook {
			s.SetInvalidMessageHook(func(ch ws.Channel, err *ocpp.Error, rawJson string, parsedFields []interface{}) *ocpp.Error {
				return ocpp.NewError(err.Code, err.Description, "")
			})
		}
		go s.Start(0, "/")
		waitRunning(d)
		fs.connect("c1")
		deliver = func(b []byte) error { return fs.deliver("c1", b) }
		takeWrites = func() [][]byte {
			var r [][]byte
			for _, w := range fs.takeWrites() {
				r = append(r, w.data)
			}
			return r
		}
		send = func() error { return s.SendRequest("c1", ccReq) }
		hasPending = func() bool { return s.RequestState.HasPendingRequest("c1") }
		queueLen = func() int {
			if q, ok := qm.Get("c1"); ok {
				return q.Size()
			}
			return -1
		}
		stop = s.Stop
	}
	defer func() {
		defer func() { _ = recover() }()
		stop()
	}()
	waitW := func(n int) [][]byte {
		var got [][]byte
		for i := 0; i < 4000 && len(got) < n; i++ {
			got = append(got, takeWrites()...)
			if len(got) < n {
				time.Sleep(50 * time.Microsecond)
			}
		}
		return got
	}
	if pend {
		nextID = "pid"
		_ = send()
		waitW(1)
		nextID = "qid"
		_ = send() // queued behind pid
	}
	_, _ = quiesce(200 * time.Millisecond)
	lg = nil
	herr := deliver(raw)
	_, _ = quiesce(300 * time.Millisecond)
	ws := takeWrites()
	var what []string
	if herr != nil {
		what = append(what, "err")
	}
	what = append(what, lg...)
	for _, w := range ws {
		fr, err := parseFrame(w)
		switch {
		case err != nil:
			what = append(what, "wrote-unparsable")
		case fr.Type == 4:
			what = append(what, "reply:"+hex.EncodeToString([]byte(fr.ID))+":"+fr.Code)
		case fr.Type == 2:
			what = append(what, "wrote-call:"+fr.ID)
		default:
			what = append(what, fmt.Sprintf("wrote-type%d", fr.Type))
		}
	}
	if len(what) == 0 {
		what = []string{"nothing"}
	}
	if herr != nil {
		// errors surfaced to the websocket layer: keep the class only
		switch {
		case strings.Contains(herr.Error(), "ocpp message"):
			what[0] = "err"
		}
	}
	// state afterwards: outstanding + queued request intact, unless the frame was the genuine reply
	state := "ok"
	genuine := false
	for _, w := range what {
		if w == "result:pid" || w == "error:pid" {
			genuine = true
		}
	}
	if pend && !genuine {
		if !hasPending() || queueLen() != 2 {
			state = fmt.Sprintf("corrupt(pending=%v,queue=%d)", hasPending(), queueLen())
		}
	}
	if !pend && (hasPending() || queueLen() > 0) {
		state = fmt.Sprintf("corrupt(pending=%v,queue=%d)", hasPending(), queueLen())
	}
	// following valid traffic: the genuine reply to pid (if still outstanding), else a fresh exchange
	follow := "ok"
	lg = nil
	okReply := `{"currentTime":"2020-01-01T00:00:00Z"}`
	if role == "cs" {
		okReply = `{"status":"Accepted"}`
	}
	if pend && !genuine {
		_ = deliver([]byte(`[3,"pid",` + okReply + `]`))
		_, _ = quiesce(300 * time.Millisecond)
		w := waitW(1)
		if len(lg) != 1 || lg[0] != "result:pid" || len(w) != 1 {
			follow = fmt.Sprintf("bad(%v,%d)", lg, len(w))
		}
	} else {
		nextID = "nid"
		if genuine {
			// the queued request qid must have been written; answer it first
			_ = deliver([]byte(`[3,"qid",` + okReply + `]`))
			_, _ = quiesce(300 * time.Millisecond)
			lg = nil
		}
		if err := send(); err != nil {
			follow = "bad(send:" + err.Error() + ")"
		} else {
			waitW(1)
			_ = deliver([]byte(`[3,"nid",` + okReply + `]`))
			_, _ = quiesce(300 * time.Millisecond)
			if len(lg) != 1 || lg[0] != "result:nid" {
				follow = fmt.Sprintf("bad(%v)", lg)
			}
		}
	}
	return strings.Join(what, " ") + " state=" + state + " follow=" + follow
}
