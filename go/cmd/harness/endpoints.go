package main

import (
	"encoding/json"
	"fmt"
	"reflect"
	"sort"
	"sync/atomic"
	"time"

	"github.com/lorenzodonini/ocpp-go/ocpp"
	ocpp16 "github.com/lorenzodonini/ocpp-go/ocpp1.6"
	ocpp201 "github.com/lorenzodonini/ocpp-go/ocpp2.0.1"
	"github.com/lorenzodonini/ocpp-go/ocppj"
)

// endpoint is a uniform wrapper over the four protocol endpoints, running on in-memory fake websockets.
type endpoint struct {
	ver, role string
	fc        *fakeClient
	fs        *fakeServer
	hub       *stubHub
	sendAsync func(client string, req ocpp.Request, cb func(ocpp.Response, error)) error
	sendSync  func(req ocpp.Request) (ocpp.Response, error) // client roles only
	stop      func()
	start     func()
	errors    func() <-chan error
	jclient   *ocppj.Client
	jserver   *ocppj.Server
	onConn    func(id string) // application-level handlers (optional), set before start
	onDisc    func(id string)
}

type epOpts struct {
	skipHandlers map[string]bool // setter names not to install
	timeout      time.Duration
	queueCap     int
	appHandlers  bool
	noStart      bool
	clientQueue  ocppj.RequestQueue
	clientState  ocppj.ClientState
	queueMap     ocppj.ServerQueueMap
	// the reader is slow between the completion of a request and the invocation of its response / error handler
	slowComplete time.Duration
}

// dispatchers whose CompleteRequest, as called by the ocppj reader through the interface, returns late
// (the message pump calls the embedded dispatcher's own method and is not slowed down)
type slowClientDisp struct {
	*ocppj.DefaultClientDispatcher
	d time.Duration
}

func (s slowClientDisp) CompleteRequest(id string) {
	s.DefaultClientDispatcher.CompleteRequest(id)
	time.Sleep(s.d)
}

type slowServerDisp struct {
	*ocppj.DefaultServerDispatcher
	d time.Duration
}

func (s slowServerDisp) CompleteRequest(clientID, id string) {
	s.DefaultServerDispatcher.CompleteRequest(clientID, id)
	time.Sleep(s.d)
}

var idCounter int64

// deterministic, fresh message ids (assumption A-ID)
func installIdGen() {
	ocppj.SetMessageIdGenerator(func() string { return fmt.Sprintf("m%d", atomic.AddInt64(&idCounter, 1)) })
}

func profileList(ver string) []*ocpp.Profile {
	m := profiles_R16
	if ver == "R201" {
		m = profiles_R201
	}
	var ks []string
	for k := range m {
		ks = append(ks, k)
	}
	sort.Strings(ks)
	var r []*ocpp.Profile
	for _, k := range ks {
		r = append(r, m[k])
	}
	return r
}

func featureOf(ver, name string) ocpp.Feature {
	for _, p := range profileList(ver) {
		if f, ok := p.Features[name]; ok {
			return f
		}
	}
	return nil
}

func allFeatures(ver string) []string {
	var r []string
	for _, p := range profileList(ver) {
		for n := range p.Features {
			r = append(r, n)
		}
	}
	sort.Strings(r)
	return r
}

func newEndpoint(ver, role string, o epOpts) *endpoint {
	installIdGen()
	e := &endpoint{ver: ver, role: role, hub: &stubHub{}}
	if o.timeout == 0 {
		o.timeout = 30 * time.Second
	}
	if role == "cp" {
		e.fc = &fakeClient{}
		var q ocppj.RequestQueue = ocppj.NewFIFOClientQueue(o.queueCap)
		if o.clientQueue != nil {
			q = o.clientQueue
		}
		d := ocppj.NewDefaultClientDispatcher(q)
		d.SetTimeout(o.timeout)
		var cd ocppj.ClientDispatcher = d
		if o.slowComplete > 0 {
			cd = slowClientDisp{d, o.slowComplete}
		}
		e.jclient = ocppj.NewClient("cp1", e.fc, cd, o.clientState, profileList(ver)...)
		if ver == "R16" {
			cp := ocpp16.NewChargePoint("cp1", e.jclient, e.fc)
			installStubs_R16_cp(cp, e.hub, o.skipHandlers)
			e.sendAsync = func(_ string, req ocpp.Request, cb func(ocpp.Response, error)) error { return cp.SendRequestAsync(req, cb) }
			e.sendSync = cp.SendRequest
			e.stop = cp.Stop
			e.errors = cp.Errors
			e.start = func() { _ = cp.Start("ws://fake") }
			if !o.noStart {
				_ = cp.Start("ws://fake")
			}
		} else {
			cs := ocpp201.NewChargingStation("cp1", e.jclient, e.fc)
			installStubs_R201_cp(cs, e.hub, o.skipHandlers)
			e.sendAsync = func(_ string, req ocpp.Request, cb func(ocpp.Response, error)) error { return cs.SendRequestAsync(req, cb) }
			e.sendSync = cs.SendRequest
			e.stop = cs.Stop
			e.errors = cs.Errors
			e.start = func() { _ = cs.Start("ws://fake") }
			if !o.noStart {
				_ = cs.Start("ws://fake")
			}
		}
	} else {
		e.fs = newFakeServer()
		var qm ocppj.ServerQueueMap = ocppj.NewFIFOQueueMap(o.queueCap)
		if o.queueMap != nil {
			qm = o.queueMap
		}
		d := ocppj.NewDefaultServerDispatcher(qm)
		d.SetTimeout(o.timeout)
		var sd ocppj.ServerDispatcher = d
		if o.slowComplete > 0 {
			sd = slowServerDisp{d, o.slowComplete}
		}
		e.jserver = ocppj.NewServer(e.fs, sd, nil, profileList(ver)...)
		if ver == "R16" {
			cs := ocpp16.NewCentralSystem(e.jserver, e.fs)
			installStubs_R16_cs(cs, e.hub, o.skipHandlers)
			if o.appHandlers {
				cs.SetNewChargePointHandler(func(c ocpp16.ChargePointConnection) {
					if e.onConn != nil {
						e.onConn(c.ID())
					}
				})
				cs.SetChargePointDisconnectedHandler(func(c ocpp16.ChargePointConnection) {
					if e.onDisc != nil {
						e.onDisc(c.ID())
					}
				})
			}
			e.sendAsync = cs.SendRequestAsync
			e.stop = cs.Stop
			e.errors = cs.Errors
			e.start = func() { go cs.Start(0, "/"); waitRunning(d) }
			if !o.noStart {
				go cs.Start(0, "/")
			}
		} else {
			cs := ocpp201.NewCSMS(e.jserver, e.fs)
			installStubs_R201_cs(cs, e.hub, o.skipHandlers)
			if o.appHandlers {
				cs.SetNewChargingStationHandler(func(c ocpp201.ChargingStationConnection) {
					if e.onConn != nil {
						e.onConn(c.ID())
					}
				})
				cs.SetChargingStationDisconnectedHandler(func(c ocpp201.ChargingStationConnection) {
					if e.onDisc != nil {
						e.onDisc(c.ID())
					}
				})
			}
			e.sendAsync = cs.SendRequestAsync
			e.stop = cs.Stop
			e.errors = cs.Errors
			e.start = func() { go cs.Start(0, "/"); waitRunning(d) }
			if !o.noStart {
				go cs.Start(0, "/")
			}
		}
		if !o.noStart {
			// wait until the dispatcher runs (Start is asynchronous for servers)
			for i := 0; i < 2000; i++ {
				if d.IsRunning() {
					break
				}
				time.Sleep(100 * time.Microsecond)
			}
		}
	}
	return e
}

func waitRunning(d *ocppj.DefaultServerDispatcher) {
	for i := 0; i < 5000 && !d.IsRunning(); i++ {
		time.Sleep(50 * time.Microsecond)
	}
}

func (e *endpoint) deliver(client string, data []byte) error {
	if e.role == "cp" {
		return e.fc.deliver(data)
	}
	return e.fs.deliver(client, data)
}

func (e *endpoint) takeWrites() []srvWrite {
	if e.role == "cp" {
		var r []srvWrite
		for _, w := range e.fc.takeWrites() {
			r = append(r, srvWrite{"", w})
		}
		return r
	}
	return e.fs.takeWrites()
}

// waitWrites polls until n frames were written or the timeout expires
func (e *endpoint) waitWrites(n int, d time.Duration) []srvWrite {
	var got []srvWrite
	deadline := time.Now().Add(d)
	for {
		got = append(got, e.takeWrites()...)
		if len(got) >= n || time.Now().After(deadline) {
			return got
		}
		time.Sleep(200 * time.Microsecond)
	}
}

type frame struct {
	Type    int
	ID      string
	Action  string          // CALL
	Code    string          // CALL_ERROR
	Desc    string          // CALL_ERROR
	Payload json.RawMessage // CALL / CALL_RESULT payload, CALL_ERROR details
	N       int             // array length
}

func parseFrame(b []byte) (frame, error) {
	var arr []json.RawMessage
	var f frame
	if err := json.Unmarshal(b, &arr); err != nil {
		return f, err
	}
	f.N = len(arr)
	if len(arr) < 3 {
		return f, fmt.Errorf("short frame")
	}
	if err := json.Unmarshal(arr[0], &f.Type); err != nil {
		return f, err
	}
	if err := json.Unmarshal(arr[1], &f.ID); err != nil {
		return f, err
	}
	switch f.Type {
	case 2:
		_ = json.Unmarshal(arr[2], &f.Action)
		if len(arr) > 3 {
			f.Payload = arr[3]
		}
	case 3:
		f.Payload = arr[2]
	case 4:
		_ = json.Unmarshal(arr[2], &f.Code)
		if len(arr) > 3 {
			_ = json.Unmarshal(arr[3], &f.Desc)
		}
		if len(arr) > 4 {
			f.Payload = arr[4]
		}
	}
	return f, nil
}

func newReq(ver, feature string) ocpp.Request {
	f := featureOf(ver, feature)
	if f == nil {
		return nil
	}
	return reflect.New(f.GetRequestType()).Interface().(ocpp.Request)
}
