package main

import (
	"fmt"
	"math/rand"
	"net"
	"strings"
	"sync"
	"time"

	"github.com/lorenzodonini/ocpp-go/ocpp"
	"github.com/lorenzodonini/ocpp-go/ocpp1.6/core"
	"github.com/lorenzodonini/ocpp-go/ocppj"
	"github.com/lorenzodonini/ocpp-go/ws"
)

// Rounds c11_leak (C11, directed, on the implementation): an ocppj.Server on the REAL ws.Server on loopback, with an
// injected queue map (public interface ocppj.ServerQueueMap) whose Remove is slow. Client A connects as "cp", the
// server sends it r1 (written, never answered) and r2 (queued). A's connection ends. The websocket server releases the
// id and only then runs the disconnection handler, whose first step (DeleteClient -> Remove) is slow; meanwhile a new
// connection B with the same id is admitted (its announcement waits for the handler of A's connection to finish).
// r1 times out; the dispatcher - which still finds A's queue - writes r2, and the websocket server delivers it to
// whatever connection is registered under "cp": B. Whatever the timing, a CALL accepted during A's session must not
// reach B's connection ("nothing of that session ... leaks into a later session of a client with the same id").

func init() {
	roundsProp["c11_leak"] = "C11"
	rounds["c11_leak"] = func(seed int64, i int) roundResult {
		var res roundResult
		viol := func(sig, what string, replay interface{}) {
			for _, v := range res.Violations {
				if v.Sig == sig {
					return
				}
			}
			res.Violations = append(res.Violations, Violation{Property: "C11", Sig: sig, What: what, Replay: replay})
		}
		steps := "ocppj.Server on the real ws.Server with a queue map whose Remove takes 500 ms; raw client A connects as cp; SendRequest x2 (r1 written, r2 queued; time-out 150 ms); A closes; raw client B connects as cp while the disconnection handler of A is inside Remove; r1 times out"
		l := &slog{r: rand.New(rand.NewSource(1)), directed: true, stallSite: "qmap.Remove<", stallIdx: 1, stallDur: 500 * time.Millisecond}
		var mu sync.Mutex
		var cbs []string
		add := func(s string) { mu.Lock(); cbs = append(cbs, s); mu.Unlock() }
		snapshot := func() []string { mu.Lock(); defer mu.Unlock(); return append([]string{}, cbs...) }
		count := func(prefix string) int {
			n := 0
			for _, s := range snapshot() {
				if strings.HasPrefix(s, prefix) {
					n++
				}
			}
			return n
		}
		var idc int
		var idMu sync.Mutex
		ocppj.SetMessageIdGenerator(func() string { idMu.Lock(); defer idMu.Unlock(); idc++; return fmt.Sprintf("r%d", idc) })
		var srv *ocppj.Server
		port := 0
		for attempt := 0; attempt < 6 && port == 0; attempt++ {
			ln, err := net.Listen("tcp", "127.0.0.1:0")
			if err != nil {
				continue
			}
			p := ln.Addr().(*net.TCPAddr).Port
			_ = ln.Close()
			wsrv := ws.NewServer()
			qm := &gQueueMap{m: map[string]ocppj.RequestQueue{}, cap: 0, l: l}
			d := ocppj.NewDefaultServerDispatcher(qm)
			d.SetTimeout(150 * time.Millisecond)
			s := ocppj.NewServer(wsrv, d, nil, core.Profile)
			s.SetDialect(ocpp.V16)
			s.SetNewClientHandler(func(ch ws.Channel) { add("new:" + ch.ID()) })
			s.SetDisconnectedClientHandler(func(ch ws.Channel) { add("disc:" + ch.ID()) })
			s.SetRequestHandler(func(ch ws.Channel, r ocpp.Request, id string, action string) {})
			s.SetResponseHandler(func(ch ws.Channel, r ocpp.Response, id string) { add("resp:" + id) })
			s.SetErrorHandler(func(ch ws.Channel, e *ocpp.Error, det interface{}) { add("err:" + e.MessageId) })
			s.SetCanceledRequestHandler(func(c, id string, r ocpp.Request, e *ocpp.Error) { add("cancel:" + id) })
			go s.Start(p, "/{id}")
			if waitCond(1500*time.Millisecond, func() bool {
				conn, err := net.DialTimeout("tcp", fmt.Sprintf("127.0.0.1:%d", p), 200*time.Millisecond)
				if err != nil {
					return false
				}
				_ = conn.Close()
				return true
			}) {
				srv, port = s, p
			}
		}
		if srv == nil {
			fmt.Println("HARNESS-ERROR c11_leak: server did not start")
			return res
		}
		defer func() {
			done := make(chan struct{})
			go func() { srv.Stop(); close(done) }()
			select {
			case <-done:
			case <-time.After(5 * time.Second):
			}
		}()
		url := fmt.Sprintf("ws://127.0.0.1:%d/cp", port)
		a := rawDial(url, []string{"ocpp1.6"}, nil)
		if a.err != nil {
			fmt.Println("HARNESS-ERROR c11_leak: dial A", a.err)
			return res
		}
		ra := newRawClient(a.conn)
		waitCond(2*time.Second, func() bool { return count("new:") == 1 })
		if err := srv.SendRequest("cp", core.NewClearCacheRequest()); err != nil {
			fmt.Println("HARNESS-ERROR c11_leak: send r1", err)
			return res
		}
		if err := srv.SendRequest("cp", core.NewClearCacheRequest()); err != nil {
			fmt.Println("HARNESS-ERROR c11_leak: send r2", err)
			return res
		}
		waitCond(time.Second, func() bool { _, n := ra.state(); return n >= 1 })
		_ = a.conn.Close()
		// B arrives with the same id as soon as the id is free
		var rb *rawClient
		deadline := time.Now().Add(450 * time.Millisecond)
		for time.Now().Before(deadline) && rb == nil {
			b := rawDial(url, []string{"ocpp1.6"}, nil)
			if b.err != nil {
				time.Sleep(2 * time.Millisecond)
				continue
			}
			rc := newRawClient(b.conn)
			time.Sleep(30 * time.Millisecond)
			if cl, _ := rc.state(); cl != "" {
				_ = b.conn.Close()
				continue
			}
			rb = rc
		}
		if rb == nil {
			// never admitted while the handler was busy: nothing to observe in this round
			res.Events = 1
			return res
		}
		defer rb.conn.Close()
		// let r1 time out, the handler finish, B be announced
		waitCond(3*time.Second, func() bool { return count("disc:") >= 1 && count("new:") >= 2 })
		time.Sleep(200 * time.Millisecond)
		rb.mu.Lock()
		got := append([]string{}, rb.got...)
		rb.mu.Unlock()
		res.Events = len(snapshot()) + len(got)
		for _, m := range got {
			if fr, err := parseFrame([]byte(m)); err == nil && fr.Type == 2 && (fr.ID == "r1" || fr.ID == "r2") {
				viol("leak/old-call-on-new-connection", fmt.Sprintf("CALL %s, accepted and queued during the previous session of cp, was written to the connection of the NEXT session of cp (callbacks %v)", fr.ID, snapshot()),
					map[string]interface{}{"steps": steps, "callbacks": snapshot(), "received_by_new_connection": got})
			}
		}
		return res
	}
}

func init() {
	monitors["c11_leak"] = func(seed int64, tier string) interface{} {
		n := 3
		if tier == "thorough" {
			n = 12
		}
		rep := &Report{Monitor: "c11_leak", Rule: "rounds in their own process: ocppj.Server on the real ws.Server with an injected queue map whose Remove is slow; client A (id cp) has one outstanding and one queued request when its connection ends; a new connection B with the same id is admitted while the disconnection handler of A is still running; the outstanding request times out: no CALL accepted during A's session may reach B's connection; distinct = rounds in which B was admitted in time", Stats: map[string]interface{}{}}
		results := runRounds("c11_leak", seed, n, 3)
		seen := map[string]bool{}
		for _, r := range results {
			rep.Evaluations++
			if r.Events >= 4 {
				rep.Distinct++
			}
			for _, v := range r.Violations {
				if !seen[v.Sig] {
					seen[v.Sig] = true
					rep.Violations = append(rep.Violations, v)
				}
			}
		}
		return rep
	}
}
