package main

import (
	"sync"
	"fmt"
	"math/rand"
	"sort"
	"strconv"
	"strings"
	"time"

	"github.com/lorenzodonini/ocpp-go/ocpp"
	core16 "github.com/lorenzodonini/ocpp-go/ocpp1.6/core"
	data201 "github.com/lorenzodonini/ocpp-go/ocpp2.0.1/data"
	"github.com/lorenzodonini/ocpp-go/ocppj"
)

// H3/l3: the real protocol endpoints (ocpp1.6 charge point / central system, ocpp2.0.1 charging station / CSMS)
// with their default ocppj layer on fake websockets, one event at a time, vs the Lean models Ocpp.L3.
// Every request is DataTransfer sent with SendRequestAsync and a callback tagged with the request id.

type l3suite struct{ server bool }

func init() {
	suites["l3s"] = l3suite{true}
	suites["l3c"] = l3suite{false}
	childSuites["l3s"] = func(ops []string, emit func(string)) { runL3(true, ops, emit) }
	childSuites["l3c"] = func(ops []string, emit func(string)) { runL3(false, ops, emit) }
}

func (s l3suite) Gen(r *rand.Rand, sessions int) []string {
	var base []string
	if s.server {
		base = sdisp{}.Gen(r, sessions)
	} else {
		base = cdisp{}.Gen(r, sessions)
	}
	// decorate the reset lines with protocol version and whether application connect/disconnect handlers are set
	var out []string
	wf := map[string]bool{}
	for _, l := range base {
		f := strings.Fields(l)
		switch f[0] {
		case "reset":
			l += " " + pick(r, "R16", "R201") + " " + pick(r, "app", "noapp", "appsend")
			wf = map[string]bool{}
		case "writefail":
			if s.server {
				wf[f[1]] = f[2] == "on"
			} else {
				wf[""] = f[1] == "on"
			}
		case "reply":
			// known finding (S4/S5, monitor c01_overtake): a reply immediately followed by a failing write of the
			// next request races the cancellation against the response; the outcome is not deterministic, so the
			// differential suite stays away from it
			c := ""
			if s.server {
				c = f[1]
			}
			if wf[c] {
				continue
			}
		}
		out = append(out, l)
	}
	return out
}

func (s l3suite) Run(ops []string, emit func(string)) {
	if s.server {
		runIsolated("l3s", ops, emit)
	} else {
		runIsolated("l3c", ops, emit)
	}
}

func dataTransferReq(ver string) ocpp.Request {
	if ver == "R201" {
		return data201.NewDataTransferRequest("vendor1")
	}
	return core16.NewDataTransferRequest("vendor1")
}

func runL3(server bool, ops []string, emit func(string)) {
	var e *endpoint
	lg := &evlog{}
	nextID := ""
	tainted, dead, running := false, false, false
	arms := &armTracker{}
	var waitStart time.Time
	var waitOldest time.Duration
	ver := "R16"
	discOps := 0
	inDisc := false
	var hmu sync.Mutex
	var hpre []string
	mkcb := func(lg *evlog, tag string) func(ocpp.Response, error) {
		return func(r ocpp.Response, err error) {
			if err != nil {
				oe, ok := err.(*ocpp.Error)
				if !ok {
					lg.add("deliv:" + tag + ":goerr:" + err.Error())
					return
				}
				kind := "err"
				switch {
				case strings.Contains(oe.Description, "Request timed out"):
					kind = "timeout"
				case oe.Code == ocppj.InternalError:
					kind = "write"
				case strings.Contains(oe.Description, "client disconnected"):
					kind = "disc"
				}
				lg.add("deliv:" + tag + ":" + kind + ":" + oe.MessageId)
				return
			}
			d := "?"
			switch v := r.(type) {
			case *core16.DataTransferConfirmation:
				d = fmt.Sprint(v.Data)
			case *data201.DataTransferResponse:
				d = fmt.Sprint(v.Data)
			}
			lg.add("deliv:" + tag + ":resp:" + d)
		}
	}
	for _, l := range ops {
		f := fields(l)
		if f[0] == "reset" {
			if e != nil && running && !dead {
				func() {
					defer func() { _ = recover() }()
					e.stop()
				}()
			}
			capacity, _ := strconv.Atoi(f[1])
			ver = "R16"
			app := false
			if len(f) > 2 {
				ver = f[2]
			}
			appsend := false
			if len(f) > 3 {
				app = f[3] == "app" || f[3] == "appsend"
				appsend = f[3] == "appsend" && server
			}
			discOps = 0
			lg = &evlog{}
			lg := lg
			role := "cp"
			if server {
				role = "cs"
			}
			installIdGen()
			e = newEndpoint(ver, role, epOpts{timeout: dispTimeout, queueCap: capacity, appHandlers: app, noStart: true})
			ocppj.SetMessageIdGenerator(func() string { return nextID })
			if server {
				e.fs.onWrite = func(c string, data []byte) {
					if fr, err := parseFrame(data); err == nil && fr.Type == 2 {
						arms.arm(c + ":" + fr.ID)
						lg.add("wrote:" + c + ":" + fr.ID)
					}
				}
			} else {
				e.fc.onWrite = func(data []byte) {
					if fr, err := parseFrame(data); err == nil && fr.Type == 2 {
						arms.arm(":" + fr.ID)
						lg.add("wrote::" + fr.ID)
					}
				}
			}
			if appsend {
				// the application's disconnect handler sends a request to the client that just went away
				lgc := lg
				e.onDisc = func(id string) {
					if !inDisc {
						return
					}
					hid := fmt.Sprintf("hd%sx%d", id, discOps)
					nextID = hid
					hmu.Lock()
					defer hmu.Unlock()
					if err := e.sendAsync(id, dataTransferReq(ver), mkcb(lgc, hid)); err != nil {
						hpre = append(hpre, "rejected:"+id+":"+hid)
					} else {
						hpre = append(hpre, "accepted:"+id+":"+hid)
					}
				}
			}
			arms.reset()
			tainted, dead, running = false, false, false
			rebaseStuck()
			emit("ok")
			continue
		}
		if dead {
			emit("DEAD")
			continue
		}
		if tainted {
			emit("TIMING")
			continue
		}
		lg := lg
		var pre []string
		reply := func(c, id, kind string) {
			var fr string
			if kind == "result" {
				fr = fmt.Sprintf(`[3,"%s",{"status":"Accepted","data":"%s"}]`, wireID(id), wireID(id))
			} else {
				fr = fmt.Sprintf(`[4,"%s","GenericError","some error",{}]`, wireID(id))
			}
			done := make(chan struct{})
			go func() { _ = e.deliver(c, []byte(fr)); close(done) }()
			select {
			case <-done:
			case <-time.After(300 * time.Millisecond):
			}
		}
		switch f[0] {
		case "start":
			if !running {
				e.start()
				running = true
			}
		case "stop":
			if running {
				pre = append(pre, "stopped")
				e.stop()
				running = false
				arms.reset()
			}
		case "connect":
			e.fs.connect(f[1])
		case "disconnect":
			discOps++
			if server {
				inDisc = true
				e.fs.disconnect(f[1])
				inDisc = false
				arms.dropPrefix(f[1] + ":")
			} else {
				e.fc.drop(fmt.Errorf("connection lost"))
				arms.reset()
			}
		case "reconnect":
			done := make(chan struct{})
			go func() { e.fc.reconnect(); close(done) }()
			select {
			case <-done:
			case <-time.After(300 * time.Millisecond):
			}
			arms.rearm()
		case "send":
			c, id := "", f[1]
			if server {
				c, id = f[1], f[2]
			}
			nextID = id
			if err := e.sendAsync(c, dataTransferReq(ver), mkcb(lg, id)); err != nil {
				pre = append(pre, "rejected:"+c+":"+id)
			} else {
				pre = append(pre, "accepted:"+c+":"+id)
			}
			time.Sleep(1500 * time.Microsecond)
		case "reply":
			if server {
				reply(f[1], f[2], f[3])
			} else {
				reply("", f[1], f[2])
			}
			time.Sleep(1500 * time.Microsecond)
		case "wait":
			waitStart, waitOldest = time.Now(), arms.oldest()
			if waitOldest > dispTimeout/2 {
				tainted = true
				emit("TIMING")
				continue
			}
			time.Sleep(dispTimeout + 20*time.Millisecond)
		case "writefail":
			if server {
				if f[2] == "on" {
					e.fs.setWriteErr(f[1], fmt.Errorf("injected write failure"))
				} else {
					e.fs.setWriteErr(f[1], nil)
				}
			} else {
				if f[1] == "on" {
					e.fc.setWriteErr(fmt.Errorf("injected write failure"))
				} else {
					e.fc.setWriteErr(nil)
				}
			}
		default:
			emit("bad-op")
			continue
		}
		out := settle(lg)
		// callbacks of server roles run in fresh goroutines: give them a moment, then collect again
		time.Sleep(300 * time.Microsecond)
		if more := settle(lg); more != "-" {
			if out == "-" {
				out = more
			} else {
				out += " " + more
			}
		}
		// arm tracking works on ocppj-style observation names
		arms.observe(strings.NewReplacer("deliv:", "resp:x:", "::", ":").Replace(out))
		for _, p := range strings.Split(out, " ") {
			if q := strings.Split(p, ":"); q[0] == "deliv" && len(q) >= 4 {
				arms.dropPrefix(":" + q[3])
				arms.dropSuffix(":" + q[3])
			}
		}
		if f[0] == "wait" && time.Since(waitStart)+waitOldest > 2*dispTimeout-10*time.Millisecond {
			tainted = true
			emit("TIMING")
			continue
		}
		if f[0] == "wait" && doubleTimeout(out) {
			tainted = true
			emit("TIMING")
			continue
		}
		if f[0] != "wait" && strings.Contains(out, ":timeout:") {
			tainted = true
			emit("TIMING")
			continue
		}
		if strings.Contains(out, "BLOCKED") {
			dead = true
			out = "BLOCKED"
			pre = nil
		}
		if out != "-" {
			// canonical order inside one event: writes in order, then deliveries sorted (server roles invoke
			// callbacks in fresh goroutines; the reader and the pump race after CompleteRequest)
			var w, d []string
			for _, p := range strings.Split(out, " ") {
				if strings.HasPrefix(p, "deliv:") || strings.HasPrefix(p, "orphan:") {
					d = append(d, p)
				} else {
					w = append(w, p)
				}
			}
			sort.Strings(d)
			out = strings.Join(append(w, d...), " ")
		}
		hmu.Lock()
		pre = append(pre, hpre...)
		hpre = nil
		hmu.Unlock()
		if len(pre) > 0 {
			if out == "-" {
				out = strings.Join(pre, " ")
			} else {
				out = strings.Join(pre, " ") + " " + out
			}
		}
		emit(out)
	}
}
