package main

import (
	"encoding/json"
	"os"
	"fmt"
	"math/rand"
	"sort"
	"strings"
	"sync"
	"sync/atomic"
	"time"

	"github.com/lorenzodonini/ocpp-go/ocpp"
	"github.com/lorenzodonini/ocpp-go/ocpp1.6/core"
	"github.com/lorenzodonini/ocpp-go/ocppj"
	"github.com/lorenzodonini/ocpp-go/ws"
)

// H4: systematic single-stall schedule exploration. A small scripted scenario is run once per (gate site, j):
// the j-th hit of that gate sleeps longer than the dispatcher timeout, which places "a timeout passes / another
// goroutine runs first" exactly at that point of the code. Deterministic replays for the interleavings that the
// quiescent model cannot express. A search, not a proof.

type scOp struct {
	at     float64 // in units of the dispatcher timeout T
	kind   string  // send | disconnect | connect | writefail-on | writefail-off
	client string
}

type scenario struct {
	name    string
	server  bool
	clients []string
	ops     []scOp
	reply   map[string]float64 // request id -> reply delay in T units; <0 = never; ids are r1, r2, ... in send order
	end     float64
	// directed scenarios: run only with these stalls ("site|hit"); they must be clean on the unchanged tree, so
	// their violations carry the scenario name in the signature and the property named here
	only []string
	prop string
	also []string // further properties this directed scenario is evidence for (same signature)
	noTimeout bool // server dispatcher configured without a request timeout (SetTimeout(0))
	mustReject []string // requests (ids in send order) that the send API has to refuse: they must never be pushed
	scale  int      // time unit = scale x 10 ms (default 1); directed scenarios use a coarser unit to be robust under load
	stall  float64  // duration of the stall in time units (default 1.5)
	sigs   []string // if set: only these kinds of log-check violations count for this scenario
	repeat int      // run each designated stall this many times (for outcomes that depend on a random select)
}

var scenarios = []scenario{
	// C08: the response handler is slow (stalled 1.5 T): the reply was in time, so the request must not also time out
	{name: "c-slow-resp-handler", ops: []scOp{{0, "send", ""}, {0.3, "send", ""}},
		reply: map[string]float64{"r1": 0.2, "r2": 0.1}, end: 3.2, only: []string{"handler.resp|1"}, prop: "C08", scale: 4,
		sigs: []string{"concluded-twice", "timeout-early", "timeout-of-unwritten", "never-concluded"}},
	// C02: a completion for a request that is no longer the queue head (its reply raced the time-out) must not touch the head:
	// r1 (reply at 0.8 T, its pending lookup stalled 0.5 T), r2, r3 queued; r2 must stay the only outstanding CALL until it is answered
	{name: "c-stale-completion", ops: []scOp{{0, "send", ""}, {0.1, "send", ""}, {0.2, "send", ""}},
		reply: map[string]float64{"r1": 0.8, "r2": 0.6, "r3": 0.1}, end: 4.0, only: []string{"state.Get>|1"}, prop: "C02", also: []string{"C09"}, scale: 4, stall: 0.5,
		sigs: []string{"two-outstanding", "written-twice", "write-order", "never-concluded"}},
	// C07: a write fails, its cancel callback is slow (the ready slot is full meanwhile), the link reports disconnect then
	// reconnect: Resume has to wait for the pump but everything returns and later requests are served
	{name: "c-resume-full-slot", ops: []scOp{{0, "writefail-on", ""}, {0.05, "send", ""}, {0.3, "disconnect", ""}, {0.4, "writefail-off", ""}, {0.5, "connect", ""}, {2.2, "send", ""}},
		reply: map[string]float64{"r2": 0.1}, end: 4.0, only: []string{"handler.cancel|1"}, prop: "C07", scale: 4,
		sigs: []string{"never-concluded"}},
	// C07: the connection drops while the time-out of r1 is being handled (the cancel callback is slow, so the pump has
	// consumed the timer's expiry but not re-armed it yet): Pause must return, and after the reconnection r2 is served
	{name: "c-pause-during-timeout", ops: []scOp{{0, "send", ""}, {1.3, "disconnect", ""}, {3.0, "connect", ""}, {3.2, "send", ""}},
		reply: map[string]float64{"r1": -1, "r2": 0.1}, end: 5.0, only: []string{"handler.cancel|1"}, prop: "C07", also: []string{"C10"}, scale: 4,
		sigs: []string{"never-concluded"}},
	// C07: the pump has taken the ready token and is about to dispatch r1 (its queue Peek is slow); the link flaps meanwhile, so
	// Resume posts another ready token; the write of r1 then fails and the pump itself has to post the token of the completion:
	// it must not block on its own full slot; r2 is served afterwards
	{name: "c-ready-slot-self-block", ops: []scOp{{0, "writefail-on", ""}, {0.05, "disconnect", ""}, {0.1, "send", ""}, {0.3, "connect", ""}, {0.6, "disconnect", ""}, {0.8, "connect", ""}, {2.5, "writefail-off", ""}, {3.0, "send", ""}},
		reply: map[string]float64{"r2": 0.1}, end: 5.0, only: []string{"queue.Peek<|1"}, prop: "C07", scale: 4,
		sigs: []string{"never-concluded"}},
	// C07: the pump is inside a slow Write of r1; r2 and r3 are sent meanwhile (the second wake-up token finds the slot full) and
	// the link drops (Pause wants the dispatcher lock): every call returns and after the reconnection everything is served
	{name: "c-send-while-pump-busy", ops: []scOp{{0, "send", ""}, {0.1, "send", ""}, {0.2, "send", ""}, {0.4, "disconnect", ""}, {2.5, "connect", ""}},
		reply: map[string]float64{"r1": 0.1, "r2": 0.1, "r3": 0.1}, end: 5.5, only: []string{"ws.Write<|1"}, prop: "C07", scale: 4,
		sigs: []string{"never-concluded"}},
	// S8 (crash): the only outstanding request is answered at the very moment its time-out is being handled (the pump has seen
	// "a request is pending" and is slow before it looks at the queue): the endpoint must survive and conclude r1 (and r2 later)
	{name: "c-reply-at-timeout", ops: []scOp{{0, "send", ""}, {2.0, "send", ""}},
		reply: map[string]float64{"r1": 1.05, "r2": 0.1}, end: 4.0, only: []string{"state.Has>|1"}, prop: "C06", scale: 4, stall: 0.2,
		sigs: []string{"never-concluded"}},
	// S8 (lost request): the reply to r1 and its time-out complete r1 at the same moment (the reader is slow between looking at
	// the head of the queue and popping it): whatever happens to r1, the queued r2 and r3 must still be written and concluded
	{name: "c-double-completion", ops: []scOp{{0, "send", ""}, {0.1, "send", ""}, {0.2, "send", ""}},
		reply: map[string]float64{"r1": 0.97, "r2": 0.5, "r3": 0.1}, end: 5.0, only: []string{"queue.Peek>|2"}, prop: "C01", also: []string{"C09"}, scale: 4, stall: 0.2,
		sigs: []string{"never-concluded", "timeout-of-unwritten"}},
	// S9: the pump has taken the ready token of r1's completion and is about to dispatch r2 (slow queue Peek, r2 not marked
	// pending yet); the link flaps, so Resume posts another ready token: r2 must be written once
	{name: "c-second-ready-token", ops: []scOp{{0, "send", ""}, {0.1, "send", ""}, {0.6, "disconnect", ""}, {0.7, "connect", ""}},
		reply: map[string]float64{"r1": 0.5, "r2": 0.3}, end: 4.0, only: []string{"queue.Peek>|3"}, prop: "C02", also: []string{"C10"}, scale: 4, stall: 0.3,
		sigs: []string{"two-outstanding", "written-twice", "write-order"}},
	// stale expiry on the client: the time-out of r1 is being handled (slow queue Pop inside the completion) while the link flaps:
	// Resume re-arms the timer for the still pending r1, that timer expires while the pump is busy; r2, written afterwards, must
	// get its own full time-out (it is answered 0.3 T after its write)
	{name: "c-flap-during-timeout", ops: []scOp{{0, "send", ""}, {1.2, "disconnect", ""}, {1.25, "send", ""}, {1.3, "connect", ""}},
		reply: map[string]float64{"r1": -1, "r2": 0.3}, end: 5.0, only: []string{"queue.Pop<|1"}, prop: "C08", scale: 4,
		sigs: []string{"timeout-early", "timeout-of-unwritten", "never-concluded"}},
	// C02: the link flaps while the response to r1 is being completed (slow queue Pop inside the completion): whatever Resume
	// sees at that moment, r1 must not be written again, and r2 is written once afterwards
	{name: "c-flap-during-completion", ops: []scOp{{0, "send", ""}, {0.6, "disconnect", ""}, {0.7, "connect", ""}, {1.5, "send", ""}},
		reply: map[string]float64{"r1": 0.5, "r2": 0.1}, end: 3.5, only: []string{"queue.Pop<|1"}, prop: "C02", scale: 4, stall: 0.5,
		sigs: []string{"two-outstanding", "written-twice", "write-order", "never-concluded"}},
	// the connection drops while the dispatcher is inside Write (which then fails); two more requests follow while
	// disconnected; after the reconnection both must be written and answered (C10)
	{name: "c-drop-during-write", ops: []scOp{{0, "send", ""}, {0.3, "disconnect", ""}, {0.4, "send", ""}, {0.45, "send", ""}, {2.0, "connect", ""}},
		reply: map[string]float64{"r1": 0.1, "r2": 0.1, "r3": 0.1}, end: 4.5, only: []string{"ws.Write<|1"}, prop: "C10"},
	// the same with the next write failing after the reconnection
	{name: "c-drop-during-write-2", ops: []scOp{{0, "send", ""}, {0.3, "disconnect", ""}, {0.4, "send", ""}, {0.45, "send", ""}, {0.5, "send", ""}, {2.0, "connect", ""}},
		reply: map[string]float64{"r1": 0.1, "r2": -1, "r3": 0.1, "r4": 0.1}, end: 6.5, only: []string{"ws.Write<|1"}, prop: "C10"},
	{name: "c-queue-timeout", ops: []scOp{{0, "send", ""}, {0.05, "send", ""}, {0.1, "send", ""}},
		reply: map[string]float64{"r1": 0.3, "r2": -1, "r3": 0.1}, end: 3.2},
	{name: "c-late-reply", ops: []scOp{{0, "send", ""}, {0.1, "send", ""}},
		reply: map[string]float64{"r1": 0.9, "r2": 0.2}, end: 3.0},
	{name: "c-flap", ops: []scOp{{0, "send", ""}, {0.3, "disconnect", ""}, {0.4, "send", ""}, {0.8, "connect", ""}},
		reply: map[string]float64{"r1": 1.0, "r2": 0.2}, end: 3.5},
	{name: "c-writefail", ops: []scOp{{0, "writefail-on", ""}, {0.05, "send", ""}, {0.1, "send", ""}, {0.3, "writefail-off", ""}, {0.4, "send", ""}},
		reply: map[string]float64{"r3": 0.2}, end: 2.5},
	// S10: client A's request completed (the pump keeps rdy = true and A's empty queue in its loop variables); C's request times
	// out and its cancel callback is slow; a2 is sent to A meanwhile: the tail of the timer iteration must not dispatch "for C"
	// from A's queue
	{name: "s-stale-locals", server: true, clients: []string{"A", "C"},
		ops:   []scOp{{0, "send", "C"}, {0.1, "send", "A"}, {1.3, "send", "A"}},
		reply: map[string]float64{"r1": -1, "r2": 0.1, "r3": 0.1}, end: 4.0, only: []string{"handler.cancel|1"}, prop: "C06", scale: 4},
	// S7: r1 is answered just before its deadline while the pump is busy inside a slow Write for B, so the completion's ready
	// token and the (now stale) expiry of r1 are both waiting when the pump returns; whichever it takes first, r2 - written
	// afterwards - must get its own full time-out (it is answered 0.1 T after its write)
	{name: "s-stale-expiry", server: true, clients: []string{"A", "B"},
		ops:   []scOp{{0, "send", "A"}, {0.1, "send", "A"}, {0.85, "send", "B"}},
		reply: map[string]float64{"r1": 0.9, "r2": 0.1, "r3": 0.1}, end: 4.5, only: []string{"ws.Write>|2"}, prop: "C08", scale: 4, stall: 0.4, repeat: 6,
		sigs: []string{"timeout-early", "timeout-of-unwritten", "concluded-twice", "never-concluded"}},
	// S7b (C02): as S7 with a third request queued for A. If the stale expiry of r1 were taken for the time-out of r2 (written
	// a moment before), r2 would be given up at once and r3 written while r2 - answered 0.5 T after its write - is still
	// outstanding at the peer
	{name: "s-stale-expiry-queue", server: true, clients: []string{"A", "B"},
		ops:   []scOp{{0, "send", "A"}, {0.1, "send", "A"}, {0.15, "send", "A"}, {0.85, "send", "B"}},
		reply: map[string]float64{"r1": 0.9, "r2": 0.5, "r3": 0.1, "r4": 0.1}, end: 5.0, only: []string{"ws.Write>|2"}, prop: "C02", scale: 4, stall: 0.4, repeat: 6,
		sigs: []string{"two-outstanding", "written-twice", "write-order"}},
	// fourteen clients whose requests all time out at the same moment while the pump is busy inside the first cancellation
	// callback: the expiry events outnumber the room in the pump's timer channel (10); whoever has to wait for room must not
	// hold anything the pump needs - all fourteen requests are reported as timed out and the endpoint goes idle
	{name: "s-mass-timeout", server: true, clients: []string{"A", "B", "C", "D", "E", "F", "G", "H", "I", "J", "K", "L", "M", "N"},
		ops: []scOp{{0, "send", "A"}, {0, "send", "B"}, {0, "send", "C"}, {0, "send", "D"}, {0, "send", "E"}, {0, "send", "F"}, {0, "send", "G"},
			{0, "send", "H"}, {0, "send", "I"}, {0, "send", "J"}, {0, "send", "K"}, {0, "send", "L"}, {0, "send", "M"}, {0, "send", "N"}},
		reply: map[string]float64{"r1": -1, "r2": -1, "r3": -1, "r4": -1, "r5": -1, "r6": -1, "r7": -1, "r8": -1, "r9": -1, "r10": -1, "r11": -1, "r12": -1, "r13": -1, "r14": -1},
		end: 4.0, only: []string{"handler.cancel|1"}, prop: "C07", scale: 4, stall: 0.5, sigs: []string{"never-concluded"}},
	// S11b: the pump is inside a slow Write of r1 while 24 more requests for A are accepted (the wake-up channel has room for 20)
	// and r1 is answered: every SendRequest returns and all 25 requests are written and concluded
	{name: "s-burst-while-pump-busy", server: true, clients: []string{"A"},
		ops:   burstOps(),
		reply: burstReplies(), end: 8.0, only: []string{"ws.Write>|1"}, prop: "C07", scale: 4,
		sigs: []string{"never-concluded"}},
	// S11a: the requests of A and C time out together and A's cancel callback is slow, so A's ready token and C's expiry are both
	// waiting when the pump returns; if it takes the expiry first it has to post C's ready token while A's is still in the slot:
	// it must not block on its own channel; later requests are served
	{name: "s-two-timeouts", server: true, clients: []string{"A", "C"},
		ops:   []scOp{{0, "send", "A"}, {0.02, "send", "C"}, {3.0, "send", "A"}, {3.1, "send", "C"}},
		reply: map[string]float64{"r1": -1, "r2": -1, "r3": 0.1, "r4": 0.1}, end: 5.5, only: []string{"handler.cancel|1"}, prop: "C07", scale: 4, stall: 0.3, repeat: 6,
		sigs: []string{"never-concluded"}},
	// the pump has decided to dispatch r1 to A (slow queue-map lookup inside the dispatch); A's connection drops and the same id
	// reconnects meanwhile, so the lookup returns the new session's empty queue: the server must survive and serve the new session
	{name: "s-reconnect-during-dispatch", server: true, clients: []string{"A"},
		ops:   []scOp{{0, "send", "A"}, {0.1, "disconnect", "A"}, {0.2, "connect", "A"}, {1.0, "send", "A"}},
		reply: map[string]float64{"r1": 0.1, "r2": 0.1}, end: 3.5, only: []string{"qmap.Get<|3"}, prop: "C06", scale: 4, stall: 0.5,
		sigs: []string{"two-outstanding"}},
	// S11f: the requests of 13 clients time out together while the pump is inside the slow cancel callback of the first: the
	// expiry channel has room for 10; every request must be reported as timed out and the dispatcher must stay alive
	{name: "s-many-timeouts", server: true, clients: manyClients(13),
		ops:   manySends(13),
		reply: manyNever(13), end: 7.0, only: []string{"handler.cancel|1"}, prop: "C07", scale: 4,
		sigs: []string{"never-concluded"}},
	// C07: the pump is inside a slow Write for C while the outstanding requests of A and B are answered: two ready signals for
	// different clients, one slot; the queued requests of both (r3 for A, r4 for B) must be written afterwards
	{name: "s-two-completions", server: true, clients: []string{"A", "B", "C"},
		ops:   []scOp{{0, "send", "A"}, {0.05, "send", "B"}, {0.1, "send", "A"}, {0.15, "send", "B"}, {0.3, "send", "C"}},
		reply: map[string]float64{"r1": 0.5, "r2": 0.5, "r3": 0.1, "r4": 0.1, "r5": 0.1}, end: 4.5, only: []string{"ws.Write>|3"}, prop: "C07", also: []string{"C11"}, scale: 4, stall: 1.0,
		sigs: []string{"never-concluded"}},
	// a ready token that arrives late: the pump is inside a slow Write for C while r1 (A) and r2 (B) are answered (two ready
	// tokens, one slot), their contexts expire, and r4 is sent to A; whatever order the pump takes the waiting events in, r4
	// (never answered) must be reported as timed out
	{name: "s-late-ready-token", server: true, clients: []string{"A", "B", "C"},
		ops:   []scOp{{0, "send", "A"}, {0.05, "send", "B"}, {0.3, "send", "C"}, {1.2, "send", "A"}},
		reply: map[string]float64{"r1": 0.5, "r2": 0.5, "r3": 0.1, "r4": -1}, end: 5.0, only: []string{"ws.Write>|3"}, prop: "C08", scale: 4, stall: 1.5, repeat: 12,
		sigs: []string{"never-concluded", "timeout-early"}},
	// the same client id reconnects before the pump has processed the removal of the old connection (slow queue-map lookup):
	// the time-out context of the old session's outstanding request must not hold up the first request of the new session
	{name: "s-fast-reconnect", server: true, clients: []string{"A"},
		ops:   []scOp{{0, "send", "A"}, {0.4, "disconnect", "A"}, {0.45, "connect", "A"}, {0.7, "send", "A"}},
		reply: map[string]float64{"r1": -1, "r2": 0.1}, end: 4.0, only: []string{"qmap.Get<|4"}, prop: "C11", scale: 4, stall: 0.5,
		sigs: []string{"never-concluded"}},
	// the same client id reconnects while r1 is being dispatched (slow queue Peek after the queue was fetched): r1, a request of the
	// old connection, goes out on the new one and is never answered; when it has timed out the requests of the new connection
	// (r3, r4) must be written and answered
	{name: "s-reconnect-orphan", server: true, clients: []string{"A"},
		ops:   []scOp{{0, "send", "A"}, {0.1, "send", "A"}, {0.4, "disconnect", "A"}, {0.6, "connect", "A"}, {0.7, "send", "A"}, {0.8, "send", "A"}},
		reply: map[string]float64{"r1": -1, "r3": 0.1, "r4": 0.1}, end: 5.0, only: []string{"queue.Peek<|1"}, prop: "C11", scale: 4,
		sigs: []string{"never-concluded"}},
	// a request of the old connection is dispatched into the new one (reconnect between the pump's queue lookup and the Peek, as
	// in s-reconnect-orphan) and its write FAILS: the request cannot be completed through the new connection's queue; it must
	// not stay pending, or nothing is sent to the client any more (r2, sent later, must be written and answered)
	{name: "s-orphan-write-fails", server: true, clients: []string{"A"},
		ops:   []scOp{{0, "send", "A"}, {0.4, "disconnect", "A"}, {0.5, "writefail-on", "A"}, {0.6, "connect", "A"}, {2.0, "writefail-off", "A"}, {2.2, "send", "A"}},
		reply: map[string]float64{"r1": -1, "r2": 0.1}, end: 5.0, only: []string{"queue.Peek<|1"}, prop: "C11", scale: 4,
		sigs: []string{"never-concluded"}},
	// a server dispatcher without a request timeout (SetTimeout(0): no context is ever active, so only the pending mark keeps
	// the pump from dispatching): r2 and r3 are accepted while r1 is outstanding; each CALL is written once, in order, one at a time
	{name: "s-no-timeout", server: true, clients: []string{"A"}, noTimeout: true,
		ops:   []scOp{{0, "send", "A"}, {0.2, "send", "A"}, {0.3, "send", "A"}},
		reply: map[string]float64{"r1": 0.6, "r2": 0.2, "r3": 0.1}, end: 3.0, only: []string{"ws.Write>|1"}, prop: "C02", scale: 4, stall: 0.05,
		sigs: []string{"two-outstanding", "written-twice", "write-order", "never-concluded"}},
	// a sender has fetched A's queue and is slow inside Push while A disconnects and the same id connects again: the request must
	// not end up in the queue of the connection that is gone (accepted, never written, never concluded)
	{name: "s-send-during-reconnect", server: true, clients: []string{"A"},
		ops:   []scOp{{0, "send", "A"}, {0.1, "send", "A"}, {0.4, "disconnect", "A"}, {0.6, "connect", "A"}, {0.7, "send", "A"}, {0.8, "send", "A"}},
		reply: map[string]float64{"r1": -1, "r3": 0.1, "r4": 0.1}, end: 4.0, only: []string{"queue.Push<|1"}, prop: "C01", also: []string{"C11"}, scale: 4,
		sigs: []string{"never-concluded"}},
	// the disconnection of A is slow right after its pending mark was cleared; a request is sent to A meanwhile: by then A's
	// queue must be gone (the send is refused), or the pump - finding nothing pending and r1 still at the head - writes r1 again
	{name: "s-send-during-disconnect", server: true, clients: []string{"A"},
		ops:   []scOp{{0, "send", "A"}, {0.1, "send", "A"}, {0.4, "disconnect", "A"}, {0.55, "send", "A"}, {1.4, "connect", "A"}, {1.6, "send", "A"}},
		reply: map[string]float64{"r1": -1, "r2": -1, "r3": -1, "r4": 0.1}, end: 4.0, only: []string{"sstate.Clear>|1"}, prop: "C11", scale: 4, stall: 0.5,
		sigs: []string{"written-twice", "two-outstanding", "never-concluded", "write-order"}, mustReject: []string{"r3"}},
	{name: "s-two-clients", server: true, clients: []string{"A", "B"},
		ops:   []scOp{{0, "send", "A"}, {0.05, "send", "B"}, {0.5, "send", "A"}, {0.55, "send", "B"}},
		reply: map[string]float64{"r1": -1, "r2": 0.1, "r3": 0.1, "r4": 0.1}, end: 3.2},
	{name: "s-race-timeout-send", server: true, clients: []string{"A", "B"},
		ops:   []scOp{{0, "send", "A"}, {0.2, "send", "B"}, {0.95, "send", "A"}, {1.05, "send", "A"}},
		reply: map[string]float64{"r1": -1, "r2": 0.1, "r3": 0.1, "r4": 0.1}, end: 3.5},
	{name: "s-reconnect", server: true, clients: []string{"A"},
		ops:   []scOp{{0, "send", "A"}, {0.1, "send", "A"}, {0.4, "disconnect", "A"}, {0.6, "connect", "A"}, {0.7, "send", "A"}, {0.8, "send", "A"}},
		reply: map[string]float64{"r1": -1, "r3": 0.1, "r4": 0.1}, end: 3.0},
	{name: "s-late-reply", server: true, clients: []string{"A", "B"},
		ops:   []scOp{{0, "send", "A"}, {0.1, "send", "A"}, {0.15, "send", "B"}},
		reply: map[string]float64{"r1": 0.92, "r2": 0.2, "r3": 0.95}, end: 3.2},
}

// gServerState: the server's pending-request state with a gate after ClearClientPendingRequest (the second step of
// ocppj.Server.onClientDisconnected)
type gServerState struct {
	ocppj.ServerState
	l *slog
}

func (g *gServerState) ClearClientPendingRequest(c string) {
	g.ServerState.ClearClientPendingRequest(c)
	g.l.gateAt("sstate.Clear>")
}

func burstOps() []scOp {
	ops := []scOp{{0, "send", "A"}}
	for k := 0; k < 24; k++ {
		ops = append(ops, scOp{0.1 + 0.01*float64(k), "send", "A"})
	}
	return ops
}

func burstReplies() map[string]float64 {
	m := map[string]float64{"r1": 0.6}
	for k := 2; k <= 25; k++ {
		m[fmt.Sprintf("r%d", k)] = 0.05
	}
	return m
}

func manyClients(n int) []string {
	var r []string
	for k := 0; k < n; k++ {
		r = append(r, fmt.Sprintf("M%d", k))
	}
	return r
}

func manySends(n int) []scOp {
	var ops []scOp
	for k := 0; k < n; k++ {
		ops = append(ops, scOp{0.002 * float64(k), "send", fmt.Sprintf("M%d", k)})
	}
	// a last request after everything timed out: it is answered
	ops = append(ops, scOp{5.0, "send", "M0"})
	return ops
}

func manyNever(n int) map[string]float64 {
	m := map[string]float64{}
	for k := 1; k <= n; k++ {
		m[fmt.Sprintf("r%d", k)] = -1
	}
	m[fmt.Sprintf("r%d", n+1)] = 0.1
	return m
}

const schedT = 10 * time.Millisecond

// calm variant of a scenario: every reply arrives well before the deadline (nothing races a time-out)
func calmScenario(sc scenario) scenario {
	c := sc
	c.name = sc.name + "/calm"
	c.reply = map[string]float64{}
	for k, v := range sc.reply {
		if v > 0.4 {
			v = 0.3
		}
		c.reply[k] = v
	}
	return c
}

type schedResult struct {
	Hits       map[string]int `json:"hits"`
	Violations []Violation    `json:"violations"`
	Events     int            `json:"events"`
	// client scenarios: the log in the line format of the Lean driver mode `cfine` (does the interleaving model explain it?)
	Log  []string `json:"log,omitempty"`
	Idle bool     `json:"idle,omitempty"`
	// server scenarios: the events of each client, for the driver mode `sfine` (per-client projection of the server dispatcher)
	SLogs map[string][]string `json:"slogs,omitempty"`
}

func runScenario(sc scenario, stallSite string, stallIdx int) schedResult {
	schedT := schedT
	if sc.scale > 1 {
		schedT = schedT * time.Duration(sc.scale)
	}
	stall := schedT * 3 / 2
	if sc.stall > 0 {
		stall = time.Duration(sc.stall * float64(schedT))
	}
	if strings.HasSuffix(sc.name, "/calm") {
		stall = schedT * 15 / 100
	}
	l := &slog{r: rand.New(rand.NewSource(1)), directed: true, stallSite: stallSite, stallIdx: stallIdx, stallDur: stall}
	var res schedResult
	viol := func(prop, sig, what string, replay interface{}) {
		for _, v := range res.Violations {
			if v.Sig == sig {
				return
			}
		}
		res.Violations = append(res.Violations, Violation{Property: prop, Sig: sig, What: what, Replay: replay})
	}
	var idc int64
	ocppj.SetMessageIdGenerator(func() string { return fmt.Sprintf("r%d", atomic.AddInt64(&idc, 1)) })
	var send func(c string)
	var deliver func(c string, data []byte)
	var disconnect, connect func(c string)
	var setWF func(on bool)
	var stop func()
	var idle func() bool
	replyFrame := `{"status":"Accepted"}`
	onWrote := func(c, id string) {
		l.add("wrote", c, id)
		d, ok := sc.reply[id]
		if !ok {
			d = 0.1
		}
		if d < 0 {
			return
		}
		go func() {
			time.Sleep(time.Duration(d * float64(schedT)))
			deliver(c, []byte(fmt.Sprintf(`[3,"%s",%s]`, id, replyFrame)))
		}()
	}
	if sc.server {
		fs := newFakeServer()
		qm := &gQueueMap{m: map[string]ocppj.RequestQueue{}, cap: 0, l: l}
		d := ocppj.NewDefaultServerDispatcher(qm)
		d.SetTimeout(schedT)
		if sc.noTimeout {
			d.SetTimeout(0)
		}
		// the pending state is the dispatcher's own (guarded by the dispatcher's mutex, as in every default set-up) unless the
		// scenario needs the gate inside the disconnection handler
		var sh ocppj.ServerState
		for _, o := range sc.only {
			if strings.HasPrefix(o, "sstate.") {
				sh = &gServerState{ServerState: ocppj.NewServerState(&sync.RWMutex{}), l: l}
			}
		}
		srv := ocppj.NewServer(fs, d, sh, core.Profile)
		srv.SetDialect(ocpp.V16)
		fs.onWrite = func(c string, data []byte) {
			if fr, err := parseFrame(data); err == nil && fr.Type == 2 {
				onWrote(c, fr.ID)
			}
			l.gateAt("ws.Write>")
		}
		srv.SetResponseHandler(func(ch ws.Channel, rr ocpp.Response, id string) { l.add("resp", ch.ID(), id); l.gateAt("handler.resp") })
		srv.SetErrorHandler(func(ch ws.Channel, e *ocpp.Error, det interface{}) { l.add("err", ch.ID(), e.MessageId); l.gateAt("handler.err") })
		srv.SetRequestHandler(func(ch ws.Channel, rr ocpp.Request, id string, action string) {})
		srv.SetCanceledRequestHandler(func(c, id string, rr ocpp.Request, e *ocpp.Error) {
			if e.Code == ocppj.GenericError {
				l.add("cancel-timeout", c, id)
			} else {
				l.add("cancel-write", c, id)
			}
			l.gateAt("handler.cancel")
		})
		go srv.Start(0, "/")
		for i := 0; i < 5000 && !d.IsRunning(); i++ {
			time.Sleep(50 * time.Microsecond)
		}
		for _, c := range sc.clients {
			fs.connect(c)
			l.add("connect", c, "")
		}
		send = func(c string) { _ = srv.SendRequest(c, core.NewClearCacheRequest()) }
		deliver = func(c string, data []byte) { _ = fs.deliver(c, data) }
		// scripted link events that find the link already in the state they ask for (the goroutine of an earlier scripted event
		// was late under machine load) are skipped, as the real websocket server would not report them either
		disconnect = func(c string) {
			if fs.isConnected(c) {
				l.add("disconnect", c, "")
				fs.disconnect(c)
			}
		}
		connect = func(c string) {
			if fs.connectFresh(c) {
				l.add("connect", c, "")
			}
		}
		setWF = func(on bool) {
			for _, c := range sc.clients {
				if on {
					fs.setWriteErr(c, fmt.Errorf("injected"))
				} else {
					fs.setWriteErr(c, nil)
				}
			}
		}
		stop = srv.Stop
		// idle: nothing pending AND nothing queued ("nothing pending" alone also holds for a moment between the conclusion of one
		// request and the dispatch of the next, and under machine load that moment can outlast the scripted end of the run)
		idle = func() bool { return !srv.RequestState.HasPendingRequests() && qm.allEmpty() }
	} else {
		replyFrame = `{"currentTime":"2020-01-01T00:00:00Z"}`
		fc := &fakeClient{}
		q := &gQueue{q: ocppj.NewFIFOClientQueue(0), l: l, client: ""}
		d := ocppj.NewDefaultClientDispatcher(q)
		d.SetTimeout(schedT)
		st := &gState{s: ocppj.NewClientState(), l: l}
		c := ocppj.NewClient("cp", fc, d, st, core.Profile)
		c.SetDialect(ocpp.V16)
		fc.onWrite = func(data []byte) {
			if fr, err := parseFrame(data); err == nil && fr.Type == 2 {
				onWrote("", fr.ID)
			}
			l.gateAt("ws.Write>")
		}
		fc.onEnter = func() { l.gateAt("ws.Write<") }
		c.SetResponseHandler(func(rr ocpp.Response, id string) { l.add("resp", "", id); l.gateAt("handler.resp") })
		c.SetErrorHandler(func(e *ocpp.Error, det interface{}) { l.add("err", "", e.MessageId); l.gateAt("handler.err") })
		c.SetRequestHandler(func(rr ocpp.Request, id string, action string) {})
		c.SetOnRequestCanceled(func(id string, rr ocpp.Request, e *ocpp.Error) {
			if e.Code == ocppj.GenericError {
				l.add("cancel-timeout", "", id)
			} else {
				l.add("cancel-write", "", id)
			}
			l.gateAt("handler.cancel")
		})
		_ = c.Start("ws://fake")
		var connMu sync.RWMutex
		send = func(string) { _ = c.SendRequest(core.NewHeartbeatRequest()) }
		// one incoming frame at a time, as the read pump of the real websocket client does (the handler runs on it)
		var readPump sync.Mutex
		deliver = func(_ string, data []byte) {
			readPump.Lock()
			defer readPump.Unlock()
			connMu.RLock()
			defer connMu.RUnlock()
			if fc.IsConnected() {
				_ = fc.deliver(data)
			}
		}
		disconnect = func(string) { l.add("disconnect-event", "", ""); fc.drop(fmt.Errorf("lost")) }
		connect = func(string) { fc.reconnect(); l.add("connect", "", "") }
		setWF = func(on bool) {
			if on {
				fc.setWriteErr(fmt.Errorf("injected"))
			} else {
				fc.setWriteErr(nil)
			}
		}
		stop = c.Stop
		idle = func() bool { return !st.s.HasPendingRequest() && q.q.IsEmpty() }
	}
	start := time.Now()
	var wg sync.WaitGroup
	for _, op := range sc.ops {
		op := op
		wg.Add(1)
		go func() {
			defer wg.Done()
			time.Sleep(time.Until(start.Add(time.Duration(op.at * float64(schedT)))))
			switch op.kind {
			case "send":
				send(op.client)
			case "disconnect":
				disconnect(op.client)
			case "connect":
				connect(op.client)
			case "writefail-on":
				setWF(true)
			case "writefail-off":
				setWF(false)
			}
		}()
	}
	done := make(chan struct{})
	go func() { wg.Wait(); close(done) }()
	wedged := false
	select {
	case <-done:
	case <-time.After(time.Duration((sc.end+6)*float64(schedT)) + 2*time.Second):
		wedged = true
	}
	if !wedged {
		deadline := start.Add(time.Duration((sc.end + 4) * float64(schedT)))
		time.Sleep(time.Until(start.Add(time.Duration(sc.end * float64(schedT)))))
		for time.Now().Before(deadline) && !idle() {
			time.Sleep(schedT / 2)
		}
	}
	stuck, quiet := quiesce(1 * time.Second)
	l.mu.Lock()
	evs := append([]sev{}, l.evs...)
	l.mu.Unlock()
	l.rmu.Lock()
	res.Hits = map[string]int{}
	for k, v := range l.hits {
		res.Hits[k] = v
	}
	l.rmu.Unlock()
	res.Events = len(evs)
	if !sc.server {
		for _, e := range evs {
			if e.id != "" {
				res.Log = append(res.Log, e.kind+" "+e.id)
			} else {
				res.Log = append(res.Log, e.kind)
			}
		}
		res.Idle = !(wedged || len(stuck) > 0 || !quiet)
	} else {
		res.SLogs = map[string][]string{}
		for _, e := range evs {
			if e.client == "" || e.kind == "removed" {
				continue
			}
			if e.id != "" {
				res.SLogs[e.client] = append(res.SLogs[e.client], e.kind+" "+e.id)
			} else {
				res.SLogs[e.client] = append(res.SLogs[e.client], e.kind)
			}
		}
		res.Idle = !(wedged || len(stuck) > 0 || !quiet) && idle()
	}
	if os.Getenv("SCHED_DEBUG") != "" {
		for _, e := range evs {
			fmt.Fprintf(os.Stderr, "%8.2f %s %s %s\n", float64(e.t.Sub(start))/float64(schedT), e.kind, e.client, e.id)
		}
	}
	if wedged || len(stuck) > 0 || !quiet {
		var where []string
		for _, g := range libGoroutines() {
			where = append(where, g.state+" @ "+g.top+" "+g.where)
		}
		sort.Strings(where)
		// (directed scenarios too: a deadlock is C07's business and is matched against its known findings — except the
		// directed scenarios of C07 itself, which are deterministic and clean on the unchanged tree)
		if sc.prop == "C07" {
			viol("C07", sc.name+"/"+sigOfBlocked(where), fmt.Sprintf("the endpoint did not go idle: API callers wedged=%v, goroutines blocked for ever: %v", wedged, where), where)
			return res
		}
		viol("C07", sigOfBlocked(where), fmt.Sprintf("the endpoint did not go idle: API callers wedged=%v, goroutines blocked for ever: %v", wedged, where), where)
	} else {
		if sc.prop != "" && contains(sc.sigs, "two-outstanding") {
			// independent of the queue's own bookkeeping: the next CALL on a connection may only be written once the previous
			// one was answered (the harness knows when it sent the reply), failed or timed out
			lastW := map[string]sev{}
			ended := map[string]bool{} // client|id concluded by a write failure, or dropped
			for _, e := range evs {
				switch e.kind {
				case "cancel-write":
					ended[e.client+"|"+e.id] = true
				case "disconnect", "disconnect-event", "stop":
					for k := range lastW {
						if k == e.client || e.client == "" {
							delete(lastW, k)
						}
					}
				case "wrote":
					if p, ok := lastW[e.client]; ok && !ended[p.client+"|"+p.id] {
						d, has := sc.reply[p.id]
						if !has {
							d = 0.1
						}
						if d < 0 || d > 1 {
							d = 1
						}
						min := time.Duration((d - 0.08) * float64(schedT))
						if gap := e.t.Sub(p.t); gap < min {
							kind := "client"
							if sc.server {
								kind = "server"
							}
							viol(sc.prop, sc.name+"/two-outstanding:"+kind, fmt.Sprintf("%s: CALL %s was written to %q %.2f T after CALL %s, which was answered only %.2f T after its write and had not timed out: two CALLs outstanding", sc.name, e.id, e.client, float64(gap)/float64(schedT), p.id, d), nil)
						}
					}
					lastW[e.client] = e
				}
			}
		}
		for _, e := range evs {
			if e.kind == "push" && contains(sc.mustReject, e.id) {
				kind := "client"
				if sc.server {
					kind = "server"
				}
				viol(sc.prop, sc.name+"/accepted-while-disconnected:"+kind, fmt.Sprintf("%s: request %s for %q was accepted although the client's connection had ended (it has to be rejected immediately)", sc.name, e.id, e.client), nil)
			}
		}
		checkLog(sc.name, evs, schedT, true, func(prop, sig, what string, replay interface{}) {
			kind := "client"
			if sc.server {
				kind = "server"
			}
			if sc.prop != "" {
				if len(sc.sigs) > 0 && !contains(sc.sigs, sig) {
					return // not what this directed scenario is about (e.g. a known double conclusion it provokes on purpose)
				}
				viol(sc.prop, sc.name+"/"+sig+":"+kind, what, replay)
				return
			}
			viol(prop, sig+":"+kind, what, replay)
		})
		func() {
			defer func() { _ = recover() }()
			stop()
		}()
	}
	return res
}

// the list of runs is derived from dry runs (hits per site), so it is the same in parent and children
type schedRun struct {
	sc   int
	site string
	idx  int
}

func encodeRun(r schedRun) string { return fmt.Sprintf("%d|%s|%d", r.sc, r.site, r.idx) }

func init() {
	monitors["disp_sched"] = func(seed int64, tier string) interface{} {
		rep := &Report{Monitor: "disp_sched", Rule: "systematic single-stall schedules: each scripted scenario (4 client, 4 server: queueing + time-out, late reply racing the time-out, disconnect/reconnect, write failures, two clients, a send racing a time-out, a session re-using a client id) is run once per (gate site, j): the j-th hit of that injected-interface gate (queue Push/Peek/Pop/IsEmpty, queue map Get/Remove, pending state Add/Get/Delete/Has, websocket Write, response/error/cancel handlers) sleeps 1.5x the dispatcher timeout; each run in its own process and judged by the log checks of disp_stress; distinct = runs", Stats: map[string]interface{}{}}
		maxPerSite := 6
		if tier == "thorough" {
			maxPerSite = 40
		}
		// dry runs
		var runs []string
		for i := range scenarios {
			runs = append(runs, encodeRun(schedRun{i, "-", 0}))
		}
		dry := runSched(runs, 8)
		var all []string
		for i, d := range dry {
			var sites []string
			for s := range d.Hits {
				sites = append(sites, s)
			}
			sort.Strings(sites)
			if len(scenarios[i].only) > 0 {
				for _, o := range scenarios[i].only {
					p := strings.Split(o, "|")
					var j int
					fmt.Sscan(p[1], &j)
					rep := scenarios[i].repeat
					if rep < 1 {
						rep = 1
					}
					for k := 0; k < rep; k++ {
						all = append(all, encodeRun(schedRun{i, p[0], j}))
					}
				}
				continue
			}
			for _, s := range sites {
				n := d.Hits[s] + 1
				if n > maxPerSite {
					n = maxPerSite
				}
				for j := 1; j <= n; j++ {
					all = append(all, encodeRun(schedRun{i, s, j}))
				}
			}
		}
		results := append(dry, runSched(all, 10)...)
		allRuns := append(runs, all...)
		seen := map[string]bool{}
		for kk, r := range results {
			k := kk
			rep.Evaluations++
			if r.Events > 0 {
				rep.Distinct++
			}
			f := strings.Split(allRuns[k], "|")
			var sc int
			fmt.Sscan(f[0], &sc)
			for _, v := range r.Violations {
				// rough runs: the failing (scenario, gate) cell is not stable from run to run (real timers, real
				// scheduler), so the signature names only the kind of failure; calm runs must never fail
				sig := v.Sig
				if scenarios[sc].prop != "" && v.Property == scenarios[sc].prop && !seen[sig] {
					// directed scenarios are deterministic when run alone: confirm (machine load shifts the scripted times)
					again := 0
					for k := 0; k < 3; k++ {
						for _, rr := range runSched([]string{allRuns[kk]}, 1) {
							for _, v2 := range rr.Violations {
								if v2.Sig == sig {
									again++
								}
							}
						}
					}
					if again < 2 {
						rep.Stats["directed_not_reproduced"] = asInt(rep.Stats["directed_not_reproduced"]) + 1
						continue
					}
				}
				if !seen[sig] {
					seen[sig] = true
					v.What = fmt.Sprintf("scenario %s with hit #%s of gate %s stalled for 1.5x the timeout: %s", scenarios[sc].name, f[2], f[1], v.What)
					v.Replay = map[string]interface{}{"scenario": scenarios[sc].name, "gate": f[1], "hit": f[2], "detail": v.Replay}
					v.Sig = sig
					rep.Violations = append(rep.Violations, v)
					for _, a := range scenarios[sc].also {
						if a != v.Property {
							v2 := v
							v2.Property = a
							rep.Violations = append(rep.Violations, v2)
						}
					}
				}
			}
		}
		// the logs of the client runs, for the trace-inclusion check against the Lean interleaving model (driver mode cfine)
		type clog struct {
			Run  string   `json:"run"`
			Idle bool     `json:"idle"`
			Log  []string `json:"log"`
		}
		var logs []clog
		var slogs []clog
		for kk, r := range results {
			f := strings.Split(allRuns[kk], "|")
			var sc int
			fmt.Sscan(f[0], &sc)
			if len(r.Log) > 0 {
				logs = append(logs, clog{Run: scenarios[sc].name + "|" + f[1] + "|" + f[2], Idle: r.Idle, Log: r.Log})
			}
			var cs []string
			for c := range r.SLogs {
				cs = append(cs, c)
			}
			sort.Strings(cs)
			for _, c := range cs {
				slogs = append(slogs, clog{Run: scenarios[sc].name + "|" + f[1] + "|" + f[2] + "|" + c, Idle: r.Idle, Log: r.SLogs[c]})
			}
		}
		if b, err := json.Marshal(slogs); err == nil {
			lp := os.Getenv("FINE_LOG_PATH")
			if lp == "" {
				lp = verifRoot() + "/gen/sched_client_logs.json"
			}
			_ = os.WriteFile(strings.Replace(lp, "client_logs", "server_logs", 1), b, 0o644)
		}
		rep.Stats["server_logs_written"] = len(slogs)
		if b, err := json.Marshal(logs); err == nil {
			lp := os.Getenv("FINE_LOG_PATH")
			if lp == "" {
				lp = verifRoot() + "/gen/sched_client_logs.json"
			}
			_ = os.WriteFile(lp, b, 0o644)
		}
		rep.Stats["client_logs_written"] = len(logs)
		rep.Stats["runs"] = len(allRuns)
		rep.Samples = []interface{}{map[string]interface{}{"scenario": "s-race-timeout-send", "gate": "qmap.Get<", "hit": 3}}
		return rep
	}
}
