package main

import (
	"fmt"
	"math/rand"
	"net"
	"net/http"
	"strings"
	"sync"
	"time"

	"github.com/gorilla/websocket"
	"github.com/lorenzodonini/ocpp-go/ws"
)

// suite wscli (C17, C16 for the websocket client): the real ws.Client against a scriptable raw gorilla server on
// loopback. Back-off: minimum 20 ms, random range 0, doubling 3 times; keep-alive per session header.
//   reset <ping>          ping = none | client (client pings every 25 ms, pong wait 70 ms)
//   start                 client.Start(url)                    -> ok | err
//   startretry            go client.StartWithRetries(url)      -> ok (connected) | looping (first attempt failed)
//   down / up             the server stops / resumes accepting (listener closed / reopened on the same port)
//   lose <how>            how = close1000 | close1011 | reset | mute (server stops reading: pings unanswered)
//   fails <n>             wait for n further failed reconnection attempts
//   idle <ms>             nothing happens for <ms> (keep-alive must hold the connection)
//   stop                  client.Stop()
//   stop2                 client.Stop() twice in a row
// output: result + the handler calls it caused: disc:err | disc:nil | rec, + conns=<accepted by the server so far>

type wscli struct{}

func init() {
	suites["wscli"] = wscli{}
	childSuites["wscli"] = runWsCli
}

func (wscli) Run(ops []string, emit func(string)) { runIsolated("wscli", ops, emit) }

func (wscli) Gen(r *rand.Rand, n int) []string {
	var out []string
	for s := 0; s < n; s++ {
		ping := pick(r, "none", "none", "client")
		out = append(out, "reset "+ping)
		up, connected, looping, started := true, false, false, false
		for i, m := 0, 5+r.Intn(10); i < m; i++ {
			switch x := r.Intn(20); {
			case x < 4:
				if !connected && !looping {
					if r.Intn(3) == 0 {
						out = append(out, "startretry")
						if up {
							connected = true
						} else {
							looping = true
						}
					} else {
						out = append(out, "start")
						connected = up
					}
					started = true
				}
			case x < 9:
				if connected {
					how := pick(r, "close1000", "close1011", "reset", "reset")
					if ping == "client" && r.Intn(3) == 0 {
						how = "mute"
					}
					out = append(out, "lose "+how)
					connected = up
					looping = !up
				}
			case x < 11:
				if up && connected && !looping && r.Intn(4) == 0 {
					// the server stops answering handshakes; the connection is lost; Stop lands during the hanging dial
					out = append(out, "hang", "lose "+pick(r, "reset", "close1011"), pick(r, "stop", "stop2"), "up")
					connected, started = false, false
				} else if up && !looping && r.Intn(2) == 0 {
					up = false
					out = append(out, "down")
				} else if !up {
					up = true
					out = append(out, "up")
					if looping {
						looping, connected = false, true
					}
				}
			case x < 13:
				if looping {
					out = append(out, fmt.Sprintf("fails %d", 1+r.Intn(3)))
				}
			case x < 15:
				if connected && ping == "client" {
					out = append(out, fmt.Sprintf("idle %d", 100+r.Intn(150)))
				}
			case x < 18:
				if started {
					out = append(out, pick(r, "stop", "stop", "stop2"))
					connected, looping, started = false, false, false
				}
			}
		}
	}
	return out
}

// rawServer: accepts websocket connections on a fixed loopback port; can be taken down and up again
type rawServer struct {
	mu    sync.Mutex
	ln    net.Listener
	srv   *http.Server
	port  int
	conns []*websocket.Conn
	muted map[*websocket.Conn]bool
	n     int
	hangLn net.Listener
	held   []net.Conn
	msgs   []string // text frames received from clients
}

func (s *rawServer) handler(w http.ResponseWriter, r *http.Request) {
	up := websocket.Upgrader{Subprotocols: []string{"ocpp1.6"}, CheckOrigin: func(*http.Request) bool { return true }}
	c, err := up.Upgrade(w, r, nil)
	if err != nil {
		return
	}
	s.mu.Lock()
	s.conns = append(s.conns, c)
	s.n++
	s.mu.Unlock()
	go func() {
		// read for ever (gorilla answers pings from inside ReadMessage); `mute` interrupts the read with a deadline in
		// the past, after which nothing is read and no ping is answered any more
		for {
			_, data, err := c.ReadMessage()
			if err != nil {
				return
			}
			s.mu.Lock()
			s.msgs = append(s.msgs, string(data))
			s.mu.Unlock()
		}
	}()
}

func (s *rawServer) up() error {
	s.mu.Lock()
	defer s.mu.Unlock()
	addr := "127.0.0.1:0"
	if s.port != 0 {
		addr = fmt.Sprintf("127.0.0.1:%d", s.port)
	}
	var ln net.Listener
	var err error
	for k := 0; k < 50; k++ {
		ln, err = net.Listen("tcp", addr)
		if err == nil {
			break
		}
		time.Sleep(5 * time.Millisecond)
	}
	if err != nil {
		return err
	}
	s.ln = ln
	s.port = ln.Addr().(*net.TCPAddr).Port
	mux := http.NewServeMux()
	mux.HandleFunc("/", s.handler)
	s.srv = &http.Server{Handler: mux}
	go func(srv *http.Server, ln net.Listener) { _ = srv.Serve(ln) }(s.srv, ln)
	return nil
}

func (s *rawServer) down() {
	s.mu.Lock()
	srv := s.srv
	s.srv = nil
	s.mu.Unlock()
	if srv != nil {
		_ = srv.Close()
	}
}

// hang: accept TCP connections but never answer the handshake (the client's dial blocks until its handshake timeout)
func (s *rawServer) hang() error {
	s.down()
	s.mu.Lock()
	defer s.mu.Unlock()
	var ln net.Listener
	var err error
	for k := 0; k < 50; k++ {
		ln, err = net.Listen("tcp", fmt.Sprintf("127.0.0.1:%d", s.port))
		if err == nil {
			break
		}
		time.Sleep(5 * time.Millisecond)
	}
	if err != nil {
		return err
	}
	s.hangLn = ln
	go func() {
		for {
			c, err := ln.Accept()
			if err != nil {
				return
			}
			s.mu.Lock()
			s.held = append(s.held, c)
			s.mu.Unlock()
		}
	}()
	return nil
}

func (s *rawServer) unhang() {
	s.mu.Lock()
	ln, held := s.hangLn, s.held
	s.hangLn, s.held = nil, nil
	s.mu.Unlock()
	if ln != nil {
		_ = ln.Close()
	}
	for _, c := range held {
		_ = c.Close()
	}
}

func (s *rawServer) last() *websocket.Conn {
	s.mu.Lock()
	defer s.mu.Unlock()
	if len(s.conns) == 0 {
		return nil
	}
	return s.conns[len(s.conns)-1]
}

func (s *rawServer) raw() int {
	s.mu.Lock()
	defer s.mu.Unlock()
	return s.n
}

func (s *rawServer) count() int {
	// the handler counts a connection after the upgrade, the client may be a moment ahead: let it settle
	last := -1
	for k := 0; k < 40; k++ {
		s.mu.Lock()
		n := s.n
		s.mu.Unlock()
		if n == last {
			return n
		}
		last = n
		time.Sleep(500 * time.Microsecond)
	}
	return last
}

func runWsCli(ops []string, emit func(string)) {
	var srv *rawServer
	var cl ws.Client
	var mu sync.Mutex
	var events []string
	fails := 0
	add := func(e string) { mu.Lock(); events = append(events, e); mu.Unlock() }
	take := func() string {
		mu.Lock()
		defer mu.Unlock()
		e := events
		events = nil
		if len(e) == 0 {
			return "-"
		}
		return strings.Join(e, " ")
	}
	nEv := func(prefix string) int {
		mu.Lock()
		defer mu.Unlock()
		n := 0
		for _, e := range events {
			if strings.HasPrefix(e, prefix) {
				n++
			}
		}
		return n
	}
	nFails := func() int { mu.Lock(); defer mu.Unlock(); return fails }
	settleEv := func() {
		last, since := -1, time.Now()
		for time.Since(since) < 8*time.Millisecond {
			mu.Lock()
			n := len(events)
			mu.Unlock()
			if n != last {
				last, since = n, time.Now()
			}
			time.Sleep(time.Millisecond)
		}
	}
	drained := map[<-chan error]bool{}
	drain := func(c ws.Client) {
		errs := c.Errors()
		if drained[errs] {
			return
		}
		drained[errs] = true
		go func() {
			for e := range errs {
				if strings.Contains(e.Error(), "reconnection failed") {
					mu.Lock()
					fails++
					mu.Unlock()
				}
			}
		}()
	}
	url := ""
	up := true
	hanging := false
	for _, l := range ops {
		f := fields(l)
		emit(guard(func() string {
			switch f[0] {
			case "reset":
				if cl != nil {
					cl.Stop()
					time.Sleep(5 * time.Millisecond)
				}
				if srv != nil {
					srv.unhang()
					srv.down()
				}
				hanging = false
				srv = &rawServer{muted: map[*websocket.Conn]bool{}}
				if err := srv.up(); err != nil {
					return "HARNESS-listen-error"
				}
				up = true
				url = fmt.Sprintf("ws://127.0.0.1:%d/cp1", srv.port)
				cl = ws.NewClient()
				cl.SetRequestedSubProtocol("ocpp1.6")
				cfg := ws.NewClientTimeoutConfig()
				cfg.RetryBackOffWaitMinimum = 20 * time.Millisecond
				cfg.RetryBackOffRandomRange = 0
				cfg.RetryBackOffRepeatTimes = 3
				cfg.HandshakeTimeout = time.Second
				cfg.WriteWait = 200 * time.Millisecond
				if f[1] == "client" {
					cfg.PingPeriod = 25 * time.Millisecond
					cfg.PongWait = 70 * time.Millisecond
				} else {
					cfg.PingPeriod = 0
					cfg.PongWait = 0
				}
				cl.SetTimeoutConfig(cfg)
				mu.Lock()
				events, fails = nil, 0
				mu.Unlock()
				cl.SetDisconnectedHandler(func(err error) {
					if err != nil {
						add("disc:err")
					} else {
						add("disc:nil")
					}
				})
				cl.SetReconnectedHandler(func() { add("rec") })
				cl.SetMessageHandler(func([]byte) error { return nil })
				drain(cl)
				return "ok"
			case "start":
				c0 := srv.raw()
				err := cl.Start(url)
				if err != nil {
					return fmt.Sprintf("err %s conns=%d", take(), srv.count())
				}
				waitCond(time.Second, func() bool { return cl.IsConnected() && srv.raw() > c0 })
				return fmt.Sprintf("ok %s conns=%d", take(), srv.count())
			case "startretry":
				before := nFails()
				c0 := srv.raw()
				go cl.StartWithRetries(url)
				waitCond(2*time.Second, func() bool { return (cl.IsConnected() && srv.raw() > c0) || nFails() > before })
				if cl.IsConnected() {
					return fmt.Sprintf("ok %s conns=%d", take(), srv.count())
				}
				return fmt.Sprintf("looping %s conns=%d", take(), srv.count())
			case "down":
				srv.down()
				up = false
				return "ok"
			case "hang":
				if err := srv.hang(); err != nil {
					return "HARNESS-listen-error"
				}
				up, hanging = false, true
				return "ok"
			case "up":
				before := nEv("rec")
				wasConn := cl.IsConnected()
				srv.unhang()
				if err := srv.up(); err != nil {
					return "HARNESS-listen-error"
				}
				up = true
				// a running reconnection loop now succeeds (its delay is at most 80 ms; a dial that was hanging first has
				// to run into the 1 s handshake timeout)
				w := 400 * time.Millisecond
				if hanging {
					w = 1700 * time.Millisecond
					hanging = false
				}
				c0 := srv.raw()
				waitCond(w, func() bool { return (nEv("rec") > before || (cl.IsConnected() && !wasConn)) && srv.raw() > c0 })
				settleEv()
				return fmt.Sprintf("ok %s conns=%d connected=%v", take(), srv.count(), cl.IsConnected())
			case "lose":
				c := srv.last()
				if c == nil {
					return "no-connection"
				}
				beforeD, beforeR, beforeF := nEv("disc"), nEv("rec"), nFails()
				c0 := srv.raw()
				switch f[1] {
				case "close1000":
					_ = c.WriteControl(websocket.CloseMessage, websocket.FormatCloseMessage(websocket.CloseNormalClosure, ""), time.Now().Add(time.Second))
				case "close1011":
					_ = c.WriteControl(websocket.CloseMessage, websocket.FormatCloseMessage(websocket.CloseInternalServerErr, "bye"), time.Now().Add(time.Second))
				case "reset":
					if tc, ok := c.UnderlyingConn().(*net.TCPConn); ok {
						_ = tc.SetLinger(0)
					}
					_ = c.Close()
				case "mute":
					_ = c.SetReadDeadline(time.Now().Add(-time.Second))
				}
				t0 := time.Now()
				waitCond(2*time.Second, func() bool { return nEv("disc") > beforeD })
				detect := time.Since(t0)
				if f[1] != "mute" && f[1] != "reset" {
					_ = c.Close()
				}
				// then either the first attempt succeeds (server up) or fails (server down); a hanging server keeps the dial busy
				if hanging {
					time.Sleep(60 * time.Millisecond)
				} else {
					waitCond(time.Second, func() bool { return (nEv("rec") > beforeR && srv.raw() > c0) || nFails() > beforeF })
				}
				settleEv()
				extra := ""
				if f[1] == "mute" && detect > 250*time.Millisecond {
					extra = fmt.Sprintf(" LATE-DETECTION(%v)", detect.Round(time.Millisecond))
				}
				res := "looping"
				if cl.IsConnected() {
					res = "reconnected"
				}
				return fmt.Sprintf("%s %s conns=%d%s", res, take(), srv.count(), extra)
			case "fails":
				var n int
				fmt.Sscan(f[1], &n)
				before := nFails()
				okf := waitCond(3*time.Second, func() bool { return nFails() >= before+n })
				return fmt.Sprintf("failed=%v %s conns=%d", okf, take(), srv.count())
			case "idle":
				var ms int
				fmt.Sscan(f[1], &ms)
				time.Sleep(time.Duration(ms) * time.Millisecond)
				return fmt.Sprintf("connected=%v %s conns=%d", cl.IsConnected(), take(), srv.count())
			case "stop", "stop2":
				beforeD := nEv("disc")
				was := cl.IsConnected()
				cl.Stop()
				if f[0] == "stop2" {
					cl.Stop()
				}
				if was {
					waitCond(time.Second, func() bool { return nEv("disc") > beforeD })
				}
				// nothing may happen any more: longer than the longest back-off delay
				cnt := srv.count()
				time.Sleep(200 * time.Millisecond)
				late := ""
				if srv.count() != cnt || cl.IsConnected() {
					late = " RECONNECTED-AFTER-STOP"
				}
				// Stop closed the error channel: take the current one for the next session
				drain(cl)
				return fmt.Sprintf("stopped %s conns=%d connected=%v%s", take(), srv.count(), cl.IsConnected(), late)
			}
			return "bad-op"
		}))
	}
	_ = up
	if cl != nil {
		cl.Stop()
	}
	if srv != nil {
		srv.down()
	}
}
