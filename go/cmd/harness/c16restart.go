package main

import (
	"fmt"
	"net"
	"sync"
	"sync/atomic"
	"time"

	"github.com/gorilla/websocket"
	"github.com/lorenzodonini/ocpp-go/ocpp"
	"github.com/lorenzodonini/ocpp-go/ocpp1.6/core"
	"github.com/lorenzodonini/ocpp-go/ocppj"
	"github.com/lorenzodonini/ocpp-go/ws"
)

// Monitor c16_restart (C16 / C01, directed, on the implementation): a charge point / charging station on a fake
// websocket client is stopped and started again while its callback goroutine is busy inside an application callback
// (the callback of r1 is held at a gate) and a second request r2 is outstanding. After the restart
//   * the callback of r2, a request of the old session, is not invoked (no conclusion is delivered after Stop, and the new
//     session starts without stale callbacks),
//   * a request r3 of the new session is concluded at its own callback.
// On the pinned tree the callback goroutine read the stop channel from the endpoint's field on every iteration: Start
// replaces that field, so a goroutine that was busy during Stop never saw its channel closed, kept serving the new
// session, never dropped the old callbacks, and r3's response went to r2's callback.

func init() {
	roundsProp["c16_stopsend"] = "C16"
	rounds["c16_stopsend"] = func(seed int64, i int) roundResult {
		var res roundResult
		ver := []string{"R16", "R201"}[i%2]
		if sig, what := c16StopVsSend(ver, i%4 >= 2); sig != "" {
			res.Violations = append(res.Violations, Violation{Property: "C16", Sig: sig, What: what})
		}
		res.Events = 1
		return res
	}
	monitors["c16_restart"] = func(seed int64, tier string) interface{} {
		rep := &Report{Monitor: "c16_restart", Rule: "per protocol version: charge point / charging station on a fake websocket client; the callback of r1 is held at a gate (the callback goroutine is busy), r2 is outstanding, Stop, Start, gate released, r3 sent and answered: r2's callback must not fire after Stop, r3's response reaches r3's callback; repeated with the gate released before the restart (callback goroutine idle at Stop); distinct = runs", Stats: map[string]interface{}{}}
		reps := 3
		if tier == "thorough" {
			reps = 25
		}
		for _, ver := range []string{"R16", "R201"} {
			for _, busy := range []bool{true, false} {
				for k := 0; k < reps; k++ {
					rep.Evaluations++
					sig, what, steps := c16RestartRun(ver, busy)
					if sig == "harness" {
						continue
					}
					rep.Distinct++
					if sig != "" {
						dup := false
						for _, v := range rep.Violations {
							if v.Sig == sig {
								dup = true
							}
						}
						if !dup {
							rep.Violations = append(rep.Violations, Violation{Property: "C16", Sig: sig, What: what,
								Replay: map[string]interface{}{"version": ver, "callback_goroutine_busy_at_stop": busy, "steps": steps}})
						}
					}
				}
			}
		}
		// restart while the old session is busy reporting a time-out
		for _, ver := range []string{"R16", "R201"} {
			for k := 0; k < reps; k++ {
				rep.Evaluations++
				if sig, what := c16RestartBusyPump(ver); sig != "" && sig != "harness" {
					dup := false
					for _, v := range rep.Violations {
						if v.Sig == sig {
							dup = true
						}
					}
					if !dup {
						rep.Violations = append(rep.Violations, Violation{Property: "C16", Sig: sig, What: what,
							Replay: map[string]interface{}{"steps": []string{"ocppj.Client on a fake websocket client, timeout 30 ms", "SendRequest r1, never answered: the message pump reports the time-out, the cancel callback is held at a gate", "Stop", "Start (in a goroutine)", "gate released", "Start must return; a new request is written"}}})
					}
				} else if sig == "" {
					rep.Distinct++
				}
			}
		}
		// Stop releases every caller blocked in a synchronous request (not just one)
		for _, ver := range []string{"R16", "R201"} {
			for k := 0; k < reps; k++ {
				rep.Evaluations++
				if sig, what := c16BlockedCallers(ver); sig != "" && sig != "harness" {
					dup := false
					for _, v := range rep.Violations {
						if v.Sig == sig {
							dup = true
						}
					}
					if !dup {
						rep.Violations = append(rep.Violations, Violation{Property: "C16", Sig: sig, What: what,
							Replay: map[string]interface{}{"version": ver, "steps": []string{"start", "3 goroutines call the blocking SendRequest (one CALL written, two queued)", "Stop", "every caller must return with an error within 2 s"}}})
					}
				} else if sig == "" {
					rep.Distinct++
				}
			}
		}
		// Stop racing concurrent sends, with and without an immediate restart: rounds in their own process (a panic of
		// the library, or a wedged process, is reported by the parent)
		for _, r := range runRounds("c16_stopsend", seed, reps*16, 8) {
			rep.Evaluations++
			if r.Events > 0 && len(r.Violations) == 0 {
				rep.Distinct++
			}
			if r.Events == 0 && len(r.Violations) == 0 {
				r.Violations = append(r.Violations, Violation{Property: "C16", Sig: "stop/send-wedged", What: "Stop racing three goroutines that call SendRequestAsync in a loop: the round did not finish within 90 s (a call never returned)"})
			}
			for _, v := range r.Violations {
				dup := false
				for _, w := range rep.Violations {
					if w.Sig == v.Sig {
						dup = true
					}
				}
				if !dup {
					if v.Replay == nil {
						v.Replay = map[string]interface{}{"steps": []string{"start", "3 goroutines call SendRequestAsync in a loop", "Stop (and, in half of the rounds, Start at once)", "no call may panic or hang; after the restart a request is accepted"}}
					}
					rep.Violations = append(rep.Violations, v)
				}
			}
		}
		// a request whose Push lands after Stop, and a stale outcome in the outcome channel across Stop + Start (single CPU)
		for _, r := range append(runRounds("c16_latepush", seed, reps*2, 4), runRounds("c16_inflight", seed, reps*4, 4)...) {
			rep.Evaluations++
			if r.Events > 0 && len(r.Violations) == 0 {
				rep.Distinct++
			}
			for _, v := range r.Violations {
				dup := false
				for _, w := range rep.Violations {
					if w.Sig == v.Sig {
						dup = true
					}
				}
				if !dup {
					if v.Replay == nil {
						v.Replay = map[string]interface{}{"steps": []string{"start", "r1 answered, its callback held at a gate", "r2 sent and answered (its outcome waits in the outcome channel)", "GOMAXPROCS(1)", "Stop", "Start", "sendAsync r3", "r3 answered", "gate released"}}
					}
					rep.Violations = append(rep.Violations, v)
				}
			}
		}
		// Stop while the websocket client is in its reconnection loop: no connection afterwards
		for k := 0; k < reps; k++ {
			rep.Evaluations++
			if sig, what := c16StopDuringReconnect(); sig != "" && sig != "harness" {
				dup := false
				for _, v := range rep.Violations {
					if v.Sig == sig {
						dup = true
					}
				}
				if !dup {
					rep.Violations = append(rep.Violations, Violation{Property: "C16", Sig: sig, What: what,
						Replay: map[string]interface{}{"steps": []string{"ocppj.Client on the real ws.Client, raw server", "server stops accepting and drops the connection", "client in its reconnection loop", "ocppj.Client.Stop()", "server accepts again", "no connection must arrive within 400 ms (back-off 30 ms)"}}})
				}
			} else if sig == "" {
				rep.Distinct++
			}
		}
		return rep
	}
}

// c16StopVsSend: Stop racing concurrent sends (and a restart right after): no call panics, and the restarted endpoint works
func c16StopVsSend(ver string, restart bool) (sig, what string) {
	e := newEndpoint(ver, "cp", epOpts{timeout: 5 * time.Second})
	var panics int32
	var firstPanic atomic.Value
	stopSend := make(chan struct{})
	var wg sync.WaitGroup
	for k := 0; k < 3; k++ {
		wg.Add(1)
		go func() {
			defer wg.Done()
			for {
				select {
				case <-stopSend:
					return
				default:
				}
				// (no recover: a panic of the library kills this round's process and is reported by the parent)
				_ = e.sendAsync("", dataTransferReq(ver), func(ocpp.Response, error) {})
			}
		}()
	}
	time.Sleep(300 * time.Microsecond)
	e.stop()
	if restart {
		e.start()
	}
	time.Sleep(300 * time.Microsecond)
	close(stopSend)
	wg.Wait()
	if n := atomic.LoadInt32(&panics); n > 0 {
		return "stop/send-panics:" + ver, fmt.Sprintf("%s: %d calls of SendRequestAsync racing Stop panicked: %v", ver, n, firstPanic.Load())
	}
	if restart {
		// the restarted endpoint is usable
		time.Sleep(5 * time.Millisecond)
		e.takeWrites()
		var got int32
		err := e.sendAsync("", dataTransferReq(ver), func(r ocpp.Response, err error) { atomic.AddInt32(&got, 1) })
		if err != nil {
			e.stop()
			return "restart/send-rejected:" + ver, fmt.Sprintf("%s: a request sent after Stop + Start (racing senders) was rejected: %v", ver, err)
		}
		e.stop()
	}
	return "", ""
}

// c16RestartBusyPump: the dispatcher is stopped and started again while its message pump is inside the application's
// cancel callback (a request timed out; the callback is held at a gate): Start may wait for that pump, but once the
// callback has returned Start returns and the endpoint works
func c16RestartBusyPump(ver string) (sig, what string) {
	fc := &fakeClient{}
	d := ocppj.NewDefaultClientDispatcher(ocppj.NewFIFOClientQueue(0))
	d.SetTimeout(30 * time.Millisecond)
	c := ocppj.NewClient("cp1", fc, d, nil, core.Profile)
	gate := make(chan struct{})
	entered := make(chan struct{}, 1)
	c.SetRequestHandler(func(r ocpp.Request, id, action string) {})
	c.SetResponseHandler(func(r ocpp.Response, id string) {})
	c.SetErrorHandler(func(e *ocpp.Error, det interface{}) {})
	c.SetOnRequestCanceled(func(id string, r ocpp.Request, e *ocpp.Error) {
		select {
		case entered <- struct{}{}:
			<-gate // the message pump is inside this callback
		default:
		}
	})
	if err := c.Start("ws://fake"); err != nil {
		return "harness", ""
	}
	if err := c.SendRequest(core.NewHeartbeatRequest()); err != nil {
		return "harness", ""
	}
	select {
	case <-entered:
	case <-time.After(2 * time.Second):
		return "harness", ""
	}
	stopped := make(chan struct{})
	go func() { c.Stop(); close(stopped) }()
	select {
	case <-stopped:
	case <-time.After(2 * time.Second):
		close(gate)
		return "stop/blocked-by-callback", "ocppj.Client.Stop did not return while the message pump was inside the application's cancel callback"
	}
	started := make(chan struct{})
	go func() { _ = c.Start("ws://fake"); close(started) }()
	time.Sleep(20 * time.Millisecond)
	close(gate)
	select {
	case <-started:
	case <-time.After(3 * time.Second):
		return "restart/start-wedged", "Start after Stop never returned although the cancel callback that kept the message pump of the stopped session busy has returned"
	}
	fc.takeWrites()
	if err := c.SendRequest(core.NewHeartbeatRequest()); err != nil {
		c.Stop()
		return "restart/send-rejected:ocppj", fmt.Sprintf("a request sent after Stop + Start was rejected: %v", err)
	}
	ok := waitCond(time.Second, func() bool { return len(fc.takeWrites()) > 0 })
	c.Stop()
	if !ok {
		return "restart/not-written:ocppj", "a request accepted after Stop + Start was never written"
	}
	return "", ""
}

func c16BlockedCallers(ver string) (sig, what string) {
	e := newEndpoint(ver, "cp", epOpts{timeout: 30 * time.Second})
	var returned int32
	var wg sync.WaitGroup
	n := 3
	for k := 0; k < n; k++ {
		wg.Add(1)
		go func() {
			defer wg.Done()
			_, _ = e.sendSync(dataTransferReq(ver))
			atomic.AddInt32(&returned, 1)
		}()
	}
	if w := e.waitWrites(1, time.Second); len(w) < 1 {
		return "harness", ""
	}
	time.Sleep(10 * time.Millisecond) // the other callers are queued and blocked by now
	e.stop()
	done := make(chan struct{})
	go func() { wg.Wait(); close(done) }()
	select {
	case <-done:
		return "", ""
	case <-time.After(2 * time.Second):
		return "stop/callers-still-blocked:" + ver, fmt.Sprintf("%s: %d of %d callers blocked in the synchronous SendRequest were released by Stop (the others are blocked for ever: the dispatcher is stopped, no timeout will fire)", ver, atomic.LoadInt32(&returned), n)
	}
}

func c16StopDuringReconnect() (sig, what string) {
	srv := &rawServer{muted: map[*websocket.Conn]bool{}}
	if err := srv.up(); err != nil {
		return "harness", ""
	}
	defer srv.down()
	url := fmt.Sprintf("ws://127.0.0.1:%d/cp1", srv.port)
	cl := ws.NewClient()
	cl.SetRequestedSubProtocol("ocpp1.6")
	cfg := ws.NewClientTimeoutConfig()
	cfg.RetryBackOffWaitMinimum = 30 * time.Millisecond
	cfg.RetryBackOffRandomRange = 0
	cfg.RetryBackOffRepeatTimes = 1
	cfg.HandshakeTimeout = time.Second
	cfg.PingPeriod, cfg.PongWait = 0, 0
	cl.SetTimeoutConfig(cfg)
	d := ocppj.NewDefaultClientDispatcher(ocppj.NewFIFOClientQueue(0))
	c := ocppj.NewClient("cp1", cl, d, nil, core.Profile)
	var fails int32
	errs := cl.Errors()
	go func() {
		for range errs {
			atomic.AddInt32(&fails, 1)
		}
	}()
	if err := c.Start(url); err != nil {
		return "harness", ""
	}
	waitCond(time.Second, func() bool { return srv.raw() >= 1 })
	srv.down()
	if conn := srv.last(); conn != nil {
		if tc, ok := conn.UnderlyingConn().(*net.TCPConn); ok {
			_ = tc.SetLinger(0)
		}
		_ = conn.Close()
	}
	// the client is in its reconnection loop once an attempt has failed
	if !waitCond(2*time.Second, func() bool { return atomic.LoadInt32(&fails) >= 1 }) {
		c.Stop()
		return "harness", ""
	}
	c.Stop()
	n0 := srv.raw()
	if err := srv.up(); err != nil {
		return "harness", ""
	}
	time.Sleep(400 * time.Millisecond)
	if n := srv.raw(); n > n0 {
		return "stop/reconnected-after-stop", fmt.Sprintf("an ocppj client stopped during its reconnection loop opened %d new connection(s) after Stop had returned", n-n0)
	}
	return "", ""
}

func c16RestartRun(ver string, busy bool) (sig, what string, steps []string) {
	e := newEndpoint(ver, "cp", epOpts{timeout: 5 * time.Second})
	var mu sync.Mutex
	var log []string
	rec := func(s string) { mu.Lock(); log = append(log, s); mu.Unlock() }
	snapshot := func() []string { mu.Lock(); defer mu.Unlock(); return append([]string{}, log...) }
	has := func(s string) bool {
		for _, l := range snapshot() {
			if l == s {
				return true
			}
		}
		return false
	}
	kind := func(r ocpp.Response, err error) string {
		if err != nil {
			return "err"
		}
		return "resp"
	}
	reply := func(id string) string { return fmt.Sprintf(`[3,"%s",{"status":"Accepted","data":"%s"}]`, id, id) }
	gate := make(chan struct{})
	entered := make(chan struct{})
	steps = append(steps, "start", "sendAsync r1 (callback held at a gate)")
	if err := e.sendAsync("", dataTransferReq(ver), func(r ocpp.Response, err error) { rec("cb1:" + kind(r, err)); close(entered); <-gate }); err != nil {
		return "harness", "", nil
	}
	w := e.waitWrites(1, time.Second)
	if len(w) < 1 {
		return "harness", "", nil
	}
	f1, _ := parseFrame(w[0].data)
	steps = append(steps, "reply r1")
	_ = e.deliver("", []byte(reply(f1.ID)))
	select {
	case <-entered:
	case <-time.After(2 * time.Second):
		return "harness", "", nil
	}
	steps = append(steps, "sendAsync r2 (never answered)")
	if err := e.sendAsync("", dataTransferReq(ver), func(r ocpp.Response, err error) { rec("cb2:" + kind(r, err)) }); err != nil {
		close(gate)
		return "harness", "", nil
	}
	e.waitWrites(1, time.Second)
	if !busy {
		steps = append(steps, "release the gate (callback goroutine idle)")
		close(gate)
		time.Sleep(5 * time.Millisecond)
	}
	steps = append(steps, "Stop", "Start")
	e.stop()
	rec("stopped")
	e.start()
	if busy {
		steps = append(steps, "release the gate")
		close(gate)
	}
	time.Sleep(10 * time.Millisecond)
	steps = append(steps, "sendAsync r3", "reply r3")
	e.takeWrites()
	if err := e.sendAsync("", dataTransferReq(ver), func(r ocpp.Response, err error) { rec("cb3:" + kind(r, err)) }); err != nil {
		return "restart/send-rejected:" + ver, fmt.Sprintf("%s: a request sent after Stop + Start was rejected: %v", ver, err), steps
	}
	w3 := e.waitWrites(1, time.Second)
	if len(w3) < 1 {
		e.stop()
		return "restart/not-written:" + ver, fmt.Sprintf("%s: a request accepted after Stop + Start was never written", ver), steps
	}
	f3, _ := parseFrame(w3[0].data)
	_ = e.deliver("", []byte(reply(f3.ID)))
	waitCond(time.Second, func() bool { return has("cb3:resp") })
	time.Sleep(5 * time.Millisecond)
	l := snapshot()
	defer e.stop()
	after := false
	for _, x := range l {
		if x == "stopped" {
			after = true
			continue
		}
		if after && (x == "cb2:resp" || x == "cb2:err") {
			return "restart/stale-callback:" + ver, fmt.Sprintf("%s: the callback of a request of the stopped session fired after the restart (%s; callbacks in order: %v): the response of the new session's request went to a stale callback", ver, x, l), steps
		}
	}
	if !has("cb3:resp") {
		return "restart/callback-lost:" + ver, fmt.Sprintf("%s: the response to a request sent after Stop + Start never reached its callback (callbacks in order: %v)", ver, l), steps
	}
	return "", "", steps
}
