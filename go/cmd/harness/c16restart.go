package main

import (
	"fmt"
	"sync"
	"time"

	"github.com/lorenzodonini/ocpp-go/ocpp"
)

// Monitor c16_restart (C16 / C01, directed, on the implementation): a charge point / charging station on a fake
// websocket client is stopped and started again while its callback goroutine is busy inside an application callback
// (the callback of r1 is held at a gate) and a second request r2 is outstanding. After the restart
//   * the callback of r2, a request of the old session, is not invoked (no conclusion is delivered after Stop, and the new
//     session starts without stale callbacks),
//   * a request r3 of the new session is concluded at its own callback.
// On the pinned tree the callback goroutine read the stop channel from the endpoint's field on every iteration: Start
// replaces that field, so a goroutine that was busy during Stop never saw its channel closed, kept serving the new
// session, never dropped the old callbacks, and r3's response went to r2's callback.

func init() {
	monitors["c16_restart"] = func(seed int64, tier string) interface{} {
		rep := &Report{Monitor: "c16_restart", Rule: "per protocol version: charge point / charging station on a fake websocket client; the callback of r1 is held at a gate (the callback goroutine is busy), r2 is outstanding, Stop, Start, gate released, r3 sent and answered: r2's callback must not fire after Stop, r3's response reaches r3's callback; repeated with the gate released before the restart (callback goroutine idle at Stop); distinct = runs", Stats: map[string]interface{}{}}
		reps := 3
		if tier == "thorough" {
			reps = 25
		}
		for _, ver := range []string{"R16", "R201"} {
			for _, busy := range []bool{true, false} {
				for k := 0; k < reps; k++ {
					rep.Evaluations++
					sig, what, steps := c16RestartRun(ver, busy)
					if sig == "harness" {
						continue
					}
					rep.Distinct++
					if sig != "" {
						dup := false
						for _, v := range rep.Violations {
							if v.Sig == sig {
								dup = true
							}
						}
						if !dup {
							rep.Violations = append(rep.Violations, Violation{Property: "C16", Sig: sig, What: what,
								Replay: map[string]interface{}{"version": ver, "callback_goroutine_busy_at_stop": busy, "steps": steps}})
						}
					}
				}
			}
		}
		return rep
	}
}

func c16RestartRun(ver string, busy bool) (sig, what string, steps []string) {
	e := newEndpoint(ver, "cp", epOpts{timeout: 5 * time.Second})
	var mu sync.Mutex
	var log []string
	rec := func(s string) { mu.Lock(); log = append(log, s); mu.Unlock() }
	snapshot := func() []string { mu.Lock(); defer mu.Unlock(); return append([]string{}, log...) }
	has := func(s string) bool {
		for _, l := range snapshot() {
			if l == s {
				return true
			}
		}
		return false
	}
	kind := func(r ocpp.Response, err error) string {
		if err != nil {
			return "err"
		}
		return "resp"
	}
	reply := func(id string) string { return fmt.Sprintf(`[3,"%s",{"status":"Accepted","data":"%s"}]`, id, id) }
	gate := make(chan struct{})
	entered := make(chan struct{})
	steps = append(steps, "start", "sendAsync r1 (callback held at a gate)")
	if err := e.sendAsync("", dataTransferReq(ver), func(r ocpp.Response, err error) { rec("cb1:" + kind(r, err)); close(entered); <-gate }); err != nil {
		return "harness", "", nil
	}
	w := e.waitWrites(1, time.Second)
	if len(w) < 1 {
		return "harness", "", nil
	}
	f1, _ := parseFrame(w[0].data)
	steps = append(steps, "reply r1")
	_ = e.deliver("", []byte(reply(f1.ID)))
	select {
	case <-entered:
	case <-time.After(2 * time.Second):
		return "harness", "", nil
	}
	steps = append(steps, "sendAsync r2 (never answered)")
	if err := e.sendAsync("", dataTransferReq(ver), func(r ocpp.Response, err error) { rec("cb2:" + kind(r, err)) }); err != nil {
		close(gate)
		return "harness", "", nil
	}
	e.waitWrites(1, time.Second)
	if !busy {
		steps = append(steps, "release the gate (callback goroutine idle)")
		close(gate)
		time.Sleep(5 * time.Millisecond)
	}
	steps = append(steps, "Stop", "Start")
	e.stop()
	rec("stopped")
	e.start()
	if busy {
		steps = append(steps, "release the gate")
		close(gate)
	}
	time.Sleep(10 * time.Millisecond)
	steps = append(steps, "sendAsync r3", "reply r3")
	e.takeWrites()
	if err := e.sendAsync("", dataTransferReq(ver), func(r ocpp.Response, err error) { rec("cb3:" + kind(r, err)) }); err != nil {
		return "restart/send-rejected:" + ver, fmt.Sprintf("%s: a request sent after Stop + Start was rejected: %v", ver, err), steps
	}
	w3 := e.waitWrites(1, time.Second)
	if len(w3) < 1 {
		e.stop()
		return "restart/not-written:" + ver, fmt.Sprintf("%s: a request accepted after Stop + Start was never written", ver), steps
	}
	f3, _ := parseFrame(w3[0].data)
	_ = e.deliver("", []byte(reply(f3.ID)))
	waitCond(time.Second, func() bool { return has("cb3:resp") })
	time.Sleep(5 * time.Millisecond)
	l := snapshot()
	defer e.stop()
	after := false
	for _, x := range l {
		if x == "stopped" {
			after = true
			continue
		}
		if after && (x == "cb2:resp" || x == "cb2:err") {
			return "restart/stale-callback:" + ver, fmt.Sprintf("%s: the callback of a request of the stopped session fired after the restart (%s; callbacks in order: %v): the response of the new session's request went to a stale callback", ver, x, l), steps
		}
	}
	if !has("cb3:resp") {
		return "restart/callback-lost:" + ver, fmt.Sprintf("%s: the response to a request sent after Stop + Start never reached its callback (callbacks in order: %v)", ver, l), steps
	}
	return "", "", steps
}
