package main

import (
	"fmt"
	"math/rand"
	"os"
	"strconv"
	"strings"
	"sync"
	"time"

	"github.com/lorenzodonini/ocpp-go/ocpp"
	"github.com/lorenzodonini/ocpp-go/ocpp1.6/core"
	"github.com/lorenzodonini/ocpp-go/ocppj"
)

// H3/cdisp: real ocppj.Client + DefaultClientDispatcher on a fake ws.Client, one event at a time, run to
// quiescence (goroutine wait states), vs the Lean model Ocpp.CD.

type cdisp struct{}

func init() {
	suites["cdisp"] = cdisp{}
	childSuites["cdisp"] = runCDisp
}

const dispTimeout = 120 * time.Millisecond

// nearMissID sometimes turns a used id into an id that was never used but is close to it (padding with white space,
// letter case, one character more or less): a reply with such an id must be ignored like any other unknown id.
// White space travels in the op line as %20 / %09 and is put back by wireID.
func nearMissID(r *rand.Rand, id string) string {
	if id == "unknown" || id == "" || r.Intn(6) != 0 {
		return id
	}
	switch r.Intn(7) {
	case 0:
		return "%20" + id
	case 1:
		return id + "%20"
	case 2:
		return id + "%09"
	case 3:
		return strings.ToUpper(id)
	case 4:
		return id + "x"
	case 5:
		return id[:len(id)-1]
	}
	return "%20" + id + "%20"
}

func wireID(id string) string {
	return strings.NewReplacer("%20", " ", "%09", `\t`).Replace(id)
}

func (cdisp) Gen(r *rand.Rand, sessions int) []string {
	var out []string
	for s := 0; s < sessions; s++ {
		capacity := []int{0, 0, 1, 2, 3, 10}[r.Intn(6)]
		out = append(out, fmt.Sprintf("reset %d", capacity), "start")
		running, connected, wf := true, true, false
		n := 0
		var ids []string // ids sent in this session
		nev := 8 + r.Intn(30)
		waits := 0
		for i := 0; i < nev; i++ {
			k := r.Intn(100)
			switch {
			case k < 38:
				n++
				id := fmt.Sprintf("s%dm%d", s, n)
				ids = append(ids, id)
				out = append(out, "send "+id)
			case k < 66:
				// reply: usually one of the recent ids (pending or queued or concluded), sometimes unknown
				id := "unknown"
				if len(ids) > 0 && r.Intn(8) != 0 {
					// bias towards older ids (the outstanding one is the oldest unconcluded)
					id = ids[r.Intn(len(ids))]
					if r.Intn(2) == 0 {
						id = ids[r.Intn((len(ids)+1)/2)]
					}
				}
				id = nearMissID(r, id)
				if running {
					out = append(out, "reply "+id+" "+pick(r, "result", "result", "error"))
				}
			case k < 72:
				if waits < 3 && running {
					waits++
					out = append(out, "wait")
				}
			case k < 80:
				if running && connected {
					connected = false
					if r.Intn(3) == 0 {
						// the application's disconnected handler sends a request
						n++
						id := fmt.Sprintf("s%dm%d", s, n)
						ids = append(ids, id)
						out = append(out, "dsend "+id)
					} else {
						out = append(out, "disconnect")
					}
				}
			case k < 90:
				if running && !connected {
					connected = true
					out = append(out, "reconnect")
				}
			case k < 94:
				wf = !wf
				out = append(out, "writefail "+map[bool]string{true: "on", false: "off"}[wf])
			case k < 97:
				if running {
					running, connected = false, false
					out = append(out, "stop")
				}
			default:
				if !running {
					running, connected = true, true
					out = append(out, "start")
				}
			}
		}
	}
	return out
}

func (cdisp) Run(ops []string, emit func(string)) { runIsolated("cdisp", ops, emit) }

// the model's `running`: SendRequest on a stopped client answers "not started"
func dispatcherIsRunning(c *ocppj.Client) bool {
	defer func() { _ = recover() }()
	err := c.SendRequest(probeReq{})
	return err == nil || !strings.Contains(err.Error(), "is not started")
}

type probeReq struct{}

func (probeReq) GetFeatureName() string { return "\x00probe" }

// armTracker remembers when the timers of outstanding requests were armed (harness-side clock)
type armTracker struct {
	mu sync.Mutex
	t  map[string]time.Time
}

func (a *armTracker) reset() {
	a.mu.Lock()
	a.t = map[string]time.Time{}
	a.mu.Unlock()
}
func (a *armTracker) arm(key string) {
	a.mu.Lock()
	if a.t == nil {
		a.t = map[string]time.Time{}
	}
	a.t[key] = time.Now()
	a.mu.Unlock()
}
func (a *armTracker) dropPrefix(pre string) {
	a.mu.Lock()
	for k := range a.t {
		if strings.HasPrefix(k, pre) {
			delete(a.t, k)
		}
	}
	a.mu.Unlock()
}
func (a *armTracker) dropSuffix(suf string) {
	a.mu.Lock()
	for k := range a.t {
		if strings.HasSuffix(k, suf) {
			delete(a.t, k)
		}
	}
	a.mu.Unlock()
}
func (a *armTracker) rearm() {
	a.mu.Lock()
	for k := range a.t {
		a.t[k] = time.Now()
	}
	a.mu.Unlock()
}

// early: does the observation line report a time-out for a request that was written less than the configured timeout
// ago? (a slow harness can only make time-outs late, never early: such a time-out is the library's doing)
func (a *armTracker) early(out string, timeout time.Duration) bool {
	a.mu.Lock()
	defer a.mu.Unlock()
	for _, p := range strings.Split(out, " ") {
		f := strings.Split(p, ":")
		if f[0] != "cancel" || f[len(f)-1] != "timeout" {
			continue
		}
		var key string
		if len(f) == 4 {
			key = f[1] + ":" + f[2] // cancel:client:id:timeout
		} else if len(f) == 3 {
			key = ":" + f[1] // cancel:id:timeout
		}
		if t, ok := a.t[key]; ok && time.Since(t) < timeout-3*time.Millisecond {
			return true
		}
	}
	return false
}

// observe drops the requests concluded according to the observation line
func (a *armTracker) observe(out string) {
	a.mu.Lock()
	defer a.mu.Unlock()
	for _, p := range strings.Split(out, " ") {
		f := strings.Split(p, ":")
		switch f[0] {
		case "resp", "err", "cancel":
			if len(f) >= 3 && (len(f[1]) <= 1) { // server form kind:client:id  (client ids are single letters)
				delete(a.t, f[1]+":"+f[2])
			}
			if len(f) >= 2 {
				delete(a.t, ":"+f[1]) // client form kind:id
			}
		}
	}
}
func (a *armTracker) oldest() time.Duration {
	a.mu.Lock()
	defer a.mu.Unlock()
	var d time.Duration
	for _, t := range a.t {
		if x := time.Since(t); x > d {
			d = x
		}
	}
	return d
}

// doubleTimeout: more than one time-out on the same connection in one observation line
func doubleTimeout(out string) bool {
	n := map[string]int{}
	for _, p := range strings.Split(out, " ") {
		f := strings.Split(p, ":")
		switch {
		case f[0] == "cancel" && f[len(f)-1] == "timeout":
			c := ""
			if len(f) == 4 {
				c = f[1]
			}
			n[c]++
		case f[0] == "deliv" && len(f) >= 4 && f[2] == "timeout":
			// protocol layer: the client is not part of the observation; ids carry it (s<session><client letter><n>)
			c := strings.TrimLeft(f[3], "sk0123456789")
			if len(c) > 0 {
				c = c[:1]
			}
			n[c]++
		}
	}
	for _, v := range n {
		if v > 1 {
			return true
		}
	}
	return false
}

type evlog struct {
	mu  sync.Mutex
	evs []string
}

func (l *evlog) add(s string) {
	l.mu.Lock()
	l.evs = append(l.evs, s)
	l.mu.Unlock()
}
func (l *evlog) take() []string {
	l.mu.Lock()
	defer l.mu.Unlock()
	e := l.evs
	l.evs = nil
	return e
}

// goroutines already wedged when a session starts (left behind by an earlier session of the same process) are not
// this session's; they are remembered here and ignored
var stuckBaseline = map[string]bool{}

func rebaseStuck() {
	stuck, _ := quiesce(500 * time.Millisecond)
	stuckBaseline = map[string]bool{}
	for _, g := range stuck {
		stuckBaseline[g.id] = true
		if f, err := os.OpenFile(verifRoot()+"/gen/leftover.log", os.O_APPEND|os.O_CREATE|os.O_WRONLY, 0o644); err == nil {
			fmt.Fprintln(f, "LEFTOVER-WEDGED-GOROUTINE", g.state, g.top, g.where)
			f.Close()
		}
	}
}

func settle(l *evlog) string {
	stuck0, ok := quiesce(2 * time.Second)
	var stuck []gstate
	for _, g := range stuck0 {
		if !stuckBaseline[g.id] {
			stuck = append(stuck, g)
		}
	}
	evs := l.take()
	if !ok {
		evs = append(evs, "NOT-QUIESCENT")
	}
	if len(stuck) > 0 {
		evs = append(evs, "BLOCKED")
	}
	if len(evs) == 0 {
		return "-"
	}
	return strings.Join(evs, " ")
}

func runCDisp(ops []string, emit func(string)) {
	var fc *fakeClient
	var c *ocppj.Client
	lg := &evlog{}
	nextID := ""
	ocppj.SetMessageIdGenerator(func() string { return nextID })
	tainted := false
	dead := false
	arms := &armTracker{}
	var waitStart time.Time
	var waitOldest time.Duration
	hsend := ""
	var hpre []string
	for _, l := range ops {
		f := fields(l)
		if f[0] == "reset" {
			if c != nil && !dead {
				func() {
					defer func() { _ = recover() }()
					c.Stop()
				}()
			}
			capacity, _ := strconv.Atoi(f[1])
			lg = &evlog{} // a fresh log: late effects of the previous session's endpoint must not leak into this one
			lg := lg
			fc = &fakeClient{}
			fc.onWrite = func(data []byte) {
				fr, err := parseFrame(data)
				if err == nil && fr.Type == 2 {
					arms.arm(":" + fr.ID)
					lg.add("wrote:" + fr.ID)
				} else {
					lg.add("wrote-other")
				}
			}
			d := ocppj.NewDefaultClientDispatcher(ocppj.NewFIFOClientQueue(capacity))
			d.SetTimeout(dispTimeout)
			c = ocppj.NewClient("cp1", fc, d, nil, core.Profile)
			c.SetDialect(ocpp.V16)
			c.SetResponseHandler(func(r ocpp.Response, id string) { lg.add("resp:" + id) })
			c.SetErrorHandler(func(e *ocpp.Error, details interface{}) { lg.add("err:" + e.MessageId) })
			c.SetRequestHandler(func(r ocpp.Request, id string, action string) {})
			c.SetOnRequestCanceled(func(id string, r ocpp.Request, e *ocpp.Error) {
				kind := "write"
				if e.Code == ocppj.GenericError {
					kind = "timeout"
				}
				lg.add("cancel:" + id + ":" + kind)
			})
			cc := c
			c.SetOnDisconnectedHandler(func(err error) {
				if hsend == "" {
					return
				}
				nextID = hsend
				if err := cc.SendRequest(core.NewHeartbeatRequest()); err != nil {
					hpre = append(hpre, "rejected:"+hsend)
				} else {
					hpre = append(hpre, "accepted:"+hsend)
				}
				// a slow handler: the dispatcher gets its turn while the handler is still running
				_, _ = quiesce(100 * time.Millisecond)
			})
			lg.take()
			arms.reset()
			tainted, dead = false, false
			rebaseStuck()
			emit("ok")
			continue
		}
		if dead {
			emit("DEAD")
			continue
		}
		if tainted {
			emit("TIMING")
			continue
		}
		var pre []string
		switch f[0] {
		case "start":
			_ = c.Start("ws://fake")
		case "stop":
			if c.IsConnected() || dispatcherIsRunning(c) {
				pre = append(pre, "stopped")
			}
			c.Stop()
		case "send":
			nextID = f[1]
			if err := c.SendRequest(core.NewHeartbeatRequest()); err != nil {
				pre = append(pre, "rejected:"+f[1])
			} else {
				pre = append(pre, "accepted:"+f[1])
			}
		case "reply":
			var fr string
			if f[2] == "result" {
				fr = fmt.Sprintf(`[3,"%s",{"currentTime":"2020-01-01T00:00:00Z"}]`, wireID(f[1]))
			} else {
				fr = fmt.Sprintf(`[4,"%s","GenericError","some error",{}]`, wireID(f[1]))
			}
			done := make(chan struct{})
			go func() { _ = fc.deliver([]byte(fr)); close(done) }()
			select {
			case <-done:
			case <-time.After(300 * time.Millisecond):
				// the reader goroutine hangs inside the library
			}
		case "wait":
			waitStart, waitOldest = time.Now(), arms.oldest()
			if waitOldest > dispTimeout/2 {
				tainted = true
				emit("TIMING")
				continue
			}
			time.Sleep(dispTimeout + 15*time.Millisecond)
		case "disconnect":
			fc.drop(fmt.Errorf("connection lost"))
		case "dsend":
			hsend = f[1]
			fc.drop(fmt.Errorf("connection lost"))
			hsend = ""
			pre = append(pre, hpre...)
			hpre = nil
		case "reconnect":
			done := make(chan struct{})
			go func() { fc.reconnect(); close(done) }()
			select {
			case <-done:
			case <-time.After(300 * time.Millisecond):
			}
			arms.rearm()
		case "writefail":
			if f[1] == "on" {
				fc.setWriteErr(fmt.Errorf("injected write failure"))
			} else {
				fc.setWriteErr(nil)
			}
		default:
			emit("bad-op")
			continue
		}
		out := settle(lg)
		earlyTO := arms.early(out, dispTimeout)
		arms.observe(out)
		if f[0] == "wait" && time.Since(waitStart)+waitOldest > 2*dispTimeout-10*time.Millisecond {
			// the harness overslept: a request written at the first expiry may already have expired too
			tainted = true
			emit("TIMING")
			continue
		}
		if f[0] == "disconnect" || f[0] == "dsend" || f[0] == "stop" {
			arms.reset()
		}
		if f[0] == "wait" && doubleTimeout(out) {
			// two expiries on one connection within one `wait`: the harness overslept (the second request was written
			// when the first expired); the quiescent model fires each armed timer once per wait
			tainted = true
			emit("TIMING")
			continue
		}
		if f[0] != "wait" && strings.Contains(out, ":timeout") && !earlyTO {
			// a real timer fired although the model's clock did not advance: the harness was descheduled
			tainted = true
			emit("TIMING")
			continue
		}
		if strings.Contains(out, "BLOCKED") {
			dead = true
			// the model reports only BLOCKED for the event that wedges
			out = "BLOCKED"
			pre = nil
		}
		if f[0] == "reply" && out != "-" {
			// the reader goroutine (handler) and the pump goroutine (next dispatch) run concurrently after
			// CompleteRequest: their relative order is a genuine race; canonical form: handler first
			parts := strings.Split(out, " ")
			var h, rest []string
			for _, p := range parts {
				if strings.HasPrefix(p, "resp:") || strings.HasPrefix(p, "err:") {
					h = append(h, p)
				} else {
					rest = append(rest, p)
				}
			}
			out = strings.Join(append(h, rest...), " ")
		}
		if len(pre) > 0 {
			if out == "-" {
				out = strings.Join(pre, " ")
			} else {
				out = strings.Join(pre, " ") + " " + out
			}
		}
		emit(out)
	}
}
