package main

import (
	"regexp"
	"runtime"
	"strings"
	"time"
)

// Quiescence detection from goroutine wait states (runtime.Stack), not from sleeping.
// A library goroutine is one with a frame in github.com/lorenzodonini/ocpp-go (non-test) code.

type gstate struct {
	id    string
	state string
	top   string // first library frame
	where string // file:line of that frame
}

var gHeader = regexp.MustCompile(`^goroutine (\d+) \[([^\],]+)(?:, [^\]]*)?\]:`)

func libGoroutines() []gstate {
	buf := make([]byte, 1<<20)
	n := runtime.Stack(buf, true)
	var res []gstate
	for _, blk := range strings.Split(string(buf[:n]), "\n\n") {
		lines := strings.Split(blk, "\n")
		m := gHeader.FindStringSubmatch(lines[0])
		if m == nil {
			continue
		}
		g := gstate{id: m[1], state: m[2]}
		isHarness := false
		for i := 1; i+1 < len(lines); i += 2 {
			fn := lines[i]
			if strings.HasPrefix(fn, "main.") && g.top == "" {
				// a harness frame above any library frame: the goroutine is inside harness code (callback / gate)
				isHarness = true
			}
			if strings.Contains(fn, "github.com/lorenzodonini/ocpp-go/") && g.top == "" && !isHarness {
				g.top = fn
				g.where = strings.TrimSpace(lines[i+1])
			}
			if strings.Contains(fn, "github.com/lorenzodonini/ocpp-go/") && isHarness && g.top == "" {
				g.top = "harness-callback>" + fn
				g.where = strings.TrimSpace(lines[i+1])
			}
		}
		if g.top != "" {
			res = append(res, g)
		}
	}
	return res
}

func sig(gs []gstate) string {
	var sb strings.Builder
	for _, g := range gs {
		sb.WriteString(g.id + "|" + g.state + "|" + g.where + ";")
	}
	return sb.String()
}

// quiesce waits until every library goroutine is parked (select / chan receive / sleep / IO wait / semacquire /
// chan send) on two consecutive observations. It returns the goroutines that are blocked in a channel send or
// a mutex acquisition — at quiescence these are wedged for ever.
func quiesce(max time.Duration) (stuck []gstate, ok bool) {
	deadline := time.Now().Add(max)
	prev := ""
	stable := 0
	for time.Now().Before(deadline) {
		runtime.Gosched()
		gs := libGoroutines()
		parked := true
		for _, g := range gs {
			switch g.state {
			case "select", "chan receive", "sleep", "IO wait", "chan send", "semacquire", "sync.Mutex.Lock", "sync.RWMutex.Lock", "sync.RWMutex.RLock", "select (no cases)", "sync.Cond.Wait", "chan receive (nil chan)", "chan send (nil chan)":
			default:
				parked = false
			}
		}
		s := sig(gs)
		if parked && s == prev {
			stable++
			if stable >= 2 {
				for _, g := range gs {
					if strings.HasPrefix(g.state, "chan send") || strings.HasPrefix(g.state, "sync.") || g.state == "semacquire" {
						stuck = append(stuck, g)
					}
				}
				return stuck, true
			}
		} else {
			stable = 0
		}
		prev = s
		time.Sleep(50 * time.Microsecond)
	}
	return nil, false
}
