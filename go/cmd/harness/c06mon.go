package main

import (
	"encoding/hex"
	"encoding/json"
	"fmt"
	"math/rand"
	"os"
	"strings"
	"time"

	"github.com/lorenzodonini/ocpp-go/ocpp"
)

// Monitor c06_fuzz (search on the implementation, not a proof): mutated and random frames into the four real
// protocol endpoints (all profiles, generated stub handlers), each round in its own process. After every frame:
// no panic (a panic in any goroutine kills the round process and is reported with the last frame); every
// 25 frames: a valid CALL is still answered with one CALL_RESULT of the same id and the outstanding request is
// still completed by its genuine reply exactly once.

func randJSON(r *rand.Rand, depth int) interface{} {
	switch k := r.Intn(14); {
	case k == 0:
		return nil
	case k == 1:
		return r.Intn(2) == 0
	case k == 2:
		return []float64{0, -1, 0.5, 1e19, 1e308, -1e308, 2147483648, 9007199254740993, 1e-320}[r.Intn(9)]
	case k == 3:
		return r.Intn(1000) - 500
	case k == 4:
		return ""
	case k == 5:
		return strings.Repeat("A", []int{1, 20, 21, 36, 37, 50, 51, 255, 256, 1000, 5000}[r.Intn(11)])
	case k == 6:
		return []string{"null", "2020-01-01T00:00:00Z", "2020-13-45T99:99:99Z", "Accepted", "\u0000", "é \U0001F600", "\xff\xfe", "-1", "1e9", "true", "{}", " "}[r.Intn(12)]
	case k == 7:
		return []interface{}{}
	case k == 8:
		return map[string]interface{}{}
	case k == 9 && depth < 3:
		n := r.Intn(4)
		a := make([]interface{}, n)
		for i := range a {
			a[i] = randJSON(r, depth+1)
		}
		return a
	case k == 10 && depth < 3:
		m := map[string]interface{}{}
		for i := r.Intn(4); i > 0; i-- {
			m[[]string{"status", "idTag", "connectorId", "timestamp", "x", "", "meterValue", "id", "type", "customData", "vendorId"}[r.Intn(11)]] = randJSON(r, depth+1)
		}
		return m
	case k == 11:
		// deep nesting
		var v interface{} = 1
		for i := r.Intn(200); i > 0; i-- {
			if r.Intn(2) == 0 {
				v = []interface{}{v}
			} else {
				v = map[string]interface{}{"a": v}
			}
		}
		return v
	default:
		return r.Intn(10)
	}
}

// mutateTree replaces / deletes / duplicates one random node of a decoded JSON value
func mutateTree(r *rand.Rand, v interface{}, depth int) interface{} {
	switch x := v.(type) {
	case []interface{}:
		if len(x) > 0 && r.Intn(3) != 0 {
			i := r.Intn(len(x))
			// the frame header (depth 0) is the framing's business: go deeper more often
			if depth == 0 && len(x) > 2 && r.Intn(3) != 0 {
				i = len(x) - 1
			}
			c := append([]interface{}{}, x...)
			switch r.Intn(6) {
			case 0:
				return append(c[:i], c[i+1:]...)
			case 1:
				return append(c, randJSON(r, 0))
			default:
				c[i] = mutateTree(r, x[i], depth+1)
				return c
			}
		}
	case map[string]interface{}:
		if len(x) > 0 && r.Intn(4) != 0 {
			keys := make([]string, 0, len(x))
			for k := range x {
				keys = append(keys, k)
			}
			sortStrings(keys)
			k := keys[r.Intn(len(keys))]
			c := map[string]interface{}{}
			for kk, vv := range x {
				c[kk] = vv
			}
			switch r.Intn(6) {
			case 0:
				delete(c, k)
			case 1:
				c[strings.ToUpper(k)] = randJSON(r, 0)
			default:
				c[k] = mutateTree(r, x[k], depth+1)
			}
			return c
		}
	}
	return randJSON(r, 0)
}

func init() {
	rounds["c06_fuzz"] = func(seed int64, i int) roundResult {
		var res roundResult
		r := rand.New(rand.NewSource(seed*7919 + int64(i)))
		ver := []string{"R16", "R201"}[i%2]
		role := []string{"cp", "cs"}[(i/2)%2]
		peer := map[string]string{"cp": "cs", "cs": "cp"}[role]
		spec := loadSpecRoles()
		n := 300
		viol := func(sig, what string, replay interface{}) {
			for _, v := range res.Violations {
				if v.Sig == sig {
					return
				}
			}
			res.Violations = append(res.Violations, Violation{Property: "C06", Sig: sig, What: what, Replay: replay})
		}
		e := newEndpoint(ver, role, epOpts{timeout: 60 * time.Second})
		e.hub.script = validResponseScript(r)
		if role == "cs" {
			e.fs.connect("c1")
		}
		// base frames: valid CALLs of what this role receives
		var calls []string
		for _, f := range spec[ver][peer] {
			feat := featureOf(ver, f)
			if feat == nil {
				continue
			}
			pv, ok := genValid(r, feat.GetRequestType(), "")
			if !ok {
				continue
			}
			pb, _ := json.Marshal(pv.Interface())
			calls = append(calls, fmt.Sprintf(`[2,"ID","%s",%s]`, f, pb))
		}
		// an outstanding request of this role
		var outFeat ocpp.Feature
		var outID string
		concluded := 0
		var lastErr error
		issue := func() bool {
			for try := 0; try < 20; try++ {
				f := spec[ver][role][r.Intn(len(spec[ver][role]))]
				feat := featureOf(ver, f)
				if feat == nil {
					continue
				}
				rv, ok := genValid(r, feat.GetRequestType(), "")
				if !ok {
					continue
				}
				req, ok := rv.Interface().(ocpp.Request)
				if !ok {
					req, ok = rv.Addr().Interface().(ocpp.Request)
					if !ok {
						continue
					}
				}
				if err := e.sendAsync("c1", req, func(_ ocpp.Response, err error) { concluded++; lastErr = err }); err != nil {
					continue
				}
				w := e.waitWrites(1, time.Second)
				if len(w) != 1 {
					return false
				}
				fr, err := parseFrame(w[0].data)
				if err != nil {
					return false
				}
				outFeat, outID = feat, fr.ID
				return true
			}
			return false
		}
		genuine := func() string {
			pv, _ := genValid(r, outFeat.GetResponseType(), "")
			pb, _ := json.Marshal(pv.Interface())
			return fmt.Sprintf(`[3,"%s",%s]`, outID, pb)
		}
		if !issue() {
			fmt.Fprintln(os.Stderr, "HARNESS-ERROR c06_fuzz: could not issue the outstanding request")
			return res
		}
		var since []string
		probe := func(k int) {
			// a valid CALL is answered
			pid := fmt.Sprintf("probe%d", k)
			fr := strings.Replace(calls[r.Intn(len(calls))], `"ID"`, `"`+pid+`"`, 1)
			e.takeWrites()
			e.hub.takeCalls()
			_ = e.deliver("c1", []byte(fr))
			w := e.waitWrites(1, 2*time.Second)
			okp := len(w) == 1
			if okp {
				pf, err := parseFrame(w[0].data)
				okp = err == nil && pf.Type == 3 && pf.ID == pid
			}
			if !okp {
				viol("unresponsive:"+ver+":"+role, fmt.Sprintf("%s %s: after %d malformed frames a valid CALL is no longer answered with one CALL_RESULT of the same id (got %d frames)", ver, role, len(since), len(w)),
					map[string]interface{}{"version": ver, "role": role, "frames_hex": since, "probe": fr})
			}
			// the outstanding request is still there and completes once
			before := concluded
			lastErr = nil
			g := genuine()
			_ = e.deliver("c1", []byte(g))
			for t := 0; t < 4000 && concluded == before; t++ {
				time.Sleep(250 * time.Microsecond)
			}
			time.Sleep(300 * time.Microsecond)
			if concluded != before+1 || lastErr != nil {
				viol("outstanding-lost:"+ver+":"+role, fmt.Sprintf("%s %s: after %d malformed frames the genuine reply to the outstanding request %s concluded it %d times (err=%v)", ver, role, len(since), outID, concluded-before, lastErr),
					map[string]interface{}{"version": ver, "role": role, "frames_hex": since, "genuine": g})
			}
			since = nil
			if !issue() {
				viol("cannot-send:"+ver+":"+role, fmt.Sprintf("%s %s: after the malformed frames a new request is not written", ver, role), map[string]interface{}{"version": ver, "role": role})
			}
		}
		for k := 0; k < n; k++ {
			var raw []byte
			kind := r.Intn(10)
			switch {
			case kind < 5:
				base := calls[r.Intn(len(calls))]
				switch r.Intn(4) {
				case 0:
					base = genuine()
					// keep the genuine id out of most mutants so the request stays outstanding
					if r.Intn(4) != 0 {
						base = strings.Replace(base, `"`+outID+`"`, `"zz`+outID+`"`, 1)
					}
				case 1:
					base = fmt.Sprintf(`[4,"%s","GenericError","d",{}]`, pick(r, outID, "nobody"))
				}
				base = strings.Replace(base, `"ID"`, fmt.Sprintf(`"f%d"`, k), 1)
				var v interface{}
				_ = json.Unmarshal([]byte(base), &v)
				for m := r.Intn(3) + 1; m > 0; m-- {
					v = mutateTree(r, v, 0)
				}
				raw, _ = json.Marshal(v)
			case kind < 8:
				base := strings.Replace(calls[r.Intn(len(calls))], `"ID"`, fmt.Sprintf(`"f%d"`, k), 1)
				for m := r.Intn(4) + 1; m > 0; m-- {
					base = mutate(r, base)
				}
				raw = []byte(base)
			case kind < 9:
				raw = make([]byte, r.Intn(64))
				r.Read(raw)
			default:
				raw, _ = json.Marshal(randJSON(r, 0))
			}
			h := hex.EncodeToString(raw)
			fmt.Fprintln(os.Stderr, "FRAME", h)
			since = append(since, h)
			before := concluded
			func() {
				defer func() {
					if p := recover(); p != nil {
						viol(fmt.Sprintf("panic:%s:%s", ver, role), fmt.Sprintf("%s %s: the message handler panicked on frame %q: %v", ver, role, string(raw), p),
							map[string]interface{}{"version": ver, "role": role, "frame_hex": h, "frame": string(raw), "panic": fmt.Sprint(p)})
					}
				}()
				_ = e.deliver("c1", raw)
			}()
			res.Events++
			_, _ = quiesce(200 * time.Millisecond)
			for _, w := range e.takeWrites() {
				if _, err := parseFrame(w.data); err != nil {
					viol("garbage-written:"+ver+":"+role, fmt.Sprintf("%s %s wrote a frame that is not OCPP-J in answer to %q: %q", ver, role, string(raw), string(w.data)), map[string]interface{}{"frame_hex": h})
				}
			}
			if concluded != before {
				// the mutant was (still) a valid reply to the outstanding request
				if !issue() {
					viol("cannot-send:"+ver+":"+role, fmt.Sprintf("%s %s: after a reply a new request is not written", ver, role), map[string]interface{}{"version": ver, "role": role, "frames_hex": since})
				}
			}
			if k%25 == 24 {
				probe(k)
			}
		}
		done := make(chan struct{})
		go func() { e.stop(); close(done) }()
		select {
		case <-done:
		case <-time.After(5 * time.Second):
			viol("stop-wedged:"+ver+":"+role, fmt.Sprintf("%s %s: Stop does not return after the malformed frames", ver, role), map[string]interface{}{"version": ver, "role": role})
		}
		return res
	}
	monitors["c06_fuzz"] = func(seed int64, tier string) interface{} {
		n := 16
		if tier == "thorough" {
			n = 160
		}
		rep := &Report{Monitor: "c06_fuzz", Rule: "per round (own process) 300 frames into one real protocol endpoint (1.6 / 2.0.1 x charge point / central system, all profiles, generated handlers, one request outstanding): tree mutants of valid CALL / CALL_RESULT / CALL_ERROR frames with generated payloads (node replaced by another JSON type, deleted, duplicated, huge numbers, long / non-UTF-8 strings, nesting to depth 200), byte mutants, random bytes, random JSON; checked: no panic in any goroutine, only OCPP-J frames written, every 25 frames a valid CALL is answered with one CALL_RESULT of its id and the outstanding request is concluded exactly once by its genuine reply, Stop returns; distinct = rounds", Stats: map[string]interface{}{}}
		results := runRounds("c06_fuzz", seed, n, 16)
		seen := map[string]bool{}
		for _, r := range results {
			rep.Stats["frames"] = asInt(rep.Stats["frames"]) + r.Events
			if r.Events > 0 {
				rep.Distinct++
			}
			rep.Evaluations += r.Events
			for _, v := range r.Violations {
				if !seen[v.Sig] {
					seen[v.Sig] = true
					rep.Violations = append(rep.Violations, v)
				}
			}
		}
		return rep
	}
}

func asInt(v interface{}) int {
	if i, ok := v.(int); ok {
		return i
	}
	return 0
}
