// Command harness runs the real ocpp-go packages (in-process, from /repo's working tree) on operation
// sequences written in a line protocol; the same lines are fed to the Lean model driver and the two
// output streams are diffed by /verif/check.
//
//	harness gen <suite> <seed> <n>    print n sessions of generated operations
//	harness run <suite>               read operations on stdin, print one output line per operation
//	harness monitor <name> <seed> <tier>   run a property monitor on the real code, print a JSON report
package main

import (
	"bufio"
	"fmt"
	"math/rand"
	"os"
	"strconv"
	"strings"
)

type suite interface {
	Gen(r *rand.Rand, sessions int) []string
	Run(ops []string, emit func(string))
}

var suites = map[string]suite{}

// suites whose sessions run in child processes register their in-process runner here
var childSuites = map[string]func(ops []string, emit func(string)){}

type monitor func(seed int64, tier string) interface{}

var monitors = map[string]monitor{}

func main() {
	if len(os.Args) < 3 {
		fmt.Fprintln(os.Stderr, "usage: harness gen|run|monitor ...")
		os.Exit(2)
	}
	switch os.Args[1] {
	case "gen":
		s, ok := suites[os.Args[2]]
		if !ok {
			fmt.Fprintln(os.Stderr, "unknown suite", os.Args[2])
			os.Exit(2)
		}
		seed, _ := strconv.ParseInt(os.Args[3], 10, 64)
		n, _ := strconv.Atoi(os.Args[4])
		w := bufio.NewWriter(os.Stdout)
		for _, l := range s.Gen(rand.New(rand.NewSource(seed)), n) {
			fmt.Fprintln(w, l)
		}
		w.Flush()
	case "run":
		s, ok := suites[os.Args[2]]
		if !ok {
			fmt.Fprintln(os.Stderr, "unknown suite", os.Args[2])
			os.Exit(2)
		}
		var ops []string
		sc := bufio.NewScanner(os.Stdin)
		sc.Buffer(make([]byte, 1<<20), 1<<26)
		for sc.Scan() {
			ops = append(ops, sc.Text())
		}
		w := bufio.NewWriter(os.Stdout)
		s.Run(ops, func(o string) { fmt.Fprintln(w, o); w.Flush() })
		w.Flush()
	case "child":
		// run the given operations in-process (used by runIsolated)
		s, ok := childSuites[os.Args[2]]
		if !ok {
			os.Exit(2)
		}
		var ops []string
		sc := bufio.NewScanner(os.Stdin)
		sc.Buffer(make([]byte, 1<<20), 1<<26)
		for sc.Scan() {
			ops = append(ops, sc.Text())
		}
		w := bufio.NewWriter(os.Stdout)
		s(ops, func(o string) { fmt.Fprintln(w, o); w.Flush() })
		w.Flush()
	case "sched":
		f := strings.Split(os.Args[2], "|")
		sc, err := strconv.Atoi(f[0])
		if err != nil {
			// a scenario may be given by name (replays in known_findings.txt)
			sc = -1
			for i := range scenarios {
				if scenarios[i].name == f[0] {
					sc = i
				}
			}
			if sc < 0 {
				os.Exit(2)
			}
		}
		idx, _ := strconv.Atoi(f[2])
		writeJSON(runScenario(scenarios[sc], f[1], idx))
	case "round":
		f, ok := rounds[os.Args[2]]
		if !ok {
			os.Exit(2)
		}
		seed, _ := strconv.ParseInt(os.Args[3], 10, 64)
		i, _ := strconv.Atoi(os.Args[4])
		writeJSON(f(seed, i))
	case "monitor":
		m, ok := monitors[os.Args[2]]
		if !ok {
			fmt.Fprintln(os.Stderr, "unknown monitor", os.Args[2])
			os.Exit(2)
		}
		seed, _ := strconv.ParseInt(os.Args[3], 10, 64)
		tier := "quick"
		if len(os.Args) > 4 {
			tier = os.Args[4]
		}
		writeJSON(m(seed, tier))
	default:
		os.Exit(2)
	}
}
