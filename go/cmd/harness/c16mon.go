package main

import (
	"fmt"
	"strings"
	"sync"
	"sync/atomic"
	"time"

	"github.com/gorilla/websocket"
	"github.com/lorenzodonini/ocpp-go/ocpp"
	"github.com/lorenzodonini/ocpp-go/ws"
)

// Monitor c16_stop (C16, search on the implementation), rounds in their own process:
//  many   a central system / CSMS (fake websocket server) with 21 / 25 / 40 connected clients, one unanswered request each:
//         Stop returns, every caller is released with an error exactly once, no goroutine is left blocked
//  wsmany a real ws.Server with 30 connected raw clients: Stop returns, 30 disconnected callbacks, every client sees a close
//  race   a real ws.Client whose connection is being torn down by force (server StopConnection 1011); the client is
//         held at its "handling forced close signal" log line (ws.SetLogger gate) while Stop() is called: afterwards it
//         must not reconnect (no new connection at the server, no reconnected callback, not connected)

type gateLogger struct {
	needle string
	hit    chan struct{}
	gate   chan struct{}
	once   sync.Once
}

func (g *gateLogger) check(s string) {
	if strings.Contains(s, g.needle) {
		first := false
		g.once.Do(func() { first = true })
		if first {
			close(g.hit)
			<-g.gate
		}
	}
}
func (g *gateLogger) Debug(args ...interface{})                 { g.check(fmt.Sprint(args...)) }
func (g *gateLogger) Debugf(format string, args ...interface{}) { g.check(fmt.Sprintf(format, args...)) }
func (g *gateLogger) Info(args ...interface{})                  { g.check(fmt.Sprint(args...)) }
func (g *gateLogger) Infof(format string, args ...interface{})  { g.check(fmt.Sprintf(format, args...)) }
func (g *gateLogger) Error(args ...interface{})                 {}
func (g *gateLogger) Errorf(format string, args ...interface{}) {}

func init() {
	roundsProp["c16_stop"] = "C16"
	rounds["c16_stop"] = func(seed int64, i int) roundResult {
		var res roundResult
		viol := func(sig, what string, replay interface{}) {
			for _, v := range res.Violations {
				if v.Sig == sig {
					return
				}
			}
			res.Violations = append(res.Violations, Violation{Property: "C16", Sig: sig, What: what, Replay: replay})
		}
		kinds := []string{"many:R16:21", "many:R201:25", "many:R16:40", "wsmany", "race:forced", "race:forced", "many:R201:21", "race:pumpwrite"}
		kind := kinds[i%len(kinds)]
		switch {
		case strings.HasPrefix(kind, "many"):
			p := strings.Split(kind, ":")
			ver := p[1]
			var n int
			fmt.Sscan(p[2], &n)
			e := newEndpoint(ver, "cs", epOpts{timeout: 30 * time.Second})
			var released, okResp int64
			for k := 0; k < n; k++ {
				id := fmt.Sprintf("c%d", k)
				e.fs.connect(id)
				err := e.sendAsync(id, dataTransferReq(ver), func(r ocpp.Response, err error) {
					if err != nil {
						atomic.AddInt64(&released, 1)
					} else {
						atomic.AddInt64(&okResp, 1)
					}
				})
				if err != nil {
					fmt.Println("HARNESS-ERROR c16_stop: send", err)
				}
				// one at a time: a burst of sends can wedge the server dispatcher (known finding deadlock:server:SendRequest)
				e.waitWrites(1, time.Second)
			}
			done := make(chan struct{})
			go func() { e.stop(); close(done) }()
			select {
			case <-done:
			case <-time.After(5 * time.Second):
				viol("stop-blocked:"+kind, fmt.Sprintf("%s with %d connected clients (one unanswered request each): Stop did not return within 5 s; blocked: %v", ver, n, blockedIn("ocpp")),
					map[string]interface{}{"version": ver, "clients": n})
			}
			waitCond(2*time.Second, func() bool { return atomic.LoadInt64(&released) >= int64(n) })
			time.Sleep(20 * time.Millisecond)
			res.Events = int(atomic.LoadInt64(&released))
			if r := atomic.LoadInt64(&released); r != int64(n) {
				viol("callers-not-released:"+kind, fmt.Sprintf("%s with %d connected clients: %d of %d callers were released with an error after Stop (each exactly once); blocked goroutines: %v", ver, n, r, n, blockedIn("ocpp")),
					map[string]interface{}{"version": ver, "clients": n, "released": r})
			}
			if stuck, _ := quiesce(time.Second); len(stuck) > 0 {
				var where []string
				for _, g := range stuck {
					where = append(where, g.state+" @ "+g.top)
				}
				viol("goroutine-left-blocked:"+kind, fmt.Sprintf("%s with %d clients: goroutines blocked for ever after Stop: %v", ver, n, where), map[string]interface{}{"version": ver, "clients": n})
			}
		case kind == "wsmany":
			c := startWsServer(srvOpts{})
			n := 30
			var clients []*rawClient
			for k := 0; k < n; k++ {
				d := rawDial(c.url(fmt.Sprintf("m%d", k)), []string{"ocpp1.6"}, nil)
				if d.err != nil {
					continue
				}
				clients = append(clients, newRawClient(d.conn))
			}
			waitCond(2*time.Second, func() bool { return c.size() >= n })
			c.take()
			done := make(chan struct{})
			go func() { c.s.Stop(); close(done) }()
			select {
			case <-done:
			case <-time.After(5 * time.Second):
				viol("ws-stop-blocked", "ws server Stop with 30 connected clients did not return within 5 s", map[string]interface{}{"clients": n})
			}
			waitCond(3*time.Second, func() bool { return c.size() >= n })
			c.settle(10*time.Millisecond, 200*time.Millisecond)
			nd := 0
			for _, e := range c.take() {
				if e.kind == "disc" {
					nd++
				}
			}
			res.Events = nd
			if nd != n {
				viol("ws-stop-disc-count", fmt.Sprintf("ws server Stop with %d connected clients: %d disconnected callbacks", n, nd), map[string]interface{}{"clients": n, "disconnected": nd})
			}
			closed := 0
			for _, rc := range clients {
				waitCond(time.Second, func() bool { cl, _ := rc.state(); return cl != "" })
				if cl, _ := rc.state(); cl != "" {
					closed++
				}
				_ = rc.conn.Close()
			}
			if closed != len(clients) {
				viol("ws-stop-clients-open", fmt.Sprintf("ws server Stop: %d of %d clients still have an open connection", len(clients)-closed, len(clients)), nil)
			}
		case strings.HasPrefix(kind, "race"):
			needle := "handling forced close signal"
			if kind == "race:pumpwrite" {
				needle = "closing connection for"
			}
			g := &gateLogger{needle: needle, hit: make(chan struct{}), gate: make(chan struct{})}
			ws.SetLogger(g) // configuration before anything is started
			c := startWsServer(srvOpts{})
			cl := ws.NewClient()
			cl.SetRequestedSubProtocol("ocpp1.6")
			cfg := ws.NewClientTimeoutConfig()
			cfg.RetryBackOffWaitMinimum = 20 * time.Millisecond
			cfg.RetryBackOffRandomRange = 0
			cfg.PingPeriod, cfg.PongWait = 0, 0
			cl.SetTimeoutConfig(cfg)
			var recs int64
			cl.SetReconnectedHandler(func() { atomic.AddInt64(&recs, 1) })
			cl.SetMessageHandler(func([]byte) error { return nil })
			if err := cl.Start(c.url("race")); err != nil {
				fmt.Println("HARNESS-ERROR c16_stop: start", err)
				return res
			}
			waitCond(time.Second, func() bool { return c.size() >= 1 })
			if kind == "race:pumpwrite" {
				// Stop itself triggers the graceful close; a forced loss arrives while the pump handles it
				go cl.Stop()
			} else {
				_ = c.s.StopConnection("race", websocket.CloseError{Code: websocket.CloseInternalServerErr, Text: "bye"})
			}
			select {
			case <-g.hit:
			case <-time.After(2 * time.Second):
				close(g.gate)
				fmt.Println("HARNESS-ERROR c16_stop: log gate not reached:", needle)
				return res
			}
			if kind == "race:pumpwrite" {
				_ = c.s.StopConnection("race", websocket.CloseError{Code: websocket.CloseInternalServerErr, Text: "bye"})
				time.Sleep(5 * time.Millisecond)
			} else {
				stopped := make(chan struct{})
				go func() { cl.Stop(); close(stopped) }()
				select {
				case <-stopped:
				case <-time.After(500 * time.Millisecond):
					// Stop may have to wait for the socket: release the gate and let it finish
				}
			}
			close(g.gate)
			time.Sleep(300 * time.Millisecond) // far longer than the 20 ms back-off
			news := 0
			for _, e := range c.take() {
				if e.kind == "new" {
					news++
				}
			}
			res.Events = news
			if news != 1 || atomic.LoadInt64(&recs) != 0 || cl.IsConnected() {
				viol("reconnect-after-stop:"+kind, fmt.Sprintf("Stop() called while the client's connection was being torn down (held at log line %q): afterwards the server saw %d connections (want 1), reconnected callbacks %d (want 0), IsConnected=%v (want false)", needle, news, atomic.LoadInt64(&recs), cl.IsConnected()),
					map[string]interface{}{"gate": needle, "connections": news, "reconnected": atomic.LoadInt64(&recs)})
			}
			cl.Stop()
			c.s.Stop()
			// "after Stop it never reconnects" is also C17's clause
			for _, v := range res.Violations {
				v.Property = "C17"
				res.Violations = append(res.Violations, v)
			}
		}
		return res
	}
	monitors["c16_stop"] = func(seed int64, tier string) interface{} {
		n := 16
		if tier == "thorough" {
			n = 96
		}
		rep := &Report{Monitor: "c16_stop", Rule: "rounds in their own process: central system / CSMS on a fake websocket server with 21 / 25 / 40 connected clients and one unanswered request each: Stop returns within 5 s, every caller released with an error exactly once, no goroutine left blocked; real ws.Server with 30 raw clients: Stop returns, 30 disconnected callbacks, every client sees the close; real ws.Client held (ws.SetLogger gate) in the middle of a forced teardown / of handling its own close request while Stop() resp. a forced loss arrives: no reconnection afterwards; distinct = rounds", Stats: map[string]interface{}{}}
		results := runRounds("c16_stop", seed, n, 4)
		seen := map[string]bool{}
		for _, r := range results {
			if r.Events > 0 {
				rep.Distinct++
			}
			rep.Evaluations++
			for _, v := range r.Violations {
				if !seen[v.Property+v.Sig] {
					seen[v.Property+v.Sig] = true
					rep.Violations = append(rep.Violations, v)
				}
			}
		}
		return rep
	}
}
