package main

import (
	"encoding/json"
	"fmt"
	"math/rand"
	"os"
	"path/filepath"
	"reflect"
	"strings"
	"time"

	"github.com/lorenzodonini/ocpp-go/ocpp"
	"github.com/lorenzodonini/ocpp-go/ocppj"
)

// c18_tables: every fact of the regenerated tables replayed on the real code —
// each feature through each role's send API and receive path, each exported enumeration constant (and some
// undeclared values) through the live validator. The search for a concrete failing input of C18.

func contains(xs []string, x string) bool {
	for _, y := range xs {
		if y == x {
			return true
		}
	}
	return false
}

func loadSpecRoles() map[string]map[string][]string {
	m := map[string]map[string][]string{}
	b, err := os.ReadFile(filepath.Join(verifRoot(), "expected", "roles.json"))
	if err == nil {
		_ = json.Unmarshal(b, &m)
	}
	return m
}

func validResponseScript(r *rand.Rand) func(c handlerCall, respType reflect.Type) (interface{}, error) {
	return func(c handlerCall, respType reflect.Type) (interface{}, error) {
		v, _ := genValid(r, respType.Elem(), "")
		return v.Interface(), nil
	}
}

func init() {
	monitors["c18_tables"] = func(seed int64, tier string) interface{} {
		rep := &Report{Monitor: "c18_tables", Rule: "exhaustive over (version, role, feature): async send allowed iff the feature is assigned to the role; blocking send likewise; an incoming CALL of a feature the peer may send reaches the handler of that action with the request type of that action and is answered with a CALL_RESULT, any other feature is refused without a handler call; every exported enumeration constant and 4 undeclared probes per enumeration through the live validator (both versions linked); distinct = distinct (kind, version, role, feature/tag) cells", Stats: map[string]interface{}{}}
		r := rand.New(rand.NewSource(seed))
		reg := loadRegistry()
		spec := loadSpecRoles()
		cells := map[string]bool{}
		viol := func(sig, what string, replay interface{}) {
			for _, v := range rep.Violations {
				if v.Sig == sig {
					return
				}
			}
			rep.Violations = append(rep.Violations, Violation{Property: "C18", Sig: sig, What: what, Replay: replay})
		}
		peer := map[string]string{"cp": "cs", "cs": "cp"}
		for _, ver := range []string{"R16", "R201"} {
			feats := allFeatures(ver)
			for _, role := range []string{"cp", "cs"} {
				for _, f := range feats {
					assigned := contains(spec[ver][role], f)
					// ---- (a) asynchronous send API, validation off to isolate the role logic
					ocppj.SetMessageValidation(false)
					e := newEndpoint(ver, role, epOpts{})
					if role == "cs" {
						e.fs.connect("c1")
					}
					err := e.sendAsync("c1", newReq(ver, f), func(ocpp.Response, error) {})
					w := e.waitWrites(1, map[bool]time.Duration{true: 300 * time.Millisecond, false: 3 * time.Millisecond}[err == nil])
					ocppj.SetMessageValidation(true)
					rep.Evaluations++
					cells["send/"+ver+"/"+role+"/"+f] = true
					sent := err == nil && len(w) == 1
					if sent != assigned {
						viol(fmt.Sprintf("role-send-table:%s:%s:%s", ver, role, f),
							fmt.Sprintf("%s %s SendRequestAsync(%s): err=%v, frames written=%d, but the protocol %s this feature to this role", ver, role, f, err, len(w), map[bool]string{true: "assigns", false: "does not assign"}[assigned]),
							map[string]interface{}{"version": ver, "role": role, "feature": f, "api": "SendRequestAsync"})
					}
					if err != nil && len(w) > 0 {
						viol("rejected-but-written", fmt.Sprintf("%s %s SendRequestAsync(%s) returned %v but wrote %d frame(s)", ver, role, f, err, len(w)), map[string]interface{}{"version": ver, "role": role, "feature": f})
					}
					// ---- (a') blocking send API of the client roles
					if role == "cp" && !assigned {
						done := make(chan error, 1)
						go func() { _, err := e.sendSync(newReqNoValidate(ver, f)); done <- err }()
						ww := e.waitWrites(1, 5*time.Millisecond)
						if len(ww) > 0 {
							viol("sync-send-no-allowlist", fmt.Sprintf("%s blocking SendRequest(%s) wrote a CALL although the feature is not assigned to the client role (no allow-list on the blocking path)", ver, f),
								map[string]interface{}{"version": ver, "role": role, "feature": f, "api": "SendRequest"})
						}
					}
					e.stop()
					// ---- (b) receive path
					e2 := newEndpoint(ver, role, epOpts{})
					e2.hub.script = validResponseScript(r)
					if role == "cs" {
						e2.fs.connect("c1")
					}
					feat := featureOf(ver, f)
					pv, okv := genValid(r, feat.GetRequestType(), "")
					if !okv {
						rep.Stats["generator_gaps"] = fmt.Sprint(rep.Stats["generator_gaps"], " ", ver, ":", f)
					}
					pb, _ := json.Marshal(pv.Interface())
					fr := fmt.Sprintf(`[2,"q1","%s",%s]`, f, pb)
					_ = e2.deliver("c1", []byte(fr))
					ws := e2.waitWrites(1, 500*time.Millisecond)
					time.Sleep(200 * time.Microsecond)
					ws = append(ws, e2.takeWrites()...)
					calls := e2.hub.takeCalls()
					rep.Evaluations++
					cells["recv/"+ver+"/"+role+"/"+f] = true
					receivable := contains(spec[ver][peer[role]], f)
					rp := map[string]interface{}{"version": ver, "role": role, "frame": fr}
					if len(ws) != 1 {
						viol(fmt.Sprintf("recv-reply-count:%s:%s:%s", ver, role, f), fmt.Sprintf("%s %s: CALL %s answered with %d frames", ver, role, f, len(ws)), rp)
					} else {
						rf, _ := parseFrame(ws[0].data)
						if rf.ID != "q1" {
							viol("recv-reply-id", fmt.Sprintf("%s %s: reply to CALL %s carries id %q", ver, role, f, rf.ID), rp)
						}
						if receivable {
							wantType := "*" + strings.TrimPrefix(feat.GetRequestType().String(), "*")
							if len(calls) != 1 || calls[0].ReqType != wantType {
								viol(fmt.Sprintf("recv-dispatch:%s:%s:%s", ver, role, f), fmt.Sprintf("%s %s: CALL %s (a feature the peer may send) led to handler calls %v, want one call with %s", ver, role, f, callNames(calls), wantType), rp)
							} else {
								got, _ := json.Marshal(calls[0].Request)
								if string(got) != string(pb) {
									viol("recv-payload", fmt.Sprintf("%s %s: handler for %s received %s, sent %s", ver, role, f, got, pb), rp)
								}
							}
							if okv && rf.Type != 3 {
								viol(fmt.Sprintf("recv-dispatch:%s:%s:%s", ver, role, f), fmt.Sprintf("%s %s: valid CALL %s with a valid handler response answered with %s", ver, role, f, ws[0].data), rp)
							}
						} else {
							if len(calls) != 0 || rf.Type != 4 || (rf.Code != "NotSupported" && rf.Code != "NotImplemented") {
								viol(fmt.Sprintf("recv-foreign:%s:%s:%s", ver, role, f), fmt.Sprintf("%s %s: CALL %s (not sendable by the peer) -> handler calls %v, reply %s", ver, role, f, callNames(calls), ws[0].data), rp)
							}
						}
					}
					e2.stop()
				}
			}
			// ---- (c) enumerations
			for _, en := range reg.Versions[ver].Enums {
				for i, v := range en.Exported {
					rep.Evaluations++
					cells["enum/"+ver+"/"+en.Tag+"/"+v] = true
					if err := ocppj.Validate.Var(v, en.Tag); err != nil {
						name := v
						if i < len(en.ExpNames) {
							name = en.ExpNames[i]
						}
						viol(fmt.Sprintf("enum-exported-rejected:%s:%s", en.Tag, v), fmt.Sprintf("exported constant %s = %q is rejected by validation tag %q", name, v, en.Tag), map[string]interface{}{"tag": en.Tag, "value": v})
					}
				}
				probes := []string{"invalidValue_xyz", "", " "}
				if len(en.Accepted) > 0 {
					probes = append(probes, strings.ToLower(en.Accepted[0])+"_", en.Accepted[0]+" ")
				}
				for _, p := range probes {
					if contains(en.Accepted, p) {
						continue
					}
					rep.Evaluations++
					if err := ocppj.Validate.Var(p, en.Tag); err == nil && p != "" {
						viol(fmt.Sprintf("enum-undeclared-accepted:%s", en.Tag), fmt.Sprintf("undeclared value %q is accepted by validation tag %q", p, en.Tag), map[string]interface{}{"tag": en.Tag, "value": p})
					}
				}
			}
		}
		rep.Distinct = len(cells)
		rep.Samples = []interface{}{map[string]interface{}{"send": "R16/cp/BootNotification", "recv": `[2,"q1","ChangeAvailability",{...valid...}] -> stub handler -> [3,"q1",{...}]`, "enum": "registrationStatus16/Accepted"}}
		return rep
	}
}

func callNames(cs []handlerCall) []string {
	var r []string
	for _, c := range cs {
		r = append(r, c.Method+"("+c.ReqType+")")
	}
	return r
}

func newReqNoValidate(ver, f string) ocpp.Request {
	// a valid payload so that the blocking path's validation does not mask the missing allow-list
	v, _ := genValid(rand.New(rand.NewSource(1)), featureOf(ver, f).GetRequestType(), "")
	return v.Interface().(ocpp.Request)
}
