package main

import (
	"encoding/json"
	"fmt"
	"math/rand"
	"os"
	"sync"
	"time"

	"github.com/lorenzodonini/ocpp-go/ocpp"
	core16 "github.com/lorenzodonini/ocpp-go/ocpp1.6/core"
	data201 "github.com/lorenzodonini/ocpp-go/ocpp2.0.1/data"
	"github.com/lorenzodonini/ocpp-go/ocppj"
)

// Monitor c12_refused (C12 clause "when full the send fails and has no other effect: no callback is retained or invoked",
// search on the implementation): a charge point / charging station with a request queue of capacity 1. Request v0 is
// outstanding (the queue is full); SendRequestAsync(v1) is refused, but the refusal returns late (the gated queue stalls
// after the refused Push); meanwhile the peer answers v0 and the application sends v2, which is accepted and answered.
// Expected: v0's callback gets v0's answer, v1 fails and its callback is never invoked, v2's callback gets v2's answer.

func init() {
	roundsProp["c12_refused"] = "C12"
	rounds["c12_refused"] = func(seed int64, i int) roundResult {
		var res roundResult
		ver := []string{"R16", "R201"}[i%2]
		stall := []time.Duration{25 * time.Millisecond, 40 * time.Millisecond}[(i/2)%2]
		l := &slog{r: rand.New(rand.NewSource(seed)), directed: true, stallSite: "queue.Push>", stallIdx: 2, stallDur: stall}
		q := &gQueue{q: ocppj.NewFIFOClientQueue(1), l: l, client: ""}
		e := newEndpoint(ver, "cp", epOpts{timeout: 5 * time.Second, clientQueue: q})
		var mu sync.Mutex
		ids := map[string]string{} // vendor id -> unique id of the CALL on the wire
		answer := func(v string) {
			mu.Lock()
			id := ids[v]
			mu.Unlock()
			_ = e.fc.deliver([]byte(fmt.Sprintf(`[3,"%s",{"status":"Accepted","data":"%s"}]`, id, v)))
		}
		e.fc.onWrite = func(data []byte) {
			fr, err := parseFrame(data)
			if err != nil || fr.Type != 2 {
				return
			}
			var p struct {
				VendorID string `json:"vendorId"`
			}
			_ = json.Unmarshal(fr.Payload, &p)
			mu.Lock()
			ids[p.VendorID] = fr.ID
			mu.Unlock()
			if p.VendorID != "v0" {
				go func() { time.Sleep(time.Millisecond); answer(p.VendorID) }()
			}
		}
		mkReq := func(v string) ocpp.Request {
			if ver == "R201" {
				return data201.NewDataTransferRequest(v)
			}
			return core16.NewDataTransferRequest(v)
		}
		got := map[string]string{}
		send := func(v string) {
			err := e.sendAsync("", mkReq(v), func(r ocpp.Response, err error) {
				d := "?"
				if err != nil {
					d = "error:" + err.Error()
				} else {
					switch x := r.(type) {
					case *core16.DataTransferConfirmation:
						d = fmt.Sprint(x.Data)
					case *data201.DataTransferResponse:
						d = fmt.Sprint(x.Data)
					}
				}
				mu.Lock()
				got[v] += "callback:" + d + ";"
				mu.Unlock()
			})
			if err != nil {
				mu.Lock()
				got[v] += "send-error;"
				mu.Unlock()
			}
		}
		send("v0")
		waitCond(2*time.Second, func() bool { mu.Lock(); defer mu.Unlock(); return ids["v0"] != "" })
		var wg sync.WaitGroup
		wg.Add(1)
		go func() { defer wg.Done(); send("v1") }() // refused: the queue holds v0; the refusal returns `stall` later
		time.Sleep(5 * time.Millisecond)
		adone := make(chan struct{})
		go func() { answer("v0"); close(adone) }()
		select {
		case <-adone:
		case <-time.After(2 * time.Second):
		}
		waitCond(2*time.Second, func() bool { return q.q.IsEmpty() })
		send("v2")
		wg.Wait()
		waitCond(1500*time.Millisecond, func() bool {
			mu.Lock()
			defer mu.Unlock()
			return got["v0"] != "" && got["v2"] != "" && got["v1"] != ""
		})
		time.Sleep(20 * time.Millisecond)
		mu.Lock()
		defer mu.Unlock()
		res.Events = len(got)
		if os.Getenv("SCHED_DEBUG") != "" {
			fmt.Fprintln(os.Stderr, "c12_refused observed:", got)
		}
		want := map[string]string{"v0": "callback:v0;", "v1": "send-error;", "v2": "callback:v2;"}
		if got["v1"] != "callback:v1;" {
			// only judged when the scenario was realised: v1 was not simply accepted and answered
			for _, v := range []string{"v1", "v0", "v2"} {
				if got[v] != want[v] {
					sig := "refused-send-side-effect:" + ver
					res.Violations = append(res.Violations, Violation{Property: "C12", Sig: sig, What: fmt.Sprintf("%s charge point, request queue of capacity 1: v0 outstanding, SendRequestAsync(v1) refused (the refusal returned %v late), v0 answered, v2 sent and answered: request %s observed %q, want %q; all: %v", ver, stall, v, got[v], want[v], got),
						Replay: map[string]interface{}{"version": ver, "stall_after_refused_push_ms": stall.Milliseconds(), "observed": got, "want": want}})
					break
				}
			}
		}
		func() {
			defer func() { _ = recover() }()
			e.stop()
		}()
		return res
	}
	monitors["c12_refused"] = func(seed int64, tier string) interface{} {
		n := 8
		if tier == "thorough" {
			n = 40
		}
		rep := &Report{Monitor: "c12_refused", Rule: "rounds in their own process: charge point / charging station (1.6, 2.0.1) with a request queue of capacity 1; v0 outstanding, SendRequestAsync(v1) refused with the refusal returning 25 / 40 ms late (gated RequestQueue), v0 answered and v2 sent meanwhile; v1's callback must never run, v0 and v2 must get their own answers; distinct = rounds", Stats: map[string]interface{}{}}
		seen := map[string]bool{}
		for _, r := range runRounds("c12_refused", seed, n, 4) {
			rep.Evaluations++
			if r.Events > 0 {
				rep.Distinct++
			}
			for _, v := range r.Violations {
				if !seen[v.Sig] {
					seen[v.Sig] = true
					rep.Violations = append(rep.Violations, v)
				}
			}
		}
		return rep
	}
}
