package main

import (
	"encoding/json"
	"fmt"
	"math/rand"
	"os"
	"strings"
)

func writeJSON(v interface{}) {
	b, _ := json.MarshalIndent(v, "", " ")
	os.Stdout.Write(b)
	os.Stdout.Write([]byte("\n"))
}

func pick(r *rand.Rand, xs ...string) string { return xs[r.Intn(len(xs))] }

func fields(l string) []string { return strings.Fields(l) }

// safely runs f, mapping a Go panic to the output "PANIC:<msg>"
func guard(f func() string) (out string) {
	defer func() {
		if e := recover(); e != nil {
			out = fmt.Sprintf("PANIC:%v", e)
			out = strings.ReplaceAll(out, "\n", " ")
		}
	}()
	return f()
}

// Report is what a monitor prints: direct observations of a property on the real code.
type Report struct {
	Monitor     string                 `json:"monitor"`
	Evaluations int                    `json:"evaluations"`
	Distinct    int                    `json:"distinct_nontrivial"`
	Rule        string                 `json:"rule"`
	Samples     []interface{}          `json:"samples"`
	Violations  []Violation            `json:"violations"`
	Stats       map[string]interface{} `json:"stats,omitempty"`
}

// Violation: a concrete input / history on which the real code breaks the property.
type Violation struct {
	Property string      `json:"property"`
	Sig      string      `json:"sig"`  // stable signature used to match known findings
	What     string      `json:"what"` // one line
	Replay   interface{} `json:"replay"`
}
