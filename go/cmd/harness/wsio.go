package main

import (
	"fmt"
	"math/rand"
	"time"

	"github.com/gorilla/websocket"
	"github.com/lorenzodonini/ocpp-go/ws"
)

// suite wsio (C15): sequential histories on one real ws.Server <-> real ws.Client connection on loopback; the Lean
// driver runs the small-step socket model (two instances) under the sequential schedule.
//   reset            server + client, connected
//   sw <n> / cw <n>  server / client writes message n
//   sclose           server.StopConnection(id, 1000)
//   cstop            client.Stop()
//   unknown <n>      server.Write("nobody", ...)
// output: ok delivered | ok lost | error

type wsio struct{}

func init() {
	suites["wsio"] = wsio{}
	childSuites["wsio"] = runWsIO
}

func (wsio) Run(ops []string, emit func(string)) { runIsolated("wsio", ops, emit) }

func (wsio) Gen(r *rand.Rand, n int) []string {
	var out []string
	for s := 0; s < n; s++ {
		out = append(out, "reset")
		cnt := 0
		for i, m := 0, 5+r.Intn(14); i < m; i++ {
			cnt++
			switch x := r.Intn(24); {
			case x < 10:
				out = append(out, fmt.Sprintf("sw %d", cnt))
			case x < 20:
				out = append(out, fmt.Sprintf("cw %d", cnt))
			case x < 21:
				out = append(out, "sclose")
			case x < 22:
				out = append(out, "cstop")
			default:
				out = append(out, fmt.Sprintf("unknown %d", cnt))
			}
		}
	}
	return out
}

func runWsIO(ops []string, emit func(string)) {
	var c *srvCtx
	var cl ws.Client
	var cliLog *recvLog
	var discs int32
	_ = discs
	for _, l := range ops {
		f := fields(l)
		emit(guard(func() string {
			switch f[0] {
			case "reset":
				if c != nil {
					cl.Stop()
					c.s.Stop()
				}
				c = startWsServer(srvOpts{})
				cliLog = &recvLog{}
				lg := cliLog
				cl = ws.NewClient()
				cl.SetRequestedSubProtocol("ocpp1.6")
				cl.SetMessageHandler(func(data []byte) error { lg.add(data); return nil })
				if err := cl.Start(c.url("io")); err != nil {
					return "start-error"
				}
				waitCond(2*time.Second, func() bool { return c.size() >= 1 })
				c.take()
				return "ok"
			case "sw", "unknown":
				id := "io"
				if f[0] == "unknown" {
					id = "nobody"
				}
				rr := rand.New(rand.NewSource(int64(len(f[1]))))
				data := payload("s."+f[1], 10, rr)
				if err := c.s.Write(id, data); err != nil {
					return "error"
				}
				got := waitCond(300*time.Millisecond, func() bool {
					cliLog.mu.Lock()
					defer cliLog.mu.Unlock()
					for _, m := range cliLog.msgs {
						if m == "s."+f[1] {
							return true
						}
					}
					return false
				})
				if got {
					return "ok delivered"
				}
				return "ok lost"
			case "cw":
				rr := rand.New(rand.NewSource(int64(len(f[1]))))
				data := payload("c."+f[1], 10, rr)
				if err := cl.Write(data); err != nil {
					return "error"
				}
				got := waitCond(300*time.Millisecond, func() bool {
					for _, e := range c.snapshot() {
						if e.kind == "msg" && e.data == string(data) {
							return true
						}
					}
					return false
				})
				c.take()
				if got {
					return "ok delivered"
				}
				return "ok lost"
			case "sclose":
				err := c.s.StopConnection("io", websocket.CloseError{Code: websocket.CloseNormalClosure, Text: ""})
				if err != nil {
					return "error"
				}
				waitCond(2*time.Second, func() bool { _, ok := c.s.GetChannel("io"); return !ok && !cl.IsConnected() })
				c.settle(2*time.Millisecond, 40*time.Millisecond)
				c.take()
				return "ok"
			case "cstop":
				was := cl.IsConnected()
				cl.Stop()
				if was {
					waitCond(2*time.Second, func() bool { _, ok := c.s.GetChannel("io"); return !ok && !cl.IsConnected() })
				}
				c.settle(2*time.Millisecond, 40*time.Millisecond)
				c.take()
				return "ok"
			}
			return "bad-op"
		}))
	}
	if c != nil {
		cl.Stop()
		c.s.Stop()
	}
}
