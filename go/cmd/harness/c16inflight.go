package main

import (
	"fmt"
	"runtime"
	"time"

	"github.com/lorenzodonini/ocpp-go/ocpp"
)

// Rounds c16_inflight (C16 / C01, directed; run by monitor c16_restart, each in its own process because it changes
// GOMAXPROCS): the outcome of a request of the stopped session is still in the protocol layer's outcome channel (the
// callback goroutine was busy) when the endpoint is stopped, started again and a request of the new session is sent
// before the new callback goroutine has run (on one CPU that is the normal order; charge points often have one core).
// The callback of the new session's request must receive its own response, not the stale outcome.
func init() {
	roundsProp["c16_inflight"] = "C16"
	rounds["c16_inflight"] = func(seed int64, i int) roundResult {
		var res roundResult
		ver := []string{"R16", "R201"}[i%2]
		e := newEndpoint(ver, "cp", epOpts{timeout: 5 * time.Second})
		reply := func(id string) string { return fmt.Sprintf(`[3,"%s",{"status":"Accepted","data":"%s"}]`, id, id) }
		gate := make(chan struct{})
		entered := make(chan struct{})
		_ = e.sendAsync("", dataTransferReq(ver), func(r ocpp.Response, err error) { close(entered); <-gate })
		w := e.waitWrites(1, time.Second)
		f1, _ := parseFrame(w[0].data)
		_ = e.deliver("", []byte(reply(f1.ID)))
		<-entered
		// one or three further requests are answered while the callback goroutine is busy: their outcomes wait in the channel
		// (capacity 2; with three the reader itself is blocked on the full channel holding the third)
		extra := []int{1, 3}[(i/2)%2]
		var f2 frame
		for k := 0; k < extra; k++ {
			_ = e.sendAsync("", dataTransferReq(ver), func(r ocpp.Response, err error) {})
		}
		for k := 0; k < extra; k++ {
			w2 := e.waitWrites(1, time.Second)
			if len(w2) < 1 {
				break
			}
			f2, _ = parseFrame(w2[0].data)
			fr := f2
			if k < 2 {
				_ = e.deliver("", []byte(reply(fr.ID)))
			} else {
				go func() { _ = e.deliver("", []byte(reply(fr.ID))) }() // blocks on the full outcome channel
			}
		}
		time.Sleep(3 * time.Millisecond)
		old := runtime.GOMAXPROCS(1)
		e.stop()
		e.start()
		got := make(chan string, 1)
		_ = e.sendAsync("", dataTransferReq(ver), func(r ocpp.Response, err error) { got <- fmt.Sprintf("%+v %v", r, err) })
		runtime.GOMAXPROCS(old)
		w3 := e.waitWrites(1, time.Second)
		id3 := "?"
		if len(w3) > 0 {
			f3, _ := parseFrame(w3[0].data)
			id3 = f3.ID
			time.Sleep(5 * time.Millisecond)
			_ = e.deliver("", []byte(reply(f3.ID)))
		}
		close(gate)
		select {
		case g := <-got:
			res.Events = 1
			if !containsStr(g, id3) {
				res.Violations = append(res.Violations, Violation{Property: "C16", Sig: "restart/foreign-outcome:" + ver, What: fmt.Sprintf("%s: the callback of request %s of the new session received %s (the last request of the stopped session was %s; %d outcomes were waiting when Stop was called)", ver, id3, g, f2.ID, extra)})
			}
		case <-time.After(time.Second):
			res.Violations = append(res.Violations, Violation{Property: "C16", Sig: "restart/callback-lost:" + ver, What: "no callback for the new session's request"})
		}
		e.stop()
		return res
	}
}

func containsStr(s, sub string) bool {
	for i := 0; i+len(sub) <= len(s); i++ {
		if s[i:i+len(sub)] == sub {
			return true
		}
	}
	return false
}
