package main

import (
	"crypto/sha1"
	"encoding/hex"
	"fmt"
	"math/rand"
	"net"
	"os"
	"strconv"
	"strings"
	"sync"
	"sync/atomic"
	"time"

	"github.com/gorilla/websocket"
	"github.com/lorenzodonini/ocpp-go/ws"
)

// Monitor ws_write (C15, search on the implementation): real ws.Server and ws.Client on loopback.
//  A  concurrent writers in both directions, sizes 0 .. 300 KiB incl. multi-byte UTF-8, then a close from a random
//     side while the writers are still writing: per writer order, exactly once, byte-exact; every Write returns.
//  B  dead peer: a raw client that never reads, server WriteWait 150 ms, 6 writers x 8 x 256 KiB: every Write
//     returns within the watchdog, the connection is torn down, the id can connect again.
//  C  like B, and the silent peer sends pings while the write pump is stuck: no panic.
//  D  two concurrent StopConnection / Stop on a connection whose pump is stuck: both return.
//  E  like B, and the silent peer half-closes (read error while the write is parked), then resets the connection.

func init() { roundsProp["ws_write"] = "C15" }

func sizeClass(r *rand.Rand) int {
	return []int{0, 1, 2, 125, 126, 127, 1000, 65535, 65536, 65537, 300 * 1024}[r.Intn(11)]
}

func payload(tag string, n int, r *rand.Rand) []byte {
	// header "<tag>|<len>|" + body of n bytes of valid UTF-8 (ASCII, 2-, 3- and 4-byte runes)
	var sb strings.Builder
	runes := []string{"a", "é", "€", "😀", "<", "&", "\"", "\\", "\n"}
	for sb.Len() < n {
		sb.WriteString(runes[r.Intn(len(runes))])
	}
	body := sb.String()
	for len(body) > n { // cut at a rune boundary
		body = body[:len(body)-1]
		for len(body) > 0 && body[len(body)-1]&0xC0 == 0x80 {
			body = body[:len(body)-1]
		}
		if len(body) > 0 && body[len(body)-1]&0x80 != 0 {
			body = body[:len(body)-1]
		}
	}
	h := sha1.Sum([]byte(body))
	return []byte(fmt.Sprintf("%s|%d|%s|%s", tag, len(body), hex.EncodeToString(h[:4]), body))
}

type recvLog struct {
	mu   sync.Mutex
	msgs []string // "<tag>" in arrival order; corrupt ones as "CORRUPT:<tag>"
}

func (l *recvLog) add(data []byte) {
	p := strings.SplitN(string(data), "|", 4)
	tag := "?"
	if len(p) == 4 {
		tag = p[0]
		n, _ := strconv.Atoi(p[1])
		h := sha1.Sum([]byte(p[3]))
		if n != len(p[3]) || hex.EncodeToString(h[:4]) != p[2] {
			tag = "CORRUPT:" + tag
		}
	} else {
		tag = "CORRUPT:" + string(data[:min(len(data), 20)])
	}
	l.mu.Lock()
	l.msgs = append(l.msgs, tag)
	l.mu.Unlock()
}

func min(a, b int) int {
	if a < b {
		return a
	}
	return b
}

// checkOrder: tags are "<writer>.<seq>"; per writer strictly increasing from 0 without gaps among the first k, no duplicates
func checkOrder(msgs []string, sentOK map[string]int, allowLoss bool) string {
	next := map[string]int{}
	for _, m := range msgs {
		if strings.HasPrefix(m, "CORRUPT") {
			return "corrupt message " + m
		}
		p := strings.SplitN(m, ".", 2)
		if len(p) != 2 {
			return "unknown message " + m
		}
		seq, _ := strconv.Atoi(p[1])
		if seq < next[p[0]] {
			return fmt.Sprintf("writer %s: message %d delivered again or out of order (expected %d)", p[0], seq, next[p[0]])
		}
		if seq > next[p[0]] {
			return fmt.Sprintf("writer %s: message %d delivered before %d (gap)", p[0], seq, next[p[0]])
		}
		next[p[0]] = seq + 1
	}
	if !allowLoss {
		for w, n := range sentOK {
			if next[w] != n {
				return fmt.Sprintf("writer %s: %d writes returned nil while the connection was open but %d were delivered", w, n, next[w])
			}
		}
	}
	return ""
}

func init() {
	rounds["ws_write"] = func(seed int64, i int) roundResult {
		var res roundResult
		var vmu sync.Mutex
		viol := func(sig, what string, replay interface{}) {
			vmu.Lock()
			defer vmu.Unlock()
			for _, v := range res.Violations {
				if v.Sig == sig {
					return
				}
			}
			res.Violations = append(res.Violations, Violation{Property: "C15", Sig: sig, What: what, Replay: replay})
		}
		r := rand.New(rand.NewSource(seed*104729 + int64(i)))
		kind := []string{"A", "A", "B", "C", "D", "A", "E", "F", "G"}[i%9]
		fmt.Fprintln(os.Stderr, "FRAME scenario-"+kind)
		switch kind {
		case "A":
			srvLog, cliLog := &recvLog{}, &recvLog{}
			c := startWsServer(srvOpts{})
			c.onMsg = func(ch ws.Channel, data []byte) { srvLog.add(data) }
			cl := ws.NewClient()
			cl.SetRequestedSubProtocol("ocpp1.6")
			cl.SetMessageHandler(func(data []byte) error { cliLog.add(data); return nil })
			if err := cl.Start(c.url("io")); err != nil {
				fmt.Fprintln(os.Stderr, "HARNESS-ERROR ws_write: client start", err)
				return res
			}
			waitCond(2*time.Second, func() bool { return c.size() >= 1 })
			nw := 1 + r.Intn(4)
			per := 6 + r.Intn(10)
			closeAt := -1
			if r.Intn(3) != 0 {
				closeAt = r.Intn(per)
			}
			closer := r.Intn(3) // 0 client Stop, 1 server StopConnection, 2 server Stop
			var closed int32
			var wg sync.WaitGroup
			okS, okC := map[string]int{}, map[string]int{}
			var omu sync.Mutex
			var returned int64
			total := int64(2 * nw * per)
			for w := 0; w < nw; w++ {
				for _, side := range []string{"s", "c"} {
					wg.Add(1)
					go func(w int, side string) {
						defer wg.Done()
						rr := rand.New(rand.NewSource(seed + int64(i)*977 + int64(w)*31 + int64(len(side))))
						name := fmt.Sprintf("%s%d", side, w)
						for k := 0; k < per; k++ {
							data := payload(fmt.Sprintf("%s.%d", name, k), sizeClass(rr), rr)
							var err error
							func() {
								defer func() {
									if p := recover(); p != nil {
										viol("write-panic", fmt.Sprintf("Write panicked: %v", p), map[string]interface{}{"round": i, "seed": seed})
										err = fmt.Errorf("panic")
									}
								}()
								wasOpen := atomic.LoadInt32(&closed) == 0
								if side == "s" {
									err = c.s.Write("io", data)
								} else {
									err = cl.Write(data)
								}
								if err == nil && wasOpen && atomic.LoadInt32(&closed) == 0 {
									omu.Lock()
									if side == "s" {
										if okS[name] == k {
											okS[name] = k + 1
										}
									} else if okC[name] == k {
										okC[name] = k + 1
									}
									omu.Unlock()
								}
								if err != nil && wasOpen && atomic.LoadInt32(&closed) == 0 {
									viol("write-error-while-open", fmt.Sprintf("Write on an open connection returned %v", err), map[string]interface{}{"round": i, "seed": seed})
								}
							}()
							atomic.AddInt64(&returned, 1)
							if w == 0 && side == "s" && k == closeAt {
								atomic.StoreInt32(&closed, 1)
								switch closer {
								case 0:
									cl.Stop()
								case 1:
									_ = c.s.StopConnection("io", websocket.CloseError{Code: websocket.CloseNormalClosure, Text: ""})
								default:
									c.s.Stop()
								}
							}
						}
					}(w, side)
				}
			}
			doneW := make(chan struct{})
			go func() { wg.Wait(); close(doneW) }()
			select {
			case <-doneW:
			case <-time.After(8 * time.Second):
				viol("write-blocked:A", fmt.Sprintf("scenario A (%d writers per side, close by %d at message %d): %d of %d Write calls did not return within 8 s", nw, closer, closeAt, total-atomic.LoadInt64(&returned), total),
					map[string]interface{}{"round": i, "seed": seed, "stacks": blockedIn("ws.")})
			}
			// let deliveries finish
			time.Sleep(30 * time.Millisecond)
			waitCond(2*time.Second, func() bool {
				srvLog.mu.Lock()
				cliLog.mu.Lock()
				defer srvLog.mu.Unlock()
				defer cliLog.mu.Unlock()
				if closeAt >= 0 {
					return true
				}
				return len(srvLog.msgs) == nw*per && len(cliLog.msgs) == nw*per
			})
			srvLog.mu.Lock()
			cliLog.mu.Lock()
			// what the server received was written by the client writers and vice versa
			if m := checkOrder(srvLog.msgs, okC, closeAt >= 0); m != "" {
				viol("delivery:client-to-server", "client -> server: "+m, map[string]interface{}{"round": i, "seed": seed, "received": srvLog.msgs})
			}
			if m := checkOrder(cliLog.msgs, okS, closeAt >= 0); m != "" {
				viol("delivery:server-to-client", "server -> client: "+m, map[string]interface{}{"round": i, "seed": seed, "received": cliLog.msgs})
			}
			res.Events = len(srvLog.msgs) + len(cliLog.msgs)
			srvLog.mu.Unlock()
			cliLog.mu.Unlock()
			if closeAt < 0 {
				cl.Stop()
			}
			if !(closeAt >= 0 && closer == 2) {
				c.s.Stop()
			}
		case "F":
			// a library client whose connection is dropped by the server again and again while application goroutines
			// call Write / IsConnected: the client reconnects (back-off 5 ms); every call returns
			c := startWsServer(srvOpts{})
			cl := ws.NewClient()
			cl.SetRequestedSubProtocol("ocpp1.6")
			cfg := ws.NewClientTimeoutConfig()
			cfg.RetryBackOffWaitMinimum = 5 * time.Millisecond
			cfg.RetryBackOffRandomRange = 0
			cfg.PingPeriod, cfg.PongWait = 0, 0
			cl.SetTimeoutConfig(cfg)
			cl.SetMessageHandler(func([]byte) error { return nil })
			if err := cl.Start(c.url("f")); err != nil {
				return res
			}
			var stopF int32
			var wg sync.WaitGroup
			var calls int64
			for w := 0; w < 3; w++ {
				wg.Add(1)
				go func() {
					defer wg.Done()
					for atomic.LoadInt32(&stopF) == 0 {
						_ = cl.Write([]byte("x"))
						_ = cl.IsConnected()
						atomic.AddInt64(&calls, 1)
						time.Sleep(200 * time.Microsecond)
					}
				}()
			}
			for k := 0; k < 8; k++ {
				time.Sleep(15 * time.Millisecond)
				_ = c.s.StopConnection("f", websocket.CloseError{Code: websocket.CloseInternalServerErr, Text: "drop"})
			}
			time.Sleep(30 * time.Millisecond)
			atomic.StoreInt32(&stopF, 1)
			doneW := make(chan struct{})
			go func() { wg.Wait(); close(doneW) }()
			select {
			case <-doneW:
			case <-time.After(5 * time.Second):
				viol("write-blocked:F", "scenario F (client writers during reconnections): Write / IsConnected did not return", map[string]interface{}{"round": i, "seed": seed, "stacks": blockedIn("ws.")})
			}
			res.Events = int(atomic.LoadInt64(&calls))
			cl.Stop()
			c.s.Stop()
		case "G":
			// unsolicited pongs and pings from the peer while the server closes the connection, and RemoteAddr() polled by the application
			c := startWsServer(srvOpts{})
			for k := 0; k < 6; k++ {
				id := fmt.Sprintf("g%d", k)
				d := rawDial(c.url(id), []string{"ocpp1.6"}, nil)
				if d.err != nil {
					continue
				}
				waitCond(time.Second, func() bool { _, ok := c.s.GetChannel(id); return ok })
				ch, _ := c.s.GetChannel(id)
				var stopG int32
				var wg sync.WaitGroup
				wg.Add(2)
				go func() {
					defer wg.Done()
					for atomic.LoadInt32(&stopG) == 0 {
						if d.conn.WriteControl(websocket.PongMessage, []byte("p"), time.Now().Add(50*time.Millisecond)) != nil {
							return
						}
						_ = d.conn.WriteControl(websocket.PingMessage, []byte("q"), time.Now().Add(50*time.Millisecond))
					}
				}()
				go func() {
					defer wg.Done()
					defer func() { _ = recover() }()
					for atomic.LoadInt32(&stopG) == 0 {
						if ch != nil {
							_ = ch.IsConnected()
							_ = ch.ID()
						}
					}
				}()
				time.Sleep(3 * time.Millisecond)
				_ = c.s.StopConnection(id, websocket.CloseError{Code: websocket.CloseNormalClosure, Text: ""})
				waitCond(time.Second, func() bool { _, ok := c.s.GetChannel(id); return !ok })
				atomic.StoreInt32(&stopG, 1)
				wg.Wait()
				_ = d.conn.Close()
				res.Events++
			}
			c.s.Stop()
		case "B", "C", "D", "E":
			wc := ws.NewServerTimeoutConfig()
			wc.WriteWait = 150 * time.Millisecond
			c := startWsServer(srvOpts{timeouts: &wc})
			d := rawDial(c.url("dead"), []string{"ocpp1.6"}, nil)
			if d.err != nil {
				fmt.Fprintln(os.Stderr, "HARNESS-ERROR ws_write: dial", d.err)
				return res
			}
			waitCond(2*time.Second, func() bool { return c.size() >= 1 })
			// the peer never reads; shrink its receive buffer so that the server's writes stall soon
			if tc, ok := d.conn.UnderlyingConn().(*net.TCPConn); ok {
				_ = tc.SetReadBuffer(4096)
			}
			var wg sync.WaitGroup
			var returned int64
			writers, per := 6, 8
			big := make([]byte, 256*1024)
			for j := range big {
				big[j] = 'x'
			}
			for w := 0; w < writers; w++ {
				wg.Add(1)
				go func() {
					defer wg.Done()
					for k := 0; k < per; k++ {
						_ = c.s.Write("dead", big)
						atomic.AddInt64(&returned, 1)
					}
				}()
			}
			if kind == "C" {
				// pings from the silent peer while the pump is stuck
				time.Sleep(30 * time.Millisecond)
				for k := 0; k < 4; k++ {
					_ = d.conn.WriteControl(websocket.PingMessage, []byte("p"), time.Now().Add(time.Second))
					time.Sleep(10 * time.Millisecond)
				}
			}
			if kind == "E" {
				// the silent peer half-closes (the server's read fails while its write is parked), then resets
				time.Sleep(40 * time.Millisecond)
				if tc, ok := d.conn.UnderlyingConn().(*net.TCPConn); ok {
					_ = tc.CloseWrite()
					time.Sleep(40 * time.Millisecond)
					_ = tc.SetLinger(0)
					_ = tc.Close()
				}
			}
			if kind == "D" {
				time.Sleep(30 * time.Millisecond)
				for k := 0; k < 2; k++ {
					wg.Add(1)
					go func() {
						defer wg.Done()
						_ = c.s.StopConnection("dead", websocket.CloseError{Code: websocket.CloseNormalClosure, Text: ""})
						atomic.AddInt64(&returned, 1)
					}()
				}
			}
			doneW := make(chan struct{})
			go func() { wg.Wait(); close(doneW) }()
			total := int64(writers * per)
			if kind == "D" {
				total += 2
			}
			select {
			case <-doneW:
			case <-time.After(6 * time.Second):
				viol("write-blocked:"+kind, fmt.Sprintf("scenario %s (peer never reads, WriteWait 150 ms, %d writers x %d x 256 KiB): %d of %d calls did not return within 6 s", kind, writers, per, total-atomic.LoadInt64(&returned), total),
					map[string]interface{}{"round": i, "seed": seed, "scenario": kind, "stacks": blockedIn("ws.")})
			}
			res.Events = int(atomic.LoadInt64(&returned))
			gone := waitCond(3*time.Second, func() bool { _, ok := c.s.GetChannel("dead"); return !ok })
			if !gone {
				viol("dead-peer-not-released:"+kind, "the connection to the dead peer is still registered 3 s after its writes failed", map[string]interface{}{"round": i, "seed": seed, "scenario": kind, "stacks": blockedIn("ws.")})
			}
			_ = d.conn.Close()
			if gone {
				d2 := rawDial(c.url("dead"), []string{"ocpp1.6"}, nil)
				if d2.err != nil {
					viol("server-wedged:"+kind, fmt.Sprintf("after the dead peer a new connection cannot be made: %v", d2.err), map[string]interface{}{"round": i, "seed": seed, "scenario": kind})
				} else {
					_ = d2.conn.Close()
				}
			}
			stopped := make(chan struct{})
			go func() { c.s.Stop(); close(stopped) }()
			select {
			case <-stopped:
			case <-time.After(4 * time.Second):
				viol("stop-blocked:"+kind, "ws server Stop does not return after the dead-peer scenario", map[string]interface{}{"round": i, "seed": seed, "scenario": kind})
			}
		}
		return res
	}
	monitors["ws_write"] = func(seed int64, tier string) interface{} {
		n := 24
		if tier == "thorough" {
			n = 240
		}
		rep := &Report{Monitor: "ws_write", Rule: "rounds in their own process on loopback; A: real ws.Server <-> real ws.Client, 1-4 concurrent writers per side x 6-15 messages of sizes 0/1/2/125/126/127/1000/65535/65536/65537/300Ki bytes of mixed-width UTF-8 with per-writer sequence numbers and content hash, optional close from a random side while writing: per writer in order, exactly once, byte-exact, nothing lost while open, every Write returns; B/C/D: raw peer that never reads, WriteWait 150 ms, 6 writers x 8 x 256 KiB (C: the peer also pings, D: two concurrent StopConnection, E: the peer half-closes, then resets): every call returns within 6 s, no panic, the connection is released, a new one can be made, Stop returns; distinct = rounds", Stats: map[string]interface{}{}}
		results := runRounds("ws_write", seed, n, 8)
		seen := map[string]bool{}
		for _, r := range results {
			rep.Stats["events"] = asInt(rep.Stats["events"]) + r.Events
			if r.Events > 0 {
				rep.Distinct++
			}
			rep.Evaluations++
			for _, v := range r.Violations {
				if !seen[v.Sig] {
					seen[v.Sig] = true
					rep.Violations = append(rep.Violations, v)
				}
			}
		}
		return rep
	}
}

// blockedIn lists library goroutines (functions containing `pkg`) parked in a channel send or lock acquisition
func blockedIn(pkg string) []string {
	var out []string
	for _, g := range libGoroutines() {
		switch g.state {
		case "chan send", "semacquire", "sync.Mutex.Lock", "sync.RWMutex.Lock", "sync.RWMutex.RLock":
			if strings.Contains(g.top, pkg) {
				fn := g.top
				if j := strings.Index(fn, "(0x"); j > 0 {
					fn = fn[:j]
				}
				out = append(out, g.state+" @ "+fn[strings.LastIndex(fn, "/")+1:]+" "+g.where[strings.LastIndex(g.where, "/")+1:])
			}
		}
	}
	return out
}
