package main

import (
	"fmt"
	"math/rand"
	"sort"
	"sync"
	"sync/atomic"
	"time"

	"github.com/anishathalye/porcupine"
	"github.com/lorenzodonini/ocpp-go/ocppj"
)

// c12_concurrent: concurrent histories on the real FIFOClientQueue / clientState, checked for
// linearizability against the sequential specification (the same one the Lean model is diffed against).
// Supporting validation of the atomicity assumption of C12 ("every method body is one critical
// section"); also a direct monitor: size never exceeds capacity, nothing lost or duplicated.

type qIn struct {
	op  int // 0 push 1 pop 2 peek 3 size 4 isfull 5 isempty
	val int
}
type qOut struct {
	ok  bool
	val int // -1 = nil
}

func queueModel(capacity int) porcupine.Model {
	return porcupine.Model{
		Init: func() interface{} { return []int{} },
		Step: func(state, input, output interface{}) (bool, interface{}) {
			s := state.([]int)
			in := input.(qIn)
			out := output.(qOut)
			switch in.op {
			case 0:
				full := capacity > 0 && len(s) >= capacity
				if full {
					return !out.ok, s
				}
				if !out.ok {
					return false, s
				}
				ns := append(append([]int{}, s...), in.val)
				return true, ns
			case 1:
				if len(s) == 0 {
					return out.val == -1, s
				}
				return out.val == s[0], append([]int{}, s[1:]...)
			case 2:
				if len(s) == 0 {
					return out.val == -1, s
				}
				return out.val == s[0], s
			case 3:
				return out.val == len(s), s
			case 4:
				return out.ok == (capacity > 0 && len(s) >= capacity), s
			case 5:
				return out.ok == (len(s) == 0), s
			}
			return false, s
		},
		Equal: func(a, b interface{}) bool {
			x, y := a.([]int), b.([]int)
			if len(x) != len(y) {
				return false
			}
			for i := range x {
				if x[i] != y[i] {
					return false
				}
			}
			return true
		},
		DescribeOperation: func(in, out interface{}) string { return fmt.Sprintf("%v -> %v", in, out) },
	}
}

func init() {
	monitors["c12_concurrent"] = func(seed int64, tier string) interface{} {
		rounds := 60
		if tier == "thorough" {
			rounds = 600
		}
		rep := &Report{Monitor: "c12_concurrent", Rule: "concurrent push/pop/peek/size histories (3-8 goroutines, capacities 0,1,2,3,10) on the real FIFOClientQueue, each checked for linearizability w.r.t. the sequential FIFO spec (porcupine) and for size<=cap; distinct = distinct (capacity, goroutines, op multiset) shapes with at least one rejected push or nil pop"}
		r := rand.New(rand.NewSource(seed))
		shapes := map[string]bool{}
		for round := 0; round < rounds; round++ {
			capacity := []int{0, 1, 2, 3, 10}[r.Intn(5)]
			g := 3 + r.Intn(6)
			per := 6 + r.Intn(10)
			q := ocppj.NewFIFOClientQueue(capacity)
			var mu sync.Mutex
			var ops []porcupine.Operation
			var wg sync.WaitGroup
			var maxSize int64
			var next int64
			rejected, nilpops := int64(0), int64(0)
			seeds := make([]int64, g)
			for i := range seeds {
				seeds[i] = r.Int63()
			}
			for c := 0; c < g; c++ {
				wg.Add(1)
				go func(c int) {
					defer wg.Done()
					rr := rand.New(rand.NewSource(seeds[c]))
					for i := 0; i < per; i++ {
						in := qIn{op: []int{0, 0, 0, 1, 1, 2, 3, 4, 5}[rr.Intn(9)]}
						var out qOut
						call := time.Now().UnixNano()
						switch in.op {
						case 0:
							in.val = int(atomic.AddInt64(&next, 1))
							out.ok = q.Push(in.val) == nil
							if !out.ok {
								atomic.AddInt64(&rejected, 1)
							}
						case 1:
							v := q.Pop()
							out.val = -1
							if v != nil {
								out.val = v.(int)
							} else {
								atomic.AddInt64(&nilpops, 1)
							}
						case 2:
							v := q.Peek()
							out.val = -1
							if v != nil {
								out.val = v.(int)
							}
						case 3:
							out.val = q.Size()
							for {
								m := atomic.LoadInt64(&maxSize)
								if int64(out.val) <= m || atomic.CompareAndSwapInt64(&maxSize, m, int64(out.val)) {
									break
								}
							}
						case 4:
							out.ok = q.IsFull()
						case 5:
							out.ok = q.IsEmpty()
						}
						ret := time.Now().UnixNano()
						mu.Lock()
						ops = append(ops, porcupine.Operation{ClientId: c, Input: in, Call: call, Output: out, Return: ret})
						mu.Unlock()
					}
				}(c)
			}
			wg.Wait()
			rep.Evaluations++
			if capacity > 0 && int(maxSize) > capacity {
				rep.Violations = append(rep.Violations, Violation{Property: "C12", Sig: "queue-exceeds-capacity",
					What: fmt.Sprintf("FIFOClientQueue(cap=%d) reported size %d under concurrent use", capacity, maxSize), Replay: map[string]interface{}{"capacity": capacity, "goroutines": g}})
			}
			res := porcupine.CheckOperationsTimeout(queueModel(capacity), ops, 10*time.Second)
			if res == porcupine.Illegal {
				sort.Slice(ops, func(i, j int) bool { return ops[i].Call < ops[j].Call })
				var h []string
				for _, o := range ops {
					h = append(h, fmt.Sprintf("g%d %v -> %v [%d,%d]", o.ClientId, o.Input, o.Output, o.Call, o.Return))
				}
				rep.Violations = append(rep.Violations, Violation{Property: "C12", Sig: "queue-not-linearizable",
					What: fmt.Sprintf("concurrent history on FIFOClientQueue(cap=%d) is not linearizable w.r.t. the FIFO spec", capacity), Replay: h})
			}
			if rejected > 0 || nilpops > 0 {
				shapes[fmt.Sprintf("%d/%d/%d/%d/%d", capacity, g, per, rejected, nilpops)] = true
			}
			if len(rep.Samples) < 2 {
				rep.Samples = append(rep.Samples, map[string]interface{}{"capacity": capacity, "goroutines": g, "ops": len(ops), "rejected": rejected, "nil_pops": nilpops, "linearizable": res == porcupine.Ok})
			}
		}
		rep.Distinct = len(shapes)
		return rep
	}
}
