package main

import (
	"fmt"
	"math/rand"
	"net"
	"sort"
	"strings"
	"sync"
	"time"

	"github.com/gorilla/websocket"
)

// suite wssrv (C13, parts of C15/C16): histories on one real ws.Server on loopback, raw gorilla clients.
//   reset
//   connect <k> <id>      raw client k dials /<id>
//   close <k>             client k sends a close frame, then closes
//   drop <k>              client k's TCP connection is reset without a close frame
//   stopconn <id>         server.StopConnection(id, 1011)
//   swrite <id> <n>       server.Write(id, "s<n>")
//   cwrite <k> <n>        client k writes "c<n>"
//   list                  ids the server reports as connected (GetChannel + IsConnected over a,b,c)
//   stop                  server.Stop()
// output: result of the call + the callbacks it caused, in order

type wssrv struct{}

func init() {
	suites["wssrv"] = wssrv{}
	childSuites["wssrv"] = runWsSrv
}

func (wssrv) Run(ops []string, emit func(string)) { runIsolated("wssrv", ops, emit) }

func (wssrv) Gen(r *rand.Rand, n int) []string {
	var out []string
	ids := []string{"a", "b", "c"}
	for s := 0; s < n; s++ {
		out = append(out, "reset")
		k := 0
		cnt := 0
		for i, m := 0, 8+r.Intn(22); i < m; i++ {
			switch x := r.Intn(20); {
			case x < 6:
				k++
				out = append(out, fmt.Sprintf("connect %d %s", k, ids[r.Intn(len(ids))]))
			case x < 9 && k > 0:
				out = append(out, fmt.Sprintf("close %d", 1+r.Intn(k)))
			case x < 11 && k > 0:
				out = append(out, fmt.Sprintf("drop %d", 1+r.Intn(k)))
			case x < 13:
				out = append(out, "stopconn "+ids[r.Intn(len(ids))])
			case x < 15:
				cnt++
				out = append(out, fmt.Sprintf("swrite %s %d", ids[r.Intn(len(ids))], cnt))
			case x < 17 && k > 0:
				cnt++
				out = append(out, fmt.Sprintf("cwrite %d %d", 1+r.Intn(k), cnt))
			case x < 19:
				out = append(out, "list")
			default:
				if r.Intn(4) == 0 {
					out = append(out, "stop")
					i = m
				} else {
					out = append(out, "list")
				}
			}
		}
		out = append(out, "list")
	}
	return out
}

// rawClient: a gorilla connection with a reader goroutine recording what arrives
type rawClient struct {
	conn   *websocket.Conn
	mu     sync.Mutex
	got    []string // data frames
	closed string   // "", "close:<code>", "eof"
}

func newRawClient(conn *websocket.Conn) *rawClient {
	rc := &rawClient{conn: conn}
	go func() {
		for {
			_, data, err := conn.ReadMessage()
			rc.mu.Lock()
			if err != nil {
				if ce, ok := err.(*websocket.CloseError); ok {
					rc.closed = fmt.Sprintf("close:%d", ce.Code)
				} else {
					rc.closed = "eof"
				}
				rc.mu.Unlock()
				return
			}
			rc.got = append(rc.got, string(data))
			rc.mu.Unlock()
		}
	}()
	return rc
}

func (rc *rawClient) state() (string, int) {
	rc.mu.Lock()
	defer rc.mu.Unlock()
	return rc.closed, len(rc.got)
}

func (rc *rawClient) has(s string) bool {
	rc.mu.Lock()
	defer rc.mu.Unlock()
	for _, g := range rc.got {
		if g == s {
			return true
		}
	}
	return false
}

func evs(l []wsEvent) string {
	var p []string
	for _, e := range l {
		if e.kind == "msg" {
			p = append(p, "msg:"+e.id+":"+e.data)
		} else {
			p = append(p, e.kind+":"+e.id)
		}
	}
	if len(p) == 0 {
		return "-"
	}
	return strings.Join(p, " ")
}

func runWsSrv(ops []string, emit func(string)) {
	var c *srvCtx
	clients := map[string]*rawClient{}
	stopped := false
	count := func(kind, id string) int {
		n := 0
		for _, e := range c.snapshot() {
			if e.kind == kind && e.id == id {
				n++
			}
		}
		return n
	}
	for _, l := range ops {
		f := fields(l)
		emit(guard(func() string {
			switch f[0] {
			case "reset":
				if c != nil && !stopped {
					c.s.Stop()
				}
				for _, rc := range clients {
					_ = rc.conn.Close()
				}
				clients = map[string]*rawClient{}
				c = startWsServer(srvOpts{})
				stopped = false
				return "ok"
			case "connect":
				d := rawDial(c.url(f[2]), []string{"ocpp1.6"}, nil)
				if d.err != nil {
					return "dial-error " + evs(c.take())
				}
				rc := newRawClient(d.conn)
				clients[f[1]] = rc
				before := 0
				waitCond(2*time.Second, func() bool {
					cl, _ := rc.state()
					return cl != "" || count("new", f[2]) > before
				})
				c.settle(2*time.Millisecond, 50*time.Millisecond)
				cl, _ := rc.state()
				if cl != "" {
					return cl + " " + evs(c.take())
				}
				return "admitted " + evs(c.take())
			case "close", "drop":
				rc := clients[f[1]]
				if rc == nil {
					return "no-such-client"
				}
				cl, _ := rc.state()
				if f[0] == "close" {
					_ = rc.conn.WriteControl(websocket.CloseMessage, websocket.FormatCloseMessage(websocket.CloseNormalClosure, ""), time.Now().Add(time.Second))
				} else if tc, ok := rc.conn.UnderlyingConn().(*net.TCPConn); ok {
					_ = tc.SetLinger(0)
				}
				// wait for the server to notice (if the connection was live) before tearing TCP down
				if cl == "" && f[0] == "close" {
					waitCond(2*time.Second, func() bool { return c.size() > 0 })
				}
				_ = rc.conn.Close()
				if cl == "" && f[0] == "drop" {
					waitCond(2*time.Second, func() bool { return c.size() > 0 })
				}
				c.settle(3*time.Millisecond, 60*time.Millisecond)
				return "ok " + evs(c.take())
			case "stopconn":
				already := map[string]bool{}
				for k, rc := range clients {
					if cl, _ := rc.state(); cl != "" {
						already[k] = true
					}
				}
				err := c.s.StopConnection(f[1], websocket.CloseError{Code: websocket.CloseInternalServerErr, Text: "bye"})
				if err != nil {
					c.settle(2*time.Millisecond, 30*time.Millisecond)
					return "error " + evs(c.take())
				}
				waitCond(2*time.Second, func() bool { return c.size() > 0 })
				c.settle(3*time.Millisecond, 60*time.Millisecond)
				// what the (single) live client of that id saw
				seen := "?"
				waitCond(time.Second, func() bool {
					for k, rc := range clients {
						if cl, _ := rc.state(); cl != "" && !already[k] {
							seen = cl
							return true
						}
					}
					return false
				})
				return "ok " + seen + " " + evs(c.take())
			case "swrite":
				err := c.s.Write(f[1], []byte("s"+f[2]))
				if err != nil {
					return "error " + evs(c.take())
				}
				got := waitCond(2*time.Second, func() bool {
					for _, rc := range clients {
						if rc.has("s" + f[2]) {
							return true
						}
					}
					return false
				})
				return fmt.Sprintf("ok delivered=%v %s", got, evs(c.take()))
			case "cwrite":
				rc := clients[f[1]]
				if rc == nil {
					return "no-such-client"
				}
				cl, _ := rc.state()
				err := rc.conn.WriteMessage(websocket.TextMessage, []byte("c"+f[2]))
				if cl == "" && err == nil {
					waitCond(2*time.Second, func() bool { return c.size() > 0 })
				}
				c.settle(2*time.Millisecond, 40*time.Millisecond)
				return "ok " + evs(c.take())
			case "list":
				var live []string
				for _, id := range []string{"a", "b", "c"} {
					if ch, ok := c.s.GetChannel(id); ok && ch.IsConnected() {
						live = append(live, id)
					}
				}
				sort.Strings(live)
				return "live=" + strings.Join(live, ",") + " " + evs(c.take())
			case "stop":
				nlive := 0
				for _, id := range []string{"a", "b", "c"} {
					if _, ok := c.s.GetChannel(id); ok {
						nlive++
					}
				}
				c.s.Stop()
				stopped = true
				waitCond(2*time.Second, func() bool { return c.size() >= nlive })
				c.settle(5*time.Millisecond, 100*time.Millisecond)
				ev := c.take()
				// order among different ids is not fixed: sort
				var p []string
				for _, e := range ev {
					p = append(p, e.kind+":"+e.id)
				}
				sort.Strings(p)
				if len(p) == 0 {
					p = []string{"-"}
				}
				return "stopped " + strings.Join(p, " ")
			}
			return "bad-op"
		}))
	}
	if c != nil && !stopped {
		c.s.Stop()
	}
}
