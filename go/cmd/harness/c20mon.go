package main

import (
	"encoding/json"
	"fmt"
	"math/rand"
	"time"

	core16 "github.com/lorenzodonini/ocpp-go/ocpp1.6/core"
	t16 "github.com/lorenzodonini/ocpp-go/ocpp1.6/types"
	avail201 "github.com/lorenzodonini/ocpp-go/ocpp2.0.1/availability"
	t201 "github.com/lorenzodonini/ocpp-go/ocpp2.0.1/types"
)

// c20_messages: timestamps inside real messages, through encoding/json (pointer- and value-typed fields),
// all documented layouts, non-UTC inputs. Direct reading of C20 on the real code.
func init() {
	monitors["c20_messages"] = func(seed int64, tier string) interface{} {
		rep := &Report{Monitor: "c20_messages", Rule: "messages with a timestamp field ({currentTime: tok}) decoded via encoding/json for pointer-typed (1.6 HeartbeatConfirmation) and value-typed (2.0.1 HeartbeatResponse) fields; tok ranges over non-timestamp JSON tokens, null and valid timestamps; marshal->unmarshal round trips of random instants in random zones under layouts RFC3339, RFC3339Nano, millisecond layout, empty layout; distinct = distinct (case kind, token/layout) pairs"}
		r := rand.New(rand.NewSource(seed))
		n := 300
		if tier == "thorough" {
			n = 5000
		}
		seen := map[string]bool{}
		viol := func(sig, what string, replay interface{}) {
			for _, v := range rep.Violations {
				if v.Sig == sig {
					return
				}
			}
			rep.Violations = append(rep.Violations, Violation{Property: "C20", Sig: sig, What: what, Replay: replay})
		}
		bad := []string{"true", "false", "0", "5", "2019", "1551434400", "-5", "1.5", "{}", "[]", "\"\"", "\"abc\"", "\"ul\"", "\"xl\"", "\"nu\"", "\"n\"", "\"2020-13-01T00:00:00Z\"", "\"2020-01-01T25:00:00Z\"", "\"20-01-01\"", "\"T\""}
		for _, tok := range bad {
			js := []byte(`{"currentTime":` + tok + `}`)
			var a core16.HeartbeatConfirmation
			errA := json.Unmarshal(js, &a)
			var b avail201.HeartbeatResponse
			errB := json.Unmarshal(js, &b)
			rep.Evaluations += 2
			seen["bad/"+tok] = true
			if errA == nil {
				what := fmt.Sprintf("1.6 HeartbeatConfirmation %s decodes without error (currentTime=%v)", js, a.CurrentTime)
				sig := "non-string-accepted"
				if tok[0] == '"' {
					sig = "iso8601-lenient"
				}
				if (a.CurrentTime == nil || a.CurrentTime.IsZero()) && len(tok) == 4 {
					sig = "null-test-accepts-non-null"
				}
				viol(sig, what, string(js))
			}
			if errB == nil {
				sig := "non-string-accepted"
				if tok[0] == '"' {
					sig = "iso8601-lenient"
				}
				if b.CurrentTime.IsZero() && len(tok) == 4 {
					sig = "null-test-accepts-non-null"
				}
				viol(sig, fmt.Sprintf("2.0.1 HeartbeatResponse %s decodes without error (currentTime=%v)", js, b.CurrentTime), string(js))
			}
		}
		// null leaves the field unset
		{
			js := []byte(`{"currentTime":null}`)
			var a core16.HeartbeatConfirmation
			if err := json.Unmarshal(js, &a); err != nil || a.CurrentTime != nil {
				viol("null-not-unset", fmt.Sprintf("1.6 %s -> err=%v field=%v", js, err, a.CurrentTime), string(js))
			}
			var b avail201.HeartbeatResponse
			if err := json.Unmarshal(js, &b); err != nil || !b.CurrentTime.IsZero() {
				viol("null-not-unset", fmt.Sprintf("2.0.1 %s -> err=%v field=%v", js, err, b.CurrentTime), string(js))
			}
			rep.Evaluations += 2
			seen["null"] = true
		}
		layouts := []struct {
			l    string
			prec time.Duration
		}{{time.RFC3339, time.Second}, {time.RFC3339Nano, time.Nanosecond}, {"2006-01-02T15:04:05.000Z07:00", time.Millisecond}, {"", time.Nanosecond}}
		old16, old201 := t16.DateTimeFormat, t201.DateTimeFormat
		defer func() { t16.DateTimeFormat, t201.DateTimeFormat = old16, old201 }()
		for i := 0; i < n; i++ {
			sec, nano := randInstant(r)
			if sec < -62135596800 { // year 0: encoding/json's own time marshaller (empty layout) rejects years outside 0..9999 only
				sec = -sec % 200000000000
			}
			offs := []int{0, 3600, -3600, 19800, -16200, 50400, -43200}
			off := offs[r.Intn(len(offs))]
			tm := time.Unix(sec, nano).In(time.FixedZone("", off))
			ly := layouts[r.Intn(len(layouts))]
			t16.DateTimeFormat, t201.DateTimeFormat = ly.l, ly.l
			rep.Evaluations++
			seen[fmt.Sprintf("rt/%s/%d", ly.l, off)] = true
			// 1.6 pointer-typed
			a := core16.HeartbeatConfirmation{CurrentTime: t16.NewDateTime(tm)}
			js, err := json.Marshal(&a)
			var a2 core16.HeartbeatConfirmation
			if err == nil {
				err = json.Unmarshal(js, &a2)
			}
			if err != nil || a2.CurrentTime == nil || !a2.CurrentTime.Time.Equal(tm.Truncate(ly.prec)) {
				viol("roundtrip-instant-differs", fmt.Sprintf("1.6 layout %q: %v -> %s -> %v (err %v)", ly.l, tm, js, a2.CurrentTime, err), map[string]interface{}{"sec": sec, "nano": nano, "off": off, "layout": ly.l})
			}
			if ly.l != "" {
				var raw map[string]string
				_ = json.Unmarshal(js, &raw)
				want := tm.UTC().Format(ly.l)
				if raw["currentTime"] != want {
					viol("marshal-not-utc", fmt.Sprintf("1.6 layout %q: %v serialises as %q, want UTC %q", ly.l, tm, raw["currentTime"], want), map[string]interface{}{"sec": sec, "nano": nano, "off": off, "layout": ly.l})
				}
			}
			// 2.0.1 value-typed; and a re-serialisation of a *decoded* timestamp (parsed values keep their zone)
			b := avail201.HeartbeatResponse{CurrentTime: *t201.NewDateTime(tm)}
			js2, err := json.Marshal(&b)
			var b2 avail201.HeartbeatResponse
			if err == nil {
				err = json.Unmarshal(js2, &b2)
			}
			if err != nil || !b2.CurrentTime.Time.Equal(tm.Truncate(ly.prec)) {
				viol("roundtrip-instant-differs", fmt.Sprintf("2.0.1 layout %q: %v -> %s -> %v (err %v)", ly.l, tm, js2, b2.CurrentTime, err), map[string]interface{}{"sec": sec, "nano": nano, "off": off, "layout": ly.l})
			}
			if ly.l != "" {
				in := []byte(`{"currentTime":"` + tm.Format(time.RFC3339Nano) + `"}`)
				var b3 avail201.HeartbeatResponse
				var a3 core16.HeartbeatConfirmation
				if json.Unmarshal(in, &b3) == nil && json.Unmarshal(in, &a3) == nil {
					o3, _ := json.Marshal(&b3)
					o4, _ := json.Marshal(&a3)
					want := `{"currentTime":"` + tm.UTC().Format(ly.l) + `"}`
					if string(o3) != want || string(o4) != want {
						viol("marshal-not-utc", fmt.Sprintf("decoded %s re-serialises as %s / %s, want UTC %s", in, o4, o3, want), string(in))
					}
				} else {
					viol("iso-timestamp-rejected", fmt.Sprintf("%s rejected", in), string(in))
				}
			}
			if len(rep.Samples) < 3 {
				rep.Samples = append(rep.Samples, map[string]interface{}{"instant": tm.String(), "layout": ly.l, "json": string(js)})
			}
		}
		rep.Distinct = len(seen)
		return rep
	}
}
