package main

import (
	"fmt"
	"net"
	"strings"
	"sync"
	"time"

	"github.com/gorilla/websocket"
	"github.com/lorenzodonini/ocpp-go/ocpp"
	"github.com/lorenzodonini/ocpp-go/ocpp1.6/core"
	"github.com/lorenzodonini/ocpp-go/ocppj"
	"github.com/lorenzodonini/ocpp-go/ws"
)

// Monitor c11_idreuse (C11, directed, on the implementation): an ocppj.Server on the REAL ws.Server on loopback. The
// connection of client id "cp" ends; the server-side teardown of that connection is held at its "closed connection to"
// log line (ws.SetLogger gate, configuration set before anything runs); meanwhile a new connection with the same id
// arrives. Whatever the server does with it (refuse it as a duplicate until the old one is gone, or accept it), once
// the old teardown has finished and a connection of "cp" is live and announced,
//   * per id the application callbacks alternate new, disconnected, new, ... (a session ends before the next begins),
//   * a request sent to "cp" is accepted and reaches the live connection, and its reply concludes it.
// On the pinned tree the id was released before the disconnected callback: the new session was announced first and the
// late notification of the old session removed the NEW session's queue ("no client cp exists" for a live client).

func init() {
	roundsProp["c11_idreuse"] = "C11"
	rounds["c11_idreuse"] = func(seed int64, i int) roundResult {
		var res roundResult
		viol := func(sig, what string, replay interface{}) {
			for _, v := range res.Violations {
				if v.Sig == sig {
					return
				}
			}
			res.Violations = append(res.Violations, Violation{Property: "C11", Sig: sig, What: what, Replay: replay})
		}
		steps := "ocppj.Server on the real ws.Server; raw client A connects as cp and closes; the teardown is held at the log line `closed connection to cp` (ws.SetLogger gate); raw client B connects as cp; gate released; SendRequest(cp, ClearCache); B answers"
		variant := []string{"fin", "closeframe", "rst"}[i%3]
		g := &gateLogger{needle: "closed connection to cp", hit: make(chan struct{}), gate: make(chan struct{})}
		ws.SetLogger(g)
		var mu sync.Mutex
		var cbs []string
		add := func(s string) { mu.Lock(); cbs = append(cbs, s); mu.Unlock() }
		snapshot := func() []string { mu.Lock(); defer mu.Unlock(); return append([]string{}, cbs...) }
		var srv *ocppj.Server
		port := 0
		for attempt := 0; attempt < 6 && port == 0; attempt++ {
			ln, err := net.Listen("tcp", "127.0.0.1:0")
			if err != nil {
				continue
			}
			p := ln.Addr().(*net.TCPAddr).Port
			_ = ln.Close()
			wsrv := ws.NewServer()
			d := ocppj.NewDefaultServerDispatcher(ocppj.NewFIFOQueueMap(0))
			d.SetTimeout(3 * time.Second)
			s := ocppj.NewServer(wsrv, d, nil, core.Profile)
			s.SetDialect(ocpp.V16)
			s.SetNewClientHandler(func(ch ws.Channel) { add("new:" + ch.ID()) })
			s.SetDisconnectedClientHandler(func(ch ws.Channel) { add("disc:" + ch.ID()) })
			s.SetRequestHandler(func(ch ws.Channel, r ocpp.Request, id string, action string) {})
			s.SetResponseHandler(func(ch ws.Channel, r ocpp.Response, id string) { add("resp:" + id) })
			s.SetErrorHandler(func(ch ws.Channel, e *ocpp.Error, det interface{}) { add("err:" + e.MessageId) })
			s.SetCanceledRequestHandler(func(c, id string, r ocpp.Request, e *ocpp.Error) { add("cancel:" + id) })
			go s.Start(p, "/{id}")
			if waitCond(1500*time.Millisecond, func() bool {
				conn, err := net.DialTimeout("tcp", fmt.Sprintf("127.0.0.1:%d", p), 200*time.Millisecond)
				if err != nil {
					return false
				}
				_ = conn.Close()
				return true
			}) {
				srv, port = s, p
			}
		}
		if srv == nil {
			fmt.Println("HARNESS-ERROR c11_idreuse: server did not start")
			return res
		}
		url := fmt.Sprintf("ws://127.0.0.1:%d/cp", port)
		count := func(prefix string) int {
			n := 0
			for _, s := range snapshot() {
				if strings.HasPrefix(s, prefix) {
					n++
				}
			}
			return n
		}
		a := rawDial(url, []string{"ocpp1.6"}, nil)
		if a.err != nil {
			fmt.Println("HARNESS-ERROR c11_idreuse: dial A", a.err)
			return res
		}
		waitCond(2*time.Second, func() bool { return count("new:") == 1 })
		switch variant {
		case "fin":
			_ = a.conn.Close()
		case "closeframe":
			_ = a.conn.WriteControl(websocket.CloseMessage, websocket.FormatCloseMessage(websocket.CloseNormalClosure, ""), time.Now().Add(time.Second))
			readClose(a.conn, 500*time.Millisecond)
			_ = a.conn.Close()
		case "rst":
			if tc, ok := a.conn.UnderlyingConn().(*net.TCPConn); ok {
				_ = tc.SetLinger(0)
			}
			_ = a.conn.Close()
		}
		select {
		case <-g.hit:
		case <-time.After(3 * time.Second):
			close(g.gate)
			fmt.Println("HARNESS-ERROR c11_idreuse: log gate not reached")
			return res
		}
		// the teardown of A is held. B arrives with the same id
		var b dialRes
		var rc *rawClient
		served := false
		tryB := func() bool {
			b = rawDial(url, []string{"ocpp1.6"}, nil)
			if b.err != nil {
				return false
			}
			// refused duplicates see close 1008 at once; a served connection stays open
			rc = newRawClient(b.conn)
			time.Sleep(150 * time.Millisecond)
			if cl, _ := rc.state(); cl != "" {
				_ = b.conn.Close()
				return false
			}
			return true
		}
		served = tryB()
		time.Sleep(5 * time.Millisecond)
		close(g.gate)
		waitCond(2*time.Second, func() bool { return count("disc:") >= 1 })
		if !served {
			// refused while the old connection was being torn down: the client tries again, as a charge point would
			for k := 0; k < 20 && !served; k++ {
				time.Sleep(10 * time.Millisecond)
				served = tryB()
			}
		}
		if !served {
			viol("idreuse/never-admitted", "after the previous connection of cp had ended and its disconnected callback had fired, a new connection with the same id was still refused", map[string]interface{}{"variant": variant, "steps": steps, "callbacks": snapshot()})
			return res
		}
		waitCond(2*time.Second, func() bool { return count("new:") >= 2 })
		time.Sleep(10 * time.Millisecond)
		log := snapshot()
		res.Events = len(log)
		// per id: new, disc, new
		want := []string{"new:cp", "disc:cp", "new:cp"}
		if len(log) < 3 || log[0] != want[0] || log[1] != want[1] || log[2] != want[2] {
			viol("idreuse/callback-order", fmt.Sprintf("callbacks of client id cp: %v, want %v: the next session of an id was announced before the end of the previous one", log, want), map[string]interface{}{"variant": variant, "steps": steps, "callbacks": log})
		}
		// the live session works
		err := srv.SendRequest("cp", core.NewClearCacheRequest())
		if err != nil {
			viol("idreuse/live-client-rejected", fmt.Sprintf("SendRequest to the connected client cp failed: %v (the disconnected notification of the previous connection removed the state of the live one)", err), map[string]interface{}{"variant": variant, "steps": steps, "callbacks": log})
		} else {
			got := waitCond(2*time.Second, func() bool { _, n := rc.state(); return n >= 1 })
			if !got {
				viol("idreuse/live-client-starved", "a request accepted for the connected client cp was never written to its connection", map[string]interface{}{"variant": variant, "steps": steps, "callbacks": log})
			} else {
				rc.mu.Lock()
				msgs := append([]string{}, rc.got...)
				rc.mu.Unlock()
				if fr, e := parseFrame([]byte(msgs[0])); e == nil && fr.Type == 2 {
					_ = b.conn.WriteMessage(websocket.TextMessage, []byte(fmt.Sprintf(`[3,"%s",{"status":"Accepted"}]`, fr.ID)))
					if !waitCond(2*time.Second, func() bool { return count("resp:") >= 1 }) {
						viol("idreuse/reply-lost", "the reply of the live connection did not conclude its request", map[string]interface{}{"variant": variant, "steps": steps, "callbacks": snapshot()})
					}
				}
			}
		}
		_ = b.conn.Close()
		done := make(chan struct{})
		go func() { srv.Stop(); close(done) }()
		select {
		case <-done:
		case <-time.After(5 * time.Second):
		}
		return res
	}
	monitors["c11_idreuse"] = func(seed int64, tier string) interface{} {
		n := 6
		if tier == "thorough" {
			n = 45
		}
		rep := &Report{Monitor: "c11_idreuse", Rule: "rounds in their own process: ocppj.Server on the real ws.Server; the teardown of a connection of id cp is held at its log line (ws.SetLogger gate) while a new connection with the same id arrives (client close by FIN / close frame / reset); afterwards: per id the callbacks alternate new, disconnected, new; a request to the live connection is accepted, written and concluded by its reply; distinct = rounds", Stats: map[string]interface{}{}}
		results := runRounds("c11_idreuse", seed, n, 6)
		seen := map[string]bool{}
		for _, r := range results {
			rep.Evaluations++
			if r.Events >= 3 {
				rep.Distinct++
			}
			for _, v := range r.Violations {
				if !seen[v.Sig] {
					seen[v.Sig] = true
					rep.Violations = append(rep.Violations, v)
				}
			}
		}
		return rep
	}
}
