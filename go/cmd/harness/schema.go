package main

import (
	"encoding/hex"
	"encoding/json"
	"fmt"
	"os"
	"path/filepath"
	"reflect"
	"sort"
	"strings"
)

// Schemas of the payload types as encoding/json and the validator see them, by reflection over the linked packages
// (T1 for C04/C05): json key, omitempty, kind, validate tags; string types with declared constants carry the
// constants of that Go type (registry.json, go/ast) as their enumeration.

type sField struct {
	Name string     `json:"name"`
	Key  string     `json:"key"`
	Omit bool       `json:"omitempty,omitempty"`
	Tags [][2]string `json:"tags,omitempty"`
	Ty   *sTy       `json:"ty"`
}

type sTy struct {
	Kind   string    `json:"kind"` // str int float bool time any ptr slice struct enum unsupported
	Elem   *sTy      `json:"elem,omitempty"`
	Fields []sField  `json:"fields,omitempty"`
	Enum   []string  `json:"enum,omitempty"`
	GoType string    `json:"go,omitempty"`
	Custom bool      `json:"custom_json,omitempty"` // the Go type has its own MarshalJSON / UnmarshalJSON
}

var enumByType map[string][]string

func loadEnumsByType() {
	if enumByType != nil {
		return
	}
	enumByType = map[string][]string{}
	reg := loadRegistry()
	for _, v := range reg.Versions {
		for _, e := range v.Enums {
			if e.Type != "" {
				enumByType[e.Pkg+"."+e.Type] = e.Exported
			}
		}
	}
}

var jsonMarshaler = reflect.TypeOf((*json.Marshaler)(nil)).Elem()

func schemaOf(t reflect.Type, depth int) *sTy {
	loadEnumsByType()
	name := t.PkgPath() + "." + t.Name()
	if t.Name() == "DateTime" && strings.HasSuffix(t.PkgPath(), "/types") {
		return &sTy{Kind: "time", GoType: name}
	}
	custom := t.Name() != "" && (t.Implements(jsonMarshaler) || reflect.PtrTo(t).Implements(jsonMarshaler))
	if depth > 30 {
		return &sTy{Kind: "unsupported", GoType: "too-deep:" + name}
	}
	switch t.Kind() {
	case reflect.String:
		short := name
		if i := strings.LastIndex(t.PkgPath(), "/"); i >= 0 {
			short = t.PkgPath()[i+1:] + "." + t.Name()
		}
		for k, vals := range enumByType {
			if (k == short || strings.HasSuffix(name, "/"+k) || k == name) && len(vals) > 0 {
				vs := append([]string{}, vals...)
				sort.Strings(vs)
				return &sTy{Kind: "enum", Enum: vs, GoType: name, Custom: custom}
			}
		}
		return &sTy{Kind: "str", GoType: nameIf(t), Custom: custom}
	case reflect.Int, reflect.Int8, reflect.Int16, reflect.Int32, reflect.Int64, reflect.Uint, reflect.Uint8, reflect.Uint16, reflect.Uint32, reflect.Uint64:
		return &sTy{Kind: "int", GoType: nameIf(t), Custom: custom}
	case reflect.Float32, reflect.Float64:
		return &sTy{Kind: "float", GoType: nameIf(t), Custom: custom}
	case reflect.Bool:
		return &sTy{Kind: "bool", Custom: custom}
	case reflect.Interface:
		return &sTy{Kind: "any"}
	case reflect.Ptr:
		return &sTy{Kind: "ptr", Elem: schemaOf(t.Elem(), depth+1)}
	case reflect.Slice:
		return &sTy{Kind: "slice", Elem: schemaOf(t.Elem(), depth+1)}
	case reflect.Struct:
		s := &sTy{Kind: "struct", GoType: name, Custom: custom}
		for i := 0; i < t.NumField(); i++ {
			f := t.Field(i)
			if f.PkgPath != "" && !f.Anonymous {
				continue // unexported
			}
			jt := f.Tag.Get("json")
			if jt == "-" {
				s.Fields = append(s.Fields, sField{Name: f.Name, Key: "-", Ty: &sTy{Kind: "unsupported", GoType: "json-dash"}})
				continue
			}
			parts := strings.Split(jt, ",")
			key := parts[0]
			if key == "" {
				key = f.Name
			}
			omit := false
			for _, p := range parts[1:] {
				if p == "omitempty" {
					omit = true
				} else if p != "" {
					key = key + "!" + p // unsupported option (string, ...)
				}
			}
			if f.Anonymous {
				key = "!embedded:" + key
			}
			var tags [][2]string
			for _, tp := range parseTags(f.Tag.Get("validate")) {
				tags = append(tags, [2]string{tp.name, tp.param})
			}
			// struct-level validators registered in the repository (RegisterStructValidation): as synthetic tags
			if f.Name == "CurrentTime" && (t.Name() == "HeartbeatResponse" || t.Name() == "HeartbeatConfirmation") {
				tags = append(tags, [2]string{"svRequired", ""})
			}
			if f.Name == "IdToken" && (t.Name() == "IdToken" || t.Name() == "GroupIdToken") {
				tags = append(tags, [2]string{"svUnless", "type:NoAuthorization"})
			}
			fty := schemaOf(f.Type, depth+1)
			// constants that the committed exceptions list names as not part of the enumeration (known finding under C18)
			{
				b := fty
				for b.Kind == "ptr" || b.Kind == "slice" {
					b = b.Elem
				}
				if b.Kind == "enum" {
					for _, tg := range tags {
						if ex := enumExceptions()[tg[0]]; len(ex) > 0 {
							var keep []string
							for _, v := range b.Enum {
								if !contains(ex, v) {
									keep = append(keep, v)
								}
							}
							cp := *b
							cp.Enum = keep
							*b = cp
						}
					}
				}
			}
			// a string field validated by a registered enumeration whose Go type declares no constants of its own: take the
			// values the registry lists for that tag
			base := fty
			for base.Kind == "ptr" || base.Kind == "slice" {
				base = base.Elem
			}
			if base.Kind == "str" {
				for _, tg := range tags {
					if vals, ok := enumByTag[tg[0]]; ok && len(vals) > 0 {
						vs := append([]string{}, vals...)
						sort.Strings(vs)
						base.Kind, base.Enum = "enum", vs
					}
				}
			}
			s.Fields = append(s.Fields, sField{Name: f.Name, Key: key, Omit: omit, Tags: tags, Ty: fty})
		}
		return s
	}
	return &sTy{Kind: "unsupported", GoType: t.Kind().String() + ":" + name}
}

var enumExc map[string][]string

func enumExceptions() map[string][]string {
	if enumExc != nil {
		return enumExc
	}
	enumExc = map[string][]string{}
	var raw map[string][][2]string
	if b, err := os.ReadFile(filepath.Join(verifRoot(), "expected", "enum_exceptions.json")); err == nil {
		_ = json.Unmarshal(b, &raw)
	}
	for _, l := range raw {
		for _, e := range l {
			enumExc[e[0]] = append(enumExc[e[0]], e[1])
		}
	}
	return enumExc
}

func nameIf(t reflect.Type) string {
	if t.PkgPath() == "" {
		return ""
	}
	return t.PkgPath() + "." + t.Name()
}

func hx(s string) string { return hex.EncodeToString([]byte(s)) }

// tokens: s i f b t a | e<n> v.. | P ty | L ty | S<n> (K<hexkey> <0|1> T<m> (<name>=<hexparam>)* ty)*
func (t *sTy) tokens(sb *strings.Builder) {
	switch t.Kind {
	case "str":
		sb.WriteString(" s")
	case "int":
		sb.WriteString(" i")
	case "float":
		sb.WriteString(" f")
	case "bool":
		sb.WriteString(" b")
	case "time":
		sb.WriteString(" t")
	case "any":
		sb.WriteString(" a")
	case "enum":
		fmt.Fprintf(sb, " e%d", len(t.Enum))
		for _, v := range t.Enum {
			sb.WriteString(" V" + hx(v))
		}
	case "ptr":
		sb.WriteString(" P")
		t.Elem.tokens(sb)
	case "slice":
		sb.WriteString(" L")
		t.Elem.tokens(sb)
	case "struct":
		fmt.Fprintf(sb, " S%d", len(t.Fields))
		for _, f := range t.Fields {
			o := 0
			if f.Omit {
				o = 1
			}
			fmt.Fprintf(sb, " K%s %d T%d", hx(f.Key), o, len(f.Tags))
			for _, tg := range f.Tags {
				fmt.Fprintf(sb, " %s=%s", tg[0], hx(tg[1]))
			}
			f.Ty.tokens(sb)
		}
	default:
		sb.WriteString(" U")
	}
}

func (t *sTy) walk(f func(*sTy)) {
	f(t)
	if t.Elem != nil {
		t.Elem.walk(f)
	}
	for _, fl := range t.Fields {
		fl.Ty.walk(f)
	}
}

type schemaEntry struct {
	Ver, Feature, Dir string
	Ty               *sTy
}

func allSchemas() []schemaEntry {
	var out []schemaEntry
	for _, ver := range []string{"R16", "R201"} {
		for _, f := range allFeatures(ver) {
			feat := featureOf(ver, f)
			out = append(out, schemaEntry{ver, f, "req", schemaOf(feat.GetRequestType(), 0)})
			out = append(out, schemaEntry{ver, f, "resp", schemaOf(feat.GetResponseType(), 0)})
		}
	}
	return out
}

func init() {
	monitors["schema_survey"] = func(seed int64, tier string) interface{} {
		kinds := map[string]int{}
		tags := map[string]int{}
		var unsupported, custom []string
		maxTok := 0
		for _, e := range allSchemas() {
			e.Ty.walk(func(t *sTy) {
				kinds[t.Kind]++
				if t.Kind == "unsupported" {
					unsupported = append(unsupported, e.Ver+":"+e.Feature+":"+e.Dir+":"+t.GoType)
				}
				if t.Custom {
					custom = append(custom, t.GoType)
				}
				for _, f := range t.Fields {
					for _, tg := range f.Tags {
						tags[tg[0]]++
					}
					if strings.Contains(f.Key, "!") {
						unsupported = append(unsupported, e.Ver+":"+e.Feature+":key:"+f.Key)
					}
				}
			})
			var sb strings.Builder
			e.Ty.tokens(&sb)
			if len(strings.Fields(sb.String())) > maxTok {
				maxTok = len(strings.Fields(sb.String()))
			}
		}
		sort.Strings(custom)
		return map[string]interface{}{"kinds": kinds, "tags": tags, "unsupported": unsupported, "custom": uniq(custom), "max_tokens": maxTok}
	}
}

func uniq(s []string) []string {
	var o []string
	for i, x := range s {
		if i == 0 || x != s[i-1] {
			o = append(o, x)
		}
	}
	return o
}

func leanStr(s string) string {
	var sb strings.Builder
	sb.WriteByte('"')
	for _, r := range s {
		switch {
		case r == '"':
			sb.WriteString("\\\"")
		case r == '\\':
			sb.WriteString("\\\\")
		case r < 32:
			fmt.Fprintf(&sb, "\\x%02x", r)
		default:
			sb.WriteRune(r)
		}
	}
	sb.WriteByte('"')
	return sb.String()
}

func (t *sTy) lean(sb *strings.Builder) {
	switch t.Kind {
	case "str":
		sb.WriteString(".str")
	case "int":
		sb.WriteString(".int")
	case "float":
		sb.WriteString(".float")
	case "bool":
		sb.WriteString(".bool")
	case "time":
		sb.WriteString(".time")
	case "any":
		sb.WriteString(".any")
	case "enum":
		sb.WriteString("(.enum [")
		for i, v := range t.Enum {
			if i > 0 {
				sb.WriteString(", ")
			}
			sb.WriteString(leanStr(v))
		}
		sb.WriteString("])")
	case "ptr":
		sb.WriteString("(.ptr ")
		t.Elem.lean(sb)
		sb.WriteString(")")
	case "slice":
		sb.WriteString("(.slice ")
		t.Elem.lean(sb)
		sb.WriteString(")")
	case "struct":
		sb.WriteString("(.struct ")
		for _, f := range t.Fields {
			fmt.Fprintf(sb, "(.cons %s %v [", leanStr(f.Key), f.Omit)
			for i, tg := range f.Tags {
				if i > 0 {
					sb.WriteString(", ")
				}
				n := atoiOr(tg[1], 0)
				switch tg[0] {
				case "required", "omitempty", "dive", "unique", "svRequired":
					sb.WriteString("." + tg[0])
				case "uri", "url":
					sb.WriteString(".uri")
				case "max", "min", "gte", "gt", "lte", "lt":
					fmt.Fprintf(sb, ".%s (%d)", tg[0], n)
				case "svUnless":
					p := strings.SplitN(tg[1], ":", 2)
					fmt.Fprintf(sb, ".svUnless %s %s", leanStr(p[0]), leanStr(p[len(p)-1]))
				default:
					fmt.Fprintf(sb, ".enumTag %s", leanStr(tg[0]))
				}
			}
			sb.WriteString("] ")
			f.Ty.lean(sb)
			sb.WriteString(" ")
		}
		sb.WriteString(".nil")
		for range t.Fields {
			sb.WriteString(")")
		}
		sb.WriteString(")")
	default:
		sb.WriteString(".any")
	}
}

func init() {
	monitors["schemas_lean"] = func(seed int64, tier string) interface{} {
		var sb strings.Builder
		sb.WriteString("import OcppModel.Schema\n\n/-! GENERATED by harness `monitor schemas_lean` from /repo (reflection over the linked payload types). Do not edit. -/\nnamespace Gen.Schemas\nopen Ocpp.Sch\n\n")
		es := allSchemas()
		for i, e := range es {
			fmt.Fprintf(&sb, "def s%d : Ty := ", i)
			e.Ty.lean(&sb)
			sb.WriteString("\n")
		}
		sb.WriteString("\ndef all : List (String × Ty) := [\n")
		for i, e := range es {
			fmt.Fprintf(&sb, "  (%s, s%d)", leanStr(e.Ver+"/"+e.Feature+"/"+e.Dir), i)
			if i+1 < len(es) {
				sb.WriteString(",")
			}
			sb.WriteString("\n")
		}
		sb.WriteString("]\n\nend Gen.Schemas\n")
		return map[string]string{"lean": sb.String()}
	}
}
